// drv_thetacodec.cpp — correspondence harness for the compact Theta sketch images (C09/C10/C11 codec family).
#include "common.hpp"
#define private public
#define protected public
#include "theta_sketch.hpp"
#undef private
#undef protected
using namespace datasketches;
using vh::I; using vh::Line; using vh::Out;

static compact_theta_sketch make(const Line& t) {
  bool empty = t.at(1) != 0, ordered = t.at(2) != 0;
  uint16_t sh = (uint16_t)t.at(3); uint64_t theta = (uint64_t)t.at(4);
  std::vector<uint64_t> entries;
  for (size_t i = 5; i < t.size(); ++i) entries.push_back((uint64_t)t[i]);
  return compact_theta_sketch(empty, ordered, sh, theta, std::move(entries));
}

// the stored entries: the iterator of the owning sketch skips zero entries (never present in a valid image, but a corrupted compressed
// image with a zero first delta is accepted and holds one), the wrapped view lists them; the model lists what is stored
static void list_entries(const compact_theta_sketch& s, std::vector<uint64_t>& es) { for (uint64_t e : s.entries_) es.push_back(e); }
static void list_entries(const wrapped_compact_theta_sketch& s, std::vector<uint64_t>& es) { for (auto e : s) es.push_back(e); }
template<typename S> static void show(const S& s, Out& o) {
  o.R(s.is_empty()); o.R(s.is_ordered()); o.R(s.get_seed_hash()); o.R((I)s.get_theta64());
  std::vector<uint64_t> es; list_entries(s, es);
  o.R((I)es.size());
  for (auto e : es) o.R((I)e);
}

// a seed whose hash equals the requested one is not available in general: the harness checks the seed hash
// by patching: the expected seed hash is that of DEFAULT_SEED unless the op says otherwise
static void handler(const Line& t, Out& o) {
  switch ((int)t.at(0)) {
  case 1: { // serialize(): bytes and stream must agree; R = bytes
    compact_theta_sketch s = make(t);
    auto bytes = s.serialize();
    std::stringstream ss; s.serialize(ss); std::string str = ss.str();
    if (str.size() != bytes.size() || memcmp(str.data(), bytes.data(), str.size()) != 0) { o.R(-4); break; }
    if (bytes.size() != s.get_serialized_size_bytes(false)) { o.R(-5); break; }
    for (uint8_t b : bytes) o.R(b);
    break; }
  case 2: { // serialize_compressed()
    compact_theta_sketch s = make(t);
    auto bytes = s.serialize_compressed();
    std::stringstream ss; s.serialize_compressed(ss); std::string str = ss.str();
    if (str.size() != bytes.size() || memcmp(str.data(), bytes.data(), str.size()) != 0) { o.R(-4); break; }
    if (bytes.size() != s.get_serialized_size_bytes(true)) { o.R(-5); break; }
    for (uint8_t b : bytes) o.R(b);
    break; }
  case 3: { // decode a byte buffer (exact-size heap copy): deserialize and wrap must agree
    size_t n = t.size() - 2;
    std::unique_ptr<uint8_t[]> buf(new uint8_t[n ? n : 1]);
    for (size_t i = 0; i < n; ++i) buf[i] = (uint8_t)t[i + 2];
    // the expected seed hash is given; DEFAULT_SEED has hash 0x93cc. Other hashes are exercised as mismatches.
    if ((uint16_t)t.at(1) != compute_seed_hash(DEFAULT_SEED)) { o.R(-6); break; }
    bool ok1 = true, ok2 = true;
    Out o1, o2;
    try { auto s = compact_theta_sketch::deserialize(buf.get(), n); o1.R(1); show(s, o1); } catch (const std::exception&) { ok1 = false; }
    try { auto w = wrapped_compact_theta_sketch::wrap(buf.get(), n); o2.R(1); show(w, o2); } catch (const std::exception&) { ok2 = false; }
    if (ok1 != ok2) { o.R(-7); break; }
    if (!ok1) { o.R(-1); break; }
    // the wrapped view reports the order flag as stored, the owning sketch normalises it for <= 1 entries:
    // compare everything else
    { Line a = o1.res, b = o2.res; if (a.size() > 2) a[2] = 0; if (b.size() > 2) b[2] = 0;
      if (a != b) { o.R(-8); break; } }
    o.res = o1.res;
    break; }
  case 4: { // decode from a stream holding exactly these bytes
    size_t n = t.size() - 2;
    std::string str; for (size_t i = 0; i < n; ++i) str.push_back((char)(uint8_t)t[i + 2]);
    if ((uint16_t)t.at(1) != compute_seed_hash(DEFAULT_SEED)) { o.R(-6); break; }
    std::istringstream is(str);
    auto s = compact_theta_sketch::deserialize(is);
    long pos = is.good() ? (long)is.tellg() : -1;
    o.R(1); o.R(pos); show(s, o);
    break; }
  default: o.R(-2);
  }
}

int main(int argc, char** argv) { return vh::run_main(argc, argv, [] {}, handler); }
