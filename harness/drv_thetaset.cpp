// drv_thetaset.cpp — correspondence harness for the Theta set operations (C02): theta_union, theta_intersection,
// theta_a_not_b, theta_jaccard_similarity, bounds_on_ratios_in_theta_sketched_sets.
// Only the public API is used. Inputs are update sketches built through the builder and presented to the set
// operations in every physical form the API offers (see present()).
#include "common.hpp"
#include <algorithm>
#include <sstream>
#include "theta_sketch.hpp"
#include "theta_union.hpp"
#include "theta_intersection.hpp"
#include "theta_a_not_b.hpp"
#include "theta_jaccard_similarity.hpp"
#include "bounds_on_ratios_in_theta_sketched_sets.hpp"
using namespace datasketches;
using vh::I; using vh::Line; using vh::Out;

struct Reg {
  uint64_t seed = 0;
  std::unique_ptr<update_theta_sketch> u;
  std::unique_ptr<compact_theta_sketch> c;
  std::unique_ptr<theta_union> un;
  std::unique_ptr<theta_intersection> in;
};
static std::map<long, Reg> regs;

static Reg& get(I r) {
  auto it = regs.find((long)r);
  if (it == regs.end()) throw std::invalid_argument("no such register");
  return it->second;
}
static Reg& get_sketch(I r) {
  Reg& g = get(r);
  if (!g.u && !g.c) throw std::invalid_argument("not a sketch");
  return g;
}
static update_theta_sketch& getu(I r) {
  Reg& g = get(r);
  if (!g.u) throw std::invalid_argument("not an update sketch");
  return *g.u;
}

// theta64, is_empty, is_ordered, num_retained, sorted entries
template<typename Sk> static void summary(const Sk& s, Out& o) {
  o.R((I)s.get_theta64()); o.R(s.is_empty() ? 1 : 0); o.R(s.is_ordered() ? 1 : 0); o.R((I)s.get_num_retained());
  std::vector<uint64_t> v;
  for (auto it = s.begin(); it != s.end(); ++it) v.push_back(*it);
  for (uint64_t x : v) o.F((I)x);             // iteration order: only the oracle reads it
  std::sort(v.begin(), v.end());
  for (uint64_t x : v) o.R((I)x);
}
template<typename Sk> static void short_summary(const Sk& s, Out& o) {
  o.R((I)s.get_theta64()); o.R(s.is_empty() ? 1 : 0); o.R(s.is_ordered() ? 1 : 0); o.R((I)s.get_num_retained());
}

static compact_theta_sketch compact_of(const Reg& g, bool ordered) {
  if (g.u) return g.u->compact(ordered);
  return compact_theta_sketch(*g.c, ordered);
}

// present the sketch in register g in the requested physical form and hand it to f
//   0 as stored   1 compact(ordered)   2 compact(unordered)
//   3 wrap(serialize(compact unordered))        4 wrap(serialize_compressed(compact ordered))
//   5 deserialize(serialize(compact unordered)) 6 deserialize(serialize_compressed(compact ordered))
//   7 wrap(serialize(compact ordered))
template<typename F> static void present(const Reg& g, I form, F& f) {
  switch ((int)form) {
  case 0: if (g.u) f(*g.u); else f(*g.c); break;
  case 1: { compact_theta_sketch c = compact_of(g, true); f(c); break; }
  case 2: { compact_theta_sketch c = compact_of(g, false); f(c); break; }
  case 3: { compact_theta_sketch c = compact_of(g, false); auto bytes = c.serialize();
            auto w = wrapped_compact_theta_sketch::wrap(bytes.data(), bytes.size(), g.seed); f(w); break; }
  case 4: { compact_theta_sketch c = compact_of(g, true); auto bytes = c.serialize_compressed();
            auto w = wrapped_compact_theta_sketch::wrap(bytes.data(), bytes.size(), g.seed); f(w); break; }
  case 5: { compact_theta_sketch c = compact_of(g, false); auto bytes = c.serialize();
            compact_theta_sketch d = compact_theta_sketch::deserialize(bytes.data(), bytes.size(), g.seed); f(d); break; }
  case 6: { compact_theta_sketch c = compact_of(g, true); auto bytes = c.serialize_compressed();
            compact_theta_sketch d = compact_theta_sketch::deserialize(bytes.data(), bytes.size(), g.seed); f(d); break; }
  case 7: { compact_theta_sketch c = compact_of(g, true); auto bytes = c.serialize();
            auto w = wrapped_compact_theta_sketch::wrap(bytes.data(), bytes.size(), g.seed); f(w); break; }
  default: throw std::invalid_argument("unknown form");
  }
}

// two-sketch operations: present a, then b, then call op(a, b)
template<typename Op, typename SA> struct Inner {
  Op& op; const SA& a;
  template<typename SB> void operator()(const SB& b) { op(a, b); }
};
template<typename Op> struct Outer {
  Op& op; const Reg& gb; I fb;
  template<typename SA> void operator()(const SA& a) { Inner<Op, SA> in{op, a}; present(gb, fb, in); }
};
template<typename Op> static void present2(const Reg& ga, I fa, const Reg& gb, I fb, Op& op) {
  Outer<Op> out{op, gb, fb};
  present(ga, fa, out);
}

struct Query { Out& o; template<typename Sk> void operator()(const Sk& s) { summary(s, o); } };
struct UnionUpd { theta_union& u; template<typename Sk> void operator()(const Sk& s) { u.update(s); } };
struct InterUpd { theta_intersection& x; template<typename Sk> void operator()(const Sk& s) { x.update(s); } };

static void store(const Line& t, size_t at, const compact_theta_sketch& res, uint64_t seed) {
  if (t.size() > at) {
    Reg g; g.seed = seed; g.c.reset(new compact_theta_sketch(res));
    regs[(long)t[at]] = std::move(g);
  }
}

struct ANotB {
  Out& o; uint64_t seed; bool ordered; const Line& t;
  template<typename SA, typename SB> void operator()(const SA& a, const SB& b) {
    theta_a_not_b anb(seed);
    compact_theta_sketch res = anb.compute(a, b, ordered);
    summary(res, o);
    store(t, 7, res, seed);
  }
};

static bool f_is_one(uint64_t theta) { return theta >= (1ULL << 63) - 512; }
static void jval(Out& o, double d) { o.R(1); o.R(vh::dbits(d)); }
static void jtriple(Out& o, bool exact, double lb, double est, double ub) {
  jval(o, est);
  if (exact) { o.R(1); jval(o, lb); jval(o, ub); } else { o.R(0); }
  o.Fd(lb); o.Fd(est); o.Fd(ub);
}

struct Jaccard {
  Out& o; uint64_t seed;
  template<typename SA, typename SB> void operator()(const SA& a, const SB& b) {
    auto j = theta_jaccard_similarity::jaccard(a, b, seed);
    jtriple(o, f_is_one(a.get_theta64()) && f_is_one(b.get_theta64()), j[0], j[1], j[2]);
  }
};
struct ExactlyEqual {
  Out& o; uint64_t seed;
  template<typename SA, typename SB> void operator()(const SA& a, const SB& b) {
    o.R(theta_jaccard_similarity::exactly_equal(a, b, seed) ? 1 : 0);
  }
};
struct Ratio {
  Out& o;
  template<typename SA, typename SB> void operator()(const SA& a, const SB& b) {
    typedef bounds_on_ratios_in_theta_sketched_sets<trivial_extract_key> B;
    double lb = B::lower_bound_for_b_over_a(a, b);
    double est = B::estimate_of_b_over_a(a, b);
    double ub = B::upper_bound_for_b_over_a(a, b);
    jtriple(o, f_is_one(b.get_theta64()), lb, est, ub);
  }
};


// ---- wrapped_compact_theta_sketch view (family thetawrap): getters and the lazy iterator ----
// R = 1, is_empty, is_ordered, seed_hash, theta64, num_retained, entries in ITERATION order. The image lives in an exact-size
// heap buffer so that any read past it is caught by ASan. The entries are collected twice: pre-increment with operator*, and
// post-increment (a copy of the iterator state) with operator->; a disagreement is reported as R -9.
static void dump_wrapped(const uint8_t* bytes, size_t n, uint64_t seed, Out& o) {
  std::unique_ptr<uint8_t[]> buf(new uint8_t[n ? n : 1]);
  for (size_t i = 0; i < n; ++i) buf[i] = bytes[i];
  auto w = wrapped_compact_theta_sketch::wrap(buf.get(), n, seed);
  std::vector<uint64_t> v1, v2;
  for (auto it = w.begin(); it != w.end(); ++it) v1.push_back(*it);
  { auto it = w.begin(); while (!(it == w.end())) { auto cp = it++; v2.push_back(*cp.operator->()); } }
  if (v1 != v2) { o.R(-9); return; }
  o.R(1); o.R(w.is_empty() ? 1 : 0); o.R(w.is_ordered() ? 1 : 0); o.R((I)w.get_seed_hash()); o.R((I)w.get_theta64());
  o.R((I)w.get_num_retained());
  for (uint64_t x : v1) o.R((I)x);
  o.F(w.is_estimation_mode() ? 1 : 0); o.Fd(w.get_estimate());
}

static void builder_args(const Line& t) {
  I lgk = t.at(2), rf = t.at(3), pb = t.at(4);
  if (lgk < 0 || lgk > 255 || rf < 0 || rf > 3 || pb < 0) throw std::invalid_argument("bad builder argument");
}

static void handler(const Line& t, Out& o) {
  switch ((int)t.at(0)) {
  case 1: { // new r lg_k rf p(float bits) seed
    builder_args(t);
    update_theta_sketch::builder b;
    b.set_lg_k((uint8_t)t.at(2));
    b.set_resize_factor((theta_constants::resize_factor)(int)t.at(3));
    b.set_p(vh::bitsf(t.at(4)));
    b.set_seed((uint64_t)t.at(5));
    Reg g; g.seed = (uint64_t)t.at(5); g.u.reset(new update_theta_sketch(b.build()));
    short_summary(*g.u, o);
    regs[(long)t.at(1)] = std::move(g);
    break; }
  case 2: { // update r kind args   (same overload table as drv_theta.cpp)
    update_theta_sketch& s = getu(t.at(1));
    int kind = (int)t.at(2);
    I v = t.size() > 3 ? t[3] : 0;
    switch (kind) {
      case 0: s.update((uint64_t)v); break;
      case 1: s.update((int64_t)v); break;
      case 2: s.update((uint32_t)v); break;
      case 3: s.update((int32_t)v); break;
      case 4: s.update((uint16_t)v); break;
      case 5: s.update((int16_t)v); break;
      case 6: s.update((uint8_t)v); break;
      case 7: s.update((int8_t)v); break;
      case 8: s.update(vh::bitsd(v)); break;
      case 9: s.update(vh::bitsf(v)); break;
      case 10: s.update(vh::bytes_of(t, 3)); break;
      default: { std::string bytes = vh::bytes_of(t, 3); s.update(static_cast<const void*>(bytes.data()), bytes.size()); break; }
    }
    short_summary(s, o); break; }
  case 8: { // bulk update r start count : update((int64) start .. start+count-1)
    update_theta_sketch& s = getu(t.at(1));
    uint64_t start = (uint64_t)t.at(2); I count = t.at(3);
    for (I i = 0; i < count; ++i) s.update((int64_t)(start + (uint64_t)i));
    short_summary(s, o); break; }
  case 3: { update_theta_sketch& s = getu(t.at(1)); s.trim(); short_summary(s, o); break; }
  case 4: { update_theta_sketch& s = getu(t.at(1)); s.reset(); short_summary(s, o); break; }
  case 5: { // r2 := compact(r, ordered)
    Reg& src = get_sketch(t.at(1));
    Reg g; g.seed = src.seed; g.c.reset(new compact_theta_sketch(compact_of(src, t.at(3) != 0)));
    summary(*g.c, o);
    regs[(long)t.at(2)] = std::move(g);
    break; }
  case 7: { Query q{o}; present(get_sketch(t.at(1)), t.at(2), q); break; }
  case 10: { // new union r lg_k rf p seed
    builder_args(t);
    theta_union::builder b;
    b.set_lg_k((uint8_t)t.at(2));
    b.set_resize_factor((theta_constants::resize_factor)(int)t.at(3));
    b.set_p(vh::bitsf(t.at(4)));
    b.set_seed((uint64_t)t.at(5));
    Reg g; g.seed = (uint64_t)t.at(5); g.un.reset(new theta_union(b.build()));
    regs[(long)t.at(1)] = std::move(g);
    o.R(1); break; }
  case 11: { // union r update with (a, form)
    Reg& g = get(t.at(1)); if (!g.un) throw std::invalid_argument("not a union");
    UnionUpd f{*g.un}; present(get_sketch(t.at(2)), t.at(3), f);
    o.R(1); break; }
  case 12: { // union r get_result(ordered) [-> dst]
    Reg& g = get(t.at(1)); if (!g.un) throw std::invalid_argument("not a union");
    compact_theta_sketch res = g.un->get_result(t.at(2) != 0);
    summary(res, o);
    store(t, 3, res, g.seed);
    break; }
  case 13: { Reg& g = get(t.at(1)); if (!g.un) throw std::invalid_argument("not a union"); g.un->reset(); o.R(1); break; }
  case 14: { // union object as a value: dst src kind (0 copy-construct, 1 copy-assign, 2 move-construct, 3 move-assign)
    Reg& src = get(t.at(2)); if (!src.un) throw std::invalid_argument("not a union");
    int kind = (int)t.at(3); long d = (long)t.at(1), sr = (long)t.at(2);
    auto it = regs.find(d); bool dst_ok = it != regs.end() && it->second.un;
    if ((kind == 1 || kind == 3) && !dst_ok) throw std::invalid_argument("assignment needs a union on the left");
    if ((kind == 2 || kind == 3) && d == sr) throw std::invalid_argument("move onto itself");
    if (kind == 0) { Reg g; g.seed = src.seed; g.un.reset(new theta_union(*src.un)); regs[d] = std::move(g); }
    else if (kind == 1) { *it->second.un = *src.un; it->second.seed = src.seed; }
    else if (kind == 2) { Reg g; g.seed = src.seed; g.un.reset(new theta_union(std::move(*src.un))); regs.erase(sr); regs[d] = std::move(g); }
    else { *it->second.un = std::move(*src.un); it->second.seed = src.seed; regs.erase(sr); }
    o.R(1); break; }
  case 15: { // union r re-initialised by move-assignment from a fresh object: u = builder.build()
    Reg& g = get(t.at(1)); if (!g.un) throw std::invalid_argument("not a union");
    builder_args(t);
    theta_union::builder b;
    b.set_lg_k((uint8_t)t.at(2));
    b.set_resize_factor((theta_constants::resize_factor)(int)t.at(3));
    b.set_p(vh::bitsf(t.at(4)));
    b.set_seed((uint64_t)t.at(5));
    *g.un = b.build();
    g.seed = (uint64_t)t.at(5);
    o.R(1); break; }
  case 24: { // intersection object as a value: dst src kind
    Reg& src = get(t.at(2)); if (!src.in) throw std::invalid_argument("not an intersection");
    int kind = (int)t.at(3); long d = (long)t.at(1), sr = (long)t.at(2);
    auto it = regs.find(d); bool dst_ok = it != regs.end() && it->second.in;
    if ((kind == 1 || kind == 3) && !dst_ok) throw std::invalid_argument("assignment needs an intersection on the left");
    if ((kind == 2 || kind == 3) && d == sr) throw std::invalid_argument("move onto itself");
    if (kind == 0) { Reg g; g.seed = src.seed; g.in.reset(new theta_intersection(*src.in)); regs[d] = std::move(g); }
    else if (kind == 1) { *it->second.in = *src.in; it->second.seed = src.seed; }
    else if (kind == 2) { Reg g; g.seed = src.seed; g.in.reset(new theta_intersection(std::move(*src.in))); regs.erase(sr); regs[d] = std::move(g); }
    else { *it->second.in = std::move(*src.in); it->second.seed = src.seed; regs.erase(sr); }
    o.R(1); break; }
  case 25: { // intersection r re-initialised: in = theta_intersection(seed)
    Reg& g = get(t.at(1)); if (!g.in) throw std::invalid_argument("not an intersection");
    *g.in = theta_intersection((uint64_t)t.at(2));
    g.seed = (uint64_t)t.at(2);
    o.R(1); break; }
  case 20: { // new intersection r seed
    Reg g; g.seed = (uint64_t)t.at(2); g.in.reset(new theta_intersection((uint64_t)t.at(2)));
    regs[(long)t.at(1)] = std::move(g);
    o.R(1); break; }
  case 21: {
    Reg& g = get(t.at(1)); if (!g.in) throw std::invalid_argument("not an intersection");
    InterUpd f{*g.in}; present(get_sketch(t.at(2)), t.at(3), f);
    o.R(1); break; }
  case 22: {
    Reg& g = get(t.at(1)); if (!g.in) throw std::invalid_argument("not an intersection");
    compact_theta_sketch res = g.in->get_result(t.at(2) != 0);
    summary(res, o);
    store(t, 3, res, g.seed);
    break; }
  case 23: { Reg& g = get(t.at(1)); if (!g.in) throw std::invalid_argument("not an intersection"); o.R(g.in->has_result() ? 1 : 0); break; }
  case 30: { // a_not_b seed a fa b fb ordered [-> dst]
    ANotB f{o, (uint64_t)t.at(1), t.at(6) != 0, t};
    present2(get_sketch(t.at(2)), t.at(3), get_sketch(t.at(4)), t.at(5), f);
    break; }
  case 40: { Jaccard f{o, (uint64_t)t.at(1)}; present2(get_sketch(t.at(2)), t.at(3), get_sketch(t.at(4)), t.at(5), f); break; }
  case 41: { ExactlyEqual f{o, (uint64_t)t.at(1)}; present2(get_sketch(t.at(2)), t.at(3), get_sketch(t.at(4)), t.at(5), f); break; }
  case 42: { Ratio f{o}; present2(get_sketch(t.at(1)), t.at(2), get_sketch(t.at(3)), t.at(4), f); break; }
  case 50: { // compressed seed byte* : deserialize the given (v3) image, serialize / serialize_compressed, wrap, dump
    std::vector<uint8_t> img; for (size_t i = 3; i < t.size(); ++i) img.push_back((uint8_t)t[i]);
    compact_theta_sketch c = compact_theta_sketch::deserialize(img.data(), img.size(), (uint64_t)t.at(2));
    auto bytes = t.at(1) != 0 ? c.serialize_compressed() : c.serialize();
    dump_wrapped(bytes.data(), bytes.size(), (uint64_t)t.at(2), o);
    break; }
  case 51: { // seed byte* : wrap the given image, dump
    std::vector<uint8_t> img; for (size_t i = 2; i < t.size(); ++i) img.push_back((uint8_t)t[i]);
    dump_wrapped(img.data(), img.size(), (uint64_t)t.at(1), o);
    break; }
  default: o.R(-2);
  }
}

int main(int argc, char** argv) {
  return vh::run_main(argc, argv, [] { regs.clear(); }, handler);
}
