// drv_hll.cpp — correspondence harness for hll_sketch (C03).
// Feeds real items through the public update() overloads and raw coupons through the private
// coupon_update(); observes only logical content (sorted coupons / register values through the
// array iterator, cur_min, num_at_cur_min, exact kxq integers, sorted aux pairs) and, in F, the doubles.
#include "common.hpp"
#include <cmath>
#include <iomanip>
#include <sstream>
#include <algorithm>
#include <type_traits>
#include <iterator>
#include <exception>
#include <random>
#include <chrono>
#include <thread>
#include <cstdlib>
#define private public
#define protected public
#include "hll.hpp"
#undef private
#undef protected
using namespace datasketches;
using vh::I; using vh::Line; using vh::Out;
typedef hll_sketch sk_t;
typedef std::allocator<uint8_t> A;
static std::map<long, std::unique_ptr<sk_t>> regs;

static sk_t& get(I r) {
  auto it = regs.find((long)r);
  if (it == regs.end()) throw std::invalid_argument("no such register");
  return *it->second;
}

static target_hll_type ty_of(I t) {
  switch ((int)t) { case 0: return HLL_4; case 1: return HLL_6; case 2: return HLL_8; }
  throw std::invalid_argument("bad type");
}

// exact integer v * 2^e of a double that is claimed to be a multiple of 2^-e below 2^53; -7 if it is not
static I exact_scaled(double v, int e) {
  double x = std::ldexp(v, e);
  if (!(x >= 0) || x > 9007199254740992.0 || x != std::floor(x)) return -7;
  return (I)(uint64_t)x;
}

static void query(sk_t& s, Out& o) {
  o.R(s.get_lg_config_k());
  o.R((int)s.get_target_type());
  hll_mode m = s.get_current_mode();
  o.R((int)m);
  o.R(s.is_empty() ? 1 : 0);
  o.R(s.is_out_of_order_flag() ? 1 : 0);
  if (m == LIST || m == SET) {
    const CouponList<A>* cl = static_cast<const CouponList<A>*>(s.sketch_impl);
    o.R(cl->getCouponCount());
    std::vector<uint32_t> v;
    for (auto it = cl->begin(false); it != cl->end(); ++it) v.push_back(*it);
    std::sort(v.begin(), v.end());
    v.erase(std::unique(v.begin(), v.end()), v.end());
    for (uint32_t c : v) o.R(c);
  } else {
    const HllArray<A>* h = static_cast<const HllArray<A>*>(s.sketch_impl);
    o.R(h->getCurMin());
    o.R(h->getNumAtCurMin());
    o.R(exact_scaled(h->getKxQ0(), 31));
    o.R(exact_scaled(h->getKxQ1(), 63));
    o.R(h->isStartFullSize() ? 1 : 0);
    std::vector<uint32_t> ap;
    const AuxHashMap<A>* aux = h->getAuxHashMap();
    if (aux != nullptr) {
      for (auto it = aux->begin(false); it != aux->end(); ++it) ap.push_back(*it);
      std::sort(ap.begin(), ap.end());
      ap.erase(std::unique(ap.begin(), ap.end()), ap.end());
    }
    o.R((I)ap.size());
    for (uint32_t c : ap) o.R(c);
    const uint32_t k = 1u << s.get_lg_config_k();
    std::vector<uint32_t> vals(k, 0);
    uint32_t n = 0;
    for (auto it = h->begin(true); it != h->end(); ++it) {
      uint32_t p = *it;
      uint32_t slot = p & ((1u << 26) - 1);
      if (slot < k) vals[slot] = p >> 26;
      ++n;
    }
    if (n != k) throw std::logic_error("iterator did not visit k slots");
    for (uint32_t v : vals) o.R(v);
  }
  o.Fd(s.get_estimate());
  o.Fd(s.get_composite_estimate());
  for (uint8_t d = 1; d <= 3; ++d) o.Fd(s.get_lower_bound(d));
  for (uint8_t d = 1; d <= 3; ++d) o.Fd(s.get_upper_bound(d));
}

static void update_item(sk_t& s, int kind, const Line& t, size_t from) {
  I a0 = t.size() > from ? t[from] : 0;
  switch (kind) {
  case 0: s.update((uint64_t)a0); break;
  case 1: s.update((int64_t)a0); break;
  case 2: s.update(vh::bytes_of(t, from)); break;
  case 3: s.update(vh::bitsd(a0)); break;
  case 4: s.update(vh::bitsf(a0)); break;
  case 5: s.update((int32_t)(uint32_t)a0); break;
  case 6: s.update((uint32_t)a0); break;
  case 7: s.update((int16_t)(uint16_t)a0); break;
  case 8: s.update((uint16_t)a0); break;
  case 9: s.update((int8_t)(uint8_t)a0); break;
  case 10: s.update((uint8_t)a0); break;
  case 11: { std::string b = vh::bytes_of(t, from); s.update((const void*)b.data(), b.size()); break; }
  default: break;
  }
}

static void handler(const Line& t, Out& o) {
  switch ((int)t.at(0)) {
  case 1: { // new r lgk ty full
    int ty = (int)t.at(3);
    if (ty < 0 || ty > 2) { o.R(-2); break; }
    std::unique_ptr<sk_t> p(new sk_t((uint8_t)t.at(2), ty_of(t.at(3)), t.at(4) != 0));
    regs[(long)t.at(1)] = std::move(p);
    o.R(1); break; }
  case 2: { // update m registers with one item: 2 m r1..rm kind args
    size_t m = (size_t)t.at(1);
    if (t.size() < 2 + m + 1) { o.R(-2); break; }
    std::vector<sk_t*> rs; for (size_t i = 0; i < m; ++i) rs.push_back(&get(t.at(2 + i)));
    for (sk_t* s : rs) update_item(*s, (int)t.at(2 + m), t, 3 + m);
    o.R(1); break; }
  case 3: { // raw coupons: 3 m r1..rm c*
    size_t m = (size_t)t.at(1);
    std::vector<sk_t*> rs; for (size_t i = 0; i < m; ++i) rs.push_back(&get(t.at(2 + i)));
    for (sk_t* s : rs)
      for (size_t i = 2 + m; i < t.size(); ++i) s->coupon_update((uint32_t)t[i]);
    o.R(1); break; }
  case 4: { // batch of int64 items start + i*stride, i < count: 4 m r1..rm start count stride
    size_t m = (size_t)t.at(1);
    if (t.size() < 2 + m + 3) { o.R(-2); break; }
    std::vector<sk_t*> rs; for (size_t i = 0; i < m; ++i) rs.push_back(&get(t.at(2 + i)));
    uint64_t n = (uint64_t)t.at(3 + m); uint64_t st = (uint64_t)t.at(4 + m);
    for (sk_t* s : rs) {
      uint64_t x = (uint64_t)t.at(2 + m);
      for (uint64_t i = 0; i < n; ++i) { s->update((int64_t)x); x += st; }
    }
    o.R(1); break; }
  case 6: query(get(t.at(1)), o); break;
  case 7: { // r2 := hll_sketch(r, ty)
    sk_t& s = get(t.at(1));
    std::unique_ptr<sk_t> p(new sk_t(s, ty_of(t.at(3))));
    regs[(long)t.at(2)] = std::move(p);
    o.R(1); break; }
  case 8: { // r2 := copy of r
    sk_t& s = get(t.at(1));
    std::unique_ptr<sk_t> p(new sk_t(s));
    regs[(long)t.at(2)] = std::move(p);
    o.R(1); break; }
  case 9: { get(t.at(1)).reset(); o.R(1); break; }
  case 20: { // image: 20 r compact   E hip ; R bytes ; F bytes==stream, advertised size, header form, stream position
    sk_t& s = get(t.at(1)); bool compact = t.at(2) != 0;
    double hip = 0;
    if (s.get_current_mode() == HLL) hip = static_cast<const HllArray<A>*>(s.sketch_impl)->getHipAccum();
    o.E(vh::dbits(hip));
    auto bytes = compact ? s.serialize_compact() : s.serialize_updatable();
    for (uint8_t b : bytes) o.R(b);
    std::stringstream ss(std::ios::in | std::ios::out | std::ios::binary);
    if (compact) s.serialize_compact(ss); else s.serialize_updatable(ss);
    std::string str = ss.str();
    o.F(str.size() == bytes.size() && std::memcmp(str.data(), bytes.data(), bytes.size()) == 0 ? 1 : 0);
    o.F(compact ? s.get_compact_serialization_bytes() : s.get_updatable_serialization_bytes());
    if (compact) {
      auto hb = s.serialize_compact(5);
      bool okh = hb.size() == bytes.size() + 5;
      for (size_t i = 0; okh && i < 5; ++i) okh = hb[i] == 0;
      for (size_t i = 0; okh && i < bytes.size(); ++i) okh = hb[5 + i] == bytes[i];
      o.F(okh ? 1 : 0);
    } else o.F(1);
    ss.write("xyz", 3); ss.seekg(0);
    try {
      sk_t back = sk_t::deserialize(ss);
      o.F((long)ss.tellg() == (long)bytes.size() ? 1 : 0);
    } catch (const std::exception&) { o.F(2); }
    break; }
  case 21: { // r2 := deserialize(serialize(r)): 21 r2 r compact via
    sk_t& s = get(t.at(2)); bool compact = t.at(3) != 0;
    double hip = 0;
    if (s.get_current_mode() == HLL) hip = static_cast<const HllArray<A>*>(s.sketch_impl)->getHipAccum();
    o.E(vh::dbits(hip));
    std::unique_ptr<sk_t> p;
    if (t.at(4) == 0) {
      auto bytes = compact ? s.serialize_compact() : s.serialize_updatable();
      std::unique_ptr<uint8_t[]> buf(new uint8_t[bytes.size()]);
      std::memcpy(buf.get(), bytes.data(), bytes.size());
      p.reset(new sk_t(sk_t::deserialize(buf.get(), bytes.size())));
    } else {
      std::stringstream ss(std::ios::in | std::ios::out | std::ios::binary);
      if (compact) s.serialize_compact(ss); else s.serialize_updatable(ss);
      p.reset(new sk_t(sk_t::deserialize(ss)));
    }
    regs[(long)t.at(1)] = std::move(p);
    o.R(1); break; }
  case 22: { // r2 := deserialize(bytes): 22 r2 via b*
    size_t n = t.size() - 3;
    std::unique_ptr<sk_t> p;
    if (t.at(2) == 0) {
      std::unique_ptr<uint8_t[]> buf(new uint8_t[n]);          // exact size: ASan sees any read past the image
      for (size_t i = 0; i < n; ++i) buf[i] = (uint8_t)t[3 + i];
      p.reset(new sk_t(sk_t::deserialize(buf.get(), n)));
      regs[(long)t.at(1)] = std::move(p);
      o.R(1);
    } else {
      std::string str = vh::bytes_of(t, 3);
      std::stringstream ss(str, std::ios::in | std::ios::binary);
      p.reset(new sk_t(sk_t::deserialize(ss)));
      ss.clear();
      long pos = (long)ss.tellg();
      regs[(long)t.at(1)] = std::move(p);
      o.R(1); o.R(pos);
    }
    break; }
  case 23: { // codec-level dump
    sk_t& s = get(t.at(1));
    hll_mode m = s.get_current_mode();
    if (m == HLL) {
      const HllArray<A>* h = static_cast<const HllArray<A>*>(s.sketch_impl);
      o.E(vh::dbits(h->getHipAccum())); o.E(vh::dbits(h->getKxQ0())); o.E(vh::dbits(h->getKxQ1()));
    } else { o.E(0); o.E(0); o.E(0); }
    o.R(s.get_lg_config_k()); o.R((int)s.get_target_type()); o.R((int)m); o.R(s.is_out_of_order_flag() ? 1 : 0);
    if (m == LIST || m == SET) {
      const CouponList<A>* cl = static_cast<const CouponList<A>*>(s.sketch_impl);
      o.R(cl->getCouponCount());
      if (m == LIST) { for (uint32_t c : cl->coupons_) o.R(c); }
      else {
        o.R((I)count_trailing_zeros_in_u32((uint32_t)cl->coupons_.size()));
        std::vector<uint32_t> v;
        for (uint32_t c : cl->coupons_) if (c != 0) v.push_back(c);
        std::sort(v.begin(), v.end()); v.erase(std::unique(v.begin(), v.end()), v.end());
        for (uint32_t c : v) o.R(c);
      }
    } else {
      const HllArray<A>* h = static_cast<const HllArray<A>*>(s.sketch_impl);
      o.R(h->isStartFullSize() ? 1 : 0); o.R(h->getCurMin()); o.R(h->getNumAtCurMin());
      o.R(vh::dbits(h->getHipAccum())); o.R(vh::dbits(h->getKxQ0())); o.R(vh::dbits(h->getKxQ1()));
      const AuxHashMap<A>* aux = h->getAuxHashMap();
      std::vector<uint32_t> ap;
      if (aux != nullptr) {
        o.R(aux->getLgAuxArrInts()); o.R(aux->getAuxCount());
        for (auto it = aux->begin(false); it != aux->end(); ++it) ap.push_back(*it);
        std::sort(ap.begin(), ap.end()); ap.erase(std::unique(ap.begin(), ap.end()), ap.end());
      } else { o.R(0); o.R(0); }
      for (uint32_t c : ap) o.R(c);
      for (uint8_t b : h->hllByteArr_) o.R(b);
    }
    break; }
  case 24: { // scratch sketch: 24 lgk ty c*  -> F = its updatable image (oracle only)
    sk_t s((uint8_t)t.at(1), ty_of(t.at(2)));
    for (size_t i = 3; i < t.size(); ++i) s.coupon_update((uint32_t)t[i]);
    auto bytes = s.serialize_updatable();
    o.R(1);
    for (uint8_t b : bytes) o.F(b);
    break; }
  case 11: { // coupon of a raw hash state: 11 h1 h2
    HashState hs; hs.h1 = (uint64_t)t.at(1); hs.h2 = (uint64_t)t.at(2);
    o.R((I)HllUtil<A>::coupon(hs)); break; }
  default: o.R(-2);
  }
}

int main(int argc, char** argv) {
  return vh::run_main(argc, argv, [] { regs.clear(); }, handler);
}
