// drv_tdigest_f.cpp — the C17 harness instantiated for tdigest<float> (implementation-only family: judged by the oracle)
#define TD_VALUE float
#include "drv_tdigest.cpp"
