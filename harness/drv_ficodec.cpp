// drv_ficodec.cpp — correspondence harness for the frequent-items sketch image (coq/FiCodecDefs.v), properties C09/C10/C11.
// kind 0: frequent_items_sketch<uint64_t, uint64_t, MulHash>, kind 2: <std::string, int64_t, StrHash> (functors as in drv_fi.cpp,
// modelled in coq/FiDefs.v user_hash).
//   1 r kind lg_max lg_start (w len item*)*   build the sketch by updates; R: image bytes (bytes = stream = advertised size and the
//                                             header form are checked here: -4 / -5 / -6 on disagreement);
//                                             F: lg_max lg_cur total offset n, then per counter in ITERATOR order: w len item*
//   5 r path cut pos val ntrail               image of r truncated to `cut` bytes (cut < 0: whole), byte `pos` replaced (pos < 0: none),
//                                             ntrail bytes 0xA5 appended; read through path 0 (exact-size heap block) / 1 (stream)
//   6 r path (w len item*)*                   read the image of r back through `path`, apply the same updates to the original (a copy)
//                                             and to the restored sketch; R: both contents
//   3 kind byte*                              explicit image through deserialize(bytes);  4 kind byte*: through deserialize(istream)
// a decoded sketch is shown as 1 [bytes consumed, stream only] lg_max lg_cur total offset n, then per counter sorted by item: len item* w
//   7 r path                                  read the image of r back through `path` and serialize the restored sketch; R: 1, the first
//                                             32 bytes of its image, then its counters sorted by item (len item* w)
// An allocation request above 256 MiB is refused and reported as R -9 (never as a plain rejection): a reader that sizes an
// allocation from a corrupted or never-read field must not take the machine down while it is being reported.
#include "common.hpp"
#include <algorithm>
#include <sstream>
#include <new>
#include <cstdlib>
static bool g_over_cap = false;
static void* capped_alloc(size_t n) {
  if (n > (size_t(256) << 20)) { g_over_cap = true; throw std::bad_alloc(); }
  void* p = malloc(n ? n : 1);
  if (!p) throw std::bad_alloc();
  return p;
}
void* operator new(size_t n) { return capped_alloc(n); }
void* operator new[](size_t n) { return capped_alloc(n); }
void operator delete(void* p) noexcept { free(p); }
void operator delete[](void* p) noexcept { free(p); }
void operator delete(void* p, size_t) noexcept { free(p); }
void operator delete[](void* p, size_t) noexcept { free(p); }
#define private public
#define protected public
#include "frequent_items_sketch.hpp"
#undef private
#undef protected
using namespace datasketches;
using vh::I; using vh::Line; using vh::Out;

struct MulHash { size_t operator()(uint64_t x) const { return (size_t)(x * 0x9E3779B97F4A7C15ULL); } };
struct StrHash {
  size_t operator()(const std::string& s) const {
    uint64_t h = 14695981039346656037ULL;
    for (unsigned char c : s) { h ^= c; h *= 1099511628211ULL; }
    return (size_t)h;
  }
};
typedef frequent_items_sketch<uint64_t, uint64_t, MulHash> fi0;
typedef frequent_items_sketch<std::string, int64_t, StrHash> fi2;

typedef std::vector<I> Enc;
static uint64_t item_of(const Line& t, size_t from, size_t len, uint64_t*) { if (len != 1) throw std::invalid_argument("item"); return (uint64_t)t.at(from); }
static std::string item_of(const Line& t, size_t from, size_t len, std::string*) {
  std::string s; for (size_t i = 0; i < len; ++i) s.push_back((char)(uint8_t)t.at(from + i)); return s;
}
static Enc enc(uint64_t v) { return Enc{(I)v}; }
static Enc enc(const std::string& s) { Enc e; for (unsigned char c : s) e.push_back((I)c); return e; }

struct Base {
  int kind;
  virtual ~Base() {}
  virtual void updates(const Line& t, size_t from) = 0;
  virtual std::vector<uint8_t> image(Out& o, bool checks) = 0;
  virtual void content(Out& o) = 0;     // F line, iterator order
  virtual void show(Out& o) = 0;        // R line, sorted by item
  virtual Base* copy() = 0;
};

template<class S, class T, class W>
struct Holder : Base {
  S s;
  Holder(int k, S&& s_) : s(std::move(s_)) { kind = k; }
  Holder(int k, const S& s_) : s(s_) { kind = k; }
  void updates(const Line& t, size_t from) override {
    size_t i = from;
    while (i < t.size()) {
      I w = t.at(i); size_t len = (size_t)t.at(i + 1);
      if (w < 0 && !std::is_signed<W>::value) throw std::invalid_argument("negative weight for an unsigned weight type");
      T x = item_of(t, i + 2, len, (T*)nullptr);
      s.update(x, (W)w);
      i += 2 + len;
    }
  }
  std::vector<uint8_t> image(Out& o, bool checks) override {
    auto bytes = s.serialize();
    std::vector<uint8_t> img(bytes.begin(), bytes.end());
    if (checks) {
      std::ostringstream os(std::ios::binary); s.serialize(os); std::string str = os.str();
      if (str.size() != img.size() || memcmp(str.data(), img.data(), str.size()) != 0) o.R(-4);
      if (img.size() != s.get_serialized_size_bytes()) o.R(-5);
      for (unsigned h : {1u, 13u}) {
        auto hb = s.serialize(h);
        bool ok = hb.size() == img.size() + h;
        for (unsigned i = 0; ok && i < h; ++i) ok = hb[i] == 0;
        if (ok && memcmp(hb.data() + h, img.data(), img.size()) != 0) ok = false;
        if (!ok) o.R(-6);
      }
    }
    return img;
  }
  void content(Out& o) override {
    o.F((I)s.map.get_lg_max_size()); o.F((I)s.map.get_lg_cur_size()); o.F((I)s.get_total_weight()); o.F((I)s.get_maximum_error());
    o.F((I)s.get_num_active_items());
    for (auto it : s.map) { Enc e = enc(it.first); o.F((I)it.second); o.F((I)e.size()); for (I x : e) o.F(x); }
  }
  void show(Out& o) override {
    o.R((I)s.map.get_lg_max_size()); o.R((I)s.map.get_lg_cur_size()); o.R((I)s.get_total_weight()); o.R((I)s.get_maximum_error());
    o.R((I)s.get_num_active_items());
    std::vector<std::pair<Enc, I>> rows;
    for (auto it : s.map) rows.push_back(std::make_pair(enc(it.first), (I)it.second));
    std::sort(rows.begin(), rows.end());
    for (auto& r : rows) { o.R((I)r.first.size()); for (I x : r.first) o.R(x); o.R(r.second); }
  }
  Base* copy() override { return new Holder(kind, s); }
};
typedef Holder<fi0, uint64_t, uint64_t> H0;
typedef Holder<fi2, std::string, int64_t> H2;

static std::map<long, std::unique_ptr<Base>> regs;
static Base& get(I r) { auto it = regs.find((long)r); if (it == regs.end()) throw std::invalid_argument("no such register"); return *it->second; }

// reads `img` through the chosen reader; *used = stream position after the read (stream only)
static Base* decode(int kind, int path, const std::vector<uint8_t>& img, long* used) {
  if (path == 0) {
    size_t n = img.size();
    uint8_t* buf = static_cast<uint8_t*>(malloc(n ? n : 1));       // exact size: ASan sees any over-read
    if (n) memcpy(buf, img.data(), n);
    struct Free { uint8_t* p; ~Free() { free(p); } } guard{buf};
    const uint8_t* p = n ? buf : buf + 1;                           // length 0: one past the end of a 1-byte block
    if (kind == 0) return new H0(0, fi0::deserialize(p, n));
    return new H2(2, fi2::deserialize(p, n));
  }
  std::istringstream is(std::string(reinterpret_cast<const char*>(img.data()), img.size()), std::ios::in | std::ios::binary);
  Base* b = kind == 0 ? (Base*)new H0(0, fi0::deserialize(is)) : (Base*)new H2(2, fi2::deserialize(is));
  *used = (long)is.tellg();
  return b;
}

static void show_decoded(int kind, int path, const std::vector<uint8_t>& img, Out& o) {
  long used = -1;
  std::unique_ptr<Base> b(decode(kind, path, img, &used));
  o.R(1); if (path != 0) o.R(used);
  b->show(o);
}

static void handler1(const Line& t, Out& o);
static void handler(const Line& t, Out& o) {
  g_over_cap = false;
  try { handler1(t, o); }
  catch (...) { if (!g_over_cap) throw; }
  if (g_over_cap) { o.res.clear(); o.flt.clear(); o.has_flt = false; o.R(-9); }
}
static void handler1(const Line& t, Out& o) {
  switch ((int)t.at(0)) {
  case 1: {
    int kind = (int)t.at(2); uint8_t lgm = (uint8_t)t.at(3), lgs = (uint8_t)t.at(4);
    std::unique_ptr<Base> b;
    if (kind == 0) b.reset(new H0(0, fi0(lgm, lgs)));
    else if (kind == 2) b.reset(new H2(2, fi2(lgm, lgs)));
    else throw std::invalid_argument("kind");
    b->updates(t, 5);
    auto img = b->image(o, true);
    if (o.res.empty()) for (uint8_t x : img) o.R(x);
    b->content(o);
    regs[(long)t.at(1)] = std::move(b);
    break; }
  case 5: {
    Base& s = get(t.at(1));
    auto img = s.image(o, false);
    long cut = (long)t.at(3), pos = (long)t.at(4);
    if (cut >= 0 && (size_t)cut < img.size()) img.resize((size_t)cut);
    if (pos >= 0 && (size_t)pos < img.size()) img[(size_t)pos] = (uint8_t)t.at(5);
    for (long i = 0; i < (long)t.at(6); ++i) img.push_back(0xA5);
    show_decoded(s.kind, (int)t.at(2), img, o);
    break; }
  case 6: {
    Base& s = get(t.at(1));
    auto img = s.image(o, false);
    long used = -1;
    std::unique_ptr<Base> a(s.copy());
    std::unique_ptr<Base> b(decode(s.kind, (int)t.at(2), img, &used));
    a->updates(t, 3); b->updates(t, 3);
    o.R(1); a->show(o); o.R(-7); b->show(o);
    break; }
  case 7: {
    Base& s = get(t.at(1));
    auto img = s.image(o, false);
    long used = -1;
    std::unique_ptr<Base> b(decode(s.kind, (int)t.at(2), img, &used));
    auto img2 = b->image(o, true);
    // canonical form (the order of the counters in a hash table is unspecified): the preamble bytes, then the content sorted by item
    if (o.res.empty()) {
      o.R(1);
      for (size_t i = 0; i < img2.size() && i < 32; ++i) o.R(img2[i]);
      Out tmp; b->show(tmp);
      for (size_t i = 5; i < tmp.res.size(); ++i) o.R(tmp.res[i]);
    }
    break; }
  case 3: case 4: {
    std::vector<uint8_t> img; for (size_t i = 2; i < t.size(); ++i) img.push_back((uint8_t)t[i]);
    show_decoded((int)t.at(1), t.at(0) == 3 ? 0 : 1, img, o);
    break; }
  default: o.R(-2);
  }
}

int main(int argc, char** argv) { return vh::run_main(argc, argv, [] { regs.clear(); }, handler); }
