// drv_cpc.cpp — correspondence harness for cpc_sketch / cpc_union (C05).
// An operation that throws poisons the object it was mutating (the register is dropped): the C++ object may have
// been modified before the throw, and the model treats every throw as "no result".
#include "common.hpp"
#include <algorithm>
#include <cmath>
#include <sstream>
#include <limits>
#include <iterator>
#include <type_traits>
#include <utility>
#include <cstdlib>
#include <atomic>
#include <mutex>
#define private public
#define protected public
#include "cpc_sketch.hpp"
#include "cpc_union.hpp"
#undef private
#undef protected
using namespace datasketches;
using vh::I; using vh::Line; using vh::Out;


// a small stateful allocator: every instance carries an arena id; allocations are counted per arena.
// Arena 0 is what a default-constructed allocator uses: the library must never allocate from it when the user passed arena 7.
namespace tagalloc {
static long live[16]; static long total[16];
template<typename T> struct alloc {
  typedef T value_type;
  int id;
  alloc() : id(0) {}
  explicit alloc(int i) : id(i) {}
  template<typename U> alloc(const alloc<U>& o) : id(o.id) {}
  T* allocate(size_t n) { live[id & 15]++; total[id & 15]++; return std::allocator<T>().allocate(n); }
  void deallocate(T* p, size_t n) { live[id & 15]--; std::allocator<T>().deallocate(p, n); }
  template<typename U> struct rebind { typedef alloc<U> other; };
  template<typename U> bool operator==(const alloc<U>& o) const { return id == o.id; }
  template<typename U> bool operator!=(const alloc<U>& o) const { return id != o.id; }
};
}

static std::map<long, std::unique_ptr<cpc_sketch>> sk;
static std::map<long, std::unique_ptr<cpc_union>> un;

static cpc_sketch& gets(I r) {
  auto it = sk.find((long)r);
  if (it == sk.end()) throw std::invalid_argument("no such sketch register");
  return *it->second;
}
static cpc_union& getu(I r) {
  auto it = un.find((long)r);
  if (it == un.end()) throw std::invalid_argument("no such union register");
  return *it->second;
}

static void head(const cpc_sketch& s, Out& o) {
  o.R(s.get_lg_k()); o.R(s.get_num_coupons()); o.R(s.validate() ? 1 : 0);
  o.R((int)s.determine_flavor()); o.R(s.window_offset); o.R(s.first_interesting_column);
  o.R(s.was_merged ? 1 : 0); o.R(s.surprising_value_table.get_num_items());
}

static std::vector<uint32_t> items_sorted(const cpc_sketch& s) {
  std::vector<uint32_t> v;
  const uint32_t* slots = s.surprising_value_table.get_slots();
  const size_t n = (size_t)1 << s.surprising_value_table.get_lg_size();
  for (size_t i = 0; i < n; i++) if (slots[i] != UINT32_MAX) v.push_back(slots[i]);
  std::sort(v.begin(), v.end());
  return v;
}

static bool same_bits(double a, double b) { return vh::dbits(a) == vh::dbits(b); }

#ifdef VH_CPC_EXTRA
static bool extra_handler(const Line& t, Out& o);   // drv_cpccodec.cpp: image-level operations (opcodes >= 40)
#endif

static void handler(const Line& t, Out& o) {
  switch ((int)t.at(0)) {
  case 1: { // new sketch r lg_k seed
    I l = t.at(2);
    if (l < 0 || l > 255) throw std::invalid_argument("lg_k");
    std::unique_ptr<cpc_sketch> p(new cpc_sketch((uint8_t)l, (uint64_t)t.at(3)));
    sk[(long)t.at(1)] = std::move(p);
    o.R(1); break; }
  case 2: { // update r kind args
    cpc_sketch& s = gets(t.at(1)); int kind = (int)t.at(2);
    try {
      I v = t.size() > 3 ? t[3] : 0;
      switch (kind) {   // kinds as in coq/Canon.v canon_input
        case 0: s.update((uint64_t)v); break;
        case 1: s.update((int64_t)v); break;
        case 2: s.update((uint32_t)v); break;
        case 3: s.update((int32_t)v); break;
        case 4: s.update((uint16_t)v); break;
        case 5: s.update((int16_t)v); break;
        case 6: s.update((uint8_t)v); break;
        case 7: s.update((int8_t)v); break;
        case 8: s.update(vh::bitsd(v)); break;
        case 9: s.update(vh::bitsf(v)); break;
        case 10: s.update(vh::bytes_of(t, 3)); break;
        default: { std::string bytes = vh::bytes_of(t, 3); s.update(static_cast<const void*>(bytes.data()), bytes.size()); break; }
      }
    } catch (...) { sk.erase((long)t.at(1)); throw; }
    o.R(1); break; }
  case 3: { // raw row_col_update r rc
    cpc_sketch& s = gets(t.at(1));
    try { s.row_col_update((uint32_t)t.at(2)); } catch (...) { sk.erase((long)t.at(1)); throw; }
    o.R(1); break; }
  case 4: { head(gets(t.at(1)), o); break; }
  case 5: { // full dump
    const cpc_sketch& s = gets(t.at(1));
    head(s, o);
    o.R((I)s.sliding_window.size());
    for (uint8_t b : s.sliding_window) o.R(b);
    std::vector<uint32_t> v = items_sorted(s);
    o.R((I)v.size());
    for (uint32_t x : v) o.R(x);
    auto m = s.build_bit_matrix();
    for (uint64_t w : m) o.R((I)w);
    break; }
  case 6: { // r2 := deserialize(serialize(r)); F: bytes==stream, re-serialization identical, estimates identical, size
    const cpc_sketch& s = gets(t.at(1));
    auto bytes = s.serialize();
    std::stringstream ss(std::ios::in | std::ios::out | std::ios::binary);
    s.serialize(ss);
    std::string sb = ss.str();
    bool stream_eq = sb.size() == bytes.size() && (bytes.empty() || memcmp(sb.data(), bytes.data(), bytes.size()) == 0);
    std::unique_ptr<cpc_sketch> p(new cpc_sketch(cpc_sketch::deserialize(bytes.data(), bytes.size(), s.seed)));
    cpc_sketch q = cpc_sketch::deserialize(ss, s.seed);
    auto bytes2 = p->serialize();
    auto bytes3 = q.serialize();
    bool reser = bytes2.size() == bytes.size() && (bytes.empty() || memcmp(bytes2.data(), bytes.data(), bytes.size()) == 0)
              && bytes3.size() == bytes.size() && (bytes.empty() || memcmp(bytes3.data(), bytes.data(), bytes.size()) == 0);
    bool est = same_bits(s.get_estimate(), p->get_estimate());
    for (unsigned kappa = 1; kappa <= 3; kappa++) {
      est = est && same_bits(s.get_lower_bound(kappa), p->get_lower_bound(kappa))
                && same_bits(s.get_upper_bound(kappa), p->get_upper_bound(kappa));
    }
    if (!s.was_merged) est = est && same_bits(s.hip_est_accum, p->hip_est_accum);
    // kxp of an EMPTY sketch is not part of the image (it is reset by the reader; tracked under C09): separate flag
    bool kxp_ok = s.was_merged || same_bits(s.kxp, p->kxp);
    if (s.get_num_coupons() > 0) est = est && kxp_ok;
    sk[(long)t.at(2)] = std::move(p);
    o.R(1);
    o.F(stream_eq ? 1 : 0); o.F(reser ? 1 : 0); o.F(est ? 1 : 0); o.F(kxp_ok ? 1 : 0); o.F((I)bytes.size());
    break; }
  case 7: { // estimator inputs; F: estimate and bounds bit patterns
    const cpc_sketch& s = gets(t.at(1));
    o.R(s.get_lg_k()); o.R(s.get_num_coupons()); o.R(s.was_merged ? 1 : 0);
    o.Fd(s.get_estimate());
    for (unsigned kappa = 1; kappa <= 3; kappa++) { o.Fd(s.get_lower_bound(kappa)); o.Fd(s.get_upper_bound(kappa)); }
    break; }
  case 8: { // bulk update r start count (implementation-only family)
    cpc_sketch& s = gets(t.at(1)); uint64_t a = (uint64_t)t.at(2), n = (uint64_t)t.at(3);
    try { for (uint64_t i = 0; i < n; i++) s.update(a + i); } catch (...) { sk.erase((long)t.at(1)); throw; }
    o.R(1); break; }
  case 9: { // content digest without building the matrix (for large lg_k): scalars, number of table items, FNV hashes of the sorted table and of the window
    const cpc_sketch& s = gets(t.at(1));
    o.R(s.get_lg_k()); o.R(s.get_num_coupons()); o.R((int)s.determine_flavor()); o.R(s.window_offset); o.R(s.first_interesting_column);
    std::vector<uint32_t> v = items_sorted(s);
    uint64_t h = 1469598103934665603ULL;
    for (uint32_t x : v) { h ^= x; h *= 1099511628211ULL; }
    uint64_t hw = 1469598103934665603ULL;
    for (uint8_t b : s.sliding_window) { hw ^= b; hw *= 1099511628211ULL; }
    o.R((I)v.size()); o.R((I)h); o.R((I)hw);
    break; }
  case 30: { // compressed image of sketch r: table_num_entries, table words, window words
    const cpc_sketch& s = gets(t.at(1));
    typedef std::allocator<uint8_t> A;
    compressed_state<A> c{A()};
    c.table_data_words = 0; c.table_num_entries = 0; c.window_data_words = 0;
    get_compressor<A>().compress(s, c);
    o.R(c.table_num_entries); o.R(c.table_data_words);
    for (uint32_t i = 0; i < c.table_data_words; i++) o.R(c.table_data.at(i));
    o.R(c.window_data_words);
    for (uint32_t i = 0; i < c.window_data_words; i++) o.R(c.window_data.at(i));
    break; }
  case 31: { // low_level_compress_bytes with table ti, then low_level_uncompress_bytes
    typedef std::allocator<uint8_t> A;
    unsigned ti = (unsigned)t.at(1);
    if (ti >= 22) throw std::invalid_argument("table index");
    std::vector<uint8_t> in; for (size_t i = 2; i < t.size(); i++) in.push_back((uint8_t)t[i]);
    const uint32_t n = (uint32_t)in.size();
    std::vector<uint32_t> words(cpc_compressor<A>::safe_length_for_compressed_window_buf(n), 0);
    const cpc_compressor<A>& cmp = get_compressor<A>();
    uint32_t used = cmp.low_level_compress_bytes(in.data(), n, encoding_tables_for_high_entropy_byte[ti], words.data());
    std::vector<uint8_t> out(n + 1, 0);
    cmp.low_level_uncompress_bytes(out.data(), n, cmp.decoding_tables_for_high_entropy_byte[ti], words.data(), used);
    o.R(used); for (uint32_t i = 0; i < used; i++) o.R(words[i]);
    for (uint32_t i = 0; i < n; i++) o.R(out[i]);
    break; }
  case 32: { // low_level_compress_pairs with num_base_bits, then low_level_uncompress_pairs
    typedef std::allocator<uint8_t> A;
    uint8_t nbb = (uint8_t)t.at(1);
    std::vector<uint32_t> in; uint32_t maxrow = 0;
    for (size_t i = 2; i < t.size(); i++) { in.push_back((uint32_t)t[i]); maxrow = std::max(maxrow, (uint32_t)t[i] >> 6); }
    const uint32_t n = (uint32_t)in.size();
    const size_t safe = cpc_compressor<A>::safe_length_for_compressed_pair_buf(maxrow + 1, n, nbb);
    std::vector<uint32_t> words(safe, 0);   // exactly the size the library allocates: ASan checks the bound
    const cpc_compressor<A>& cmp = get_compressor<A>();
    uint32_t used = cmp.low_level_compress_pairs(in.data(), n, nbb, words.data());
    std::vector<uint32_t> out(n + 1, 0);
    cmp.low_level_uncompress_pairs(out.data(), n, nbb, words.data(), used);
    o.R(used); for (uint32_t i = 0; i < used; i++) o.R(words[i]);
    for (uint32_t i = 0; i < n; i++) o.R(out[i]);
    break; }
  case 33: { // determine_pseudo_phase lg_k c
    typedef std::allocator<uint8_t> A;
    I l = t.at(1); if (l < 0 || l > 255) throw std::invalid_argument("lg_k");
    o.R(cpc_compressor<A>::determine_pseudo_phase((uint8_t)l, (uint32_t)t.at(2))); break; }
  case 34: { // golomb_choose_number_of_base_bits k count
    typedef std::allocator<uint8_t> A;
    o.R(cpc_compressor<A>::golomb_choose_number_of_base_bits((uint32_t)t.at(1), (uint64_t)t.at(2))); break; }
  case 10: { // new union r lg_k seed
    I l = t.at(2);
    if (l < 0 || l > 255) throw std::invalid_argument("lg_k");
    std::unique_ptr<cpc_union> p(new cpc_union((uint8_t)l, (uint64_t)t.at(3)));
    un[(long)t.at(1)] = std::move(p);
    o.R(1); break; }
  case 11: { // union r update sketch r2
    cpc_union& u = getu(t.at(1)); const cpc_sketch& s = gets(t.at(2));
    try { u.update(s); } catch (...) { un.erase((long)t.at(1)); throw; }
    o.R(1); break; }
  case 14: { // union r2 := copy-constructed from union r
    const cpc_union& u = getu(t.at(1));
    std::unique_ptr<cpc_union> p(new cpc_union(u));
    un[(long)t.at(2)] = std::move(p); o.R(1); break; }
  case 15: { // existing union r2 = union r (copy assignment)
    const cpc_union& u = getu(t.at(1)); cpc_union& d = getu(t.at(2));
    d = u; o.R(1); break; }
  case 16: { // union r2 := move-constructed from union r; r is dropped
    if (t.at(1) == t.at(2)) throw std::invalid_argument("same register");
    cpc_union& u = getu(t.at(1));
    std::unique_ptr<cpc_union> p(new cpc_union(std::move(u)));
    un.erase((long)t.at(1)); un[(long)t.at(2)] = std::move(p); o.R(1); break; }
  case 17: { // existing union r2 = std::move(union r); r is dropped
    if (t.at(1) == t.at(2)) throw std::invalid_argument("same register");
    cpc_union& u = getu(t.at(1)); cpc_union& d = getu(t.at(2));
    d = std::move(u); un.erase((long)t.at(1)); o.R(1); break; }
  case 50: { // allocator scenario: 50 lgu [lg_k count]* : sketches and a union that all use arena 7
    typedef tagalloc::alloc<uint8_t> TA;
    typedef cpc_sketch_alloc<TA> tsk; typedef cpc_union_alloc<TA> tun;
    for (int i = 0; i < 16; i++) { tagalloc::live[i] = 0; tagalloc::total[i] = 0; }
    bool tag_ok = true;
    {
      TA a7(7);
      tun u((uint8_t)t.at(1), 9001, a7);
      uint64_t next = 1;
      for (size_t i = 2; i + 1 < t.size(); i += 2) {
        tsk s((uint8_t)t[i], 9001, a7);
        for (I j = 0; j < t[i + 1]; j++) s.update(next++);
        tag_ok = tag_ok && s.get_allocator().id == 7;
        if ((i / 2) % 2) u.update(s); else { tsk tmp(s); u.update(std::move(tmp)); }
        tsk r = u.get_result();
        tag_ok = tag_ok && r.get_allocator().id == 7;
        for (int j = 0; j < 40; j++) r.update(next + 1000000 + j);     // growth of the result's table goes through its allocator
        tag_ok = tag_ok && r.get_allocator().id == 7 && r.validate();
        tun u2(u); tun u3((uint8_t)t.at(1), 9001, a7); u3 = u;
        tag_ok = tag_ok && u2.get_result().get_allocator().id == 7 && u3.get_result().get_allocator().id == 7;
      }
    }
    long foreign = 0; for (int i = 0; i < 16; i++) if (i != 7) foreign += tagalloc::total[i];
    o.R(tag_ok ? 1 : 0); o.R(foreign == 0 ? 1 : 0); o.R(tagalloc::live[7] == 0 && tagalloc::total[7] > 0 ? 1 : 0);
    o.F(foreign); o.F(tagalloc::total[7]);
    break; }
  case 13: { // union r update with an rvalue (moved-from temporary copy of sketch r2)
    cpc_union& u = getu(t.at(1)); const cpc_sketch& s = gets(t.at(2));
    try { cpc_sketch tmp(s); u.update(std::move(tmp)); } catch (...) { un.erase((long)t.at(1)); throw; }
    o.R(1); break; }
  case 12: { // r2 := union r get_result
    const cpc_union& u = getu(t.at(1));
    std::unique_ptr<cpc_sketch> p(new cpc_sketch(u.get_result()));
    o.R(1); o.R(p->get_lg_k());
    sk[(long)t.at(2)] = std::move(p);
    break; }
  case 20: { // row_col_from_two_hashes h0 h1 lg_k
    I l = t.at(3);
    if (l < 0 || l > 255) throw std::invalid_argument("lg_k");
    o.R(row_col_from_two_hashes((uint64_t)t.at(1), (uint64_t)t.at(2), (uint8_t)l));
    break; }
  default:
#ifdef VH_CPC_EXTRA
    if (extra_handler(t, o)) break;
#endif
    o.R(-2);
  }
}

int main(int argc, char** argv) {
  return vh::run_main(argc, argv, [] { sk.clear(); un.clear(); }, handler);
}
