// drv_kll.cpp — correspondence harness for kll_sketch (C07, C08).
// Three instantiations share one operation protocol (the model is over integers with the usual order):
//   kind 0: kll_sketch<int64_t>
//   kind 1: kll_sketch<double> fed integer values (plus NaN updates / NaN split points)
//   kind 3: kll_sketch<int64_t, DirCmp> with a stateful comparator instance (see DirCmp below)
//   kind 2: kll_sketch<std::string, std::greater<std::string>>: item v is stored as enc(-v) with enc an
//           order-preserving fixed-width encoding, so that greater<string> on the stored items is < on v.
// Results (R lines) come from the public API only; the private min_k_ is read (macro below) for one F value of op 5, so that
// the oracle can check that the published rank error is the documented function of min_k_.
// Codec operations (family kllcodec, kinds 0 and 1 only): 20 r -> R = serialize() bytes, F = [stream form identical, advertised
// size, size, header form ok, stream reader consumed exactly the image]; 21 r r2 -> r := deserialize(serialize(r2));
// 22 r kind bytes.. -> r := deserialize(bytes).
#include "common.hpp"
#include "hooksrc.hpp"
#define private public
#include "kll_sketch.hpp"
#undef private
#include <cmath>
#include <limits>
#include <algorithm>
#include <sstream>
#include <cstring>
using namespace datasketches;
using vh::I; using vh::Line; using vh::Out;

struct K0 {
  typedef kll_sketch<int64_t> sk_t; typedef int64_t item_t;
  static item_t enc(I v) { return (int64_t)v; }
  static I dec(const item_t& x) { return (I)x; }
};
struct K1 {
  typedef kll_sketch<double> sk_t; typedef double item_t;
  static item_t enc(I v) { return (double)(int64_t)v; }
  static I dec(const item_t& x) { return (I)(int64_t)x; }
};
struct K2 {
  typedef kll_sketch<std::string, std::greater<std::string>> sk_t; typedef std::string item_t;
  static item_t enc(I v) { // order-preserving: 20 decimal digits of (-v + 2^63), long enough to live on the heap
    unsigned long long u = (unsigned long long)((int64_t)(-v)) + 0x8000000000000000ULL;
    char buf[40]; snprintf(buf, sizeof buf, "item:%020llu", u); return std::string(buf);
  }
  static I dec(const item_t& x) {
    unsigned long long u = strtoull(x.c_str() + 5, nullptr, 10);
    return -(I)(int64_t)(u - 0x8000000000000000ULL);
  }
};

// kind 3: a STATEFUL comparator: DirCmp(true) orders descending, a default-constructed DirCmp() ascending; item v is stored as -v, so
// that the stored comparator's order on the stored items is < on v (code that uses C() instead of the stored instance orders the wrong way)
struct DirCmp { bool desc; DirCmp(bool d = false): desc(d) {} bool operator()(int64_t a, int64_t b) const { return desc ? b < a : a < b; } };
struct K3 {
  typedef kll_sketch<int64_t, DirCmp> sk_t; typedef int64_t item_t;
  static item_t enc(I v) { return -(int64_t)v; }
  static I dec(const item_t& x) { return -(I)x; }
};

struct Reg {
  int kind;
  std::unique_ptr<K0::sk_t> s0; std::unique_ptr<K1::sk_t> s1; std::unique_ptr<K2::sk_t> s2; std::unique_ptr<K3::sk_t> s3;
};
static std::map<long, Reg> regs;

static Reg& get(I r) {
  auto it = regs.find((long)r);
  if (it == regs.end()) throw std::invalid_argument("no such register");
  return it->second;
}
template<typename K> struct Sel;
template<> struct Sel<K0> { static std::unique_ptr<K0::sk_t>& p(Reg& r) { return r.s0; } };
template<> struct Sel<K1> { static std::unique_ptr<K1::sk_t>& p(Reg& r) { return r.s1; } };
template<> struct Sel<K2> { static std::unique_ptr<K2::sk_t>& p(Reg& r) { return r.s2; } };
template<> struct Sel<K3> { static std::unique_ptr<K3::sk_t>& p(Reg& r) { return r.s3; } };

// min_k through the public API only: the k' whose published rank error equals the sketch's
template<typename S> static I derive_min_k(const S& s) {
  const double e = s.get_normalized_rank_error(false);
  uint32_t lo = 1, hi = 65535;
  while (lo < hi) { // the error decreases strictly with k
    uint32_t mid = (lo + hi) / 2;
    if (S::get_normalized_rank_error((uint16_t)mid, false) <= e) hi = mid; else lo = mid + 1;
  }
  if (S::get_normalized_rank_error((uint16_t)lo, false) != e) return -1;
  return lo;
}

static I numer(double rank, uint64_t n) { return (I)std::llround(rank * (double)n); }

template<typename K> static void run_op(int op, Reg& reg, const Line& t, Out& o) {
  typedef typename K::sk_t S; typedef typename K::item_t T;
  S& s = *Sel<K>::p(reg);
  switch (op) {
  case 2: s.update(K::enc(t.at(2))); o.R(1); break;
  case 5: { // observe
    o.R((I)s.get_n()); o.R((I)s.get_num_retained()); o.R(s.is_empty() ? 1 : 0); o.R(s.is_estimation_mode() ? 1 : 0);
    o.R(derive_min_k(s));
    if (!s.is_empty()) { o.R(K::dec(s.get_min_item())); o.R(K::dec(s.get_max_item())); }
    std::vector<std::pair<I, I>> it;
    for (auto i = s.begin(); i != s.end(); ++i) { auto p = *i; it.push_back(std::make_pair(K::dec(p.first), (I)p.second)); }
    { // every way of walking the sketch must expose the same entries: post-increment, *it++, range-for (each walk bounded by
      // num_retained + 1 steps); on disagreement the deviating walk is reported and judged like any other exposed listing
      std::vector<std::pair<I, I>> w1, w2, w3; const size_t lim = (size_t)s.get_num_retained() + 1;
      for (auto i = s.begin(); i != s.end() && w1.size() <= lim; i++) { auto p = *i; w1.push_back(std::make_pair(K::dec(p.first), (I)p.second)); }
      for (auto i = s.begin(); i != s.end() && w2.size() <= lim; ) { auto p = *i++; w2.push_back(std::make_pair(K::dec(p.first), (I)p.second)); }
      for (const auto& p : s) { if (w3.size() > lim) break; w3.push_back(std::make_pair(K::dec(p.first), (I)p.second)); }
      if (w1 != it) it = w1; else if (w2 != it) it = w2; else if (w3 != it) it = w3; }
    std::sort(it.begin(), it.end());
    o.R((I)it.size());
    for (auto& p : it) { o.R(p.first); o.R(p.second); }
    // advertised bound on the number of retained items (what get_max_serialized_size_bytes is computed from)
    o.F((I)kll_helper::compute_total_capacity(s.get_k(), kll_constants::DEFAULT_M, kll_helper::ub_on_num_levels(s.get_n())));
    // published error (single- and double-sided), the private min_k_, and the documented function of that min_k_
    o.Fd(s.get_normalized_rank_error(false)); o.Fd(s.get_normalized_rank_error(true));
    o.F((I)s.min_k_);
    o.Fd(S::get_normalized_rank_error(s.min_k_, false)); o.Fd(S::get_normalized_rank_error(s.min_k_, true));
    o.F((I)s.get_k());
    o.F((I)s.num_levels_); o.F((I)s.get_num_retained());   // the space bound is evaluated with the implementation's own level count
    break; }
  case 6: { // rank
    T x = K::enc(t.at(2));
    double ri = s.get_rank(x, true), re = s.get_rank(x, false);
    o.R(numer(ri, s.get_n())); o.R(numer(re, s.get_n())); o.R(s.is_estimation_mode() ? 1 : 0);
    o.Fd(ri); o.Fd(re); break; }
  case 7: { // quantile at rank j / 2^t
    double rank = (double)(int64_t)t.at(2) / (double)((uint64_t)1 << (unsigned)t.at(3));
    T a = s.get_quantile(rank, true); T b = s.get_quantile(rank, false);
    o.R(K::dec(a)); o.R(K::dec(b)); o.R(s.is_estimation_mode() ? 1 : 0); break; }
  case 8: { // CDF / PMF
    std::vector<T> sp; for (size_t i = 2; i < t.size(); ++i) sp.push_back(K::enc(t[i]));
    auto ci = s.get_CDF(sp.data(), (uint32_t)sp.size(), true);
    auto ce = s.get_CDF(sp.data(), (uint32_t)sp.size(), false);
    auto pi = s.get_PMF(sp.data(), (uint32_t)sp.size(), true);
    auto pe = s.get_PMF(sp.data(), (uint32_t)sp.size(), false);
    for (double d : ci) o.R(numer(d, s.get_n()));
    for (double d : ce) o.R(numer(d, s.get_n()));
    o.F((I)ci.size());
    for (double d : ci) o.Fd(d);
    for (double d : ce) o.Fd(d);
    for (double d : pi) o.Fd(d);
    for (double d : pe) o.Fd(d);
    break; }
  case 10: { // sorted view, ties collapsed: (item, cumulative weight at the end of its run)
    auto v = s.get_sorted_view();
    std::vector<std::pair<I, I>> g;
    for (auto i = v.begin(); i != v.end(); ++i) {
      auto p = *i; I x = K::dec(p.first);
      if (!g.empty() && g.back().first == x) g.back().second = (I)p.second; else g.push_back(std::make_pair(x, (I)p.second));
    }
    o.R(g.empty() ? 0 : g.back().second);
    for (auto& p : g) { o.R(p.first); o.R(p.second); }
    break; }
  default: o.R(-2);
  }
}

template<typename K> static void merge_op(Reg& a, Reg& b, bool rvalue) {
  typename K::sk_t& x = *Sel<K>::p(a); typename K::sk_t& y = *Sel<K>::p(b);
  if (rvalue) x.merge(std::move(y)); else x.merge(y);
}


template<typename K> static void ser_op(Reg& reg, Out& o) {
  typedef typename K::sk_t S;
  S& s = *Sel<K>::p(reg);
  auto b = s.serialize();
  for (auto x : b) o.R((I)x);
  std::ostringstream os(std::ios::binary); s.serialize(os); const std::string str = os.str();
  const bool same = str.size() == b.size() && std::memcmp(str.data(), b.data(), b.size()) == 0;
  o.F(same ? 1 : 0); o.F((I)s.get_serialized_size_bytes()); o.F((I)b.size());
  auto h = s.serialize(5);
  bool hok = h.size() == b.size() + 5;
  for (size_t i = 0; hok && i < 5; ++i) hok = h[i] == 0;
  for (size_t i = 0; hok && i < b.size(); ++i) hok = h[i + 5] == b[i];
  o.F(hok ? 1 : 0);
  std::istringstream is(str + "XYZ", std::ios::binary);
  S d = S::deserialize(is);
  o.F(((size_t)is.tellg() == str.size() && d.get_n() == s.get_n()) ? 1 : 0);
}
template<typename K> static void deser_op(Reg& dst, const uint8_t* p, size_t n) {
  typedef typename K::sk_t S;
  Sel<K>::p(dst).reset(new S(S::deserialize(p, n)));
}

static void handler(const Line& t, Out& o) {
  vh::install_source(o);
  if (vh::source_op(t, o)) return;
  int op = (int)t.at(0);
  switch (op) {
  case 1: { // new r kind k
    int kind = (int)t.at(2); I k = t.at(3);
    if (k < 0 || k > 65535) throw std::invalid_argument("k does not fit uint16_t");
    Reg g; g.kind = kind;
    if (kind == 0) g.s0.reset(new K0::sk_t((uint16_t)k));
    else if (kind == 1) g.s1.reset(new K1::sk_t((uint16_t)k));
    else if (kind == 2) g.s2.reset(new K2::sk_t((uint16_t)k));
    else if (kind == 3) g.s3.reset(new K3::sk_t((uint16_t)k, DirCmp(true)));
    else throw std::invalid_argument("kind");
    regs[(long)t.at(1)] = std::move(g);
    o.R(1); break; }
  case 3: { // NaN update
    Reg& g = get(t.at(1));
    if (g.kind == 1) g.s1->update(std::numeric_limits<double>::quiet_NaN());
    o.R(1); break; }
  case 4: case 23: { // merge r r2 mode (23: lvalue merge, the model keeps no ghost log: deep-level histories)
    if (t.at(1) == t.at(2)) throw std::invalid_argument("self merge not exercised");
    Reg& a = get(t.at(1)); Reg& b = get(t.at(2)); bool rv = op == 4 && t.at(3) == 1;
    if (a.kind != b.kind) throw std::invalid_argument("kinds differ");
    if (a.kind == 0) merge_op<K0>(a, b, rv); else if (a.kind == 1) merge_op<K1>(a, b, rv); else if (a.kind == 2) merge_op<K2>(a, b, rv); else merge_op<K3>(a, b, rv);
    if (rv) regs.erase((long)t.at(2));
    o.R(1); break; }
  case 9: { // CDF with a NaN split point at position t[2] (double sketches)
    Reg& g = get(t.at(1));
    if (g.kind != 1) { // other kinds: nothing to ask; behave as the model (sorted view set up, then refused)
      if (g.kind == 0) { if (!g.s0->is_empty()) g.s0->get_rank(0, true); }
      else if (g.kind == 2) { if (!g.s2->is_empty()) g.s2->get_rank(K2::enc(0), true); }
      else { if (!g.s3->is_empty()) g.s3->get_rank(K3::enc(0), true); }
      throw std::invalid_argument("no NaN for this kind");
    }
    std::vector<double> sp; for (size_t i = 3; i < t.size(); ++i) sp.push_back(K1::enc(t[i]));
    size_t pos = std::min((size_t)t.at(2), sp.size());
    sp.insert(sp.begin() + pos, std::numeric_limits<double>::quiet_NaN());
    auto c = g.s1->get_CDF(sp.data(), (uint32_t)sp.size(), true);
    o.R((I)c.size()); break; }
  case 13: { // r := copy of r2
    Reg& b = get(t.at(2)); Reg g; g.kind = b.kind;
    if (b.kind == 0) g.s0.reset(new K0::sk_t(*b.s0));
    else if (b.kind == 1) g.s1.reset(new K1::sk_t(*b.s1));
    else if (b.kind == 2) g.s2.reset(new K2::sk_t(*b.s2));
    else g.s3.reset(new K3::sk_t(*b.s3));
    regs[(long)t.at(1)] = std::move(g);
    o.R(1); break; }
  case 20: { // serialize
    Reg& g = get(t.at(1));
    if (g.kind == 0) ser_op<K0>(g, o); else if (g.kind == 1) ser_op<K1>(g, o); else throw std::invalid_argument("codec: kind");
    break; }
  case 21: { // r := deserialize(serialize(r2))
    Reg& b = get(t.at(2)); Reg g; g.kind = b.kind;
    if (b.kind == 0) { auto v = b.s0->serialize(); deser_op<K0>(g, v.data(), v.size()); }
    else if (b.kind == 1) { auto v = b.s1->serialize(); deser_op<K1>(g, v.data(), v.size()); }
    else throw std::invalid_argument("codec: kind");
    regs[(long)t.at(1)] = std::move(g);
    o.R(1); break; }
  case 22: { // r := deserialize(bytes) as kind
    int kind = (int)t.at(2); Reg g; g.kind = kind;
    std::vector<uint8_t> v; for (size_t i = 3; i < t.size(); ++i) v.push_back((uint8_t)t[i]);
    if (kind == 0) deser_op<K0>(g, v.data(), v.size()); else if (kind == 1) deser_op<K1>(g, v.data(), v.size());
    else throw std::invalid_argument("codec: kind");
    regs[(long)t.at(1)] = std::move(g);
    o.R(1); break; }
  case 97: o.R(1); o.F((I)vh::source().scripted.size()); break;
  default: {
    Reg& g = get(t.at(1));
    if (g.kind == 0) run_op<K0>(op, g, t, o); else if (g.kind == 1) run_op<K1>(op, g, t, o); else if (g.kind == 2) run_op<K2>(op, g, t, o); else run_op<K3>(op, g, t, o);
  }
  }
}

int main(int argc, char** argv) {
  return vh::run_main(argc, argv, [] { regs.clear(); vh::source().seed(0); }, handler);
}
