// drv_ebppscodec.cpp — correspondence harness for the EBPPS sketch image (coq/EbppsCodecDefs.v), properties C09/C10/C11.
//   1 r k (item wbits)*            build ebpps_sketch<int64_t>(k) with the updates (random choices from the hooked source,
//                                  reseeded per op); E: k n cw wmax rho c ndata data.. haspart [part] (doubles as bit patterns);
//                                  R: image bytes (bytes = stream = advertised size, header form = zeros ++ image are checked
//                                  here: -4 / -5 / -7 on disagreement)
//   5 r path cut pos val ntrail    image of r truncated to `cut` bytes (cut < 0: whole), byte `pos` replaced (pos < 0: none), ntrail
//                                  bytes 0xA5 appended; read through path 0 (exact-size heap block) / 1 (stream)
//   3 byte*                        explicit image through deserialize(bytes);  4 byte*: through deserialize(istream)
// a decoded sketch is shown as 1 [bytes consumed] reser k n cw wmax rho c ndata data.. haspart [part]
// (reser = 1 iff the decoded sketch serializes to the bytes it was read from)
#include "common.hpp"
#include "hooksrc.hpp"
#define private public
#define protected public
#include "ebpps_sketch.hpp"
#undef private
#undef protected
#include <sstream>
using namespace datasketches;
using vh::I; using vh::Line; using vh::Out;
typedef ebpps_sketch<int64_t> sk_t;

static std::map<long, std::unique_ptr<sk_t>> regs;
static sk_t& get(I r) { auto it = regs.find((long)r); if (it == regs.end()) throw std::invalid_argument("no such register"); return *it->second; }

template<typename F> static void fields(const sk_t& s, F put) {
  put((I)s.k_); put((I)s.n_); put(vh::dbits(s.cumulative_wt_)); put(vh::dbits(s.wt_max_)); put(vh::dbits(s.rho_));
  put(vh::dbits(s.sample_.c_));
  put((I)s.sample_.data_.size());
  for (int64_t v : s.sample_.data_) put((I)(uint64_t)v);
  if (s.sample_.partial_item_) { put(1); put((I)(uint64_t)*s.sample_.partial_item_); } else put(0);
}

// inputs whose only effect is an allocation above 16 MiB from a header field are not replayed (the model applies the same guard)
static bool alloc_guard(const std::vector<uint8_t>& img) {
  const uint64_t CAP = 16777216;
  if (img.size() < 8) return false;
  uint32_t k; memcpy(&k, img.data() + 4, 4);
  const bool empty = img[3] & 4;
  if (empty) return k >= 1 && k <= 2147483646u && 8ull * k > CAP;
  if (img.size() < 48) return false;
  double c; memcpy(&c, img.data() + 40, 8);
  return c >= 0.0 && c < 4294967296.0 && 8ull * static_cast<uint64_t>(c) > CAP;
}

// 1: the restored sketch serializes to the bytes it was read from, 0: to something else, 2: serialize() throws
static int reser(const sk_t& s, const std::vector<uint8_t>& img) {
  try {
    auto again = s.serialize();
    return (again.size() <= img.size() && std::equal(again.begin(), again.end(), img.begin())) ? 1 : 0;
  } catch (const std::exception&) { return 2; }
}

static void decode(int path, const std::vector<uint8_t>& img, Out& o, bool guarded = true) {
  if (guarded && alloc_guard(img)) { o.R(-8); return; }
  if (path == 0) {
    size_t n = img.size();
    uint8_t* buf = static_cast<uint8_t*>(malloc(n ? n : 1));       // exact size: ASan sees any over-read
    if (n) memcpy(buf, img.data(), n);
    struct Free { uint8_t* p; ~Free() { free(p); } } guard{buf};
    const uint8_t* p = n ? buf : buf + 1;                           // length 0: one past the end of a 1-byte block
    sk_t s = sk_t::deserialize(p, n);
    int same = reser(s, img);
    o.R(1); o.R(same); fields(s, [&](I v) { o.R(v); });
  } else {
    std::istringstream is(std::string(reinterpret_cast<const char*>(img.data()), img.size()), std::ios::in | std::ios::binary);
    sk_t s = sk_t::deserialize(is);
    long pos = (long)is.tellg();
    int same = reser(s, img);
    o.R(1); o.R(pos); o.R(same); fields(s, [&](I v) { o.R(v); });
  }
}

static void handler(const Line& t, Out& o) {
  vh::install_source(o);
  switch ((int)t.at(0)) {
  case 1: {
    I k = t.at(2);
    if (k < 0 || k > 0xffffffffLL) throw std::invalid_argument("k out of uint32 range");
    vh::source().seed((uint64_t)(k * 1000003 + (I)t.size()));
    vh::source().out = nullptr;                                      // the draws are not part of the codec protocol
    std::unique_ptr<sk_t> p(new sk_t((uint32_t)k));
    for (size_t i = 3; i + 1 < t.size(); i += 2) p->update((int64_t)t[i], vh::bitsd(t[i + 1]));
    auto bytes = p->serialize();
    std::ostringstream os(std::ios::binary); p->serialize(os); std::string str = os.str();
    if (str.size() != bytes.size() || memcmp(str.data(), bytes.data(), str.size()) != 0) { o.R(-4); break; }
    if (bytes.size() != p->get_serialized_size_bytes()) { o.R(-5); break; }
    for (unsigned h : {1u, 8u, 13u}) {
      auto hb = p->serialize(h);
      bool okh = hb.size() == bytes.size() + h && std::equal(bytes.begin(), bytes.end(), hb.begin() + h);
      for (unsigned i = 0; i < h && okh; ++i) okh = hb[i] == 0;
      if (!okh) { o.R(-7); return; }
    }
    fields(*p, [&](I v) { o.E(v); });
    for (uint8_t b : bytes) o.R(b);
    regs[(long)t.at(1)] = std::move(p);
    break; }
  case 5: {
    sk_t& s = get(t.at(1));
    auto v = s.serialize();
    std::vector<uint8_t> img(v.begin(), v.end());
    long cut = (long)t.at(3), pos = (long)t.at(4);
    if (cut >= 0 && (size_t)cut < img.size()) img.resize((size_t)cut);
    if (pos >= 0 && (size_t)pos < img.size()) img[(size_t)pos] = (uint8_t)t.at(5);
    for (long i = 0; i < (long)t.at(6); ++i) img.push_back(0xA5);
    decode((int)t.at(2), img, o);
    break; }
  case 3: case 4: {
    std::vector<uint8_t> img; for (size_t i = 1; i < t.size(); ++i) img.push_back((uint8_t)t[i]);
    decode(t.at(0) == 3 ? 0 : 1, img, o);
    break; }
  case 6: {
    std::vector<uint8_t> img; for (size_t i = 1; i < t.size(); ++i) img.push_back((uint8_t)t[i]);
    decode(0, img, o, false);
    break; }
  default: o.R(-2);
  }
}

int main(int argc, char** argv) { return vh::run_main(argc, argv, [] { regs.clear(); }, handler); }
