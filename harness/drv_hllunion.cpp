// drv_hllunion.cpp — correspondence harness for hll_union (C04).
// Input sketches are built from raw coupons (private hll_sketch::coupon_update) or real int64 items; a union is fed
// sketches by const& or by && (a moved copy), raw coupons (the gadget's private coupon_update, which is what every update(datum) overload reaches) and real items, is asked
// for estimates (which run the deferred check_rebuild_kxq_cur_min) and reset.  Observed: only logical content of
// get_result(type) — lg_k, type, mode, emptiness, out-of-order flag, the number of zero registers as the estimators read
// it (cur_min == 0 ? num_at_cur_min : 0), and the registers through the array iterator / the sorted distinct coupons.
// cur_min, num_at_cur_min, kxq and hip of the gadget are deliberately NOT printed: when they are recomputed is an
// implementation choice (deferred or eager rebuild) that the property does not constrain.
#include "common.hpp"
#include <cmath>
#include <algorithm>
#include <iterator>
#include <exception>
#include <sstream>
#include <iomanip>
#define private public
#define protected public
#include "hll.hpp"
#undef private
#undef protected
using namespace datasketches;
using vh::I; using vh::Line; using vh::Out;
typedef hll_sketch sk_t;
typedef hll_union un_t;
typedef std::allocator<uint8_t> A;
static std::map<long, std::unique_ptr<sk_t>> regs;
static std::map<long, std::unique_ptr<un_t>> unions;

static sk_t& get(I r) {
  auto it = regs.find((long)r);
  if (it == regs.end()) throw std::invalid_argument("no such sketch register");
  return *it->second;
}
static un_t& getu(I r) {
  auto it = unions.find((long)r);
  if (it == unions.end()) throw std::invalid_argument("no such union register");
  return *it->second;
}

static target_hll_type ty_of(I t) {
  switch ((int)t) { case 0: return HLL_4; case 1: return HLL_6; case 2: return HLL_8; }
  throw std::invalid_argument("bad type");
}

static void observe(const sk_t& s, Out& o) {
  o.R(s.get_lg_config_k());
  o.R((int)s.get_target_type());
  hll_mode m = s.get_current_mode();
  o.R((int)m);
  o.R(s.is_empty() ? 1 : 0);
  o.R(s.is_out_of_order_flag() ? 1 : 0);
  if (m == LIST || m == SET) {
    const CouponList<A>* cl = static_cast<const CouponList<A>*>(s.sketch_impl);
    o.R(cl->getCouponCount());
    std::vector<uint32_t> v;
    for (auto it = cl->begin(false); it != cl->end(); ++it) v.push_back(*it);
    std::sort(v.begin(), v.end());
    v.erase(std::unique(v.begin(), v.end()), v.end());
    for (uint32_t c : v) o.R(c);
  } else {
    const HllArray<A>* h = static_cast<const HllArray<A>*>(s.sketch_impl);
    o.R(h->getCurMin() == 0 ? h->getNumAtCurMin() : 0);
    const uint32_t k = 1u << s.get_lg_config_k();
    std::vector<uint32_t> vals(k, 0);
    uint32_t n = 0;
    for (auto it = h->begin(true); it != h->end(); ++it) {
      uint32_t p = *it;
      uint32_t slot = p & ((1u << 26) - 1);
      if (slot < k) vals[slot] = p >> 26;
      ++n;
    }
    if (n != k) throw std::logic_error("iterator did not visit k slots");
    for (uint32_t v : vals) o.R(v);
  }
}

// one item through the update() overload selected by kind (same numbering as drv_hll.cpp / HllDefs.item_bytes):
// 0 uint64, 1 int64, 2 std::string, 3 double bits, 4 float bits, 5 int32, 6 uint32, 7 int16, 8 uint16, 9 int8, 10 uint8,
// 11 (const void*, size_t).  hll_sketch and hll_union have the same overload set.
template<typename S> static void update_item(S& s, int kind, const Line& t, size_t from) {
  I a0 = t.size() > from ? t[from] : 0;
  switch (kind) {
  case 0: s.update((uint64_t)a0); break;
  case 1: s.update((int64_t)a0); break;
  case 2: s.update(vh::bytes_of(t, from)); break;
  case 3: s.update(vh::bitsd(a0)); break;
  case 4: s.update(vh::bitsf(a0)); break;
  case 5: s.update((int32_t)(uint32_t)a0); break;
  case 6: s.update((uint32_t)a0); break;
  case 7: s.update((int16_t)(uint16_t)a0); break;
  case 8: s.update((uint16_t)a0); break;
  case 9: s.update((int8_t)(uint8_t)a0); break;
  case 10: s.update((uint8_t)a0); break;
  case 11: { std::string b = vh::bytes_of(t, from); s.update((const void*)b.data(), b.size()); break; }
  default: throw std::invalid_argument("bad item kind");
  }
}

static void compare_big(const sk_t& a, const sk_t& b, Out& o) {
  if (a.get_current_mode() != HLL || b.get_current_mode() != HLL || a.get_target_type() != HLL_8 || b.get_target_type() != HLL_8)
    throw std::logic_error("compare_big wants two HLL_8 sketches in HLL mode");
  const auto& x = static_cast<const HllArray<A>*>(a.sketch_impl)->getHllArray();
  const auto& y = static_cast<const HllArray<A>*>(b.sketch_impl)->getHllArray();
  o.R(a.get_lg_config_k()); o.R(b.get_lg_config_k());
  uint64_t below = 0, above = 0; long first = -1;
  if (x.size() == y.size()) {
    for (size_t i = 0; i < x.size(); ++i) {
      if (x[i] < y[i]) ++below; else if (x[i] > y[i]) ++above; else continue;
      if (first < 0) first = (long)i;
    }
  }
  o.R((I)below); o.R((I)above); o.R(first);
  o.R(first >= 0 ? x[(size_t)first] : 0); o.R(first >= 0 ? y[(size_t)first] : 0);
  o.R(a.is_empty() ? 1 : 0); o.R(b.is_empty() ? 1 : 0); o.R((int)a.get_current_mode());
}

static double call_getter(const un_t& u, int g) {
  switch (g) {
  case 0: return u.get_estimate();
  case 1: return u.get_composite_estimate();
  case 2: case 3: case 4: return u.get_lower_bound((uint8_t)(g - 1));
  default: return u.get_upper_bound((uint8_t)(g - 4));
  }
}

static void handler(const Line& t, Out& o) {
  switch ((int)t.at(0)) {
  case 1: { // new sketch: 1 r lgk ty full
    int ty = (int)t.at(3);
    if (ty < 0 || ty > 2) { o.R(-2); break; }
    std::unique_ptr<sk_t> p(new sk_t((uint8_t)t.at(2), ty_of(t.at(3)), t.at(4) != 0));
    regs[(long)t.at(1)] = std::move(p);
    o.R(1); break; }
  case 2: { // one real item into a sketch through the overload `kind`: 2 r kind args
    update_item(get(t.at(1)), (int)t.at(2), t, 3);
    o.R(1); break; }
  case 20: { // one real item into the union through hll_union's overload `kind`: 20 u kind args
    update_item(getu(t.at(1)), (int)t.at(2), t, 3);
    o.R(1); break; }
  case 3: { // raw coupons into a sketch: 3 r c*
    sk_t& s = get(t.at(1));
    for (size_t i = 2; i < t.size(); ++i) s.coupon_update((uint32_t)t[i]);
    o.R(1); break; }
  case 4: { // real items (int64) start + i*stride, i < count: 4 r start count stride
    sk_t& s = get(t.at(1));
    uint64_t x = (uint64_t)t.at(2), n = (uint64_t)t.at(3), st = (uint64_t)t.at(4);
    for (uint64_t i = 0; i < n; ++i) { s.update((int64_t)x); x += st; }
    o.R(1); break; }
  case 6: observe(get(t.at(1)), o); break;
  case 10: { // new union: 10 u lg_max_k
    std::unique_ptr<un_t> p(new un_t((uint8_t)t.at(2)));
    unions[(long)t.at(1)] = std::move(p);
    o.R(1); break; }
  case 11: { // union.update(sketch): 11 u r rvalue
    un_t& u = getu(t.at(1));
    sk_t& s = get(t.at(2));
    if (t.at(3) != 0) { sk_t tmp(s); u.update(std::move(tmp)); }
    else u.update(static_cast<const sk_t&>(s));
    o.R(1); break; }
  case 12: { // raw coupons into the union: 12 u c*
    un_t& u = getu(t.at(1));
    // hll_union::coupon_update (private, unused) does not compile when instantiated (it calls a non-existent
    // HllSketchImpl::coupon_update); the public update(datum) overloads are gadget_.update(datum), i.e. the gadget's
    // coupon_update applied to the coupon of the hash — which is what is driven here.
    for (size_t i = 2; i < t.size(); ++i) u.gadget_.coupon_update((uint32_t)t[i]);
    o.R(1); break; }
  case 13: { // real items into the union: 13 u start count stride
    un_t& u = getu(t.at(1));
    uint64_t x = (uint64_t)t.at(2), n = (uint64_t)t.at(3), st = (uint64_t)t.at(4);
    for (uint64_t i = 0; i < n; ++i) { u.update((int64_t)x); x += st; }
    o.R(1); break; }
  case 14: { // get_result(ty): 14 u ty
    un_t& u = getu(t.at(1));
    sk_t res = u.get_result(ty_of(t.at(2)));
    observe(res, o);
    break; }
  case 15: { // estimate-type calls: 15 u which
    un_t& u = getu(t.at(1));
    double d = 0;
    switch ((int)t.at(2)) {
    case 0: d = u.get_estimate(); break;
    case 1: d = u.get_composite_estimate(); break;
    case 2: d = u.get_lower_bound(2); break;
    default: d = u.get_upper_bound(2); break;
    }
    o.R(1); o.Fd(d); break; }
  case 16: { getu(t.at(1)).reset(); o.R(1); break; }
  case 17: { // the union's own accessors
    un_t& u = getu(t.at(1));
    o.R(u.get_lg_config_k());
    o.R(u.is_empty() ? 1 : 0);
    o.R((int)u.get_current_mode());
    o.R((int)u.get_target_type());
    break; }
  case 18: { // r := u.get_result(ty): 18 u r ty
    un_t& u = getu(t.at(1));
    std::unique_ptr<sk_t> p(new sk_t(u.get_result(ty_of(t.at(3)))));
    regs[(long)t.at(2)] = std::move(p);
    o.R(1); break; }
  case 19: { // every estimator entry point of the union, called FIRST on a fresh copy and called LAST (after all the
             // others) on another fresh copy: 19 u  -> F first_0 after_0 ... first_7 after_7
             // (0 get_estimate, 1 get_composite_estimate, 2..4 get_lower_bound(1..3), 5..7 get_upper_bound(1..3))
    un_t& u = getu(t.at(1));
    for (int g = 0; g < 8; ++g) {
      un_t c1(u);
      double first = call_getter(c1, g);
      un_t c2(u);
      for (int h = 0; h < 8; ++h) if (h != g) (void)call_getter(c2, h);
      double after = call_getter(c2, g);
      o.Fd(first); o.Fd(after);
    }
    o.R(1); break; }
  case 21: { // big-configuration comparison, done here because 2^17..2^21 registers do not fit a transcript line:
             // get_result(HLL_8) of union u against the CONTROL sketch r (an HLL_8 hll_sketch of the expected lg_k that was fed
             // every item directly): 21 u r -> R lg_k(result) lg_k(control) #slots_below #slots_above first_bad_slot its_value
             //                                 control_value is_empty(result) is_empty(control) mode(result)
    un_t& u = getu(t.at(1));
    sk_t res = u.get_result(HLL_8);
    sk_t& c = get(t.at(2));
    compare_big(res, c, o);
    o.R(u.get_lg_config_k());
    break; }
  case 22: { // the same between the results of two unions: 22 u u2
    sk_t r1 = getu(t.at(1)).get_result(HLL_8);
    sk_t r2 = getu(t.at(2)).get_result(HLL_8);
    compare_big(r1, r2, o);
    break; }
  default: o.R(-2);
  }
}

int main(int argc, char** argv) {
  return vh::run_main(argc, argv, [] { regs.clear(); unions.clear(); }, handler);
}
