// drv_density.cpp — correspondence harness for density_sketch<double, Kernel> (C20).
// Kernel kinds: 0 = harness kernel 2^-L1 with compact support (exact dyadic values, exactly 0 beyond L1 = 20),
//               1 = harness kernel, signed and asymmetric (sign by the parity of the first coordinate of the first argument),
//               2 = the library's gaussian_kernel<double>.
// All coordinates are integers (exactly representable); every random choice goes through the installed hook source
// and is logged in the E line.
#include "hooksrc.hpp"
#define private public
#define protected public
#include "density_sketch.hpp"
#undef private
#undef protected
#include <algorithm>
#include <cmath>
#include <cstring>
#include <sstream>
using namespace datasketches;
using vh::I; using vh::Line; using vh::Out;
typedef std::vector<double> Pt;

static double l1dist(const Pt& a, const Pt& b) {
  size_t n = std::min(a.size(), b.size());
  double d = 0;
  for (size_t i = 0; i < n; ++i) d += std::fabs(a[i] - b[i]);
  return d;
}
// Both harness kernels have STATE (a radius) that differs from the default-constructed one for every scripted sketch, and the
// sketch receives the kernel object through the public constructor density_sketch(k, dim, kernel): a sketch that ran on a
// default-constructed kernel instead would be visibly different (kernel0() is identically 0, kernel1() saturates at distance 0).
// Kernel code in the scripts: kind = code % 4, radius = 20 - code / 4.
struct kernel0 {
  int r;
  kernel0() : r(-1) {}
  explicit kernel0(int radius) : r(radius) {}
  double operator()(const Pt& a, const Pt& b) const {
    double d = l1dist(a, b);
    return d <= r ? std::ldexp(1.0, -(int)d) : 0.0;
  }
};
struct kernel1 {
  int r;
  kernel1() : r(0) {}
  explicit kernel1(int radius) : r(radius) {}
  double operator()(const Pt& a, const Pt& b) const {
    double d = std::min(l1dist(a, b), (double)r);
    double s = (!a.empty() && std::fmod(std::fabs(a[0]), 2.0) == 1.0) ? -1.0 : 1.0;
    return s * std::ldexp(1.0, -(int)d);
  }
};

struct Reg {
  virtual ~Reg() {}
  virtual void update(const Pt& p) = 0;
  virtual void merge(Reg& other) = 0;
  virtual void getters(Out& o) = 0;
  virtual double estimate(const Pt& q) = 0;
  virtual void iterate(Out& o) = 0;
  virtual std::unique_ptr<Reg> roundtrip() = 0;
  virtual int kind() const = 0;
  virtual std::string image(int path, unsigned header) = 0;
};

template<typename K> struct make_kernel { static K of(int) { return K(); } };
template<> struct make_kernel<kernel0> { static kernel0 of(int code) { return kernel0(20 - code / 4); } };
template<> struct make_kernel<kernel1> { static kernel1 of(int code) { return kernel1(20 - code / 4); } };

template<typename K> struct RegT : Reg {
  typedef density_sketch<double, K> sk_t;
  int code;
  sk_t sk;
  RegT(uint16_t k, uint32_t dim, int code_) : code(code_), sk(k, dim, make_kernel<K>::of(code_)) {}   // the PUBLIC constructor with a kernel
  RegT(sk_t&& s, int code_) : code(code_), sk(std::move(s)) {}
  void update(const Pt& p) override { sk.update(p); }
  void merge(Reg& other) override { sk.merge(dynamic_cast<RegT<K>&>(other).sk); }
  void getters(Out& o) override {
    o.R((I)sk.get_n()); o.R((I)sk.get_num_retained()); o.R(sk.is_estimation_mode() ? 1 : 0);
    o.R(sk.is_empty() ? 1 : 0); o.R((I)sk.get_k()); o.R((I)sk.get_dim());
    o.F((I)sk.levels_.size());
  }
  double estimate(const Pt& q) override { return sk.get_estimate(q); }
  typedef std::vector<std::vector<int64_t>> Items;
  template<typename P> static void add_item(Items& items, const P& pr) {
    std::vector<int64_t> e;
    e.push_back((int64_t)pr.second);
    for (double c : pr.first) e.push_back((int64_t)c);
    items.push_back(e);
  }
  // the sketch is walked in four ways: ++it, it++, *it++ and range-for; all must expose the same (point, weight) pairs.
  // R reports the first walk that deviates from the pre-increment walk (the plain walk when none does); F[2] = its number (0 = none).
  void iterate(Out& o) override {
    Items walk[4];
    for (auto it = sk.begin(); it != sk.end(); ++it) add_item(walk[0], *it);
    for (auto it = sk.begin(); it != sk.end(); it++) add_item(walk[1], *it);
    { auto it = sk.begin(); while (it != sk.end()) { const auto pr = *it++; add_item(walk[2], pr); } }
    for (const auto pr : sk) add_item(walk[3], pr);
    int dev = 0;
    for (int w = 0; w < 4; ++w) std::sort(walk[w].begin(), walk[w].end());
    for (int w = 1; w < 4 && !dev; ++w) if (walk[w] != walk[0]) dev = w;
    const Items& items = walk[dev];
    o.R((I)sk.get_num_retained()); o.R((I)items.size());
    o.F((I)sk.levels_.size()); o.F((I)sk.get_k()); o.F((I)dev);
    for (const auto& e : items) for (int64_t v : e) o.R((I)v);
  }
  std::unique_ptr<Reg> roundtrip() override {
    auto bytes = sk.serialize();
    return std::unique_ptr<Reg>(new RegT<K>(sk_t::deserialize(bytes.data(), bytes.size(), make_kernel<K>::of(code)), code));
  }
  int kind() const override { return code; }
  // path 0: serialize(header) to a byte vector; path 1: serialize(ostream)
  std::string image(int path, unsigned header) override {
    if (path == 0) {
      auto bytes = sk.serialize(header);
      return std::string(reinterpret_cast<const char*>(bytes.data()), bytes.size());
    }
    std::stringstream ss(std::ios::in | std::ios::out | std::ios::binary);
    sk.serialize(ss);
    return ss.str();
  }
};

// deserialize an image (path 0: from a heap buffer of exactly its size; path 1: from a stream that ends with it), print the
// content through the public API: R = 1, bytes consumed (stream path, else 0), k, dim, num_retained, n, is_estimation_mode,
// then the iteration in order (weight, coordinate bit patterns).  Returns the register, or null when some coordinate is not an
// integer-valued double (the model keeps no register for such a sketch either).
template<typename K> static std::unique_ptr<Reg> decode(int code, const std::string& img, int path, Out& o) {
  typedef density_sketch<double, K> sk_t;
  std::unique_ptr<sk_t> sk;
  I used = 0;
  if (path == 0) {
    std::unique_ptr<char[]> buf(new char[img.size()]);
    memcpy(buf.get(), img.data(), img.size());
    sk.reset(new sk_t(sk_t::deserialize(buf.get(), img.size(), make_kernel<K>::of(code))));
  } else {
    std::stringstream ss(img, std::ios::in | std::ios::binary);
    sk.reset(new sk_t(sk_t::deserialize(ss, make_kernel<K>::of(code))));
    ss.clear();
    used = (I)(long)ss.tellg();
  }
  o.R(1); o.R(used); o.R((I)sk->get_k()); o.R((I)sk->get_dim()); o.R((I)sk->get_num_retained()); o.R((I)sk->get_n());
  o.R(sk->is_estimation_mode() ? 1 : 0);
  bool integral = true;
  for (auto it = sk->begin(); it != sk->end(); ++it) {
    const auto pr = *it;
    o.R((I)pr.second);
    for (double c : pr.first) {
      o.R(vh::dbits(c));
      if (!(std::fabs(c) < 9007199254740992.0 && c == std::trunc(c) && !(c == 0 && std::signbit(c)))) integral = false;
    }
  }
  if (!integral) return std::unique_ptr<Reg>();
  return std::unique_ptr<Reg>(new RegT<K>(std::move(*sk), code));
}
static std::unique_ptr<Reg> decode_kind(int kind, const std::string& img, int path, Out& o) {
  if (kind % 4 == 0) return decode<kernel0>(kind, img, path, o);
  if (kind % 4 == 1) return decode<kernel1>(kind, img, path, o);
  return decode<gaussian_kernel<double>>(kind, img, path, o);
}

static std::map<long, std::unique_ptr<Reg>> regs;

static Reg& get(I r) {
  auto it = regs.find((long)r);
  if (it == regs.end()) throw std::invalid_argument("no such register");
  return *it->second;
}
static Pt point_of(const Line& t, size_t from) {
  Pt p;
  for (size_t i = from; i < t.size(); ++i) p.push_back((double)(int64_t)t[i]);
  return p;
}

static void handler(const Line& t, Out& o) {
  vh::install_source(o);
  if (vh::source_op(t, o)) return;
  switch ((int)t.at(0)) {
  case 1: { // new r k dim kind
    uint16_t k = (uint16_t)t.at(2); uint32_t dim = (uint32_t)t.at(3); int kind = (int)t.at(4);
    std::unique_ptr<Reg> p;
    if (kind % 4 == 0) p.reset(new RegT<kernel0>(k, dim, kind));
    else if (kind % 4 == 1) p.reset(new RegT<kernel1>(k, dim, kind));
    else p.reset(new RegT<gaussian_kernel<double>>(k, dim, kind));
    regs[(long)t.at(1)] = std::move(p);
    o.R(1); break; }
  case 2: { // update r coords*
    get(t.at(1)).update(point_of(t, 2)); o.R(1); break; }
  case 3: { // merge r r2
    Reg& a = get(t.at(1)); Reg& b = get(t.at(2));
    if (a.kind() != b.kind()) throw std::invalid_argument("different kernels");   // the scripts only merge sketches of one kernel
    a.merge(b); o.R(1); break; }
  case 4: { // getters r
    get(t.at(1)).getters(o); break; }
  case 5: { // estimate r coords*  (value in F only)
    double e = get(t.at(1)).estimate(point_of(t, 2));
    o.R(1); o.Fd(e); break; }
  case 6: { // iterate r
    get(t.at(1)).iterate(o); break; }
  case 7: { // serialize r, deserialize into r2
    std::unique_ptr<Reg> p = get(t.at(1)).roundtrip();
    regs[(long)t.at(2)] = std::move(p);
    o.R(1); break; }
  case 12: { // bulk update r count start step: count points (start + i * step) of dimension 1 (implementation-only family)
    Reg& a = get(t.at(1));
    for (I i = 0; i < t.at(2); ++i) a.update(Pt(1, (double)(int64_t)(t.at(3) + i * t.at(4))));
    o.R(1); break; }
  case 8: { // serialize r path header  (bytes in R)
    std::string img = get(t.at(1)).image((int)t.at(2), (unsigned)t.at(3));
    o.R(1);
    for (unsigned char c : img) o.R((I)c);
    break; }
  case 10: { // deserialize r2 kind path bytes*
    std::unique_ptr<Reg> p = decode_kind((int)t.at(2), vh::bytes_of(t, 4), (int)t.at(3), o);
    if (p) regs[(long)t.at(1)] = std::move(p); else regs.erase((long)t.at(1));
    break; }
  case 11: { // r r2 path cut extra*: deserialize (the first cut bytes of, when cut >= 0) serialize(r), followed by extra
    Reg& a = get(t.at(1));
    std::string img = a.image(1, 0);
    if (t.at(4) >= 0 && (size_t)t.at(4) < img.size()) img.resize((size_t)t.at(4));
    img += vh::bytes_of(t, 5);
    std::unique_ptr<Reg> p = decode_kind(a.kind(), img, (int)t.at(3), o);
    if (p) regs[(long)t.at(2)] = std::move(p); else regs.erase((long)t.at(2));
    break; }
  default: o.R(-2);
  }
}

int main(int argc, char** argv) {
  return vh::run_main(argc, argv, [] { regs.clear(); }, handler);
}
