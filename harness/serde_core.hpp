// serde_core.hpp — family-independent machinery of the serialization harness drv_serde.cpp (C09, C10, C11).
//  * Obj: type-erased view of "a serializable object in one of its image variants"
//  * tracking operator new/delete (allocation cap, allocation balance = leak detector that works per attempt)
//  * guarded loops: fault enumeration runs in forked children, so that a sanitizer report, a hang or a crash is ONE
//    datum (index, class, diagnostic) of the enumeration instead of the end of the harness process
//  * the C09 round-trip evaluation, the C11 prefix / corruption enumerations
#ifndef VERIF_SERDE_CORE_HPP
#define VERIF_SERDE_CORE_HPP
#include "common.hpp"
#include <algorithm>
#include <new>
#include <cstdlib>
#include <malloc.h>
#include <unistd.h>
#include <signal.h>
#include <fcntl.h>
#include <sys/wait.h>
#include <sys/types.h>

extern "C" int __lsan_do_recoverable_leak_check(void);

namespace sd {
using vh::I; using vh::Line; using vh::Out;
typedef std::vector<uint8_t> Bytes;

// ---------------------------------------------------------------------------------------------------------------
// allocation tracking
// ---------------------------------------------------------------------------------------------------------------
struct Track {
  long live_count = 0;
  long long live_bytes = 0;
  bool enabled = false;          // cap enforced only while an enumeration attempt runs
  bool over_cap = false;
  long long base_bytes = 0;
  long base_count = 0;
  size_t biggest = 0;
  static const long long CAP = 64ll << 20;
  static const long CAP_BLOCKS = 200000;     // live blocks per attempt: reaching 64 MiB through millions of small blocks is the same runaway allocation
};
inline Track& track() { static Track t; return t; }
}

inline void* verif_alloc(size_t n) {
  sd::Track& t = sd::track();
  if (t.enabled) {
    if (n > t.biggest) t.biggest = n;
    if ((long long)n > sd::Track::CAP || t.live_bytes - t.base_bytes + (long long)n > sd::Track::CAP || t.live_count - t.base_count > sd::Track::CAP_BLOCKS) {
      t.over_cap = true;
      throw std::bad_alloc();
    }
  }
  void* p = malloc(n ? n : 1);
  if (!p) throw std::bad_alloc();
  ++t.live_count; t.live_bytes += (long long)malloc_usable_size(p);
  return p;
}
inline void verif_free(void* p) {
  if (!p) return;
  sd::Track& t = sd::track();
  --t.live_count; t.live_bytes -= (long long)malloc_usable_size(p);
  free(p);
}
#ifdef SERDE_DEFINE_ALLOC   // exactly one translation unit (drv_serde.cpp) replaces the global allocation functions
void* operator new(size_t n) { return verif_alloc(n); }
void* operator new[](size_t n) { return verif_alloc(n); }
void* operator new(size_t n, const std::nothrow_t&) noexcept { try { return verif_alloc(n); } catch (...) { return nullptr; } }
void* operator new[](size_t n, const std::nothrow_t&) noexcept { try { return verif_alloc(n); } catch (...) { return nullptr; } }
void operator delete(void* p) noexcept { verif_free(p); }
void operator delete[](void* p) noexcept { verif_free(p); }
void operator delete(void* p, const std::nothrow_t&) noexcept { verif_free(p); }
void operator delete[](void* p, const std::nothrow_t&) noexcept { verif_free(p); }
#endif

namespace sd {

// ---------------------------------------------------------------------------------------------------------------
// the object interface
// ---------------------------------------------------------------------------------------------------------------
struct Obj {
  virtual ~Obj() {}
  virtual int fam() const = 0;                               // family code (FAM_*)
  virtual int state_class() { return 0; }                    // mode / flavor code, family specific
  // images
  virtual Bytes ser(unsigned header) = 0;                    // bytes path (header ignored when !has_header())
  virtual void ser(std::ostream& os) = 0;                    // stream path
  virtual bool has_header() const { return true; }
  virtual long adv_size() { return -1; }                     // exact advertised size, -1 = API offers none
  virtual long max_size() { return -1; }                     // advertised upper bound, -1 = none
  // readers; the prototype carries configuration (seed, serde, variant)
  virtual Obj* de(const void* p, size_t n) = 0;
  virtual Obj* de(std::istream& is) = 0;
  virtual bool has_wrap() const { return false; }
  virtual Obj* wrap(const void* p, size_t n) { (void)p; (void)n; return nullptr; }   // view of caller memory (must not outlive it)
  // observation through the public API. full = include libm-derived values (in-process comparison only)
  virtual void observe(Line& l, int mode) = 0;
  // follow-up history ("remains fully functional"): false = not applicable
  virtual bool cont(const Line& seg) { (void)seg; return false; }
  // false: the restored object legitimately draws different random choices than the original (e.g. REQ draws a fresh coin per
  // compactor while deserializing), so after continuing only the coarse observation (mode 3: configuration, counts, extremes,
  // total weight) is compared
  virtual bool cont_exact() { return true; }
  // canonical form of an image whose layout stores a hash table in unspecified order (identity otherwise)
  virtual Bytes canon(const Bytes& b) { return b; }
  virtual bool unordered_layout(const Bytes& b) { (void)b; return false; }
  // image of the same content in an older format the readers claim to accept, written from the documented layout
  virtual bool legacy(int kind, Bytes& out) { (void)kind; (void)out; return false; }
};

inline size_t preamble_len(const Bytes& img) {
  size_t p = img.empty() ? 0 : 8 * (size_t)(img[0] & 0x3f);
  if (p < 32) p = 32;
  if (p > img.size()) p = img.size();
  return p;
}

__attribute__((noinline)) inline void scrub_stack() {
  volatile uint8_t buf[32768];
  for (size_t i = 0; i < sizeof(buf); ++i) buf[i] = 0;
}

// ---------------------------------------------------------------------------------------------------------------
// guarded loop
// ---------------------------------------------------------------------------------------------------------------
enum Outcome { REJECTED = 0, ACC_SAME = 1, ACC_DIFF = 2, OVER_CAP = 3, LEAK = 4, USABLE = 5,
               SANITIZER = 10, TIMEOUT = 11, CRASH = 12 };

struct Offence { long idx; int cls; std::string diag; };
struct LoopResult {
  std::vector<int> outcome;       // per index from start (only completed or classified ones)
  long counts[16];
  std::vector<Offence> offs;
  bool truncated = false;
  LoopResult() { for (int i = 0; i < 16; ++i) counts[i] = 0; }
};

inline std::string slurp(const std::string& path) {
  std::ifstream f(path.c_str(), std::ios::binary);
  std::stringstream ss; ss << f.rdbuf(); return ss.str();
}

// a short, stable description of a sanitizer report: kind + the first frame inside the library headers
inline std::string digest_report(const std::string& txt) {
  std::string kind = "unknown";
  size_t p;
  if ((p = txt.find("ERROR: AddressSanitizer: ")) != std::string::npos) {
    size_t e = txt.find_first_of(" \n", p + 25); kind = txt.substr(p + 25, e - (p + 25));
    size_t rw = txt.find("\nREAD of size", p); size_t ww = txt.find("\nWRITE of size", p);
    if (rw != std::string::npos && (ww == std::string::npos || rw < ww)) kind += "-READ";
    else if (ww != std::string::npos) kind += "-WRITE";
  } else if ((p = txt.find("runtime error: ")) != std::string::npos) {
    size_t e = txt.find('\n', p); kind = "ubsan:" + txt.substr(p + 15, std::min<size_t>(e - (p + 15), 60));
  } else if (txt.find("LeakSanitizer") != std::string::npos) kind = "leak";
  else if (txt.find("Assertion") != std::string::npos) kind = "assert";
  // first stack frame that lies in a library header (helpers that only move bytes are skipped):
  //   "    #1 0x... in <function> <path>/include/<file>:<line>"
  std::string where;
  size_t pos = 0;
  while (pos < txt.size()) {
    size_t e = txt.find('\n', pos); if (e == std::string::npos) e = txt.size();
    std::string line = txt.substr(pos, e - pos); pos = e + 1;
    size_t h = line.find_first_not_of(' ');
    if (h == std::string::npos || line[h] != '#') { if (!where.empty() && line.empty()) break; continue; }
    size_t in = line.find(" in "); size_t sp = line.rfind(' ');
    if (in == std::string::npos || sp == std::string::npos || sp <= in + 3) continue;
    std::string path = line.substr(sp + 1), func = line.substr(in + 4, sp - (in + 4));
    const bool in_headers = path.find("/include/") != std::string::npos && path.find("/usr/") != 0;
    const bool lib_func = func.find("datasketches::") != std::string::npos && func.find("sd::") != 0;
    if (!in_headers && !lib_func) continue;     // some frames come without file:line, only "(module+offset)"
    std::string fname, lno;
    if (in_headers) {
      size_t sl = path.rfind('/'); std::string file = path.substr(sl + 1);
      size_t col = file.find(':'); fname = file.substr(0, col);
      lno = col == std::string::npos ? "" : file.substr(col + 1);
      size_t c2 = lno.find_first_not_of("0123456789"); if (c2 != std::string::npos) lno = lno.substr(0, c2);
      if (fname == "memory_operations.hpp" || fname == "common_defs.hpp") continue;
    }
    std::string f2; int depth = 0;
    for (size_t i = 0; i < func.size(); ++i) {
      char c = func[i];
      if (c == '<') ++depth; else if (c == '>') --depth; else if (depth == 0) { if (c == '(') break; f2.push_back(c); }
    }
    while (!f2.empty() && f2.back() == ' ') f2.pop_back();
    size_t s2 = f2.rfind(' '); if (s2 != std::string::npos) f2 = f2.substr(s2 + 1);
    size_t ns = f2.find("datasketches::"); if (ns != std::string::npos) f2 = f2.substr(ns + 14);
    if (f2 == "copy_from_mem" || f2 == "copy_to_mem" || f2 == "read" || f2 == "write" || f2 == "ensure_minimum_memory" || f2 == "check_memory_size") continue;
    where = (fname.empty() ? std::string("?") : fname + ":" + lno) + " " + f2;
    break;
  }
  return kind + " @ " + where;
}

// attempt(i) is executed for i in [start,total) inside forked children; returns an Outcome (< 10).
inline LoopResult guarded_loop(long start, long total, const std::function<int(long)>& attempt,
                               unsigned per_attempt_timeout_s = 6, size_t max_offences = 24) {
  LoopResult res;
  long next = start;
  char tmpl[] = "/tmp/verif_serde_errXXXXXX";
  int efd = mkstemp(tmpl);
  std::string epath = tmpl;
  if (efd >= 0) close(efd);
  while (next < total) {
    if (res.offs.size() >= max_offences) { res.truncated = true; break; }
    fflush(stdout); fflush(stderr);
    int pfd[2];
    if (pipe(pfd) != 0) throw std::runtime_error("pipe failed");
    pid_t pid = fork();
    if (pid < 0) throw std::runtime_error("fork failed");
    if (pid == 0) {
      close(pfd[0]);
      int fd = open(epath.c_str(), O_WRONLY | O_TRUNC | O_CREAT, 0600);
      if (fd >= 0) { dup2(fd, 2); close(fd); }
      int devnull = open("/dev/null", O_WRONLY);
      if (devnull >= 0) { dup2(devnull, 1); close(devnull); }
      signal(SIGALRM, SIG_DFL);
      for (long i = next; i < total; ++i) {
        alarm(per_attempt_timeout_s);
        int32_t rec[2]; rec[0] = (int32_t)i; rec[1] = REJECTED;
        try { rec[1] = attempt(i); } catch (...) { rec[1] = REJECTED; }
        alarm(0);
        if (write(pfd[1], rec, sizeof(rec)) != (ssize_t)sizeof(rec)) _exit(3);
      }
      close(pfd[1]);
      _exit(0);
    }
    close(pfd[1]);
    long last = next - 1;
    int32_t rec[2];
    for (;;) {
      size_t got = 0; ssize_t r = 0;
      while (got < sizeof(rec) && (r = read(pfd[0], (char*)rec + got, sizeof(rec) - got)) > 0) got += (size_t)r;
      if (got < sizeof(rec)) break;
      last = rec[0];
      int oc = rec[1];
      res.outcome.push_back(oc);
      if (oc >= 0 && oc < 16) res.counts[oc]++;
      if (oc == ACC_DIFF || oc == LEAK || oc == OVER_CAP) {
        if (res.offs.size() < max_offences) res.offs.push_back(Offence{last, oc, ""});
      }
    }
    close(pfd[0]);
    int status = 0;
    waitpid(pid, &status, 0);
    if (WIFEXITED(status) && WEXITSTATUS(status) == 0) { next = total; break; }
    long culprit = last + 1;
    int cls = CRASH; std::string diag;
    if (WIFSIGNALED(status) && WTERMSIG(status) == SIGALRM) { cls = TIMEOUT; diag = "timeout"; }
    else {
      std::string txt = slurp(epath);
      if (getenv("VERIF_SERDE_DEBUG")) fprintf(stderr, "---- child report (index %ld)\n%s\n", culprit, txt.c_str());
      if (txt.find("Sanitizer") != std::string::npos || txt.find("runtime error") != std::string::npos) {
        cls = SANITIZER; diag = digest_report(txt);
      } else {
        char b[64]; snprintf(b, sizeof b, "status=0x%x", status); diag = b;
        if (WIFSIGNALED(status)) { snprintf(b, sizeof b, " signal=%d", WTERMSIG(status)); diag += b; }
        if (txt.find("Assertion") != std::string::npos) diag += " " + digest_report(txt);
      }
    }
    if (culprit >= total) culprit = total - 1;   // died after the last record (e.g. in teardown)
    res.outcome.push_back(cls);
    res.counts[cls]++;
    res.offs.push_back(Offence{culprit, cls, diag});
    next = culprit + 1;
  }
  unlink(epath.c_str());
  return res;
}

// ---------------------------------------------------------------------------------------------------------------
// single attempts (run inside a guarded child)
// ---------------------------------------------------------------------------------------------------------------
enum Path { P_BYTES = 0, P_STREAM = 1, P_WRAP = 2, P_STREAM_EXC = 3 };

// deserialize `len` bytes of data through `path`, observe; compare with ref when given.
// returns REJECTED / ACC_SAME / ACC_DIFF (or USABLE when ref == nullptr), OVER_CAP, LEAK
inline int attempt_once(Obj& proto, int path, const uint8_t* data, size_t len, const Line* ref) {
  Track& t = track();
  scrub_stack();
  long before = t.live_count;
  t.over_cap = false; t.base_bytes = t.live_bytes; t.base_count = t.live_count; t.enabled = true;
  int oc = REJECTED;
  {
    uint8_t* buf = nullptr;
    try {
      std::unique_ptr<Obj> o;
      if (path == P_BYTES || path == P_WRAP) {
        buf = static_cast<uint8_t*>(malloc(len ? len : 8));       // exact size: ASan sees any over-read
        // length 0: the reader gets the one-past-the-end pointer of an 8-byte block, so that even a read of the first byte is seen
        uint8_t* p = len ? buf : buf + 8;
        if (len) memcpy(buf, data, len);
        if (path == P_BYTES) {
          o.reset(proto.de(p, len));
          free(buf); buf = nullptr;                               // an owning object must not refer to the buffer
        } else {
          o.reset(proto.wrap(p, len));
        }
      } else {
        std::istringstream is(std::string(reinterpret_cast<const char*>(data), len), std::ios::in | std::ios::binary);
        if (path == P_STREAM_EXC) is.exceptions(std::ios::failbit | std::ios::badbit);
        o.reset(proto.de(is));
      }
      if (!o) throw std::runtime_error("no object");
      Line l;
      bool obs_threw = false;
      try { o->observe(l, ref ? 1 : 2); } catch (const std::exception&) { obs_threw = true; }
      if (ref) oc = (!obs_threw && l == *ref) ? ACC_SAME : ACC_DIFF; else oc = USABLE;
      o.reset();
    } catch (const std::exception&) {
      oc = REJECTED;
    } catch (...) {
      oc = REJECTED;
    }
    if (buf) free(buf);
  }
  t.enabled = false;
  if (t.over_cap) oc = OVER_CAP;
  else if (t.live_count != before) oc = LEAK | 0x100;   // tentative: the caller repeats the attempt to confirm
  return oc;
}

inline int attempt(Obj& proto, int path, const uint8_t* data, size_t len, const Line* ref) {
  int oc = attempt_once(proto, path, data, len, ref);
  if (oc & 0x100) {   // allocation balance off: one-time initialisation (tables, locale) or a leak? repeat to tell
    int oc2 = attempt_once(proto, path, data, len, ref);
    if (oc2 & 0x100) return LEAK;
    return oc2;
  }
  return oc;
}

static const int N_CORRUPT_VALUES = 8;
inline uint8_t corrupt_value(uint8_t old, int k) {
  switch (k) {
    case 0: return 0x00; case 1: return 0xFF; case 2: return (uint8_t)(old + 1); case 3: return (uint8_t)(old - 1);
    case 4: return old ^ 0x01; case 5: return old ^ 0x80; case 6: return 0x7F; default: return 0x80;
  }
}

inline void emit_loop(Out& o, const LoopResult& r, long total) {
  // R: total, then counts[rejected, acc_same, acc_diff, over_cap, leak, usable, sanitizer, timeout, crash], truncated,
  //    n_offences, then (idx, class) pairs.  F: diagnostics as text "idx:class:diag\n"...
  o.R(total);
  o.R(r.counts[REJECTED]); o.R(r.counts[ACC_SAME]); o.R(r.counts[ACC_DIFF]); o.R(r.counts[OVER_CAP]); o.R(r.counts[LEAK]);
  o.R(r.counts[USABLE]); o.R(r.counts[SANITIZER]); o.R(r.counts[TIMEOUT]); o.R(r.counts[CRASH]);
  o.R(r.truncated ? 1 : 0);
  o.R((I)r.offs.size());
  std::string txt;
  for (const Offence& f : r.offs) {
    o.R(f.idx); o.R(f.cls);
    char b[48]; snprintf(b, sizeof b, "%ld:%d:", f.idx, f.cls);
    txt += b; txt += f.diag; txt += "\n";
  }
  for (char c : txt) o.F((I)(uint8_t)c);
}

// prefixes: every strict prefix length in [0, size) when size <= dense + 64; for larger images the first `dense` lengths, the last 64
// and `dense` evenly spaced lengths in between (the R line reports the number of lengths tried and the image size)
inline void op_prefixes(Obj& obj, int path, long dense, Out& o, size_t max_off = 24) {
  Bytes img = obj.ser(0);
  Line ref; obj.observe(ref, 1);
  // warm-up on the full image (lazy tables, locale facets)
  { std::unique_ptr<Obj> w; try { if (path == P_WRAP) w.reset(obj.wrap(img.data(), img.size())); else if (path == P_BYTES) w.reset(obj.de(img.data(), img.size()));
      else { std::istringstream is(std::string((const char*)img.data(), img.size())); w.reset(obj.de(is)); }
      if (w) { Line l; w->observe(l, 1); } } catch (const std::exception&) {} }
  const long size = (long)img.size();
  if (dense <= 0) dense = 1 << 30;
  std::vector<long> lens;
  if (size <= dense + 64) { for (long i = 0; i < size; ++i) lens.push_back(i); }
  else {
    for (long i = 0; i < dense; ++i) lens.push_back(i);
    const long span = size - 64 - dense;
    for (long j = 0; j < dense; ++j) { long v = dense + (long)((double)j * (double)span / (double)dense); if (v > lens.back() && v < size - 64) lens.push_back(v); }
    for (long i = size - 64; i < size; ++i) lens.push_back(i);
  }
  LoopResult r = guarded_loop(0, (long)lens.size(), [&](long k) { return attempt(obj, path, img.data(), (size_t)lens[(size_t)k], &ref); }, 6, max_off);
  for (Offence& f : r.offs) f.idx = lens[(size_t)f.idx];     // report lengths, not positions in the list
  emit_loop(o, r, (long)lens.size());
  o.R(size);
}

// corruption: index = position * 8 + k over the preamble bytes
inline void op_corrupt(Obj& obj, int path, long start, Out& o, size_t max_off = 24) {
  Bytes img = obj.ser(0);
  { std::unique_ptr<Obj> w; try { if (path == P_WRAP) w.reset(obj.wrap(img.data(), img.size())); else if (path == P_BYTES) w.reset(obj.de(img.data(), img.size()));
      else { std::istringstream is(std::string((const char*)img.data(), img.size())); w.reset(obj.de(is)); }
      if (w) { Line l; w->observe(l, 1); } } catch (const std::exception&) {} }
  long total = (long)preamble_len(img) * N_CORRUPT_VALUES;
  LoopResult r = guarded_loop(start, total, [&](long idx) {
    size_t pos = (size_t)(idx / N_CORRUPT_VALUES); int k = (int)(idx % N_CORRUPT_VALUES);
    uint8_t nv = corrupt_value(img[pos], k);
    if (nv == img[pos]) return (int)ACC_SAME;    // not a corruption: counted as "same"
    // skip replacement values already tried at this position
    for (int j = 0; j < k; ++j) if (corrupt_value(img[pos], j) == nv) return (int)ACC_SAME;
    Bytes mod(img); mod[pos] = nv;
    return attempt(obj, path, mod.data(), mod.size(), nullptr);
  }, 6, max_off);
  emit_loop(o, r, total);
}

// ---------------------------------------------------------------------------------------------------------------
// C09 round trip
// ---------------------------------------------------------------------------------------------------------------
// R tokens (one position per sub-check; 1 ok, 0 failed, 2 not applicable, 3 ok up to entry order, -1 threw):
//  0 a_bytes_eq_stream   1 b_size   2 c_de_bytes   3 c_de_stream   4 c_stream_pos   5 d_same_bytes   6 d_same_stream
//  7 e_reser_bytes   8 e_reser_stream   9 g_continue  10 a2_serialize_pure  11 b2_max_size  12 w_wrap_same
//  then: bytes size, stream size, advertised size, consumed by the stream reader, state class
enum { RT_N = 13 };
inline void dbg_lines(const char* what, const Line& a, const Line& b) {
  if (!getenv("VERIF_SERDE_DEBUG")) return;
  fprintf(stderr, "---- %s\n", what);
  const Line* ls[2] = {&a, &b};
  for (int k = 0; k < 2; ++k) { for (I v : *ls[k]) { fputc(' ', stderr); vh::print_tok(stderr, v); } fputc('\n', stderr); }
}
inline void op_roundtrip(Obj& obj, const Line& seg, const std::function<void(int)>& reseed, Out& o) {
  int f[RT_N]; for (int i = 0; i < RT_N; ++i) f[i] = 2;
  long sz_b = -1, sz_s = -1, sz_adv = -1, consumed = -1;
  int cls = obj.state_class();
  long adv = -1, mx = -1;
  try { adv = obj.adv_size(); } catch (const std::exception&) { adv = -2; }
  try { mx = obj.max_size(); } catch (const std::exception&) { mx = -2; }
  Bytes b = obj.ser(0);
  std::ostringstream os(std::ios::binary); obj.ser(os); std::string s = os.str();
  Bytes b2 = obj.ser(0);
  sz_b = (long)b.size(); sz_s = (long)s.size(); sz_adv = adv;
  f[0] = (b.size() == s.size() && memcmp(b.data(), s.data(), b.size()) == 0) ? 1 : 0;
  f[10] = (b == b2) ? 1 : 0;
  if (adv == -2) f[1] = -1; else if (adv >= 0) f[1] = (adv == (long)b.size() && adv == (long)s.size()) ? 1 : 0;
  if (mx == -2) f[11] = -1; else if (mx >= 0) f[11] = ((long)b.size() <= mx && (long)s.size() <= mx) ? 1 : 0;
  Line ref; obj.observe(ref, 1);
  std::unique_ptr<Obj> rb, rs;
  try { rb.reset(obj.de(b.data(), b.size())); f[2] = rb ? 1 : 0; } catch (const std::exception&) { f[2] = -1; }
  try {
    std::string padded = s + std::string("\xde\xad\xbe\xef\x01\x02\x03\x04\xff\xff\xff\xff\xff\xff\xff\xff", 16);
    std::istringstream is(padded, std::ios::in | std::ios::binary);
    rs.reset(obj.de(is)); f[3] = rs ? 1 : 0;
    std::streamoff pos = is.tellg();
    consumed = (long)pos;
    f[4] = (consumed == (long)s.size()) ? 1 : 0;
  } catch (const std::exception&) { f[3] = -1; }
  if (rb) { try { Line l; rb->observe(l, 1); f[5] = (l == ref) ? 1 : 0; if (!f[5]) dbg_lines("original vs restored from bytes", ref, l); } catch (const std::exception&) { f[5] = -1; } }
  if (rs) { try { Line l; rs->observe(l, 1); f[6] = (l == ref) ? 1 : 0; } catch (const std::exception&) { f[6] = -1; } }
  // re-serialization (taken from fresh restorations, so that observation side effects play no role)
  try {
    std::unique_ptr<Obj> r2(obj.de(b.data(), b.size()));
    Bytes again = r2->ser(0);
    if (again == b) f[7] = 1; else if (obj.unordered_layout(b) && obj.canon(again) == obj.canon(b)) f[7] = 3; else f[7] = 0;
  } catch (const std::exception&) { f[7] = -1; }
  try {
    std::istringstream is(s, std::ios::in | std::ios::binary);
    std::unique_ptr<Obj> r2(obj.de(is));
    std::ostringstream os2(std::ios::binary); r2->ser(os2); std::string s2 = os2.str();
    Bytes a(s.begin(), s.end()), c(s2.begin(), s2.end());
    if (a == c) f[8] = 1; else if (obj.unordered_layout(a) && obj.canon(a) == obj.canon(c)) f[8] = 3; else f[8] = 0;
  } catch (const std::exception&) { f[8] = -1; }
  if (obj.has_wrap()) {
    try { std::unique_ptr<Obj> w(obj.wrap(b.data(), b.size())); Line l; w->observe(l, 1); f[12] = (l == ref) ? 1 : 0; }
    catch (const std::exception&) { f[12] = -1; }
  }
  // continue the same history on the original, on the restoration from bytes and on the one from the stream
  if (rb && !seg.empty()) {
    try {
      reseed(1); bool app = obj.cont(seg);
      if (app) {
        reseed(1); rb->cont(seg);
        const int om = obj.cont_exact() ? 1 : 3;
        Line l0, l1; reseed(2); obj.observe(l0, om); reseed(2); rb->observe(l1, om);
        bool ok = (l0 == l1);
        if (!ok) dbg_lines("continue: original vs restored from bytes", l0, l1);
        if (rs) { reseed(1); rs->cont(seg); Line l2; reseed(2); rs->observe(l2, om); ok = ok && (l0 == l2); }
        if (obj.cont_exact()) {
          reseed(3); Bytes i0 = obj.ser(0); reseed(3); Bytes i1 = rb->ser(0);
          if (!(i0 == i1 || (obj.unordered_layout(i0) && obj.canon(i0) == obj.canon(i1)))) ok = false;
        }
        f[9] = ok ? 1 : 0;
      }
    } catch (const std::exception&) { f[9] = -1; }
  }
  for (int i = 0; i < RT_N; ++i) o.R(f[i]);
  o.R(sz_b); o.R(sz_s); o.R(sz_adv); o.R(consumed); o.R(cls);
}

// header check, guarded (a heap overflow inside serialize(header) must be a datum, not the end of the process):
// R: for each h in {1,7,8,64}: 1 ok / 0 wrong bytes / -1 threw / 10 sanitizer / 11 timeout / 12 crash; F: diagnostics
inline void op_header(Obj& obj, Out& o) {
  static const unsigned HS[4] = {1, 7, 8, 64};
  if (!obj.has_header()) { for (int i = 0; i < 4; ++i) o.R(2); return; }
  Bytes img = obj.ser(0);
  LoopResult r = guarded_loop(0, 4, [&](long i) {
    unsigned h = HS[i];
    try {
      Bytes b = obj.ser(h);
      if (b.size() != img.size() + h) return (int)ACC_DIFF;
      if (memcmp(b.data() + h, img.data(), img.size()) != 0) return (int)ACC_DIFF;
      return (int)ACC_SAME;
    } catch (const std::exception&) { return (int)REJECTED; }
  });
  std::string txt;
  for (size_t i = 0; i < 4; ++i) {
    int oc = i < r.outcome.size() ? r.outcome[i] : CRASH;
    o.R(oc == ACC_SAME ? 1 : oc == ACC_DIFF ? 0 : oc == REJECTED ? -1 : oc);
  }
  for (const Offence& f : r.offs) { char b[32]; snprintf(b, sizeof b, "%ld:%d:", f.idx, f.cls); txt += b; txt += f.diag; txt += "\n"; }
  for (char c : txt) o.F((I)(uint8_t)c);
}

} // namespace sd
#endif
