// drv_cq.cpp — correspondence harness for the classic quantiles_sketch (C07, C08).
// Three instantiations share one operation protocol (the model is over integers with the usual order):
//   kind 0: quantiles_sketch<int64_t>
//   kind 1: quantiles_sketch<double> fed integer values (plus NaN updates / NaN split points)
//   kind 2: quantiles_sketch<std::string, std::greater<std::string>>: item v is stored as enc(-v) with enc an
//           order-preserving fixed-width encoding, so that greater<string> on the stored items is < on v.
//   kind 3: quantiles_sketch<int64_t, DirCmp> with a STATEFUL comparator: DirCmp{desc = true} is passed at construction
//           (a default-constructed DirCmp compares ascending), item v is stored as -v, so that the instance orders the
//           stored items like < orders v, and any use of C() instead of the stored comparator shows.
// Only the public API is used (no private members are read).  Random choices (random_bit in zip_buffer, the
// stride offset in zip_buffer_with_stride) come from the DATASKETCHES_VERIF hook and are logged in the E line.
#include "common.hpp"
#include "hooksrc.hpp"
#include "quantiles_sketch.hpp"
#include <cmath>
#include <limits>
#include <algorithm>
#include <sstream>
#include <cstdlib>
using namespace datasketches;
using vh::I; using vh::Line; using vh::Out;

struct K0 {
  typedef quantiles_sketch<int64_t> sk_t; typedef int64_t item_t;
  static item_t enc(I v) { return (int64_t)v; }
  static I dec(const item_t& x) { return (I)x; }
};
struct K1 {
  typedef quantiles_sketch<double> sk_t; typedef double item_t;
  static item_t enc(I v) { return (double)(int64_t)v; }
  static I dec(const item_t& x) { return (I)(int64_t)x; }
};
struct K2 {
  typedef quantiles_sketch<std::string, std::greater<std::string>> sk_t; typedef std::string item_t;
  static item_t enc(I v) { // order-preserving: 20 decimal digits of (-v + 2^63), long enough to live on the heap
    unsigned long long u = (unsigned long long)((int64_t)(-v)) + 0x8000000000000000ULL;
    char buf[40]; snprintf(buf, sizeof buf, "item:%020llu", u); return std::string(buf);
  }
  static I dec(const item_t& x) {
    unsigned long long u = strtoull(x.c_str() + 5, nullptr, 10);
    return -(I)(int64_t)(u - 0x8000000000000000ULL);
  }
};

struct DirCmp {
  bool desc;
  DirCmp(): desc(false) {}
  explicit DirCmp(bool d): desc(d) {}
  bool operator()(int64_t a, int64_t b) const { return desc ? b < a : a < b; }
};
struct K3 {
  typedef quantiles_sketch<int64_t, DirCmp> sk_t; typedef int64_t item_t;
  static item_t enc(I v) { return (int64_t)(-v); }
  static I dec(const item_t& x) { return -(I)x; }
};

struct Reg {
  int kind;
  std::unique_ptr<K0::sk_t> s0; std::unique_ptr<K1::sk_t> s1; std::unique_ptr<K2::sk_t> s2; std::unique_ptr<K3::sk_t> s3;
};
static std::map<long, Reg> regs;

static Reg& get(I r) {
  auto it = regs.find((long)r);
  if (it == regs.end()) throw std::invalid_argument("no such register");
  return it->second;
}
template<typename K> struct Sel;
template<> struct Sel<K0> { static std::unique_ptr<K0::sk_t>& p(Reg& r) { return r.s0; } };
template<> struct Sel<K1> { static std::unique_ptr<K1::sk_t>& p(Reg& r) { return r.s1; } };
template<> struct Sel<K2> { static std::unique_ptr<K2::sk_t>& p(Reg& r) { return r.s2; } };
template<> struct Sel<K3> { static std::unique_ptr<K3::sk_t>& p(Reg& r) { return r.s3; } };
// deserialize takes the comparator as an argument
template<typename K> struct Des {
  static typename K::sk_t bytes(const void* b, size_t n) { return K::sk_t::deserialize(b, n); }
  static typename K::sk_t stream(std::istream& is) { return K::sk_t::deserialize(is); }
};
template<> struct Des<K3> {
  static K3::sk_t bytes(const void* b, size_t n) { return K3::sk_t::deserialize(b, n, serde<int64_t>(), DirCmp(true)); }
  static K3::sk_t stream(std::istream& is) { return K3::sk_t::deserialize(is, serde<int64_t>(), DirCmp(true)); }
};

static I numer(double rank, uint64_t n) { return (I)std::llround(rank * (double)n); }

template<typename K, typename P> static std::pair<I, I> conv(const P& p) { return std::make_pair(K::dec(p.first), (I)p.second); }

template<typename K> static void run_op(int op, Reg& reg, const Line& t, Out& o) {
  typedef typename K::sk_t S; typedef typename K::item_t T;
  S& s = *Sel<K>::p(reg);
  switch (op) {
  case 2: s.update(K::enc(t.at(2))); o.R(1); break;
  case 5: { // observe
    o.R((I)s.get_n()); o.R((I)s.get_num_retained()); o.R(s.is_empty() ? 1 : 0); o.R(s.is_estimation_mode() ? 1 : 0);
    o.R((I)s.get_k());
    if (!s.is_empty()) { o.R(K::dec(s.get_min_item())); o.R(K::dec(s.get_max_item())); }
    std::vector<std::pair<I, I>> it;
    const size_t limit = (size_t)s.get_num_retained() + 8; // an iterator that never reaches end() is cut here
    for (auto i = s.begin(); i != s.end(); ++i) {
      if (it.size() >= limit) { it.push_back(std::make_pair((I)0, (I)-1)); break; }
      auto p = *i; it.push_back(std::make_pair(K::dec(p.first), (I)p.second));
    }
    { // every way of walking the sketch must expose the same entries: post-increment, *it++, range-for
      std::vector<std::pair<I, I>> w1, w2, w3;
      for (auto i = s.begin(); i != s.end(); i++) {
        if (w1.size() >= limit) { w1.push_back(std::make_pair((I)0, (I)-1)); break; }
        auto p = *i; w1.push_back(std::make_pair(K::dec(p.first), (I)p.second));
      }
      for (auto i = s.begin(); i != s.end(); ) {
        if (w2.size() >= limit) { w2.push_back(std::make_pair((I)0, (I)-1)); break; }
        // the pair holds a reference into the temporary iterator i++ returns (the iterator owns copies of the buffers):
        // it must be consumed inside the same full expression
        w2.push_back(conv<K>(*i++));
      }
      for (const auto& p : s) {
        if (w3.size() >= limit) { w3.push_back(std::make_pair((I)0, (I)-1)); break; }
        w3.push_back(std::make_pair(K::dec(p.first), (I)p.second));
      }
      // on disagreement report the deviating walk: the oracle then judges it like any other exposed listing
      if (w1 != it) it = w1; else if (w2 != it) it = w2; else if (w3 != it) it = w3;
    }
    std::sort(it.begin(), it.end());
    o.R((I)it.size());
    for (auto& p : it) { o.R(p.first); o.R(p.second); }
    break; }
  case 6: { // rank
    T x = K::enc(t.at(2));
    double ri = s.get_rank(x, true), re = s.get_rank(x, false);
    o.R(numer(ri, s.get_n())); o.R(numer(re, s.get_n())); o.R(s.is_estimation_mode() ? 1 : 0);
    o.Fd(ri); o.Fd(re); break; }
  case 7: { // quantile at rank j / 2^t
    double rank = (double)(int64_t)t.at(2) / (double)((uint64_t)1 << (unsigned)t.at(3));
    T a = s.get_quantile(rank, true); T b = s.get_quantile(rank, false);
    o.R(K::dec(a)); o.R(K::dec(b)); o.R(s.is_estimation_mode() ? 1 : 0); break; }
  case 8: { // CDF / PMF
    std::vector<T> sp; for (size_t i = 2; i < t.size(); ++i) sp.push_back(K::enc(t[i]));
    auto ci = s.get_CDF(sp.data(), (uint32_t)sp.size(), true);
    auto ce = s.get_CDF(sp.data(), (uint32_t)sp.size(), false);
    auto pi = s.get_PMF(sp.data(), (uint32_t)sp.size(), true);
    auto pe = s.get_PMF(sp.data(), (uint32_t)sp.size(), false);
    for (double d : ci) o.R(numer(d, s.get_n()));
    for (double d : ce) o.R(numer(d, s.get_n()));
    o.F((I)ci.size());
    for (double d : ci) o.Fd(d);
    for (double d : ce) o.Fd(d);
    for (double d : pi) o.Fd(d);
    for (double d : pe) o.Fd(d);
    break; }
  case 10: { // sorted view, ties collapsed: (item, cumulative weight at the end of its run)
    auto v = s.get_sorted_view();
    std::vector<std::pair<I, I>> g;
    for (auto i = v.begin(); i != v.end(); ++i) {
      auto p = *i; I x = K::dec(p.first);
      if (!g.empty() && g.back().first == x) g.back().second = (I)p.second; else g.push_back(std::make_pair(x, (I)p.second));
    }
    o.R(g.empty() ? 0 : g.back().second);
    for (auto& p : g) { o.R(p.first); o.R(p.second); }
    break; }
  default: o.R(-2);
  }
}

template<typename K> static void merge_op(Reg& a, Reg& b, bool rvalue) {
  typename K::sk_t& x = *Sel<K>::p(a); typename K::sk_t& y = *Sel<K>::p(b);
  if (rvalue) x.merge(std::move(y)); else x.merge(y);
}

// ---------- serialization (kinds 0 and 1: arithmetic items through the default serde) ----------
template<typename K> static void ser_op(Reg& reg, Out& o) {
  typedef typename K::sk_t S;
  S& s = *Sel<K>::p(reg);
  auto v = s.serialize();
  for (uint8_t b : v) o.R((I)b);
  std::ostringstream os(std::ios::binary); s.serialize(os); std::string st = os.str();
  o.F((st.size() == v.size() && memcmp(st.data(), v.data(), v.size()) == 0) ? 1 : 0);   // bytes form = stream form
  o.F((I)s.get_serialized_size_bytes()); o.F((I)v.size());
  auto h = s.serialize(5);                                                               // header form
  bool hok = h.size() == v.size() + 5;
  for (size_t i = 0; hok && i < 5; ++i) hok = h[i] == 0;
  for (size_t i = 0; hok && i < v.size(); ++i) hok = h[5 + i] == v[i];
  o.F(hok ? 1 : 0);
  std::string two = st + std::string("\x5a\x5a\x5a", 3);                               // the stream reader stops after the image
  std::istringstream is(two, std::ios::binary);
  S r = Des<K>::stream(is);
  o.F(((long)is.tellg() == (long)st.size() && r.get_n() == s.get_n()) ? 1 : 0);
}

// both readers on the same bytes; the byte reader gets a heap block of exactly that size (ASan sees any overrun)
// result: 1 both accept, -1 both reject, 2 only the byte reader accepts, 3 only the stream reader accepts
template<typename K> static I deser_both(Reg& g, const std::vector<uint8_t>& v, Out& o) {
  typedef typename K::sk_t S;
  std::unique_ptr<S> a, b; long consumed = -1;
  uint8_t* buf = (uint8_t*)malloc(v.size() ? v.size() : 1);
  if (v.size()) memcpy(buf, v.data(), v.size());
  try { a.reset(new S(Des<K>::bytes(buf, v.size()))); } catch (const std::exception&) {}
  free(buf);
  {
    std::string st((const char*)v.data(), v.size());
    std::istringstream is(st, std::ios::binary);
    try { b.reset(new S(Des<K>::stream(is))); consumed = (long)is.tellg(); } catch (const std::exception&) {}
  }
  if (a && b) {
    bool same = a->get_n() == b->get_n();
    if (same && !a->is_empty()) { // queries on copies, before serialize() sorts the base buffers
      S ca(*a), cb(*b);
      auto qa = ca.get_quantile(0.5), qb = cb.get_quantile(0.5);
      same = K::dec(qa) == K::dec(qb) && ca.get_rank(qa) == cb.get_rank(qa) && ca.get_rank(ca.get_max_item(), false) == cb.get_rank(cb.get_max_item(), false);
    }
    auto x = a->serialize(); auto y = b->serialize();
    o.F((same && x.size() == y.size() && memcmp(x.data(), y.data(), x.size()) == 0) ? 1 : 0);
    o.F((I)consumed);
    Sel<K>::p(g) = std::move(a);
    return 1;
  }
  if (!a && !b) return -1;
  return a ? 2 : 3;
}

static void handler(const Line& t, Out& o) {
  vh::install_source(o);
  if (vh::source_op(t, o)) return;
  int op = (int)t.at(0);
  switch (op) {
  case 1: { // new r kind k
    int kind = (int)t.at(2); I k = t.at(3);
    if (k < 0 || k > 65535) throw std::invalid_argument("k does not fit uint16_t");
    Reg g; g.kind = kind;
    if (kind == 0) g.s0.reset(new K0::sk_t((uint16_t)k));
    else if (kind == 1) g.s1.reset(new K1::sk_t((uint16_t)k));
    else if (kind == 2) g.s2.reset(new K2::sk_t((uint16_t)k));
    else if (kind == 3) g.s3.reset(new K3::sk_t((uint16_t)k, DirCmp(true)));
    else throw std::invalid_argument("kind");
    regs[(long)t.at(1)] = std::move(g);
    o.R(1); break; }
  case 3: { // NaN update
    Reg& g = get(t.at(1));
    if (g.kind == 1) g.s1->update(std::numeric_limits<double>::quiet_NaN());
    o.R(1); break; }
  case 4: { // merge r r2 mode
    if (t.at(1) == t.at(2)) throw std::invalid_argument("self merge not exercised");
    Reg& a = get(t.at(1)); Reg& b = get(t.at(2)); bool rv = t.at(3) == 1;
    if (a.kind != b.kind) throw std::invalid_argument("kinds differ");
    if (a.kind == 0) merge_op<K0>(a, b, rv); else if (a.kind == 1) merge_op<K1>(a, b, rv); else if (a.kind == 2) merge_op<K2>(a, b, rv); else merge_op<K3>(a, b, rv);
    if (rv) regs.erase((long)t.at(2));
    o.R(1); break; }
  case 9: { // CDF with a NaN split point at position t[2] (double sketches)
    Reg& g = get(t.at(1));
    if (g.kind != 1) { // other kinds: nothing to ask; behave as the model (sorted view set up, then refused)
      if (g.kind == 0) { if (!g.s0->is_empty()) g.s0->get_rank(0, true); }
      else if (g.kind == 3) { if (!g.s3->is_empty()) g.s3->get_rank(0, true); }
      else { if (!g.s2->is_empty()) g.s2->get_rank(K2::enc(0), true); }
      throw std::invalid_argument("no NaN for this kind");
    }
    std::vector<double> sp; for (size_t i = 3; i < t.size(); ++i) sp.push_back(K1::enc(t[i]));
    size_t pos = std::min((size_t)t.at(2), sp.size());
    sp.insert(sp.begin() + pos, std::numeric_limits<double>::quiet_NaN());
    auto c = g.s1->get_CDF(sp.data(), (uint32_t)sp.size(), true);
    o.R((I)c.size()); break; }
  case 13: { // r := copy of r2
    Reg& b = get(t.at(2)); Reg g; g.kind = b.kind;
    if (b.kind == 0) g.s0.reset(new K0::sk_t(*b.s0));
    else if (b.kind == 1) g.s1.reset(new K1::sk_t(*b.s1));
    else if (b.kind == 3) g.s3.reset(new K3::sk_t(*b.s3));
    else g.s2.reset(new K2::sk_t(*b.s2));
    regs[(long)t.at(1)] = std::move(g);
    o.R(1); break; }
  case 15: case 16: { // r = r2 (15: copy assignment, 16: move assignment, r2 dropped): operator= on an existing sketch
    if (t.at(1) == t.at(2)) throw std::invalid_argument("self assignment not exercised");
    Reg& a = get(t.at(1)); Reg& b = get(t.at(2));
    if (a.kind != b.kind) throw std::invalid_argument("kinds differ");
    if (op == 15) {
      if (a.kind == 0) *a.s0 = *b.s0; else if (a.kind == 1) *a.s1 = *b.s1; else if (a.kind == 3) *a.s3 = *b.s3; else *a.s2 = *b.s2;
    } else {
      if (a.kind == 0) *a.s0 = std::move(*b.s0); else if (a.kind == 1) *a.s1 = std::move(*b.s1); else if (a.kind == 3) *a.s3 = std::move(*b.s3); else *a.s2 = std::move(*b.s2);
      regs.erase((long)t.at(2));
    }
    o.R(1); break; }
  case 20: { // serialize r: R = image bytes
    Reg& g = get(t.at(1));
    if (g.kind == 0) ser_op<K0>(g, o); else if (g.kind == 1) ser_op<K1>(g, o); else if (g.kind == 3) ser_op<K3>(g, o); else throw std::invalid_argument("codec: kind");
    break; }
  case 21: { // r := deserialize(serialize(r2)), both readers
    Reg& b = get(t.at(2)); Reg g; g.kind = b.kind; I res;
    if (b.kind == 0) { auto v = b.s0->serialize(); res = deser_both<K0>(g, std::vector<uint8_t>(v.begin(), v.end()), o); }
    else if (b.kind == 1) { auto v = b.s1->serialize(); res = deser_both<K1>(g, std::vector<uint8_t>(v.begin(), v.end()), o); }
    else if (b.kind == 3) { auto v = b.s3->serialize(); res = deser_both<K3>(g, std::vector<uint8_t>(v.begin(), v.end()), o); }
    else throw std::invalid_argument("codec: kind");
    if (res == 1) regs[(long)t.at(1)] = std::move(g);
    o.R(res); break; }
  case 22: { // r := deserialize(bytes) as kind, both readers
    int kind = (int)t.at(2); Reg g; g.kind = kind; I res;
    std::vector<uint8_t> v; for (size_t i = 3; i < t.size(); ++i) v.push_back((uint8_t)t[i]);
    if (kind == 0) res = deser_both<K0>(g, v, o); else if (kind == 1) res = deser_both<K1>(g, v, o); else if (kind == 3) res = deser_both<K3>(g, v, o);
    else throw std::invalid_argument("codec: kind");
    if (res == 1) regs[(long)t.at(1)] = std::move(g);
    o.R(res); break; }
  case 97: o.R(1); o.F((I)vh::source().scripted.size()); break;
  default: {
    Reg& g = get(t.at(1));
    if (g.kind == 0) run_op<K0>(op, g, t, o); else if (g.kind == 1) run_op<K1>(op, g, t, o); else if (g.kind == 3) run_op<K3>(op, g, t, o); else run_op<K2>(op, g, t, o);
  }
  }
}

int main(int argc, char** argv) {
  return vh::run_main(argc, argv, [] { regs.clear(); vh::source().seed(0); }, handler);
}
