// drv_reqcodec.cpp — correspondence harness for the REQ serialization (family reqcodec: C09, C10, C11); the sketch
// operations are those of drv_req.cpp (same protocol, same model ReqDefs.v), restricted to arithmetic items.
// Three instantiations share one operation protocol (the model is over integers with the usual order):
//   kind 0: req_sketch<int64_t>
//   kind 1: req_sketch<double> fed integer values (plus NaN updates / NaN split points)
//   kind 3: req_sketch<float> fed integer values (|v| < 2^24)
// Codec operations: 30 r -> R = serialize() bytes, F = [stream form identical, advertised size, size, 5-byte header form ok];
//   31 r r2 / 32 r r2 -> r := deserialize(serialize(r2)) through the bytes / stream reader (F of 32: stream consumed exactly);
//   33 r kind bytes.. / 34 r kind bytes.. -> r := deserialize(bytes) through the bytes / stream reader (F of 34: stream position,
//   -1 when the stream is in a failed state). Every compactor the readers construct draws a coin (E line).
// Only the public API is used (no private members are read).
#include "common.hpp"
#include "hooksrc.hpp"
#include "req_sketch.hpp"
#include <cmath>
#include <limits>
#include <algorithm>
#include <sstream>
#include <cstring>
using namespace datasketches;
using vh::I; using vh::Line; using vh::Out;

struct K0 {
  typedef req_sketch<int64_t> sk_t; typedef int64_t item_t;
  static item_t enc(I v) { return (int64_t)v; }
  static I dec(const item_t& x) { return (I)x; }
};
struct K1 {
  typedef req_sketch<double> sk_t; typedef double item_t;
  static item_t enc(I v) { return (double)(int64_t)v; }
  static I dec(const item_t& x) { return (I)(int64_t)x; }
};
struct K2 {
  typedef req_sketch<float> sk_t; typedef float item_t;
  static item_t enc(I v) { return (float)(int64_t)v; }
  static I dec(const item_t& x) { return (I)(int64_t)x; }
};

struct Reg {
  int kind;
  std::unique_ptr<K0::sk_t> s0; std::unique_ptr<K1::sk_t> s1; std::unique_ptr<K2::sk_t> s2;
};
static std::map<long, Reg> regs;

static Reg& get(I r) {
  auto it = regs.find((long)r);
  if (it == regs.end()) throw std::invalid_argument("no such register");
  return it->second;
}
template<typename K> struct Sel;
template<> struct Sel<K0> { static std::unique_ptr<K0::sk_t>& p(Reg& r) { return r.s0; } };
template<> struct Sel<K1> { static std::unique_ptr<K1::sk_t>& p(Reg& r) { return r.s1; } };
template<> struct Sel<K2> { static std::unique_ptr<K2::sk_t>& p(Reg& r) { return r.s2; } };

static I numer(double rank, uint64_t n) { return (I)std::llround(rank * (double)n); }

template<typename K> static void run_op(int op, Reg& reg, const Line& t, Out& o) {
  typedef typename K::sk_t S; typedef typename K::item_t T;
  S& s = *Sel<K>::p(reg);
  switch (op) {
  case 2: s.update(K::enc(t.at(2))); o.R(1); break;
  case 5: { // observe
    o.R((I)s.get_n()); o.R((I)s.get_num_retained()); o.R(s.is_empty() ? 1 : 0); o.R(s.is_estimation_mode() ? 1 : 0);
    o.R((I)s.get_k()); o.R(s.is_HRA() ? 1 : 0);
    if (!s.is_empty()) { o.R(K::dec(s.get_min_item())); o.R(K::dec(s.get_max_item())); }
    // first walk the iterator WITHOUT dereferencing it, at most num_retained + 1 steps: an iterator that does not
    // stop after num_retained steps is reported by its length instead of being followed into foreign memory
    const uint64_t nret = s.get_num_retained();
    uint64_t steps = 0;
    for (auto i = s.begin(); i != s.end() && steps <= nret; ++i) ++steps;
    if (steps != nret) { o.R((I)steps); break; }
    std::vector<std::pair<I, I>> it;
    for (auto i = s.begin(); i != s.end(); ++i) { auto p = *i; it.push_back(std::make_pair(K::dec(p.first), (I)p.second)); }
    std::sort(it.begin(), it.end());
    o.R((I)it.size());
    for (auto& p : it) { o.R(p.first); o.R(p.second); }
    break; }
  case 6: { // rank
    T x = K::enc(t.at(2));
    double ri = s.get_rank(x, true), re = s.get_rank(x, false);
    o.R(numer(ri, s.get_n())); o.R(numer(re, s.get_n())); o.R(s.is_estimation_mode() ? 1 : 0);
    o.Fd(ri); o.Fd(re);
    // the published bounds around the estimate (1..3 standard deviations)
    for (uint8_t sd = 1; sd <= 3; ++sd) { o.Fd(s.get_rank_lower_bound(ri, sd)); o.Fd(s.get_rank_upper_bound(ri, sd)); }
    break; }
  case 7: { // quantile at rank j / 2^t
    double rank = (double)(int64_t)t.at(2) / (double)((uint64_t)1 << (unsigned)t.at(3));
    T a = s.get_quantile(rank, true); T b = s.get_quantile(rank, false);
    o.R(K::dec(a)); o.R(K::dec(b)); o.R(s.is_estimation_mode() ? 1 : 0); break; }
  case 8: { // CDF / PMF
    std::vector<T> sp; for (size_t i = 2; i < t.size(); ++i) sp.push_back(K::enc(t[i]));
    auto ci = s.get_CDF(sp.data(), (uint32_t)sp.size(), true);
    auto ce = s.get_CDF(sp.data(), (uint32_t)sp.size(), false);
    auto pi = s.get_PMF(sp.data(), (uint32_t)sp.size(), true);
    auto pe = s.get_PMF(sp.data(), (uint32_t)sp.size(), false);
    for (double d : ci) o.R(numer(d, s.get_n()));
    for (double d : ce) o.R(numer(d, s.get_n()));
    o.F((I)ci.size());
    for (double d : ci) o.Fd(d);
    for (double d : ce) o.Fd(d);
    for (double d : pi) o.Fd(d);
    for (double d : pe) o.Fd(d);
    break; }
  case 10: { // sorted view, ties collapsed: (item, cumulative weight at the end of its run)
    auto v = s.get_sorted_view();
    std::vector<std::pair<I, I>> g;
    for (auto i = v.begin(); i != v.end(); ++i) {
      auto p = *i; I x = K::dec(p.first);
      if (!g.empty() && g.back().first == x) g.back().second = (I)p.second; else g.push_back(std::make_pair(x, (I)p.second));
    }
    o.R(g.empty() ? 0 : g.back().second);
    for (auto& p : g) { o.R(p.first); o.R(p.second); }
    break; }
  default: o.R(-2);
  }
}

template<typename K> static void merge_op(Reg& a, Reg& b, bool rvalue) {
  typename K::sk_t& x = *Sel<K>::p(a); typename K::sk_t& y = *Sel<K>::p(b);
  if (rvalue) x.merge(std::move(y)); else x.merge(y);
}


template<typename K> static void ser_op(Reg& reg, Out& o) {
  typedef typename K::sk_t S;
  S& s = *Sel<K>::p(reg);
  auto b = s.serialize();
  for (auto x : b) o.R((I)x);
  std::ostringstream os(std::ios::binary); s.serialize(os); const std::string str = os.str();
  const bool same = str.size() == b.size() && std::memcmp(str.data(), b.data(), b.size()) == 0;
  o.F(same ? 1 : 0); o.F((I)s.get_serialized_size_bytes()); o.F((I)b.size());
  auto h = s.serialize(5);
  bool hok = h.size() == b.size() + 5;
  for (size_t i = 0; hok && i < 5; ++i) hok = h[i] == 0;
  for (size_t i = 0; hok && i < b.size(); ++i) hok = h[i + 5] == b[i];
  o.F(hok ? 1 : 0);
}
template<typename K> static void deser_bytes(Reg& dst, const uint8_t* p, size_t n) {
  typedef typename K::sk_t S;
  // exact-size heap copy: reads past the image are seen by ASan
  std::unique_ptr<uint8_t[]> buf(new uint8_t[n ? n : 1]); if (n) std::memcpy(buf.get(), p, n);
  Sel<K>::p(dst).reset(new S(S::deserialize(buf.get(), n)));
}
template<typename K> static long deser_stream(Reg& dst, const std::string& img) {
  typedef typename K::sk_t S;
  std::istringstream is(img, std::ios::binary);
  Sel<K>::p(dst).reset(new S(S::deserialize(is)));
  return is.good() ? (long)is.tellg() : -1;
}
template<typename K> static void roundtrip_op(int op, Reg& g, Reg& b, Out& o) {
  typedef typename K::sk_t S;
  S& s = *Sel<K>::p(b);
  if (op == 31) { auto v = s.serialize(); deser_bytes<K>(g, v.data(), v.size()); }
  else {
    std::ostringstream os(std::ios::binary); s.serialize(os); const std::string str = os.str();
    long pos = deser_stream<K>(g, str + "XYZ");
    o.F(pos == (long)str.size() ? 1 : 0);
  }
}

static bool is_hra(Reg& g) { return g.kind == 0 ? g.s0->is_HRA() : g.kind == 1 ? g.s1->is_HRA() : g.s2->is_HRA(); }

static void handler(const Line& t, Out& o) {
  vh::install_source(o);
  if (vh::source_op(t, o)) return;
  int op = (int)t.at(0);
  switch (op) {
  case 1: { // new r kind k hra
    int kind = (int)t.at(2); I k = t.at(3); bool hra = t.at(4) != 0;
    if (k < 0 || k > 65535) throw std::invalid_argument("k does not fit uint16_t");
    Reg g; g.kind = kind;
    if (kind == 0) g.s0.reset(new K0::sk_t((uint16_t)k, hra));
    else if (kind == 1) g.s1.reset(new K1::sk_t((uint16_t)k, hra));
    else if (kind == 3) g.s2.reset(new K2::sk_t((uint16_t)k, hra));
    else throw std::invalid_argument("kind");
    regs[(long)t.at(1)] = std::move(g);
    o.R(1); break; }
  case 3: { // NaN update
    Reg& g = get(t.at(1));
    if (g.kind == 1) g.s1->update(std::numeric_limits<double>::quiet_NaN());
    if (g.kind == 3) g.s2->update(std::numeric_limits<float>::quiet_NaN());
    o.R(1); break; }
  case 4: { // merge r r2 mode
    if (t.at(1) == t.at(2)) throw std::invalid_argument("self merge not exercised");
    Reg& a = get(t.at(1)); Reg& b = get(t.at(2)); bool rv = t.at(3) == 1;
    if (a.kind != b.kind) throw std::invalid_argument("kinds differ");
    if (is_hra(a) != is_hra(b)) { // the sketch must refuse by itself; nothing may have changed
      bool threw = false;
      try { if (a.kind == 0) merge_op<K0>(a, b, false); else if (a.kind == 1) merge_op<K1>(a, b, false); else merge_op<K2>(a, b, false); }
      catch (const std::exception&) { threw = true; }
      if (threw) throw std::invalid_argument("refused");
      o.R(2); break; // a mixed-mode merge was accepted
    }
    if (a.kind == 0) merge_op<K0>(a, b, rv); else if (a.kind == 1) merge_op<K1>(a, b, rv); else merge_op<K2>(a, b, rv);
    if (rv) regs.erase((long)t.at(2));
    o.R(1); break; }
  case 13: { // r := copy of r2
    Reg& b = get(t.at(2)); Reg g; g.kind = b.kind;
    if (b.kind == 0) g.s0.reset(new K0::sk_t(*b.s0));
    else if (b.kind == 1) g.s1.reset(new K1::sk_t(*b.s1));
    else g.s2.reset(new K2::sk_t(*b.s2));
    regs[(long)t.at(1)] = std::move(g);
    o.R(1); break; }
  case 20: { // the machine's binary32 arithmetic on the section-size schedule (checks the model's float32 arithmetic;
             // the formulas are those of req_compactor::ensure_enough_sections / nearest_even)
    I k = t.at(1);
    if (k < 4 || k > 65535) throw std::invalid_argument("k");
    volatile float raw = (float)(uint32_t)k; uint32_t sz = (uint32_t)k;
    for (int i = 0; i < 64; ++i) {
      o.R(vh::fbits(raw)); o.R((I)sz);
      volatile float two = 2.0f;
      volatile float ssr = raw / sqrtf(two);
      const uint32_t ne = static_cast<uint32_t>(round(ssr / 2)) << 1;
      if (ne < 4) break;
      raw = ssr; sz = ne;
    }
    break; }
  case 30: { // serialize
    Reg& g = get(t.at(1));
    if (g.kind == 0) ser_op<K0>(g, o); else if (g.kind == 1) ser_op<K1>(g, o); else ser_op<K2>(g, o);
    break; }
  case 31: case 32: { // r := deserialize(serialize(r2)), bytes / stream reader
    Reg& b = get(t.at(2)); Reg g; g.kind = b.kind;
    if (b.kind == 0) roundtrip_op<K0>(op, g, b, o); else if (b.kind == 1) roundtrip_op<K1>(op, g, b, o); else roundtrip_op<K2>(op, g, b, o);
    regs[(long)t.at(1)] = std::move(g);
    o.R(1); break; }
  case 33: case 34: { // r := deserialize(bytes) as kind, bytes / stream reader
    int kind = (int)t.at(2); if (kind != 0 && kind != 1 && kind != 3) throw std::invalid_argument("kind");
    Reg g; g.kind = kind;
    std::vector<uint8_t> v; for (size_t i = 3; i < t.size(); ++i) v.push_back((uint8_t)t[i]);
    if (op == 33) {
      if (kind == 0) deser_bytes<K0>(g, v.data(), v.size()); else if (kind == 1) deser_bytes<K1>(g, v.data(), v.size()); else deser_bytes<K2>(g, v.data(), v.size());
    } else {
      const std::string img((const char*)v.data(), v.size());
      long pos = kind == 0 ? deser_stream<K0>(g, img) : kind == 1 ? deser_stream<K1>(g, img) : deser_stream<K2>(g, img);
      o.F((I)pos);
    }
    regs[(long)t.at(1)] = std::move(g);
    o.R(1); break; }
  case 97: o.R(1); o.F((I)vh::source().scripted.size()); break;
  default: {
    Reg& g = get(t.at(1));
    if (g.kind == 0) run_op<K0>(op, g, t, o); else if (g.kind == 1) run_op<K1>(op, g, t, o); else run_op<K2>(op, g, t, o);
  }
  }
}

int main(int argc, char** argv) {
  return vh::run_main(argc, argv, [] { regs.clear(); vh::source().seed(0); }, handler);
}
