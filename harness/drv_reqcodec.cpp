// drv_reqcodec.cpp — correspondence harness for the REQ serialization (family reqcodec: C09, C10, C11).
// The sketch operations are NOT copied: harness/drv_req.cpp is included (its main renamed), so every operation of the
// protocol (new, update, merge, observe, rank with the published bounds, quantile, CDF, view, copy, ...) is the shared
// handler of the req family, for kinds 0 (int64) and 1 (double).  This file adds
//   kind 3: req_sketch<float> fed integer values (|v| < 2^24), kept in its own register map; the per-sketch operations go
//           through drv_req.cpp's templates run_op<K> (same output format), only new / merge / copy / NaN are written here;
//   the codec operations (kinds 0, 1, 3):
//     30 r        -> R = serialize() bytes, F = [stream form identical, advertised size, size, 5-byte header form ok]
//     31 r r2 / 32 r r2 -> r := deserialize(serialize(r2)) through the bytes / stream reader (F of 32: stream consumed exactly)
//     33 r kind bytes.. / 34 r kind bytes.. -> r := deserialize(bytes) through the bytes / stream reader
//                    (F of 34: stream position, -1 when the stream is in a failed state).
//   Every compactor the readers construct draws a coin (E line).
#define main drv_req_main
#include "drv_req.cpp"
#undef main
#include <sstream>
#include <cstring>

struct K3 {
  typedef req_sketch<float> sk_t; typedef float item_t;
  static item_t enc(I v) { return (float)(int64_t)v; }
  static I dec(const item_t& x) { return (I)(int64_t)x; }
};
static std::map<long, std::unique_ptr<K3::sk_t>> fregs;        // registers holding float sketches
static std::unique_ptr<K3::sk_t>* cur3 = nullptr;              // the float sketch drv_req's templates operate on
template<> struct Sel<K3> { static std::unique_ptr<K3::sk_t>& p(Reg&) { return *cur3; } };

static bool is_f(I r) { return fregs.count((long)r) != 0; }
static std::unique_ptr<K3::sk_t>& getf(I r) {
  auto it = fregs.find((long)r);
  if (it == fregs.end()) throw std::invalid_argument("no such register");
  return it->second;
}
static int kind_of(I r) { if (is_f(r)) return 3; return get(r).kind; }
static void drop(I r) { regs.erase((long)r); fregs.erase((long)r); }

template<typename S> static void ser_out(const S& s, Out& o) {
  auto b = s.serialize();
  for (auto x : b) o.R((I)x);
  std::ostringstream os(std::ios::binary); s.serialize(os); const std::string str = os.str();
  const bool same = str.size() == b.size() && std::memcmp(str.data(), b.data(), b.size()) == 0;
  o.F(same ? 1 : 0); o.F((I)s.get_serialized_size_bytes()); o.F((I)b.size());
  auto h = s.serialize(5);
  bool hok = h.size() == b.size() + 5;
  for (size_t i = 0; hok && i < 5; ++i) hok = h[i] == 0;
  for (size_t i = 0; hok && i < b.size(); ++i) hok = h[i + 5] == b[i];
  o.F(hok ? 1 : 0);
}
template<typename S> static S* from_bytes(const uint8_t* p, size_t n) {
  // exact-size heap copy: reads past the image are seen by ASan
  std::unique_ptr<uint8_t[]> buf(new uint8_t[n ? n : 1]); if (n) std::memcpy(buf.get(), p, n);
  return new S(S::deserialize(buf.get(), n));
}
template<typename S> static S* from_stream(const std::string& img, long& pos) {
  std::istringstream is(img, std::ios::binary);
  S* r = new S(S::deserialize(is));
  pos = is.good() ? (long)is.tellg() : -1;
  return r;
}
// place a freshly read sketch of the given kind into register r
template<typename S> struct Put;
template<> struct Put<K0::sk_t> { static void at(I r, K0::sk_t* s) { drop(r); Reg g; g.kind = 0; g.s0.reset(s); regs[(long)r] = std::move(g); } };
template<> struct Put<K1::sk_t> { static void at(I r, K1::sk_t* s) { drop(r); Reg g; g.kind = 1; g.s1.reset(s); regs[(long)r] = std::move(g); } };
template<> struct Put<K3::sk_t> { static void at(I r, K3::sk_t* s) { drop(r); fregs[(long)r].reset(s); } };

template<typename S> static void read_op(int op, I r, const std::vector<uint8_t>& v, bool garbage, Out& o) {
  if (op == 31 || op == 33) { Put<S>::at(r, from_bytes<S>(v.data(), v.size())); return; }
  std::string img((const char*)v.data(), v.size());
  long pos = -1;
  S* s = from_stream<S>(garbage ? img + "XYZ" : img, pos);
  Put<S>::at(r, s);
  if (op == 32) o.F(pos == (long)img.size() ? 1 : 0); else o.F((I)pos);
}
template<typename S> static std::vector<uint8_t> bytes_of_sketch(const S& s) { auto b = s.serialize(); return std::vector<uint8_t>(b.begin(), b.end()); }

static void codec_handler(const Line& t, Out& o) {
  vh::install_source(o);
  const int op = (int)t.at(0);
  switch (op) {
  case 1: { // new r kind k hra: floats here, everything else in drv_req.cpp
    if ((int)t.at(2) != 3) { handler(t, o); fregs.erase((long)t.at(1)); return; }
    I k = t.at(3); if (k < 0 || k > 65535) throw std::invalid_argument("k does not fit uint16_t");
    std::unique_ptr<K3::sk_t> s(new K3::sk_t((uint16_t)k, t.at(4) != 0));
    drop(t.at(1)); fregs[(long)t.at(1)] = std::move(s);
    o.R(1); return; }
  case 3: if (is_f(t.at(1))) { getf(t.at(1))->update(std::numeric_limits<float>::quiet_NaN()); o.R(1); return; } break;
  case 4: { // merge r r2 mode
    const bool fa = is_f(t.at(1)), fb = is_f(t.at(2));
    if (!fa && !fb) break;
    if (t.at(1) == t.at(2)) throw std::invalid_argument("self merge not exercised");
    if (fa != fb) { get(fa ? t.at(2) : t.at(1)); throw std::invalid_argument("kinds differ"); }
    auto& a = getf(t.at(1)); auto& b = getf(t.at(2)); const bool rv = t.at(3) == 1;
    if (a->is_HRA() != b->is_HRA()) {
      bool threw = false;
      try { a->merge(*b); } catch (const std::exception&) { threw = true; }
      if (threw) throw std::invalid_argument("refused");
      o.R(2); return;
    }
    if (rv) a->merge(std::move(*b)); else a->merge(*b);
    if (rv) fregs.erase((long)t.at(2));
    o.R(1); return; }
  case 13: { // r := copy of r2
    if (!is_f(t.at(2))) { handler(t, o); fregs.erase((long)t.at(1)); return; }
    std::unique_ptr<K3::sk_t> c(new K3::sk_t(*getf(t.at(2))));
    drop(t.at(1)); fregs[(long)t.at(1)] = std::move(c);
    o.R(1); return; }
  case 30: { // serialize
    const int kind = kind_of(t.at(1));
    if (kind == 0) ser_out(*get(t.at(1)).s0, o); else if (kind == 1) ser_out(*get(t.at(1)).s1, o);
    else if (kind == 3) ser_out(*getf(t.at(1)), o); else throw std::invalid_argument("codec: kind");
    return; }
  case 31: case 32: { // r := deserialize(serialize(r2)), bytes / stream reader
    const int kind = kind_of(t.at(2));
    if (kind == 0) read_op<K0::sk_t>(op, t.at(1), bytes_of_sketch(*get(t.at(2)).s0), true, o);
    else if (kind == 1) read_op<K1::sk_t>(op, t.at(1), bytes_of_sketch(*get(t.at(2)).s1), true, o);
    else if (kind == 3) read_op<K3::sk_t>(op, t.at(1), bytes_of_sketch(*getf(t.at(2))), true, o);
    else throw std::invalid_argument("codec: kind");
    o.R(1); return; }
  case 33: case 34: { // r := deserialize(bytes) as kind, bytes / stream reader
    const int kind = (int)t.at(2);
    std::vector<uint8_t> v; for (size_t i = 3; i < t.size(); ++i) v.push_back((uint8_t)t[i]);
    if (kind == 0) read_op<K0::sk_t>(op, t.at(1), v, false, o); else if (kind == 1) read_op<K1::sk_t>(op, t.at(1), v, false, o);
    else if (kind == 3) read_op<K3::sk_t>(op, t.at(1), v, false, o); else throw std::invalid_argument("kind");
    o.R(1); return; }
  default:
    if (t.size() > 1 && op != 97 && op != 98 && op != 99 && op != 20 && is_f(t.at(1))) { // per-sketch operation on a float register
      cur3 = &getf(t.at(1)); Reg none; none.kind = 3;
      run_op<K3>(op, none, t, o);
      return;
    }
  }
  handler(t, o);
}

int main(int argc, char** argv) {
  return vh::run_main(argc, argv, [] { regs.clear(); fregs.clear(); vh::source().seed(0); }, codec_handler);
}
