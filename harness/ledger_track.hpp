// ledger_track.hpp — instrumentation for the C19 harness (value semantics and allocator hygiene):
//   * vl::talloc<T>: stateful tracking allocator passed through the public allocator template parameter.
//     Records every live block (bytes, element count, arena, whether T is an item-bearing type), flags
//     size mismatch on deallocate, double free / foreign pointer, release through an allocator of another
//     arena, use of a default-constructed allocator, release of an item buffer that still holds live items.
//   * vl::Item: instrumented item type. Global live count; address registry to detect construction over a
//     live object, double destruction / destruction of an unconstructed slot, use (copy, compare, hash,
//     assign) of a destroyed object, reading a moved-from object that was not re-assigned; copy/move
//     counters; copy constructor that throws at the n-th copy when armed.
// Nothing here allocates through talloc, so the instrumentation never counts itself.
#ifndef VERIF_LEDGER_TRACK_HPP
#define VERIF_LEDGER_TRACK_HPP
#include <cstdint>
#include <cstdlib>
#include <cstddef>
#include <cstring>
#include <new>
#include <set>
#include <map>
#include <memory>
#include <string>
#include <utility>
#include <stdexcept>
#include <functional>
#include <type_traits>
#include <ostream>
#include <istream>
#include <iostream>

namespace vl {

enum Flag : unsigned {
  F_DOUBLE_DESTROY       = 1u << 0,   // destructor of an object that is not live (double destroy / never constructed)
  F_CONSTRUCT_OVER_LIVE  = 1u << 1,   // constructor at an address that already holds a live object
  F_USE_DEAD             = 1u << 2,   // copy/move/compare/hash/assign involving a destroyed (or never constructed) object
  F_READ_MOVED           = 1u << 3,   // value of a moved-from object read before it was assigned again
  F_SIZE_MISMATCH        = 1u << 4,   // deallocate(p, n) with n different from the allocate(n) of that block
  F_UNKNOWN_BLOCK        = 1u << 5,   // deallocate of a pointer that is not a live block (double free, foreign pointer)
  F_ARENA_MISMATCH       = 1u << 6,   // block released through an allocator that does not compare equal to the one that made it
  F_DEFAULT_ALLOC        = 1u << 7,   // memory obtained through a default-constructed allocator instead of the supplied instance
  F_FREE_WITH_LIVE_ITEMS = 1u << 8,   // a block is released while live items are still inside it
  F_MOVE_FROM_MOVED      = 1u << 9,   // a moved-from object is moved from again (reported separately, not a hygiene failure)
  F_CALLER_MEMORY        = 1u << 10   // memory that belongs to the caller (wrapped / initialize_by_* buffers) was passed to the allocator
};

struct Block { size_t bytes; size_t n; int arena; bool item; };

struct State {
  long live_items = 0, copies = 0, moves = 0, assigns = 0, ctors = 0, dtors = 0;
  unsigned flags = 0;
  long throw_countdown = -1;                 // >0: the n-th next copy construction throws
  long throws = 0;
  std::set<uintptr_t> live;                  // addresses of live Items
  std::map<uintptr_t, Block> blocks;         // live blocks
  long item_slots = 0;                       // sum of element counts of live item-bearing blocks
  long live_bytes = 0, item_bytes = 0;
  long allocs = 0, deallocs = 0;
  std::map<uintptr_t, size_t> caller;        // caller-owned buffers handed to wrap / initialize_by_*: [start, start+len)
};
inline State& st() { static State s; return s; }
inline void flag(unsigned f) { st().flags |= f; }
// start of a case / after the final report: release whatever the previous case leaked through talloc (it has been
// reported by then) so that LeakSanitizer's end-of-process report is not attributed to an unrelated case
inline void reset_tracking() {
  State& s = st();
  for (auto& kv : s.blocks) std::free(reinterpret_cast<void*>(kv.first));
  s.blocks.clear(); s.live.clear(); s.caller.clear();
  s.live_items = 0; s.item_slots = 0; s.live_bytes = 0; s.item_bytes = 0; s.flags = 0; s.throw_countdown = -1;
}

// ---- instrumented item -------------------------------------------------------------------------
class Item {
  int64_t v_;
  uint32_t moved_;
  uint32_t pad_;
  void born() {
    State& s = st();
    if (!s.live.insert(reinterpret_cast<uintptr_t>(this)).second) flag(F_CONSTRUCT_OVER_LIVE);
    ++s.live_items; ++s.ctors;
  }
  bool alive() const { return st().live.count(reinterpret_cast<uintptr_t>(this)) != 0; }
  void check_read() const {
    if (!alive()) flag(F_USE_DEAD);
    else if (moved_) flag(F_READ_MOVED);
  }
public:
  explicit Item(int64_t v): v_(v), moved_(0), pad_(0) { born(); }
  Item(const Item& o): v_(o.v_), moved_(0), pad_(0) {
    State& s = st();
    o.check_read();
    if (s.throw_countdown > 0 && --s.throw_countdown == 0) {
      s.throw_countdown = -1; ++s.throws;
      throw std::runtime_error("vl::Item: scripted copy failure");
    }
    ++s.copies; born();
  }
  Item(Item&& o) noexcept: v_(o.v_), moved_(0), pad_(0) {
    if (!o.alive()) flag(F_USE_DEAD);
    else if (o.moved_) flag(F_MOVE_FROM_MOVED);
    o.moved_ = 1; ++st().moves; born();
  }
  Item& operator=(const Item& o) {
    if (!alive()) flag(F_USE_DEAD);
    o.check_read();
    if (this != &o) { v_ = o.v_; moved_ = 0; }
    ++st().assigns; return *this;
  }
  Item& operator=(Item&& o) noexcept {
    if (!alive()) flag(F_USE_DEAD);
    if (!o.alive()) flag(F_USE_DEAD);
    if (this != &o) {
      if (o.moved_) flag(F_MOVE_FROM_MOVED);
      v_ = o.v_; moved_ = 0; o.moved_ = 1;
    }
    ++st().assigns; return *this;
  }
  ~Item() {
    State& s = st();
    if (s.live.erase(reinterpret_cast<uintptr_t>(this)) == 0) flag(F_DOUBLE_DESTROY);
    else { --s.live_items; }
    ++s.dtors;
    v_ = 0x5A5A5A5A5A5A5A5ALL;
  }
  int64_t get() const { check_read(); return v_; }
  bool operator<(const Item& o) const { check_read(); o.check_read(); return v_ < o.v_; }
  bool operator==(const Item& o) const { check_read(); o.check_read(); return v_ == o.v_; }
  bool operator!=(const Item& o) const { return !(*this == o); }
  Item& operator+=(const Item& o) { check_read(); o.check_read(); v_ += o.v_; return *this; }
  Item& operator+=(int64_t d) { check_read(); v_ += d; return *this; }
};
inline std::ostream& operator<<(std::ostream& os, const Item& i) { return os << i.get(); }

struct ItemHash { size_t operator()(const Item& i) const { return std::hash<int64_t>()(i.get()); } };

// serde in the shape the library expects (see common/include/serde.hpp)
struct ItemSerde {
  void serialize(std::ostream& os, const Item* items, unsigned num) const {
    for (unsigned i = 0; i < num; ++i) { int64_t v = items[i].get(); os.write(reinterpret_cast<const char*>(&v), 8); }
  }
  void deserialize(std::istream& is, Item* items, unsigned num) const {
    unsigned i = 0;
    try {
      for (; i < num; ++i) { int64_t v; is.read(reinterpret_cast<char*>(&v), 8); if (!is.good()) throw std::runtime_error("short"); new (&items[i]) Item(v); }
    } catch (...) { for (unsigned j = 0; j < i; ++j) items[j].~Item(); throw; }
  }
  size_t size_of_item(const Item&) const { return 8; }
  size_t serialize(void* ptr, size_t capacity, const Item* items, unsigned num) const {
    if (capacity < 8u * num) throw std::out_of_range("capacity");
    for (unsigned i = 0; i < num; ++i) { int64_t v = items[i].get(); memcpy(static_cast<char*>(ptr) + 8 * i, &v, 8); }
    return 8u * num;
  }
  size_t deserialize(const void* ptr, size_t capacity, Item* items, unsigned num) const {
    if (capacity < 8u * num) throw std::out_of_range("capacity");
    for (unsigned i = 0; i < num; ++i) { int64_t v; memcpy(&v, static_cast<const char*>(ptr) + 8 * i, 8); new (&items[i]) Item(v); }
    return 8u * num;
  }
};

// ---- which element types make a block an "item buffer" ------------------------------------------
template<typename T> struct bears_item : std::false_type {};
template<> struct bears_item<Item> : std::true_type {};
template<typename K> struct bears_item<std::pair<K, Item>> : std::true_type {};

// ---- tracking allocator ------------------------------------------------------------------------
template<typename T> class talloc {
public:
  using value_type = T;
  using pointer = T*;
  using const_pointer = const T*;
  using reference = T&;
  using const_reference = const T&;
  using size_type = std::size_t;
  using difference_type = std::ptrdiff_t;
  using propagate_on_container_copy_assignment = std::true_type;
  using propagate_on_container_move_assignment = std::true_type;
  using propagate_on_container_swap = std::true_type;
  template<typename U> struct rebind { using other = talloc<U>; };

  int arena;
  talloc(): arena(0) {}
  explicit talloc(int a): arena(a) {}
  talloc(const talloc& o): arena(o.arena) {}
  template<typename U> talloc(const talloc<U>& o): arena(o.arena) {}
  talloc& operator=(const talloc& o) { arena = o.arena; return *this; }

  T* allocate(size_type n, const void* = nullptr) {
    State& s = st();
    if (arena == 0) flag(F_DEFAULT_ALLOC);
    const size_t bytes = n * sizeof(T);
    void* p = std::malloc(bytes ? bytes : 1);
    if (!p) throw std::bad_alloc();
    Block b; b.bytes = bytes; b.n = n; b.arena = arena; b.item = bears_item<T>::value;
    s.blocks[reinterpret_cast<uintptr_t>(p)] = b;
    s.live_bytes += (long)bytes; ++s.allocs;
    if (b.item) { s.item_slots += (long)n; s.item_bytes += (long)bytes; }
    return static_cast<T*>(p);
  }
  void deallocate(T* p, size_type n) {
    State& s = st();
    if (p == nullptr) { return; }
    auto it = s.blocks.find(reinterpret_cast<uintptr_t>(p));
    if (it == s.blocks.end()) {
      const uintptr_t q = reinterpret_cast<uintptr_t>(p);
      auto ci = s.caller.upper_bound(q);
      if (ci != s.caller.begin() && (--ci, q < ci->first + ci->second)) flag(F_CALLER_MEMORY);
      else flag(F_UNKNOWN_BLOCK);
      return;   // not freed: ASan/LSan will have more to say
    }
    const Block b = it->second;
    if (b.bytes != n * sizeof(T)) flag(F_SIZE_MISMATCH);
    if (b.arena != arena) flag(F_ARENA_MISMATCH);
    const uintptr_t lo = it->first, hi = lo + (b.bytes ? b.bytes : 1);
    auto li = s.live.lower_bound(lo);
    if (li != s.live.end() && *li < hi) flag(F_FREE_WITH_LIVE_ITEMS);
    s.live_bytes -= (long)b.bytes; ++s.deallocs;
    if (b.item) { s.item_slots -= (long)b.n; s.item_bytes -= (long)b.bytes; }
    s.blocks.erase(it);
    std::free(p);
  }
  size_type max_size() const { return static_cast<size_type>(-1) / sizeof(T); }
  template<typename U, typename... Args> void construct(U* p, Args&&... args) { new (p) U(std::forward<Args>(args)...); }
  template<typename U> void destroy(U* p) { p->~U(); }
};
template<typename T, typename U> inline bool operator==(const talloc<T>& a, const talloc<U>& b) { return a.arena == b.arena; }
template<typename T, typename U> inline bool operator!=(const talloc<T>& a, const talloc<U>& b) { return a.arena != b.arena; }

} // namespace vl

namespace std {
template<> struct hash<vl::Item> { size_t operator()(const vl::Item& i) const { return std::hash<int64_t>()(i.get()); } };
}
#endif
