// drv_tuple.cpp — correspondence harness for the Tuple sketches (C13). Public API only.
// Two flavours share one templated handler:
//   LogF : update_tuple_sketch<LogS, int64_t, LogPolicy>, tuple_union/tuple_intersection<LogS, LogComb>, tuple_a_not_b<LogS>
//          LogS is an instrumented summary: the sequence of everything the policies did to it (create mark, every value in
//          arrival order, separator + the other side's log on every combine) — non-commutative, so order and exactly-once
//          matter; a moved-from LogS is poisoned (log = {-99}) so any use after move shows up; values may be offered as
//          rvalues of a move-only type.
//   IntF : update_tuple_sketch<int64_t> with the DEFAULT policies (Summary() then +=; union +=), tuple_intersection<int64_t, sum>
//   ArrF : update_array_of_doubles_sketch, array_of_doubles_union, array_of_doubles_intersection<sum>, array_of_doubles_a_not_b
// Protocol: see coq/TupleDefs.v (step); ops 30..34 (images) see coq/TupleCodecDefs.v.
#include "common.hpp"
#include <algorithm>
#include "theta_sketch.hpp"
#include "tuple_sketch.hpp"
#include "tuple_union.hpp"
#include "tuple_intersection.hpp"
#include "tuple_a_not_b.hpp"
#include "array_of_doubles_sketch.hpp"
using namespace datasketches;
using vh::I; using vh::Line; using vh::Out;

// ---------------------------------------------------------------- log flavour
struct LogS {
  std::vector<int64_t> log;
  LogS() {}
  LogS(const LogS& o): log(o.log) {}
  LogS(LogS&& o) noexcept: log(std::move(o.log)) { o.log.clear(); o.log.push_back(-99); }
  LogS& operator=(const LogS& o) { log = o.log; return *this; }
  LogS& operator=(LogS&& o) noexcept { if (this != &o) { log = std::move(o.log); o.log.clear(); o.log.push_back(-99); } return *this; }
};
struct MoveOnlyVal {
  std::unique_ptr<int64_t> p;
  explicit MoveOnlyVal(int64_t v): p(new int64_t(v)) {}
  MoveOnlyVal(MoveOnlyVal&&) = default;
  MoveOnlyVal(const MoveOnlyVal&) = delete;
  MoveOnlyVal& operator=(const MoveOnlyVal&) = delete;
};
struct LogPolicy {
  int64_t mark;
  explicit LogPolicy(int64_t m = 0): mark(m) {}
  LogS create() const { LogS s; s.log.push_back(mark); return s; }
  void update(LogS& s, const int64_t& v) const { s.log.push_back(v); }
  void update(LogS& s, MoveOnlyVal&& v) const { MoveOnlyVal t(std::move(v)); s.log.push_back(*t.p); }
};
struct LogComb {
  int64_t sep;
  explicit LogComb(int64_t s = 0): sep(s) {}
  void operator()(LogS& a, const LogS& b) const { a.log.push_back(sep); a.log.insert(a.log.end(), b.log.begin(), b.log.end()); }
  void operator()(LogS& a, LogS&& b) const { LogS t(std::move(b)); (*this)(a, static_cast<const LogS&>(t)); }
};

// serde of the log summary (count u32, then the int64 items): lets log-flavour sketches travel through serialize / deserialize
struct LogSerde {
  void serialize(std::ostream& os, const LogS* items, unsigned num) const {
    for (unsigned i = 0; i < num; ++i) { uint32_t n = (uint32_t)items[i].log.size(); os.write((const char*)&n, 4);
      if (n) os.write((const char*)items[i].log.data(), 8 * (size_t)n); }
  }
  void deserialize(std::istream& is, LogS* items, unsigned num) const {
    for (unsigned i = 0; i < num; ++i) { uint32_t n = 0; is.read((char*)&n, 4);
      if (!is.good() || n > (1u << 20)) throw std::runtime_error("error reading a log summary");
      new (&items[i]) LogS(); items[i].log.resize(n); if (n) is.read((char*)items[i].log.data(), 8 * (size_t)n);
      if (!is.good()) { items[i].~LogS(); throw std::runtime_error("error reading a log summary"); } }
  }
  size_t size_of_item(const LogS& s) const { return 4 + 8 * s.log.size(); }
  size_t serialize(void* ptr, size_t capacity, const LogS* items, unsigned num) const {
    char* p = (char*)ptr; size_t used = 0;
    for (unsigned i = 0; i < num; ++i) { size_t sz = size_of_item(items[i]); if (used + sz > capacity) throw std::out_of_range("log summary does not fit");
      uint32_t n = (uint32_t)items[i].log.size(); memcpy(p + used, &n, 4); if (n) memcpy(p + used + 4, items[i].log.data(), 8 * (size_t)n); used += sz; }
    return used;
  }
  size_t deserialize(const void* ptr, size_t capacity, LogS* items, unsigned num) const {
    const char* p = (const char*)ptr; size_t used = 0;
    for (unsigned i = 0; i < num; ++i) { if (used + 4 > capacity) throw std::out_of_range("log summary truncated");
      uint32_t n; memcpy(&n, p + used, 4); if (used + 4 + 8 * (size_t)n > capacity) throw std::out_of_range("log summary truncated");
      new (&items[i]) LogS(); items[i].log.resize(n); if (n) memcpy(items[i].log.data(), p + used + 4, 8 * (size_t)n); used += 4 + 8 * (size_t)n; }
    return used;
  }
};

struct LogF {
  typedef LogS Summary;
  typedef update_tuple_sketch<LogS, int64_t, LogPolicy> USk;
  typedef compact_tuple_sketch<LogS> CBase;
  typedef CBase CSk;
  typedef tuple_union<LogS, LogComb> Union;
  typedef tuple_intersection<LogS, LogComb> Inter;
  typedef tuple_a_not_b<LogS> AnotB;
  static bool pol_ok(I pol) { return pol == 0; }
  static size_t nvals(I) { return 1; }
  static USk::builder ubuilder(I) { return USk::builder(LogPolicy(-7)); }
  static Union::builder unbuilder(I) { return Union::builder(LogComb(-8)); }
  static Inter* inter(uint64_t seed, I) { return new Inter(seed, LogComb(-9)); }
  static CSk wrap(CBase&& b, I) { return CSk(std::move(b)); }
  static CBase reload(const CBase& c, int path, uint64_t seed) {      // deserialize(serialize(c)) through the bytes (0) or stream (1) path
    if (path == 0) { auto b = c.serialize(0, LogSerde()); return CBase::deserialize(b.data(), b.size(), seed, LogSerde()); }
    std::stringstream ss; c.serialize(ss, LogSerde()); return CBase::deserialize(ss, seed, LogSerde());
  }
  static I pol_of(const USk&) { return 0; }
  static I pol_of(const CSk&) { return 0; }
  static Summary summary_from(const Line& v, I) { LogS s; for (I x : v) s.log.push_back((int64_t)x); return s; }
  static void emit(const Summary& s, Out& o) { o.R((I)s.log.size()); for (int64_t x : s.log) o.R((I)x); }
  static int64_t sum(const Summary& s) { int64_t t = 0; for (int64_t x : s.log) t += x; return t; }
  static size_t len(const Summary& s) { return s.log.size(); }
  template<class K> static void upd(USk& s, K key, const Line& vals, bool mv) {
    if (mv) s.update(key, MoveOnlyVal((int64_t)vals.at(0)));
    else { const int64_t v = (int64_t)vals.at(0); s.update(key, v); }
  }
  static void upd_raw(USk& s, const void* p, size_t n, const Line& vals, bool mv) {
    if (mv) s.update(p, n, MoveOnlyVal((int64_t)vals.at(0)));
    else { const int64_t v = (int64_t)vals.at(0); s.update(p, n, v); }
  }
};


// ---------------------------------------------------------------- arithmetic flavour (default policies)
struct IntSum { void operator()(int64_t& a, const int64_t& b) const { a += b; } };
struct IntF {
  typedef int64_t Summary;
  typedef update_tuple_sketch<int64_t> USk;
  typedef compact_tuple_sketch<int64_t> CBase;
  typedef CBase CSk;
  typedef tuple_union<int64_t> Union;
  typedef tuple_intersection<int64_t, IntSum> Inter;
  typedef tuple_a_not_b<int64_t> AnotB;
  static bool pol_ok(I pol) { return pol == -1; }
  static size_t nvals(I) { return 1; }
  static USk::builder ubuilder(I) { return USk::builder(); }
  static Union::builder unbuilder(I) { return Union::builder(); }
  static Inter* inter(uint64_t seed, I) { return new Inter(seed, IntSum()); }
  static CSk wrap(CBase&& b, I) { return CSk(std::move(b)); }
  static CBase reload(const CBase& c, int path, uint64_t seed) {
    if (path == 0) { auto b = c.serialize(); return CBase::deserialize(b.data(), b.size(), seed); }
    std::stringstream ss; c.serialize(ss); return CBase::deserialize(ss, seed);
  }
  static I pol_of(const USk&) { return -1; }
  static I pol_of(const CSk&) { return -1; }
  static Summary summary_from(const Line& v, I) { return (int64_t)v.at(0); }
  static void emit(const Summary& s, Out& o) { o.R(1); o.R((I)s); }
  static int64_t sum(const Summary& s) { return s; }
  static size_t len(const Summary&) { return 1; }
  template<class K> static void upd(USk& s, K key, const Line& vals, bool mv) {
    if (mv) s.update(key, (int64_t)vals.at(0));
    else { const int64_t v = (int64_t)vals.at(0); s.update(key, v); }
  }
  static void upd_raw(USk& s, const void* p, size_t n, const Line& vals, bool mv) {
    if (mv) s.update(p, n, (int64_t)vals.at(0));
    else { const int64_t v = (int64_t)vals.at(0); s.update(p, n, v); }
  }
};

// ---------------------------------------------------------------- array-of-doubles flavour
typedef array<double> Arr;
struct ArrSum {
  uint8_t n;
  explicit ArrSum(uint8_t n_ = 1): n(n_) {}
  void operator()(Arr& a, const Arr& b) const { for (uint8_t i = 0; i < n; ++i) a[i] += b[i]; }
  uint8_t get_num_values() const { return n; }
};
typedef compact_tuple_sketch<Arr, std::allocator<double>> ArrCB;
struct ArrC: public ArrCB {          // a compact form that knows its number of values
  uint8_t nv;
  ArrC(ArrCB&& b, uint8_t n): ArrCB(std::move(b)), nv(n) {}
  uint8_t get_num_values() const { return nv; }
};
struct ArrF {
  typedef Arr Summary;
  typedef update_array_of_doubles_sketch USk;
  typedef ArrCB CBase;
  typedef ArrC CSk;
  typedef array_of_doubles_union Union;
  typedef array_of_doubles_intersection<ArrSum> Inter;
  typedef array_of_doubles_a_not_b AnotB;
  static bool pol_ok(I pol) { return pol >= 1 && pol <= 255; }
  static size_t nvals(I pol) { return (size_t)pol; }
  static USk::builder ubuilder(I pol) { return USk::builder(default_array_of_doubles_update_policy((uint8_t)pol)); }
  static Union::builder unbuilder(I pol) { return Union::builder(default_array_of_doubles_union_policy((uint8_t)pol)); }
  static Inter* inter(uint64_t seed, I pol) { return new Inter(seed, ArrSum((uint8_t)pol)); }
  static CSk wrap(CBase&& b, I pol) { return CSk(std::move(b), (uint8_t)pol); }
  static CBase reload(const CSk& c, int path, uint64_t seed) {      // through compact_array_of_doubles_sketch (ArrayOfDoublesCompactSketch image)
    compact_array_of_doubles_sketch a(c, false);
    if (path == 0) { auto b = a.serialize(); return CBase(compact_array_of_doubles_sketch::deserialize(b.data(), b.size(), seed)); }
    std::stringstream ss; a.serialize(ss); return CBase(compact_array_of_doubles_sketch::deserialize(ss, seed));
  }
  static I pol_of(const USk& s) { return s.get_num_values(); }
  static I pol_of(const CSk& s) { return s.get_num_values(); }
  static Summary summary_from(const Line& v, I pol) { Arr a((uint8_t)pol, 0); for (size_t i = 0; i < v.size(); ++i) a[i] = (double)(int64_t)v[i]; return a; }
  static void emit(const Summary& s, Out& o) { o.R((I)s.size()); for (uint8_t i = 0; i < s.size(); ++i) o.R((I)(int64_t)s[i]); }
  static int64_t sum(const Summary& s) { int64_t t = 0; for (uint8_t i = 0; i < s.size(); ++i) t += (int64_t)s[i]; return t; }
  static size_t len(const Summary& s) { return s.size(); }
  static std::vector<double> vec(const Line& vals) { std::vector<double> v; for (I x : vals) v.push_back((double)(int64_t)x); return v; }
  template<class K> static void upd(USk& s, K key, const Line& vals, bool mv) {
    std::vector<double> v = vec(vals);
    if (mv) s.update(key, std::move(v)); else s.update(key, v);
  }
  static void upd_raw(USk& s, const void* p, size_t n, const Line& vals, bool mv) {
    std::vector<double> v = vec(vals);
    if (mv) s.update(p, n, std::move(v)); else s.update(p, n, v);
  }
};

// ---------------------------------------------------------------- registers
struct Reg {
  std::shared_ptr<update_theta_sketch> th;
  std::shared_ptr<LogF::USk> lu; std::shared_ptr<LogF::CSk> lc; std::shared_ptr<LogF::Union> lun; std::shared_ptr<LogF::Inter> lin;
  std::shared_ptr<IntF::USk> iu; std::shared_ptr<IntF::CSk> ic; std::shared_ptr<IntF::Union> iun; std::shared_ptr<IntF::Inter> iin;
  std::shared_ptr<ArrF::USk> au; std::shared_ptr<ArrF::CSk> ac; std::shared_ptr<ArrF::Union> aun; std::shared_ptr<ArrF::Inter> ain;
  I pol = 0;     // of unions / intersections
};
static std::map<long, Reg> regs;
static Reg& get(I r) {
  auto it = regs.find((long)r);
  if (it == regs.end()) throw std::invalid_argument("no such register");
  return it->second;
}
template<class F> struct Acc;
template<> struct Acc<LogF> {
  static std::shared_ptr<LogF::USk>& u(Reg& g) { return g.lu; }
  static std::shared_ptr<LogF::CSk>& c(Reg& g) { return g.lc; }
  static std::shared_ptr<LogF::Union>& un(Reg& g) { return g.lun; }
  static std::shared_ptr<LogF::Inter>& in(Reg& g) { return g.lin; }
};
template<> struct Acc<IntF> {
  static std::shared_ptr<IntF::USk>& u(Reg& g) { return g.iu; }
  static std::shared_ptr<IntF::CSk>& c(Reg& g) { return g.ic; }
  static std::shared_ptr<IntF::Union>& un(Reg& g) { return g.iun; }
  static std::shared_ptr<IntF::Inter>& in(Reg& g) { return g.iin; }
};
template<> struct Acc<ArrF> {
  static std::shared_ptr<ArrF::USk>& u(Reg& g) { return g.au; }
  static std::shared_ptr<ArrF::CSk>& c(Reg& g) { return g.ac; }
  static std::shared_ptr<ArrF::Union>& un(Reg& g) { return g.aun; }
  static std::shared_ptr<ArrF::Inter>& in(Reg& g) { return g.ain; }
};
static bool is_log(const Reg& g) { return g.lu || g.lc || g.lun || g.lin; }
static bool is_arr(const Reg& g) { return g.au || g.ac || g.aun || g.ain; }
static bool is_int(const Reg& g) { return g.iu || g.ic || g.iun || g.iin; }

template<class Sk> static void head(const Sk& s, Out& o) {
  o.R((I)s.get_theta64()); o.R(s.is_empty() ? 1 : 0); o.R(s.is_ordered() ? 1 : 0); o.R((I)s.get_num_retained());
}
template<class F, class Sk> static void dump(const Sk& s, Out& o) {
  head(s, o);
  typedef std::pair<uint64_t, const typename F::Summary*> P;
  std::vector<P> v;
  for (auto it = s.begin(); it != s.end(); ++it) v.push_back(P((*it).first, &(*it).second));
  for (const P& p : v) o.F((I)p.first);                       // iteration order: only the oracle reads it
  std::sort(v.begin(), v.end(), [](const P& a, const P& b) { return a.first < b.first; });
  for (const P& p : v) { o.R((I)p.first); F::emit(*p.second, o); }
}

template<class F, class K> static void upd_key(typename F::USk& s, K key, const Line& vals, bool mv) { F::template upd<K>(s, key, vals, mv); }

template<class F> static void do_update(typename F::USk& s, const Line& t, Out& o) {
  bool mv = t.at(2) != 0; size_t nv = (size_t)t.at(3);
  if (t.size() < 4 + nv + 1) throw std::invalid_argument("short update");
  Line vals(t.begin() + 4, t.begin() + 4 + nv);
  if (nv != F::nvals(F::pol_of(s))) throw std::invalid_argument("wrong number of values");
  size_t kp = 4 + nv; int kind = (int)t.at(kp);
  I v = t.size() > kp + 1 ? t[kp + 1] : 0;
  switch (kind) {
    case 0: upd_key<F>(s, (uint64_t)v, vals, mv); break;
    case 1: upd_key<F>(s, (int64_t)v, vals, mv); break;
    case 2: upd_key<F>(s, (uint32_t)v, vals, mv); break;
    case 3: upd_key<F>(s, (int32_t)v, vals, mv); break;
    case 4: upd_key<F>(s, (uint16_t)v, vals, mv); break;
    case 5: upd_key<F>(s, (int16_t)v, vals, mv); break;
    case 6: upd_key<F>(s, (uint8_t)v, vals, mv); break;
    case 7: upd_key<F>(s, (int8_t)v, vals, mv); break;
    case 8: upd_key<F>(s, vh::bitsd(v), vals, mv); break;
    case 9: upd_key<F>(s, vh::bitsf(v), vals, mv); break;
    case 10: { std::string k = vh::bytes_of(t, kp + 1); upd_key<F, const std::string&>(s, k, vals, mv); break; }
    default: { std::string k = vh::bytes_of(t, kp + 1); F::upd_raw(s, static_cast<const void*>(k.data()), k.size(), vals, mv); break; }
  }
  head(s, o);
}

template<class F> static void store_c(I r2, typename F::CBase&& c, I pol, Out& o) {
  Reg g; Acc<F>::c(g).reset(new typename F::CSk(F::wrap(std::move(c), pol)));
  dump<F>(*Acc<F>::c(g), o);
  regs[(long)r2] = std::move(g);
}

template<class F> static bool predicate(int kind, I arg, const typename F::Summary& s) {
  if (kind == 0) { int64_t m = F::sum(s) % 3; if (m < 0) m += 3; return (I)m == arg; }
  return arg <= (I)F::len(s);
}

// operations on a register holding an update or compact sketch of flavour F
template<class F> static void sketch_op(int code, Reg& g, const Line& t, Out& o) {
  auto& u = Acc<F>::u(g); auto& c = Acc<F>::c(g);
  switch (code) {
  case 2: if (!u) throw std::invalid_argument("not an update sketch"); do_update<F>(*u, t, o); break;
  case 3: if (!u) throw std::invalid_argument("not an update sketch"); u->trim(); head(*u, o); break;
  case 4: if (!u) throw std::invalid_argument("not an update sketch"); u->reset(); head(*u, o); break;
  case 5: { bool ord = t.at(3) != 0;
    if (u) { I pol = F::pol_of(*u); store_c<F>(t.at(2), typename F::CBase(u->compact(ord)), pol, o); }
    else { I pol = F::pol_of(*c); store_c<F>(t.at(2), typename F::CBase(*c, ord), pol, o); }
    break; }
  case 6: { Reg n;
    // optional 4th token: HOW the copy is made (all mean "r2 := copy of r" for the model):
    //   0 copy constructor; 1 copy ASSIGNMENT onto a sketch in another state (estimation mode, lg_k 5, p 0.5);
    //   2 move constructor from a temporary copy; 3 move assignment from a temporary copy onto such a sketch
    const long how = t.size() > 3 ? (long)t.at(3) : 0;
    const I pol = u ? F::pol_of(*u) : F::pol_of(*c);
    std::unique_ptr<typename F::USk> other;
    if (how == 1 || how == 3) {
      auto b = F::ubuilder(pol); b.set_lg_k(5); b.set_p(0.5f);
      other.reset(new typename F::USk(b.build()));
      Line one(F::nvals(pol), 1);
      for (int i = 0; i < 300; ++i) F::template upd<uint64_t>(*other, (uint64_t)(1000003u * (unsigned)i + 17u), one, false);
    }
    if (u) {
      auto& d = Acc<F>::u(n);
      if (how == 0) d.reset(new typename F::USk(*u));
      else if (how == 2) { typename F::USk tmp(*u); d.reset(new typename F::USk(std::move(tmp))); }
      else { d.reset(other.release()); if (how == 1) *d = *u; else { typename F::USk tmp(*u); *d = std::move(tmp); } }
      dump<F>(*d, o);
    } else {
      auto& d = Acc<F>::c(n);
      if (how == 0) d.reset(new typename F::CSk(*c));
      else if (how == 2) { typename F::CSk tmp(*c); d.reset(new typename F::CSk(std::move(tmp))); }
      else { d.reset(new typename F::CSk(F::wrap(typename F::CBase(other->compact(how == 1)), pol)));
             if (how == 1) *d = *c; else { typename F::CSk tmp(*c); *d = std::move(tmp); } }
      dump<F>(*d, o);
    }
    regs[(long)t.at(2)] = std::move(n); break; }
  case 36: { // r2 := deserialize(serialize(compact(r, ordered))) through the bytes (0) / stream (1) path with the given seed
    bool ord = t.at(3) != 0; int path = (int)t.at(4); uint64_t seed = (uint64_t)t.at(5);
    const I pol = u ? F::pol_of(*u) : F::pol_of(*c);
    typename F::CSk cs = u ? F::wrap(typename F::CBase(u->compact(ord)), pol) : F::wrap(typename F::CBase(*c, ord), pol);
    store_c<F>(t.at(2), F::reload(cs, path, seed), pol, o);
    break; }
  case 7: if (u) dump<F>(*u, o); else dump<F>(*c, o); break;
  case 11: { int pk = (int)t.at(3); I pa = t.at(4);
    auto pred = [pk, pa](const typename F::Summary& s) { return predicate<F>(pk, pa, s); };
    if (u) { I pol = F::pol_of(*u); store_c<F>(t.at(2), u->filter(pred), pol, o); }
    else { I pol = F::pol_of(*c); store_c<F>(t.at(2), c->filter(pred), pol, o); }
    break; }
  default: throw std::invalid_argument("bad op");
  }
}

// feed operand register [src] to a union / intersection
template<class F, class Op> static void feed(Op& op, I pol, I r2, bool mv) {
  Reg& src = get(r2);
  auto& u = Acc<F>::u(src); auto& c = Acc<F>::c(src);
  if (!u && !c) throw std::invalid_argument("operand is not a sketch of this flavour");
  if ((u ? F::pol_of(*u) : F::pol_of(*c)) != pol) throw std::invalid_argument("number of values differs");
  if (u) { if (mv) op.update(std::move(*u)); else op.update(*u); }
  else { if (mv) op.update(std::move(*c)); else op.update(*c); }
  if (mv) regs.erase((long)r2);
}

template<class F> static void anotb(const Line& t, Out& o) {
  Reg& ga = get(t.at(1)); Reg& gb = get(t.at(2));
  auto& ua = Acc<F>::u(ga); auto& ca = Acc<F>::c(ga); auto& ub = Acc<F>::u(gb); auto& cb = Acc<F>::c(gb);
  if ((!ua && !ca) || (!ub && !cb)) throw std::invalid_argument("operand is not a sketch of this flavour");
  I pol = ua ? F::pol_of(*ua) : F::pol_of(*ca);
  if ((ub ? F::pol_of(*ub) : F::pol_of(*cb)) != pol) throw std::invalid_argument("number of values differs");
  bool ord = t.at(4) != 0; bool mv = t.at(6) != 0;
  typename F::AnotB op((uint64_t)t.at(5));
  std::unique_ptr<typename F::CBase> res;
#define ANB(A, B) res.reset(new typename F::CBase(mv ? op.compute(std::move(A), B, ord) : op.compute(A, B, ord)))
  if (ua && ub) ANB(*ua, *ub); else if (ua && cb) ANB(*ua, *cb); else if (ca && ub) ANB(*ca, *ub); else ANB(*ca, *cb);
#undef ANB
  if (mv) regs.erase((long)t.at(1));
  store_c<F>(t.at(3), std::move(*res), pol, o);
}

template<class F> static void new_update(const Line& t, Out& o) {
  I pol = t.at(2), lgk = t.at(3), rf = t.at(4), pb = t.at(5);
  if (lgk < 0 || lgk > 255 || rf < 0 || rf > 3 || pb < 0) throw std::invalid_argument("bad builder argument");
  auto b = F::ubuilder(pol);
  b.set_lg_k((uint8_t)lgk); b.set_resize_factor((theta_constants::resize_factor)(int)rf); b.set_p(vh::bitsf(pb)); b.set_seed((uint64_t)t.at(6));
  Reg g; Acc<F>::u(g).reset(new typename F::USk(b.build()));
  head(*Acc<F>::u(g), o);
  regs[(long)t.at(1)] = std::move(g);
}
template<class F> static void new_union(const Line& t, Out& o) {
  I pol = t.at(2), lgk = t.at(3), rf = t.at(4), pb = t.at(5);
  if (lgk < 0 || lgk > 255 || rf < 0 || rf > 3 || pb < 0) throw std::invalid_argument("bad builder argument");
  auto b = F::unbuilder(pol);
  b.set_lg_k((uint8_t)lgk); b.set_resize_factor((theta_constants::resize_factor)(int)rf); b.set_p(vh::bitsf(pb)); b.set_seed((uint64_t)t.at(6));
  Reg g; g.pol = pol; Acc<F>::un(g).reset(new typename F::Union(b.build()));
  regs[(long)t.at(1)] = std::move(g); o.R(1);
}


// ---------------------------------------------------------------- images (C09/C10/C11 codec family; model: coq/TupleCodecDefs.v)
// compact_tuple_sketch<T> for T = int64_t / double / float through the default serde; the protected field constructor is
// reached from a derived class. Summaries travel as bit patterns.
template<class T> struct Pat;
template<> struct Pat<int64_t> { static int64_t of(I v) { return (int64_t)(uint64_t)v; } static I to(int64_t x) { return (I)(uint64_t)x; } };
template<> struct Pat<double> { static double of(I v) { return vh::bitsd(v); } static I to(double x) { return vh::dbits(x); } };
template<> struct Pat<float> { static float of(I v) { return vh::bitsf(v); } static I to(float x) { return vh::fbits(x); } };
template<class T> struct OpenC: public compact_tuple_sketch<T> {
  typedef compact_tuple_sketch<T> B; typedef typename B::Entry Entry;
  OpenC(bool e, bool o, uint16_t sh, uint64_t th, std::vector<Entry>&& ents): B(e, o, sh, th, std::move(ents)) {}
};
// serialize(): the byte image, the stream image and the image behind a 13-byte header must agree
template<class Sk> static void image(const Sk& s, Out& o) {
  auto bytes = s.serialize();
  std::stringstream ss; s.serialize(ss); std::string str = ss.str();
  if (str.size() != bytes.size() || (str.size() && memcmp(str.data(), bytes.data(), str.size()) != 0)) { o.R(-4); return; }
  auto hb = s.serialize(13);
  if (hb.size() != bytes.size() + 13 || (bytes.size() && memcmp(hb.data() + 13, bytes.data(), bytes.size()) != 0)) { o.R(-5); return; }
  for (int i = 0; i < 13; ++i) if (hb[i] != 0) { o.R(-5); return; }
  for (uint8_t b : bytes) o.R(b);
}
template<class T> static void show_t(const compact_tuple_sketch<T>& s, Out& o) {
  o.R(s.is_empty()); o.R(s.is_ordered()); o.R(s.get_seed_hash()); o.R((I)s.get_theta64()); o.R((I)s.get_num_retained());
  for (const auto& e : s) { o.R((I)e.first); o.R(Pat<T>::to(e.second)); }
}
static void show_a(const compact_array_of_doubles_sketch& s, Out& o) {
  o.R(s.is_empty()); o.R(s.is_ordered()); o.R(s.get_seed_hash()); o.R((I)s.get_theta64()); o.R((I)s.get_num_values()); o.R((I)s.get_num_retained());
  for (const auto& e : s) { o.R((I)e.first); for (uint8_t i = 0; i < s.get_num_values(); ++i) o.R(vh::dbits(e.second[i])); }
}
template<class T> static void codec_build(const Line& t, Out& o) {
  typedef typename compact_tuple_sketch<T>::Entry Entry;
  std::vector<Entry> ents;
  for (size_t i = 6; i + 1 < t.size(); i += 2) ents.push_back(Entry((uint64_t)t[i], Pat<T>::of(t[i + 1])));
  OpenC<T> s(t.at(2) != 0, t.at(3) != 0, (uint16_t)t.at(4), (uint64_t)t.at(5), std::move(ents));
  image(s, o);
}
struct Buf {   // exact-size heap copy of the bytes of an op (so that ASan sees any read past the end)
  size_t n; std::unique_ptr<uint8_t[]> p;
  Buf(const Line& t, size_t from): n(t.size() - from), p(new uint8_t[n ? n : 1]) { for (size_t i = 0; i < n; ++i) p[i] = (uint8_t)t[from + i]; }
};
template<class T> static void codec_tuple(int code, const Line& t, Out& o) {
  if (code == 32) {
    std::string str; for (size_t i = 3; i < t.size(); ++i) str.push_back((char)(uint8_t)t[i]);
    std::istringstream is(str);
    auto s = compact_tuple_sketch<T>::deserialize(is);
    long pos = is.good() ? (long)is.tellg() : -1;
    o.R(1); o.R(pos); show_t(s, o); return;
  }
  Buf b(t, 3);
  auto s = compact_tuple_sketch<T>::deserialize(b.p.get(), b.n);
  if (code == 31) { o.R(1); show_t(s, o); } else image(s, o);
}
static void codec_array(int code, const Line& t, Out& o) {
  if (code == 32) {
    std::string str; for (size_t i = 3; i < t.size(); ++i) str.push_back((char)(uint8_t)t[i]);
    std::istringstream is(str);
    auto s = compact_array_of_doubles_sketch::deserialize(is);
    long pos = is.good() ? (long)is.tellg() : -1;
    o.R(1); o.R(pos); show_a(s, o); return;
  }
  Buf b(t, 3);
  auto s = compact_array_of_doubles_sketch::deserialize(b.p.get(), b.n);
  if (code == 31) { o.R(1); show_a(s, o); } else image(s, o);
}
static void codec_op(int code, const Line& t, Out& o) {
  int kind = (int)t.at(1);
  if (code == 30) {
    if (kind == 0) codec_build<int64_t>(t, o); else if (kind == 1) codec_build<double>(t, o); else if (kind == 2) codec_build<float>(t, o);
    else throw std::invalid_argument("bad kind");
    return;
  }
  if (code == 34) {
    Reg& g = get(t.at(1));
    if (g.ic) image(*g.ic, o);
    else if (g.ac) { compact_array_of_doubles_sketch a(*g.ac, false); image(a, o); }
    else throw std::invalid_argument("no image for this register");
    return;
  }
  if (code == 35) {
    Reg& g = get(t.at(1)); bool stream = t.at(2) != 0;
    if (g.ic) {
      auto bytes = g.ic->serialize();
      if (stream) { std::string str(bytes.begin(), bytes.end()); std::istringstream is(str);
        auto s = compact_tuple_sketch<int64_t>::deserialize(is); long pos = is.good() ? (long)is.tellg() : -1; o.R(1); o.R(pos); show_t(s, o); }
      else { auto s = compact_tuple_sketch<int64_t>::deserialize(bytes.data(), bytes.size()); o.R(1); show_t(s, o); }
    } else if (g.ac) {
      compact_array_of_doubles_sketch a(*g.ac, false); auto bytes = a.serialize();
      if (stream) { std::string str(bytes.begin(), bytes.end()); std::istringstream is(str);
        auto s = compact_array_of_doubles_sketch::deserialize(is); long pos = is.good() ? (long)is.tellg() : -1; o.R(1); o.R(pos); show_a(s, o); }
      else { auto s = compact_array_of_doubles_sketch::deserialize(bytes.data(), bytes.size()); o.R(1); show_a(s, o); }
    } else throw std::invalid_argument("no image for this register");
    return;
  }
  if ((uint16_t)t.at(2) != compute_seed_hash(DEFAULT_SEED)) { o.R(-6); return; }   // the readers are called with DEFAULT_SEED
  if (kind == 0) codec_tuple<int64_t>(code, t, o); else if (kind == 1) codec_tuple<double>(code, t, o);
  else if (kind == 2) codec_tuple<float>(code, t, o); else if (kind == 3) codec_array(code, t, o);
  else throw std::invalid_argument("bad kind");
}

static void handler(const Line& t, Out& o) {
  int code = (int)t.at(0);
  switch (code) {
  case 1: { I pol = t.at(2);
    if (pol == 0) new_update<LogF>(t, o); else if (pol == -1) new_update<IntF>(t, o); else if (ArrF::pol_ok(pol)) new_update<ArrF>(t, o); else throw std::invalid_argument("bad policy");
    break; }
  case 2: case 3: case 4: case 5: case 6: case 7: case 11: case 36: {
    Reg& g = get(t.at(1));
    if (g.lu || g.lc) sketch_op<LogF>(code, g, t, o);
    else if (g.iu || g.ic) sketch_op<IntF>(code, g, t, o);
    else if (g.au || g.ac) sketch_op<ArrF>(code, g, t, o);
    else throw std::invalid_argument("not a tuple sketch");
    break; }
  case 8: { I lgk = t.at(2), rf = t.at(3), pb = t.at(4);
    if (lgk < 0 || lgk > 255 || rf < 0 || rf > 3 || pb < 0) throw std::invalid_argument("bad builder argument");
    update_theta_sketch::builder b;
    b.set_lg_k((uint8_t)lgk); b.set_resize_factor((theta_constants::resize_factor)(int)rf); b.set_p(vh::bitsf(pb)); b.set_seed((uint64_t)t.at(5));
    Reg g; g.th.reset(new update_theta_sketch(b.build()));
    regs[(long)t.at(1)] = std::move(g); o.R(1); break; }
  case 9: { Reg& g = get(t.at(1)); if (!g.th) throw std::invalid_argument("not a theta sketch");
    update_theta_sketch& s = *g.th; int kind = (int)t.at(2); I v = t.size() > 3 ? t[3] : 0;
    switch (kind) {
      case 0: s.update((uint64_t)v); break; case 1: s.update((int64_t)v); break;
      case 2: s.update((uint32_t)v); break; case 3: s.update((int32_t)v); break;
      case 4: s.update((uint16_t)v); break; case 5: s.update((int16_t)v); break;
      case 6: s.update((uint8_t)v); break; case 7: s.update((int8_t)v); break;
      case 8: s.update(vh::bitsd(v)); break; case 9: s.update(vh::bitsf(v)); break;
      case 10: s.update(vh::bytes_of(t, 3)); break;
      default: { std::string bytes = vh::bytes_of(t, 3); s.update(static_cast<const void*>(bytes.data()), bytes.size()); break; }
    }
    o.R(1); break; }
  case 10: { Reg& g = get(t.at(1)); if (!g.th) throw std::invalid_argument("not a theta sketch");
    bool ord = t.at(3) != 0; int cord = (int)t.at(4); I pol = t.at(5);
    Line v(t.begin() + 6, t.end());
    if (pol == 0) {
      if (v.size() != 1) throw std::invalid_argument("wrong number of values");
      LogS s = LogF::summary_from(v, pol);
      if (cord == 0) store_c<LogF>(t.at(2), LogF::CBase(*g.th, s, ord), pol, o);
      else store_c<LogF>(t.at(2), LogF::CBase(g.th->compact(cord == 2), s, ord), pol, o);
    } else if (pol == -1) {
      if (v.size() != 1) throw std::invalid_argument("wrong number of values");
      int64_t s = IntF::summary_from(v, pol);
      if (cord == 0) store_c<IntF>(t.at(2), IntF::CBase(*g.th, s, ord), pol, o);
      else store_c<IntF>(t.at(2), IntF::CBase(g.th->compact(cord == 2), s, ord), pol, o);
    } else if (ArrF::pol_ok(pol)) {
      if (v.size() != (size_t)pol) throw std::invalid_argument("wrong number of values");
      Arr s = ArrF::summary_from(v, pol);
      if (cord == 0) store_c<ArrF>(t.at(2), ArrF::CBase(*g.th, s, ord), pol, o);
      else store_c<ArrF>(t.at(2), ArrF::CBase(g.th->compact(cord == 2), s, ord), pol, o);
    } else throw std::invalid_argument("bad policy");
    break; }
  case 12: { I pol = t.at(2);
    if (pol == 0) new_union<LogF>(t, o); else if (pol == -1) new_union<IntF>(t, o); else if (ArrF::pol_ok(pol)) new_union<ArrF>(t, o); else throw std::invalid_argument("bad policy");
    break; }
  case 13: { Reg& g = get(t.at(1)); bool mv = t.at(3) != 0;
    if (g.lun) feed<LogF>(*g.lun, g.pol, t.at(2), mv); else if (g.iun) feed<IntF>(*g.iun, g.pol, t.at(2), mv); else if (g.aun) feed<ArrF>(*g.aun, g.pol, t.at(2), mv);
    else throw std::invalid_argument("not a union");
    o.R(1); break; }
  case 14: { Reg& g = get(t.at(1)); bool ord = t.at(3) != 0;
    if (g.lun) store_c<LogF>(t.at(2), g.lun->get_result(ord), g.pol, o);
    else if (g.iun) store_c<IntF>(t.at(2), g.iun->get_result(ord), g.pol, o);
    else if (g.aun) { I pol = g.pol; store_c<ArrF>(t.at(2), ArrF::CBase(g.aun->get_result(ord)), pol, o); }
    else throw std::invalid_argument("not a union");
    break; }
  case 15: { Reg& g = get(t.at(1));
    if (g.lun) g.lun->reset(); else if (g.iun) g.iun->reset(); else if (g.aun) g.aun->reset(); else throw std::invalid_argument("not a union");
    o.R(1); break; }
  case 16: { I pol = t.at(2); Reg g; g.pol = pol;
    if (pol == 0) g.lin.reset(LogF::inter((uint64_t)t.at(3), pol));
    else if (pol == -1) g.iin.reset(IntF::inter((uint64_t)t.at(3), pol));
    else if (ArrF::pol_ok(pol)) g.ain.reset(ArrF::inter((uint64_t)t.at(3), pol));
    else throw std::invalid_argument("bad policy");
    regs[(long)t.at(1)] = std::move(g); o.R(1); break; }
  case 17: { Reg& g = get(t.at(1)); bool mv = t.at(3) != 0; bool has;
    if (g.lin) { std::shared_ptr<LogF::Inter> p = g.lin; feed<LogF>(*p, g.pol, t.at(2), mv); has = p->has_result(); }
    else if (g.iin) { std::shared_ptr<IntF::Inter> p = g.iin; feed<IntF>(*p, g.pol, t.at(2), mv); has = p->has_result(); }
    else if (g.ain) { std::shared_ptr<ArrF::Inter> p = g.ain; feed<ArrF>(*p, g.pol, t.at(2), mv); has = p->has_result(); }
    else throw std::invalid_argument("not an intersection");
    o.R(1); o.R(has ? 1 : 0); break; }
  case 18: { Reg& g = get(t.at(1)); bool ord = t.at(3) != 0;
    if (g.lin) store_c<LogF>(t.at(2), g.lin->get_result(ord), g.pol, o);
    else if (g.iin) store_c<IntF>(t.at(2), g.iin->get_result(ord), g.pol, o);
    else if (g.ain) { I pol = g.pol; store_c<ArrF>(t.at(2), ArrF::CBase(g.ain->get_result(ord)), pol, o); }
    else throw std::invalid_argument("not an intersection");
    break; }
  case 19: { Reg& ga = get(t.at(1));
    if (is_log(ga)) anotb<LogF>(t, o); else if (is_int(ga)) anotb<IntF>(t, o); else if (is_arr(ga)) anotb<ArrF>(t, o); else throw std::invalid_argument("not a sketch");
    break; }
  case 30: case 31: case 32: case 33: case 34: case 35: codec_op(code, t, o); break;
  default: o.R(-2);
  }
}

int main(int argc, char** argv) {
  return vh::run_main(argc, argv, [] { regs.clear(); }, handler);
}
