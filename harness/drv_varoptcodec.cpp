// drv_varoptcodec.cpp — correspondence harness for the images of var_opt_sketch<int64_t> and var_opt_union<int64_t>
// (coq/VarOptCodecDefs.v), properties C09/C10/C11.
//   1 r k rf gadget (item wbits mark)*  build a sketch (gadget != 0: through the private gadget constructor and update(item, w, mark));
//                                       E: content; R: image bytes (-4 bytes != stream, -5 size != advertised, -7 header form wrong)
//   2 u max_k r*                        build a union and update it with the sketch registers; E: content; R: image bytes (same checks)
//   5 kind r path cut pos val ntrail    image of sketch (kind 0) / union (kind 1) r truncated to `cut` bytes (cut < 0: whole), byte `pos`
//                                       replaced (pos < 0: none), ntrail bytes 0xA5 appended; read through path 0 (exact-size heap block) /
//                                       1 (stream)
//   3 kind path byte*                   explicit image
// content of a sketch: rf gadget k n total_wt_r(bits, 0 if r = 0) h r weights.. marks(if gadget).. H items.. R items..
// content of a union:  n outer_tau_numer(bits) outer_tau_denom max_k + content of the gadget
// a decoded object is shown as 1 [bytes consumed] reserialized_equal content
#include "common.hpp"
#include "hooksrc.hpp"
#include <sstream>
#include <cstring>
#define private public
#define protected public
#include "var_opt_sketch.hpp"
#include "var_opt_union.hpp"
#undef private
#undef protected
using namespace datasketches;
using vh::I; using vh::Line; using vh::Out;
typedef var_opt_sketch<int64_t> vo_t;
typedef var_opt_union<int64_t> vu_t;
static std::map<long, std::unique_ptr<vo_t>> regs;
static std::map<long, std::unique_ptr<vu_t>> unions;

static vo_t& get(I r) { auto it = regs.find((long)r); if (it == regs.end()) throw std::invalid_argument("no such register"); return *it->second; }
static vu_t& getu(I r) { auto it = unions.find((long)r); if (it == unions.end()) throw std::invalid_argument("no such union"); return *it->second; }

template<typename F> static void content_sk(const vo_t& s, F put) {
  put((I)(int)s.rf_); put((I)(s.marks_ != nullptr ? 1 : 0)); put((I)s.k_); put((I)s.n_);
  put(s.r_ == 0 ? (I)0 : vh::dbits(s.total_wt_r_)); put((I)s.h_); put((I)s.r_);
  for (uint32_t i = 0; i < s.h_; ++i) put(vh::dbits(s.weights_[i]));
  if (s.marks_ != nullptr) for (uint32_t i = 0; i < s.h_; ++i) put((I)(s.marks_[i] ? 1 : 0));
  for (uint32_t i = 0; i < s.h_; ++i) put((I)(uint64_t)s.data_[i]);
  for (uint32_t i = 0; i < s.r_; ++i) put((I)(uint64_t)s.data_[s.h_ + 1 + i]);
}
template<typename F> static void content_un(const vu_t& u, F put) {
  put((I)u.n_); put(vh::dbits(u.outer_tau_numer_)); put((I)u.outer_tau_denom_); put((I)u.max_k_);
  content_sk(u.gadget_, put);
}

// image with the side conditions of C09: bytes form = stream form, advertised size, header form
template<typename S> static bool image(const S& s, std::vector<uint8_t>& img, Out& o) {
  auto bytes = s.serialize();
  std::ostringstream os(std::ios::binary); s.serialize(os); std::string str = os.str();
  if (str.size() != bytes.size() || memcmp(str.data(), bytes.data(), str.size()) != 0) { o.R(-4); return false; }
  if (bytes.size() != s.get_serialized_size_bytes()) { o.R(-5); return false; }
  auto hb = s.serialize(5);
  if (hb.size() != bytes.size() + 5 || memcmp(hb.data() + 5, bytes.data(), bytes.size()) != 0) { o.R(-7); return false; }
  for (int i = 0; i < 5; ++i) if (hb[i] != 0) { o.R(-7); return false; }
  img.assign(bytes.begin(), bytes.end());
  return true;
}

template<typename S> static bool same_prefix(const S& s, const std::vector<uint8_t>& in) {
  auto b = s.serialize();
  return b.size() <= in.size() && memcmp(b.data(), in.data(), b.size()) == 0;
}

static void decode(int kind, int path, const std::vector<uint8_t>& img, Out& o) {
  if (path == 0) {
    size_t n = img.size();
    uint8_t* buf = static_cast<uint8_t*>(malloc(n ? n : 1));       // exact size: ASan sees any over-read
    if (n) memcpy(buf, img.data(), n);
    struct Free { uint8_t* p; ~Free() { free(p); } } guard{buf};
    const uint8_t* p = n ? buf : buf + 1;
    if (kind == 0) {
      vo_t s = vo_t::deserialize(p, n);
      o.R(1); o.R(same_prefix(s, img) ? 1 : 0); content_sk(s, [&](I v) { o.R(v); });
    } else {
      vu_t u = vu_t::deserialize(p, n);
      o.R(1); o.R(same_prefix(u, img) ? 1 : 0); content_un(u, [&](I v) { o.R(v); });
    }
  } else {
    std::istringstream is(std::string(reinterpret_cast<const char*>(img.data()), img.size()), std::ios::in | std::ios::binary);
    if (kind == 0) {
      vo_t s = vo_t::deserialize(is);
      long pos = (long)is.tellg();
      o.R(1); o.R(pos); o.R(same_prefix(s, img) ? 1 : 0); content_sk(s, [&](I v) { o.R(v); });
    } else {
      vu_t u = vu_t::deserialize(is);
      long pos = (long)is.tellg();
      o.R(1); o.R(pos); o.R(same_prefix(u, img) ? 1 : 0); content_un(u, [&](I v) { o.R(v); });
    }
  }
}

static void handler(const Line& t, Out& o) {
  // random choices of update(): deterministic stream, not logged (the codec model starts from the content of the object)
  vh::source().out = nullptr;
  datasketches::random_utils::verif_src() = &vh::source();
  switch ((int)t.at(0)) {
  case 1: {
    bool gadget = t.at(4) != 0;
    std::unique_ptr<vo_t> p(new vo_t((uint32_t)t.at(2), (resize_factor)(int)t.at(3), gadget, std::allocator<int64_t>()));
    for (size_t i = 5; i + 2 < t.size(); i += 3) p->update((int64_t)t[i], vh::bitsd(t[i + 1]), gadget && t[i + 2] != 0);
    std::vector<uint8_t> img;
    if (!image(*p, img, o)) break;
    content_sk(*p, [&](I v) { o.E(v); });
    for (uint8_t b : img) o.R(b);
    regs[(long)t.at(1)] = std::move(p);
    break; }
  case 2: {
    std::unique_ptr<vu_t> p(new vu_t((uint32_t)t.at(2)));
    for (size_t i = 3; i < t.size(); ++i) p->update(get(t[i]));
    std::vector<uint8_t> img;
    if (!image(*p, img, o)) break;
    content_un(*p, [&](I v) { o.E(v); });
    for (uint8_t b : img) o.R(b);
    unions[(long)t.at(1)] = std::move(p);
    break; }
  case 5: {
    int kind = (int)t.at(1);
    std::vector<uint8_t> img;
    if (kind == 0) { auto v = get(t.at(2)).serialize(); img.assign(v.begin(), v.end()); }
    else { auto v = getu(t.at(2)).serialize(); img.assign(v.begin(), v.end()); }
    long cut = (long)t.at(4), pos = (long)t.at(5);
    if (cut >= 0 && (size_t)cut < img.size()) img.resize((size_t)cut);
    if (pos >= 0 && (size_t)pos < img.size()) img[(size_t)pos] = (uint8_t)t.at(6);
    for (long i = 0; i < (long)t.at(7); ++i) img.push_back(0xA5);
    decode(kind, (int)t.at(3), img, o);
    break; }
  case 3: {
    std::vector<uint8_t> img; for (size_t i = 3; i < t.size(); ++i) img.push_back((uint8_t)t[i]);
    decode((int)t.at(1), (int)t.at(2), img, o);
    break; }
  default: o.R(-2);
  }
}

int main(int argc, char** argv) {
  return vh::run_main(argc, argv, [] { regs.clear(); unions.clear(); vh::source().seed(12345); }, handler);
}
