// drv_tdigestcodec.cpp — correspondence harness for the tdigest<double> image (coq/TDigestCodecDefs.v), properties C09/C10/C11.
//   1 r k            new tdigest<double>(k)            R 1
//   2 r v*           update with the doubles (bit patterns)   R 1
//   10 r             compress()                         R 1
//   7 r r2           r.merge(r2)                        R 1
//   6 r wb hdr       image = serialize(0, wb != 0) (with_buffer = false compresses the object first).  Checked here, negative code on
//                    disagreement: -4 stream form differs, -5 size != get_serialized_size_bytes(wb), -7 serialize(hdr, wb) is not
//                    hdr zero bytes + image.  E: the content of the object AFTER the call: k rev min max cw nc (mean w)* nb buf*
//                    (doubles as bit patterns); R: the image bytes
//   5 r path cut pos val ntrail   the image of the last op 6 on r, truncated to `cut` bytes (cut < 0: whole), byte `pos` replaced by val
//                    (pos < 0: none), ntrail bytes 0xA5 appended; read through path 0 (exact-size heap block, deserialize(bytes,size))
//                    or 1 (deserialize(istream)).  Accepted: R 1 [bytes consumed, stream only] content [re-serialization equal to
//                    the unmangled image: 1/0, only when cut < 0 and pos < 0]; rejected (any std::exception): R -1
//   3 byte*          explicit image through deserialize(bytes);   4 byte*: through deserialize(istream)
#include "common.hpp"
#include <cmath>
#define private public
#define protected public
#include "tdigest.hpp"
#undef private
#undef protected
using namespace datasketches;
using vh::I; using vh::Line; using vh::Out;
typedef tdigest<double> td_t;

static std::map<long, std::unique_ptr<td_t>> regs;
static std::map<long, std::vector<uint8_t>> images;
static td_t& get(I r) { auto it = regs.find((long)r); if (it == regs.end()) throw std::invalid_argument("no such register"); return *it->second; }

static I dbits(double d) { uint64_t u; memcpy(&u, &d, 8); return (I)u; }
static double bitsd(I i) { uint64_t u = (uint64_t)i; double d; memcpy(&d, &u, 8); return d; }

template<typename F> static void content(const td_t& s, F put) {
  put((I)s.k_); put((I)(s.reverse_merge_ ? 1 : 0)); put(dbits(s.min_)); put(dbits(s.max_)); put((I)s.centroids_weight_);
  put((I)s.centroids_.size());
  for (const auto& c : s.centroids_) { put(dbits(c.get_mean())); put((I)c.get_weight()); }
  put((I)s.buffer_.size());
  for (double v : s.buffer_) put(dbits(v));
}

static void decode(int path, const std::vector<uint8_t>& img, const std::vector<uint8_t>* orig, Out& o) {
  std::unique_ptr<td_t> p;
  long used = -1;
  if (path == 0) {
    size_t n = img.size();
    uint8_t* buf = static_cast<uint8_t*>(malloc(n ? n : 1));       // exact size: ASan sees any over-read
    if (n) memcpy(buf, img.data(), n);
    struct Free { uint8_t* p; ~Free() { free(p); } } guard{buf};
    const uint8_t* q = n ? buf : buf + 1;
    p.reset(new td_t(td_t::deserialize(q, n)));
  } else {
    std::istringstream is(std::string(reinterpret_cast<const char*>(img.data()), img.size()), std::ios::in | std::ios::binary);
    p.reset(new td_t(td_t::deserialize(is)));
    used = is.good() ? (long)is.tellg() : -9;
  }
  o.R(1);
  if (path != 0) o.R(used);
  content(*p, [&](I x) { o.R(x); });
  if (orig) {
    auto again = p->serialize(0, true);
    o.R((again.size() == orig->size() && (again.empty() || memcmp(again.data(), orig->data(), again.size()) == 0)) ? 1 : 0);
  }
}

static void handler(const Line& t, Out& o) {
  switch ((int)t.at(0)) {
  case 1: { std::unique_ptr<td_t> p(new td_t((uint16_t)t.at(2))); regs[(long)t.at(1)] = std::move(p); o.R(1); break; }
  case 2: { td_t& s = get(t.at(1)); for (size_t i = 2; i < t.size(); ++i) s.update(bitsd(t[i])); o.R(1); break; }
  case 10: { get(t.at(1)).compress(); o.R(1); break; }
  case 7: { td_t& a = get(t.at(1)); td_t& b = get(t.at(2)); a.merge(b); o.R(1); break; }
  case 6: {
    td_t& s = get(t.at(1));
    const bool wb = t.at(2) != 0; const unsigned hdr = t.size() > 3 ? (unsigned)t.at(3) : 0;
    auto bytes = s.serialize(0, wb);
    std::ostringstream os(std::ios::binary); s.serialize(os, wb); std::string str = os.str();
    if (str.size() != bytes.size() || memcmp(str.data(), bytes.data(), str.size()) != 0) { o.R(-4); break; }
    if (bytes.size() != s.get_serialized_size_bytes(wb)) { o.R(-5); break; }
    if (hdr) {
      auto hb = s.serialize(hdr, wb);
      bool ok = hb.size() == bytes.size() + hdr;
      for (unsigned i = 0; ok && i < hdr; ++i) ok = hb[i] == 0;
      if (ok) ok = memcmp(hb.data() + hdr, bytes.data(), bytes.size()) == 0;
      if (!ok) { o.R(-7); break; }
    }
    content(s, [&](I x) { o.E(x); });
    for (uint8_t b : bytes) o.R(b);
    images[(long)t.at(1)] = std::vector<uint8_t>(bytes.begin(), bytes.end());
    break; }
  case 5: {
    auto it = images.find((long)t.at(1));
    if (it == images.end()) throw std::invalid_argument("no image");
    std::vector<uint8_t> img = it->second;
    long cut = (long)t.at(3), pos = (long)t.at(4);
    if (cut >= 0 && (size_t)cut < img.size()) img.resize((size_t)cut);
    if (pos >= 0 && (size_t)pos < img.size()) img[(size_t)pos] = (uint8_t)t.at(5);
    for (long i = 0; i < (long)t.at(6); ++i) img.push_back(0xA5);
    decode((int)t.at(2), img, (cut < 0 && pos < 0) ? &it->second : nullptr, o);
    break; }
  case 3: case 4: {
    std::vector<uint8_t> img; for (size_t i = 1; i < t.size(); ++i) img.push_back((uint8_t)t[i]);
    decode(t.at(0) == 3 ? 0 : 1, img, nullptr, o);
    break; }
  default: o.R(-2);
  }
}

int main(int argc, char** argv) { return vh::run_main(argc, argv, [] { regs.clear(); images.clear(); }, handler); }
