// drv_ebpps.cpp — correspondence harness for ebpps_sketch<int64_t> (C18).
// Only the public API is used; random choices come from the DATASKETCHES_VERIF hook source.
#include "common.hpp"
#include "hooksrc.hpp"
#include "ebpps_sketch.hpp"
#include <algorithm>
#include <sstream>
using namespace datasketches;
using vh::I; using vh::Line; using vh::Out;
typedef ebpps_sketch<int64_t> sk_t;
static std::map<long, std::unique_ptr<sk_t>> regs;

// random_idx(0) is undefined in the library (uniform_int_distribution(0, UINT32_MAX) -> out-of-range swap); the
// harness source turns the request into an exception so that the run continues: the operation answers -5 and
// the registers it was mutating are dropped (the oracle reports it).
struct ub_trap : std::logic_error { ub_trap() : std::logic_error("random_idx(0)") {} };
struct Src : vh::Source {
  uint64_t index(uint64_t n) override { if (n == 0) throw ub_trap(); return vh::Source::index(n); }
};
static Src src;

static sk_t& get(I r) {
  auto it = regs.find((long)r);
  if (it == regs.end()) throw std::invalid_argument("no such register");
  return *it->second;
}

static void getters(const sk_t& s, Out& o) {
  o.R(s.get_k()); o.R((I)s.get_n()); o.R(vh::dbits(s.get_cumulative_weight())); o.R(vh::dbits(s.get_c()));
}

static void put_sorted(std::vector<int64_t> v, Out& o) {
  std::sort(v.begin(), v.end());
  o.R((I)v.size());
  for (int64_t x : v) o.R((I)x);
}

static void handler(const Line& t, Out& o) {
  src.out = &o; random_utils::verif_src() = &src;
  if (t.at(0) == 99) { src.seed((uint64_t)t.at(1)); o.R(1); return; }
  if (t.at(0) == 98) { for (size_t i = 1; i < t.size(); ++i) src.scripted.push_back(t[i]); o.R(1); return; }
  switch ((int)t.at(0)) {
  case 1: { // new r k
    I k = t.at(2);
    if (k < 0 || k > 0xffffffffLL) throw std::invalid_argument("k out of uint32 range");
    std::unique_ptr<sk_t> p(new sk_t((uint32_t)k));
    regs[(long)t.at(1)] = std::move(p);
    o.R(1); break; }
  case 2: { // update r item weight-bits
    sk_t& s = get(t.at(1));
    int64_t item = (int64_t)t.at(2);
    try { s.update(item, vh::bitsd(t.at(3))); }
    catch (const ub_trap&) { regs.erase((long)t.at(1)); o.R(-5); break; }
    o.R(1); break; }
  case 3: { // getters
    getters(get(t.at(1)), o); break; }
  case 4: { // get_result with a natural draw, then with a forced draw of 0.0 (= every retained item)
    sk_t& s = get(t.at(1));
    o.R(vh::dbits(s.get_c()));
    put_sorted(s.get_result(), o);
    src.scripted.push_front(0);
    put_sorted(s.get_result(), o);
    break; }
  case 5: { // iterate in seven styles under the SAME draw; all must give the same sequence
    sk_t& s = get(t.at(1));
    o.R(vh::dbits(s.get_c()));
    // the draw the first begin() is going to take is fixed in advance, so that a second begin() can be given the same one
    Out* saved = src.out; src.out = nullptr; const double u = src.unit_double(); src.out = saved;
    src.scripted.push_front(vh::dbits(u));
    std::vector<std::vector<int64_t>> walks;
    {
      auto b0 = s.begin(); const auto e = s.end();                     // logs the draw (E), once
      std::vector<int64_t> w;
      { auto it = b0; for (; it != e; ++it) w.push_back(*it); }          // a COPY of the iterator, pre-increment
      walks.push_back(w); w.clear();
      { auto it = b0; for (; it != e; it++) w.push_back(*it); }          // a copy, post-increment, result unused
      walks.push_back(w); w.clear();
      { auto it = b0; while (it != e) w.push_back(*it++); }                // a copy, read through the value of it++
      walks.push_back(w); w.clear();
      walks.push_back(std::vector<int64_t>(b0, e));                       // built by the library from copies
      { typedef decltype(s.begin()) it_t; it_t it(b0); std::vector<it_t> held(1, it);  // a copy stored in a container
        for (auto& h = held[0]; h != e; ++h) w.push_back(*h); }
      walks.push_back(w); w.clear();
      for (; b0 != e; ++b0) w.push_back(*b0);                            // the iterator itself, pre-increment
      walks.insert(walks.begin(), w); w.clear();
    }
    {
      src.scripted.push_front(vh::dbits(u)); src.out = nullptr;          // a second begin() with the same draw, not logged
      std::vector<int64_t> w;
      try { for (int64_t x : s) w.push_back(x); } catch (...) { src.out = saved; throw; }
      src.out = saved;
      walks.push_back(w);
    }
    // report the first style that deviates from the plain walk (the oracle judges it like any other result), else the plain walk
    size_t pick = 0;
    for (size_t i = 1; i < walks.size(); ++i) if (walks[i] != walks[0]) { pick = i; break; }
    put_sorted(walks[pick], o);
    break; }
  case 6: { // merge r r2 mode
    if (t.at(1) == t.at(2)) { o.R(-2); break; }
    sk_t& a = get(t.at(1)); sk_t& b = get(t.at(2));
    bool rv = (t.at(3) == 1);
    try { if (rv) a.merge(std::move(b)); else a.merge(b); }
    catch (const ub_trap&) { regs.erase((long)t.at(1)); if (rv) regs.erase((long)t.at(2)); o.R(-5); break; }
    if (rv) regs.erase((long)t.at(2));
    o.R(1); break; }
  case 7: { // serialize r, deserialize into r2 (mode 0: bytes, 1: stream)
    sk_t& s = get(t.at(1));
    std::unique_ptr<sk_t> p;
    if (t.size() > 3 && t.at(3) == 1) {
      std::stringstream ss(std::ios::in | std::ios::out | std::ios::binary);
      s.serialize(ss);
      p.reset(new sk_t(sk_t::deserialize(ss)));
    } else {
      auto bytes = s.serialize();
      p.reset(new sk_t(sk_t::deserialize(bytes.data(), bytes.size())));
    }
    getters(*p, o);
    regs[(long)t.at(2)] = std::move(p);
    break; }
  case 8: { // reset
    get(t.at(1)).reset(); o.R(1); break; }
  default: o.R(-2);
  }
}

int main(int argc, char** argv) {
  return vh::run_main(argc, argv, [] { regs.clear(); }, handler);
}
