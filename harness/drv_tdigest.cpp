// drv_tdigest.cpp — correspondence harness for tdigest<double> (C17). Public API only; the centroid list and the
// buffer are read from the serialized image (with_buffer = true does not modify the object).
#include "common.hpp"
#include <cmath>
#include "tdigest.hpp"
using namespace datasketches;
using vh::I; using vh::Line; using vh::Out;
// value type: double (family tdigest, compared with the Coq model) or float (family tdigest_float, drv_tdigest_f.cpp, oracle only;
// values still travel as binary64 patterns and are float-representable)
#ifndef TD_VALUE
#define TD_VALUE double
#endif
typedef TD_VALUE V;
typedef tdigest<V> td_t;
typedef std::conditional<std::is_same<V, double>::value, uint64_t, uint32_t>::type WT;   // centroid weight as stored
static std::map<long, std::unique_ptr<td_t>> regs;

static td_t& get(I r) {
  auto it = regs.find((long)r);
  if (it == regs.end()) throw std::invalid_argument("no such register");
  return *it->second;
}

// doubles travel as bit patterns; every NaN is printed as the canonical quiet NaN
static I outd(double d) { return std::isnan(d) ? (I)0x7ff8000000000000ULL : vh::dbits(d); }

template<typename X> static X rd(const std::vector<uint8_t>& b, size_t off) {
  if (off + sizeof(X) > b.size()) throw std::runtime_error("short image");
  X x; memcpy(&x, b.data() + off, sizeof(X)); return x;
}

static void dump(const td_t& s, Out& o) {
  auto b = s.serialize(0, true);
  uint8_t flags = rd<uint8_t>(b, 5);
  if (flags & 1) { o.R(0); o.R(0); return; }
  if (flags & 2) { o.R(1); o.R(outd(rd<V>(b, 8))); o.R(1); o.R(0); return; }
  uint32_t nc = rd<uint32_t>(b, 8), nb = rd<uint32_t>(b, 12);
  size_t off = 16 + 2 * sizeof(V);
  o.R(nc);
  for (uint32_t i = 0; i < nc; ++i) { o.R(outd(rd<V>(b, off))); o.R((I)rd<WT>(b, off + sizeof(WT))); off += 2 * sizeof(WT); }
  o.R(nb);
  for (uint32_t i = 0; i < nb; ++i) { o.R(outd(rd<V>(b, off))); off += sizeof(V); }
}

static void handler(const Line& t, Out& o) {
  switch ((int)t.at(0)) {
  case 1: { // new r k
    std::unique_ptr<td_t> p(new td_t((uint16_t)t.at(2)));
    regs[(long)t.at(1)] = std::move(p);
    o.R(1); break; }
  case 2: { // update r v*
    td_t& s = get(t.at(1));
    for (size_t i = 2; i < t.size(); ++i) s.update((V)vh::bitsd(t[i]));
    o.R(1); break; }
  case 4: { // merge r r2
    td_t& a = get(t.at(1)); td_t& b = get(t.at(2));
    a.merge(b); o.R(1); break; }
  case 5: { // info
    td_t& s = get(t.at(1));
    if (s.is_empty()) { // min / max of an empty digest must be refused
      o.R(1); o.R((I)s.get_total_weight());
      bool rmin = false, rmax = false;
      try { s.get_min_value(); } catch (const std::exception&) { rmin = true; }
      try { s.get_max_value(); } catch (const std::exception&) { rmax = true; }
      o.R(rmin); o.R(rmax); }
    else { o.R(0); o.R((I)s.get_total_weight()); o.R(outd(s.get_min_value())); o.R(outd(s.get_max_value())); }
    break; }
  case 6: { td_t& s = get(t.at(1)); o.R(outd(s.get_rank((V)vh::bitsd(t.at(2))))); break; }
  case 7: { td_t& s = get(t.at(1)); o.R(outd(s.get_quantile(vh::bitsd(t.at(2))))); break; }
  case 8: case 9: { // CDF / PMF
    td_t& s = get(t.at(1));
    std::vector<V> pts;
    for (size_t i = 2; i < t.size(); ++i) pts.push_back((V)vh::bitsd(t[i]));
    auto v = (t.at(0) == 8) ? s.get_CDF(pts.data(), (uint32_t)pts.size()) : s.get_PMF(pts.data(), (uint32_t)pts.size());
    for (double d : v) o.R(outd(d));
    break; }
  case 10: { get(t.at(1)).compress(); o.R(1); break; }
  case 13: { std::unique_ptr<td_t> p(new td_t(get(t.at(1)))); regs[(long)t.at(2)] = std::move(p); o.R(1); break; }   // r2 := copy of r
  case 11: { dump(get(t.at(1)), o); break; }
  case 12: { // r2 := deserialize(serialize(r, with_buffer)); mode 0 = bytes, 1 = stream, >= 2 = bytes behind a header of `mode` bytes
    td_t& s = get(t.at(1));
    bool wb = t.at(3) != 0; int mode = t.size() > 4 ? (int)t.at(4) : 0;
    std::unique_ptr<td_t> p;
    if (mode == 0) {
      auto b = s.serialize(0, wb);
      p.reset(new td_t(td_t::deserialize(b.data(), b.size())));
    } else if (mode >= 2) { // mode = number of header bytes reserved in front of the image
      const unsigned hdr = (unsigned)mode;
      auto plain = s.serialize(0, wb);
      auto b = s.serialize(hdr, wb);
      if (b.size() != plain.size() + hdr) throw std::logic_error("header bytes not reserved");
      for (unsigned i = 0; i < hdr; ++i) if (b[i] != 0) throw std::logic_error("header bytes written");
      if (memcmp(b.data() + hdr, plain.data(), plain.size()) != 0) throw std::logic_error("image after the header differs");
      p.reset(new td_t(td_t::deserialize(b.data() + hdr, b.size() - hdr)));
    } else {
      std::stringstream ss(std::ios::in | std::ios::out | std::ios::binary);
      s.serialize(ss, wb);
      p.reset(new td_t(td_t::deserialize(ss)));
    }
    regs[(long)t.at(2)] = std::move(p);
    o.R(1); break; }
  default: o.R(-2);
  }
}

int main(int argc, char** argv) {
  return vh::run_main(argc, argv, [] { regs.clear(); }, handler);
}
