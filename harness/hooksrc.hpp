// hooksrc.hpp — harness-side source of random choices installed through the DATASKETCHES_VERIF hook.
// Every draw is taken from a scripted queue if non-empty, else from a splitmix64 stream, and is logged
// into the current operation's E line so that the model consumes exactly the same choices.
#ifndef VERIF_HOOKSRC_HPP
#define VERIF_HOOKSRC_HPP
#include "common.hpp"
#include "common_defs.hpp"
#include <deque>
namespace vh {
struct Source : datasketches::random_utils::verif_source {
  uint64_t state = 0x9E3779B97F4A7C15ULL;
  std::deque<I> scripted;
  Out* out = nullptr;
  uint64_t draws = 0;
  uint64_t next64() {
    uint64_t z = (state += 0x9E3779B97F4A7C15ULL);
    z = (z ^ (z >> 30)) * 0xBF58476D1CE4E5B9ULL;
    z = (z ^ (z >> 27)) * 0x94D049BB133111EBULL;
    return z ^ (z >> 31);
  }
  void seed(uint64_t s) { state = s * 0x2545F4914F6CDD1DULL + 0x9E3779B97F4A7C15ULL; scripted.clear(); }
  bool pop(I& v) { if (scripted.empty()) return false; v = scripted.front(); scripted.pop_front(); return true; }
  uint32_t bit() override {
    I v; uint32_t b = pop(v) ? (uint32_t)(v & 1) : (uint32_t)(next64() >> 63);
    ++draws; if (out) out->E(b); return b;
  }
  double unit_double() override {
    I v; double d;
    if (pop(v)) d = bitsd(v);
    else d = (double)(next64() >> 11) * (1.0 / 9007199254740992.0);
    ++draws; if (out) out->E(dbits(d)); return d;
  }
  uint64_t index(uint64_t n) override {
    I v; uint64_t j = pop(v) ? (uint64_t)v % n : next64() % n;
    ++draws; if (out) out->E((I)j); return j;
  }
};
inline Source& source() { static Source s; return s; }
inline void install_source(Out& o) { source().out = &o; datasketches::random_utils::verif_src() = &source(); }
// ops shared by all hooked harnesses: 99 seed -> reseed; 98 v* -> scripted draws
inline bool source_op(const Line& t, Out& o) {
  if (t.at(0) == 99) { source().seed((uint64_t)t.at(1)); o.R(1); return true; }
  if (t.at(0) == 98) { for (size_t i = 1; i < t.size(); ++i) source().scripted.push_back(t[i]); o.R(1); return true; }
  return false;
}
}
#endif
