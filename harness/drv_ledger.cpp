// drv_ledger.cpp — correspondence / value-semantics harness for C19.
// Every sketch uses the tracking allocator vl::talloc (through the public allocator template parameter) and,
// where templated on an item type, the instrumented vl::Item.  After each operation the harness prints
//   R status retained live_items item_slots flags
// where live_items = number of live vl::Item objects in the process, item_slots = total element capacity of the
// live item-bearing blocks (allocate<Item>(n) / allocate<pair<K,Item>>(n)), flags = hygiene events raised during
// the operation (see ledger_track.hpp).  Compiled with ASan+LSan+UBSan by the check.
//
// ops (first token):
//   1 r kind p1 p2      new register r
//   2 r v w mv          update (v: item value / key, w: weight / summary increment, mv: pass the item as rvalue)
//   3 r s               r := new copy of s                              (r free)
//   4 r s mode c        r := new T(std::move(s)); then s is destroyed (mode 0), assigned s = c (mode 1) or s = T(c) (mode 2)
//   5 r s               r = s                                            (r == s: self-assignment)
//   6 r s mode c        r = std::move(s); then as in 4                   (r == s: self-move, no follow-up)
//   7 r s               r.merge(s)
//   8 r s mode c        r.merge(std::move(s)); then as in 4
//   9 r                 reset          10 r   destroy          12 r   trim
//   11 r                { T tmp(r); tmp.query(); }  (copy, query that may build caches, destroy)
//   13 a b c            a = b = c
//   14 r                digest of the serialized image (value-semantics scripts)
//   15 r                query in place
//   16 r s              r := deserialize(serialize(s))                   (r free)
//   18 r s [type]       r := s.get_result([type])   (s a var_opt_union / hll_union / cpc_union; r free)
//   21 r start count stride wmod mv   bulk update: item start + i*stride, weight 1 + i % wmod, for i < count
//   20 n                arm: the n-th Item copy construction of the next operation throws
//   99                  destroy every register; R: live_items item_slots live_bytes live_blocks flags
#include "ledger_objs.hpp"
using namespace vl;
using vh::I; using vh::Line; using vh::Out;

static std::map<long, std::unique_ptr<Obj>> regs;
static long pending_arm = -1;
static bool hll_case = false;     // every register of the case holds an hll_sketch / hll_union: R reports live bytes

static Obj& get(I r) {
  auto it = regs.find((long)r);
  if (it == regs.end() || !it->second) throw std::invalid_argument("no such register");
  return *it->second;
}
static bool has(I r) { return regs.find((long)r) != regs.end(); }
static void need_free(I r) { if (has(r)) throw std::invalid_argument("register in use"); }

static void follow_up(const Line& t, size_t at, I s) {
  const int mode = (int)t.at(at);
  if (mode == 0) { regs.erase((long)s); }
  else if (mode == 2) { Obj& c = get(t.at(at + 1)); std::unique_ptr<Obj> tmp(c.copy()); get(s).move_assign(*tmp); }   // s = T(c)
  else { Obj& c = get(t.at(at + 1)); get(s).copy_assign(c); }
}

// the follow-up is validated before anything is touched
static void check_follow(const Line& t, size_t at, I s) {
  if (t.at(at) == 0) return;
  if (t.at(at + 1) == s) throw std::invalid_argument("follow-up source is the moved-from object");
  if (get(t.at(at + 1)).kind() != get(s).kind()) throw std::invalid_argument("kind mismatch");
}

static const unsigned HYGIENE = ~(unsigned)F_MOVE_FROM_MOVED;

static void body(const Line& t, Out& o, long& retained) {
  switch ((int)t.at(0)) {
  case 1: { need_free(t.at(1));
    const int arena = 1 + (int)(((long)t.at(1) % 3 + 3) % 3);
    std::unique_ptr<Obj> p(make((int)t.at(2), (long)t.at(3), (long)t.at(4), arena));
    regs[(long)t.at(1)] = std::move(p);
    if ((int)t.at(2) == 3) {
      // REQ: successive section sizes nearest_even(k / sqrt(2)^j) as the compactors compute them in float arithmetic (model input)
      float ssr = (float)(long)t.at(3);
      for (int j = 0; j < 40; ++j) { ssr = ssr / sqrtf(2); const uint32_t ne = req_compactor<Item, std::less<Item>, talloc<Item>>::nearest_even(ssr); o.E((I)ne); if (ne < 4) break; }
    }
    retained = get(t.at(1)).retained(); break; }
  case 2: { Obj& s = get(t.at(1)); s.update((int64_t)t.at(2), (int64_t)t.at(3), t.at(4) != 0, o); retained = s.retained(); break; }
  case 3: { need_free(t.at(1)); Obj& s = get(t.at(2)); { std::unique_ptr<Obj> p(s.copy()); regs[(long)t.at(1)] = std::move(p); } retained = get(t.at(1)).retained(); break; }
  case 4: { need_free(t.at(1)); Obj& s = get(t.at(2));
    check_follow(t, 3, t.at(2));
    { std::unique_ptr<Obj> p(s.move_out()); regs[(long)t.at(1)] = std::move(p); }
    follow_up(t, 3, t.at(2)); retained = get(t.at(1)).retained(); break; }
  case 5: { Obj& r = get(t.at(1)); Obj& s = get(t.at(2)); r.copy_assign(s); retained = r.retained(); break; }
  case 6: { Obj& r = get(t.at(1)); Obj& s = get(t.at(2));
    if (t.at(1) != t.at(2)) { if (r.kind() != s.kind()) throw std::invalid_argument("kind mismatch"); check_follow(t, 3, t.at(2)); }
    r.move_assign(s);
    if (t.at(1) != t.at(2)) follow_up(t, 3, t.at(2));
    retained = r.retained(); break; }
  case 7: { if (t.at(1) == t.at(2)) throw std::invalid_argument("self merge"); Obj& r = get(t.at(1)); Obj& s = get(t.at(2)); r.merge(s); retained = r.retained(); break; }
  case 8: { if (t.at(1) == t.at(2)) throw std::invalid_argument("self merge"); Obj& r = get(t.at(1)); Obj& s = get(t.at(2));
    check_follow(t, 3, t.at(2));
    r.merge_move(s); follow_up(t, 3, t.at(2)); retained = r.retained(); break; }
  case 9: { Obj& r = get(t.at(1)); r.reset(); retained = r.retained(); break; }
  case 10: { (void)get(t.at(1)); regs.erase((long)t.at(1)); break; }
  case 11: { Obj& r = get(t.at(1)); { std::unique_ptr<Obj> tmp(r.copy()); tmp->query(); } retained = r.retained(); break; }
  case 12: { Obj& r = get(t.at(1)); r.trim(); retained = r.retained(); break; }
  case 13: { Obj& a = get(t.at(1)); Obj& b = get(t.at(2)); Obj& c = get(t.at(3)); b.copy_assign(c); a.copy_assign(b); retained = a.retained(); break; }
  case 15: { Obj& r = get(t.at(1)); r.query(); retained = r.retained(); break; }
  case 16: { need_free(t.at(1)); Obj& s = get(t.at(2)); { std::unique_ptr<Obj> p(s.roundtrip()); regs[(long)t.at(1)] = std::move(p); } retained = get(t.at(1)).retained(); break; }
  case 18: { need_free(t.at(1)); Obj& s = get(t.at(2)); { std::unique_ptr<Obj> p(s.result(t.size() > 3 ? (long)t.at(3) : 0)); regs[(long)t.at(1)] = std::move(p); } retained = get(t.at(1)).retained(); break; }
  case 21: { Obj& s = get(t.at(1)); const int64_t start = (int64_t)t.at(2), n = (int64_t)t.at(3), stride = (int64_t)t.at(4), wmod = (int64_t)t.at(5);
    Out scratch;   // hashes of bulk updates are not reported
    for (int64_t i = 0; i < n; ++i) { scratch.clear(); s.update(start + i * stride, 1 + (wmod > 0 ? i % wmod : 0), t.at(6) != 0, scratch); }
    retained = s.retained(); break; }
  default: throw std::invalid_argument("unknown op");
  }
}

// HLL block ledger: for operations whose target register holds an hll_sketch / hll_union the harness reports the shape of the
// impl object(s) after the operation (E) and the total live bytes of the tracking allocator in place of the item-slot count
static bool is_hll(I r) { auto it = regs.find((long)r); if (it == regs.end() || !it->second) return false; const int k = it->second->kind(); return k == 7 || k == 15; }
static void emit_shape(I r, Out& o) {
  Obj& x = get(r);
  if (x.kind() == 7) hll_shape(static_cast<HllObj&>(x).s, o); else hll_shape(static_cast<HuObj&>(x).s.gadget_, o);
}

static void handler(const Line& t, Out& o) {
  State& s = st();
  const int op = (int)t.at(0);
  if (op == 20) { pending_arm = (long)t.at(1); o.R(1); o.R(0); o.R(s.live_items); o.R(s.item_slots); o.R(0); return; }
  if (op == 99) {
    s.flags = 0; regs.clear();
    o.R(s.live_items); o.R(s.item_slots); o.R(s.live_bytes); o.R((I)s.blocks.size()); o.R(s.flags & HYGIENE);
    reset_tracking(); caller_pool().clear(); return;
  }
  if (op == 14) { Obj& r = get(t.at(1)); s.flags = 0; const uint64_t d = r.digest(); o.R((I)d); o.R(r.retained()); o.R(s.live_items); o.R(s.item_slots); o.R(s.flags & HYGIENE); return; }
  s.flags = 0;
  s.throw_countdown = pending_arm; pending_arm = -1;
  const long throws0 = s.throws;
  long retained = 0; int status = 1;
  try {
    body(t, o, retained);
    if (op == 1) { const int k = (int)t.at(2); if (k == 7 || k == 15) { if (regs.size() == 1) hll_case = true; } else hll_case = false; }
    if (t.size() > 1 && op != 10 && op != 2 && op != 99 && is_hll(t.at(1))) {
      if (op == 1) hll_sizes(o);
      emit_shape(t.at(1), o);
      if ((op == 4 || op == 6 || op == 8) && t.size() > 4 && t.at(3) != 0 && t.at(1) != t.at(2) && is_hll(t.at(2))) emit_shape(t.at(2), o);   // follow-up assignment
      if (op == 13) emit_shape(t.at(2), o);
    }
  }
  catch (const std::exception&) { status = -1; retained = 0; }
  s.throw_countdown = -1;
  o.R(status); o.R(retained); o.R(s.live_items); o.R(hll_case ? s.live_bytes : s.item_slots); o.R(s.flags & HYGIENE);
  o.F((s.flags & F_MOVE_FROM_MOVED) ? 1 : 0); o.F(s.throws - throws0);
}

int main(int argc, char** argv) {
  return vh::run_main(argc, argv, [] { regs.clear(); pending_arm = -1; hll_case = false; reset_tracking(); caller_pool().clear(); }, handler);
}
