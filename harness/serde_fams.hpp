// serde_fams.hpp — one adapter (sd::Obj) per serializable type / image variant, and the `build` language.
// Observation modes: 0 = printable (no libm-derived values; used for recorded content, C10),
//                    1 = full (in-process comparison original vs restored), 2 = public getters only (objects restored
//                        from corrupted images: no private access, nothing that trusts internal invariants)
#ifndef VERIF_SERDE_FAMS_HPP
#define VERIF_SERDE_FAMS_HPP
#include "serde_core.hpp"
#include "hooksrc.hpp"
#define private public
#define protected public
#include "theta_sketch.hpp"
#include "theta_union.hpp"
#include "tuple_sketch.hpp"
#include "tuple_union.hpp"
#include "array_of_doubles_sketch.hpp"
#include "hll.hpp"
#include "cpc_sketch.hpp"
#include "cpc_union.hpp"
#include "kll_sketch.hpp"
#include "req_sketch.hpp"
#include "quantiles_sketch.hpp"
#include "frequent_items_sketch.hpp"
#include "count_min.hpp"
#include "var_opt_sketch.hpp"
#include "var_opt_union.hpp"
#include "ebpps_sketch.hpp"
#include "tdigest.hpp"
#include "bloom_filter.hpp"
#include "density_sketch.hpp"
#undef private
#undef protected

namespace sd {
using namespace datasketches;

enum Fam { FAM_THETA = 1, FAM_TUPLE = 2, FAM_AOD = 3, FAM_HLL = 4, FAM_CPC = 5, FAM_KLL_F = 6, FAM_KLL_I = 7, FAM_KLL_S = 8,
           FAM_REQ_F = 9, FAM_REQ_S = 10, FAM_QNT_D = 11, FAM_QNT_S = 12, FAM_FI_I = 13, FAM_FI_S = 14, FAM_CM = 15,
           FAM_VO_I = 16, FAM_VO_S = 17, FAM_VOU = 18, FAM_EBPPS_I = 19, FAM_EBPPS_S = 20, FAM_TD_D = 21, FAM_TD_F = 22,
           FAM_BLOOM = 23, FAM_BLOOM_MEM = 24, FAM_DENS_D = 25, FAM_DENS_F = 26, FAM_THETA_WRAP = 27, FAM_BLOOM_WRAP = 28 };

// random choices: deterministic source; a request for an index in an empty range (undefined in the library) throws
struct TrapSource : vh::Source {
  uint64_t index(uint64_t n) override { if (n == 0) throw std::logic_error("random index in an empty range"); return vh::Source::index(n); }
};
inline TrapSource& src() { static TrapSource s; return s; }
inline void reseed(uint64_t s) { src().out = nullptr; src().seed(s); random_utils::verif_src() = &src(); }

inline uint64_t mix64(uint64_t z) {
  z += 0x9E3779B97F4A7C15ULL;
  z = (z ^ (z >> 30)) * 0xBF58476D1CE4E5B9ULL;
  z = (z ^ (z >> 27)) * 0x94D049BB133111EBULL;
  return z ^ (z >> 31);
}
// i-th value of a stream pattern
inline int64_t pat(int pattern, int64_t base, int64_t i, int64_t n) {
  switch (pattern) {
    case 0: return base + i;
    case 1: return base + n - 1 - i;
    case 2: return base + (int64_t)(mix64((uint64_t)(base * 1315423911LL + i)) % 100000);
    case 3: return base;
    case 4: return base + (int64_t)(mix64((uint64_t)(base + i)) % 7);
    default: return base + (i % 13) * 10 + i / 13;
  }
}
template<typename T> struct Item;
template<> struct Item<float> { static float of(int64_t v) { return (float)v * 0.5f; } static void enc(Line& l, float x) { l.push_back(vh::fbits(x)); } };
template<> struct Item<double> { static double of(int64_t v) { return (double)v * 0.25; } static void enc(Line& l, double x) { l.push_back(vh::dbits(x)); } };
template<> struct Item<int64_t> { static int64_t of(int64_t v) { return v * 3 - 1000; } static void enc(Line& l, int64_t x) { l.push_back((I)x); } };
template<> struct Item<std::string> {
  static std::string of(int64_t v) {
    char b[40]; snprintf(b, sizeof b, "%lld", (long long)v);
    std::string s = b; uint64_t m = mix64((uint64_t)v);
    s.append((size_t)(m % 23), (char)('a' + (m >> 8) % 26));       // lengths 1..~40, some long enough to leave SSO
    if ((m >> 16) % 11 == 0) s.clear();                              // the empty string is an item too
    return s;
  }
  static void enc(Line& l, const std::string& x) { l.push_back((I)x.size()); for (char c : x) l.push_back((I)(uint8_t)c); }
};

// custom serde for strings: 1-byte length, bytes, 1-byte xor checksum (exercises the SerDe parameter of the APIs)
struct xs_serde {
  static uint8_t sum(const std::string& s) { uint8_t x = 0x5a; for (char c : s) x ^= (uint8_t)c; return x; }
  void serialize(std::ostream& os, const std::string* items, unsigned num) const {
    for (unsigned i = 0; i < num; ++i) {
      if (items[i].size() > 255) throw std::invalid_argument("string too long for xs_serde");
      uint8_t n = (uint8_t)items[i].size(); os.put((char)n); os.write(items[i].data(), n); os.put((char)sum(items[i]));
    }
  }
  void deserialize(std::istream& is, std::string* items, unsigned num) const {
    unsigned i = 0;
    try {
      for (; i < num; ++i) {
        int n = is.get(); if (!is.good()) throw std::runtime_error("short stream");
        std::string s((size_t)n, '\0'); if (n) is.read(&s[0], n);
        int c = is.get(); if (!is.good()) throw std::runtime_error("short stream");
        if ((uint8_t)c != sum(s)) throw std::runtime_error("checksum");
        new (&items[i]) std::string(std::move(s));
      }
    } catch (...) { for (unsigned j = 0; j < i; ++j) items[j].~basic_string(); throw; }
  }
  size_t serialize(void* ptr, size_t capacity, const std::string* items, unsigned num) const {
    uint8_t* p = static_cast<uint8_t*>(ptr); size_t w = 0;
    for (unsigned i = 0; i < num; ++i) {
      size_t n = items[i].size(); if (n > 255) throw std::invalid_argument("string too long for xs_serde");
      if (w + n + 2 > capacity) throw std::out_of_range("xs_serde: no room");
      p[w++] = (uint8_t)n; memcpy(p + w, items[i].data(), n); w += n; p[w++] = sum(items[i]);
    }
    return w;
  }
  size_t deserialize(const void* ptr, size_t capacity, std::string* items, unsigned num) const {
    const uint8_t* p = static_cast<const uint8_t*>(ptr); size_t r = 0; unsigned i = 0;
    try {
      for (; i < num; ++i) {
        if (r + 1 > capacity) throw std::out_of_range("xs_serde: short");
        size_t n = p[r++];
        if (r + n + 1 > capacity) throw std::out_of_range("xs_serde: short");
        std::string s(reinterpret_cast<const char*>(p + r), n); r += n;
        if (p[r++] != sum(s)) throw std::runtime_error("checksum");
        new (&items[i]) std::string(std::move(s));
      }
    } catch (...) { for (unsigned j = 0; j < i; ++j) items[j].~basic_string(); throw; }
    return r;
  }
  size_t size_of_item(const std::string& s) const { return s.size() + 2; }
};

inline void sort_rows(std::vector<Line>& rows) { std::sort(rows.begin(), rows.end()); }
inline void put_rows(Line& l, std::vector<Line>& rows, bool sorted) {
  if (sorted) sort_rows(rows);
  l.push_back((I)rows.size());
  for (const Line& r : rows) for (I v : r) l.push_back(v);
}
template<typename V> inline Bytes to_bytes(const V& v) { return Bytes(v.begin(), v.end()); }
inline I arg(const Line& t, size_t i, I dflt = 0) { return i < t.size() ? t[i] : dflt; }

// ===============================================================================================================
// Theta
// ===============================================================================================================
template<typename Sk> inline void theta_observe(const Sk& sk, Line& l, int mode) {
  l.push_back(sk.is_empty()); l.push_back(sk.is_ordered()); l.push_back(sk.is_estimation_mode());
  l.push_back((I)sk.get_theta64()); l.push_back((I)sk.get_seed_hash()); l.push_back((I)sk.get_num_retained());
  std::vector<uint64_t> v;
  for (auto it = sk.begin(); it != sk.end(); ++it) v.push_back(*it);
  if (!sk.is_ordered()) std::sort(v.begin(), v.end());
  l.push_back((I)v.size());
  for (uint64_t x : v) l.push_back((I)x);
  l.push_back(vh::dbits(sk.get_estimate()));
  if (mode >= 1) for (uint8_t s = 1; s <= 3; ++s) { l.push_back(vh::dbits(sk.get_lower_bound(s))); l.push_back(vh::dbits(sk.get_upper_bound(s))); }
}

struct ThetaWrapObj : Obj {
  wrapped_compact_theta_sketch sk;
  explicit ThetaWrapObj(const wrapped_compact_theta_sketch& s) : sk(s) {}
  int fam() const override { return FAM_THETA_WRAP; }
  Bytes ser(unsigned) override { throw std::logic_error("wrapped sketch is read-only"); }
  void ser(std::ostream&) override { throw std::logic_error("wrapped sketch is read-only"); }
  Obj* de(const void*, size_t) override { return nullptr; }
  Obj* de(std::istream&) override { return nullptr; }
  void observe(Line& l, int mode) override { theta_observe(sk, l, mode); }
};

struct ThetaObj : Obj {
  compact_theta_sketch sk; bool compressed; uint64_t seed; int lg_k;
  ThetaObj(compact_theta_sketch&& s, bool c, uint64_t sd_, int lgk) : sk(std::move(s)), compressed(c), seed(sd_), lg_k(lgk) {}
  int fam() const override { return FAM_THETA; }
  int state_class() override {   // 0 empty, 1 single, 2 exact, 3 estimation, 4 estimation with zero entries; +8 ordered; +16 compressed image
    int c = sk.is_empty() ? 0 : sk.is_estimation_mode() ? (sk.get_num_retained() == 0 ? 4 : 3) : (sk.get_num_retained() == 1 ? 1 : 2);
    return c + (sk.is_ordered() ? 8 : 0) + (compressed ? 16 : 0);
  }
  Bytes ser(unsigned h) override { return to_bytes(compressed ? sk.serialize_compressed(h) : sk.serialize(h)); }
  void ser(std::ostream& os) override { if (compressed) sk.serialize_compressed(os); else sk.serialize(os); }
  long adv_size() override { return (long)sk.get_serialized_size_bytes(compressed); }
  long max_size() override { return lg_k > 0 ? (long)compact_theta_sketch::get_max_serialized_size_bytes((uint8_t)lg_k) : -1; }
  Obj* de(const void* p, size_t n) override { return new ThetaObj(compact_theta_sketch::deserialize(p, n, seed), compressed, seed, lg_k); }
  Obj* de(std::istream& is) override { return new ThetaObj(compact_theta_sketch::deserialize(is, seed), compressed, seed, lg_k); }
  bool has_wrap() const override { return true; }
  Obj* wrap(const void* p, size_t n) override { return new ThetaWrapObj(wrapped_compact_theta_sketch::wrap(p, n, seed)); }
  void observe(Line& l, int mode) override { theta_observe(sk, l, mode); }
  bool cont(const Line& seg) override {   // n base: union with a fresh sketch of n items
    auto u = theta_union::builder().set_lg_k((uint8_t)(lg_k > 0 ? lg_k : 12)).set_seed(seed).build();
    auto other = update_theta_sketch::builder().set_lg_k((uint8_t)(lg_k > 0 ? lg_k : 12)).set_seed(seed).build();
    for (int64_t i = 0; i < (int64_t)arg(seg, 0, 50); ++i) other.update((uint64_t)(arg(seg, 1, 7) + i));
    bool ord = sk.is_ordered();
    u.update(sk); u.update(other);
    sk = u.get_result(ord);
    return true;
  }
  // legacy images written from the documented layout: kind 1 = serial version 1, kind 2 = serial version 2
  bool legacy(int kind, Bytes& out) override {
    std::vector<uint64_t> e; for (auto it = sk.begin(); it != sk.end(); ++it) e.push_back(*it);
    std::sort(e.begin(), e.end());   // versions 1 and 2 are always ordered
    uint64_t theta = sk.get_theta64(); uint32_t n = (uint32_t)e.size(); uint16_t sh = sk.get_seed_hash();
    out.clear();
    auto put = [&](const void* p, size_t k) { const uint8_t* b = static_cast<const uint8_t*>(p); out.insert(out.end(), b, b + k); };
    if (kind == 1) {     // 3 preamble longs always: [3, 1, 3(type), lgNom, lgArr, 0,0,0][n, 0][theta][entries]
      uint8_t pre[8] = {3, 1, 3, (uint8_t)lg_k, 0, 0, 0, 0}; put(pre, 8);
      uint32_t z = 0; put(&n, 4); put(&z, 4); put(&theta, 8);
    } else {             // [pl, 2, 3, lgNom, lgArr, flags, seed hash] [n, 0] [theta]
      uint8_t pl = sk.is_empty() ? 1 : sk.is_estimation_mode() ? 3 : 2;
      uint8_t pre[6] = {pl, 2, 3, (uint8_t)lg_k, 0, 0x0a}; put(pre, 6); put(&sh, 2);
      uint32_t z = 0;
      if (pl >= 2) { put(&n, 4); put(&z, 4); }
      if (pl >= 3) put(&theta, 8);
    }
    if (!sk.is_empty()) for (uint64_t x : e) put(&x, 8);
    return true;
  }
};

inline Obj* build_theta(const Line& t) {  // lg_k rf p(float bits) seed n base ordered compressed trim
  int lgk = (int)arg(t, 3, 12);
  auto b = update_theta_sketch::builder();
  b.set_lg_k((uint8_t)lgk).set_resize_factor((theta_constants::resize_factor)(int)arg(t, 4, 3)).set_p(vh::bitsf(arg(t, 5, 0x3f800000))).set_seed((uint64_t)arg(t, 6, DEFAULT_SEED));
  auto u = b.build();
  int64_t n = (int64_t)arg(t, 7), base = (int64_t)arg(t, 8);
  for (int64_t i = 0; i < n; ++i) u.update((uint64_t)(base + i));
  if (arg(t, 11)) u.trim();
  return new ThetaObj(u.compact(arg(t, 9, 1) != 0), arg(t, 10) != 0, (uint64_t)arg(t, 6, DEFAULT_SEED), lgk);
}

// ===============================================================================================================
// Tuple<double> and array of doubles
// ===============================================================================================================
struct TupleObj : Obj {
  typedef compact_tuple_sketch<double> sk_t;
  sk_t sk; uint64_t seed; int lg_k;
  TupleObj(sk_t&& s, uint64_t sd_, int lgk) : sk(std::move(s)), seed(sd_), lg_k(lgk) {}
  int fam() const override { return FAM_TUPLE; }
  int state_class() override {
    int c = sk.is_empty() ? 0 : sk.is_estimation_mode() ? (sk.get_num_retained() == 0 ? 4 : 3) : (sk.get_num_retained() == 1 ? 1 : 2);
    return c + (sk.is_ordered() ? 8 : 0);
  }
  Bytes ser(unsigned h) override { return to_bytes(sk.serialize(h)); }
  void ser(std::ostream& os) override { sk.serialize(os); }
  Obj* de(const void* p, size_t n) override { return new TupleObj(sk_t::deserialize(p, n, seed), seed, lg_k); }
  Obj* de(std::istream& is) override { return new TupleObj(sk_t::deserialize(is, seed), seed, lg_k); }
  void observe(Line& l, int mode) override {
    l.push_back(sk.is_empty()); l.push_back(sk.is_ordered()); l.push_back(sk.is_estimation_mode());
    l.push_back((I)sk.get_theta64()); l.push_back((I)sk.get_seed_hash()); l.push_back((I)sk.get_num_retained());
    std::vector<Line> rows;
    for (auto it = sk.begin(); it != sk.end(); ++it) { Line r; r.push_back((I)(*it).first); r.push_back(vh::dbits((*it).second)); rows.push_back(r); }
    put_rows(l, rows, !sk.is_ordered());
    l.push_back(vh::dbits(sk.get_estimate()));
    if (mode >= 1) for (uint8_t s = 1; s <= 3; ++s) { l.push_back(vh::dbits(sk.get_lower_bound(s))); l.push_back(vh::dbits(sk.get_upper_bound(s))); }
  }
  bool cont(const Line& seg) override {
    auto u = tuple_union<double>::builder().set_lg_k((uint8_t)lg_k).set_seed(seed).build();
    auto other = update_tuple_sketch<double>::builder().set_lg_k((uint8_t)lg_k).set_seed(seed).build();
    for (int64_t i = 0; i < (int64_t)arg(seg, 0, 50); ++i) other.update((uint64_t)(arg(seg, 1, 7) + i), 1.5);
    bool ord = sk.is_ordered();
    u.update(sk); u.update(other);
    sk = u.get_result(ord);
    return true;
  }
  bool legacy(int, Bytes& out) override {   // "legacy" tuple image: serial version 1, sketch type 5, same body
    out = ser(0); if (out.size() < 8) return false; out[1] = 1; out[3] = 5; return true;
  }
};
inline Obj* build_tuple(const Line& t) {  // lg_k p seed n base ordered
  int lgk = (int)arg(t, 3, 12); uint64_t seed = (uint64_t)arg(t, 5, DEFAULT_SEED);
  auto u = update_tuple_sketch<double>::builder().set_lg_k((uint8_t)lgk).set_p(vh::bitsf(arg(t, 4, 0x3f800000))).set_seed(seed).build();
  int64_t n = (int64_t)arg(t, 6), base = (int64_t)arg(t, 7);
  for (int64_t i = 0; i < n; ++i) { u.update((uint64_t)(base + i), 0.5 + (double)(i % 5)); if (i % 3 == 0) u.update((uint64_t)(base + i), 2.25); }
  return new TupleObj(u.compact(arg(t, 8, 1) != 0), seed, lgk);
}

struct AodObj : Obj {
  typedef compact_array_of_doubles_sketch sk_t;
  sk_t sk; uint64_t seed; int lg_k;
  AodObj(sk_t&& s, uint64_t sd_, int lgk) : sk(std::move(s)), seed(sd_), lg_k(lgk) {}
  int fam() const override { return FAM_AOD; }
  int state_class() override {
    int c = sk.is_empty() ? 0 : sk.is_estimation_mode() ? (sk.get_num_retained() == 0 ? 4 : 3) : (sk.get_num_retained() == 1 ? 1 : 2);
    return c + (sk.is_ordered() ? 8 : 0);
  }
  Bytes ser(unsigned h) override { return to_bytes(sk.serialize(h)); }
  void ser(std::ostream& os) override { sk.serialize(os); }
  Obj* de(const void* p, size_t n) override { return new AodObj(sk_t::deserialize(p, n, seed), seed, lg_k); }
  Obj* de(std::istream& is) override { return new AodObj(sk_t::deserialize(is, seed), seed, lg_k); }
  void observe(Line& l, int mode) override {
    l.push_back(sk.is_empty()); l.push_back(sk.is_ordered()); l.push_back(sk.is_estimation_mode());
    l.push_back((I)sk.get_theta64()); l.push_back((I)sk.get_seed_hash()); l.push_back((I)sk.get_num_retained());
    l.push_back((I)sk.get_num_values());
    std::vector<Line> rows;
    for (auto it = sk.begin(); it != sk.end(); ++it) {
      Line r; r.push_back((I)(*it).first);
      const auto& a = (*it).second; r.push_back((I)a.size());
      for (uint8_t j = 0; j < a.size(); ++j) r.push_back(vh::dbits(a[j]));
      rows.push_back(r);
    }
    put_rows(l, rows, !sk.is_ordered());
    l.push_back(vh::dbits(sk.get_estimate()));
    if (mode >= 1) for (uint8_t s = 1; s <= 3; ++s) { l.push_back(vh::dbits(sk.get_lower_bound(s))); l.push_back(vh::dbits(sk.get_upper_bound(s))); }
  }
  bool cont(const Line& seg) override {
    uint8_t nv = sk.get_num_values();
    auto u = array_of_doubles_union::builder(default_array_of_doubles_union_policy(nv)).set_lg_k((uint8_t)lg_k).set_seed(seed).build();
    auto other = update_array_of_doubles_sketch::builder(default_array_of_doubles_update_policy(nv)).set_lg_k((uint8_t)lg_k).set_seed(seed).build();
    std::vector<double> a(nv, 1.5);
    for (int64_t i = 0; i < (int64_t)arg(seg, 0, 50); ++i) other.update((uint64_t)(arg(seg, 1, 7) + i), a);
    bool ord = sk.is_ordered();
    u.update(sk); u.update(other);
    sk = u.get_result(ord);
    return true;
  }
};
inline Obj* build_aod(const Line& t) {  // lg_k p seed n base ordered num_values
  int lgk = (int)arg(t, 3, 12); uint64_t seed = (uint64_t)arg(t, 5, DEFAULT_SEED); uint8_t nv = (uint8_t)arg(t, 9, 1);
  auto u = update_array_of_doubles_sketch::builder(default_array_of_doubles_update_policy(nv)).set_lg_k((uint8_t)lgk)
             .set_p(vh::bitsf(arg(t, 4, 0x3f800000))).set_seed(seed).build();
  int64_t n = (int64_t)arg(t, 6), base = (int64_t)arg(t, 7);
  std::vector<double> a(nv, 0.0);
  for (int64_t i = 0; i < n; ++i) { for (uint8_t j = 0; j < nv; ++j) a[j] = 0.5 * (double)(j + 1) + (double)(i % 4); u.update((uint64_t)(base + i), a); }
  return new AodObj(compact_array_of_doubles_sketch(u, arg(t, 8, 1) != 0), seed, lgk);
}


// ===============================================================================================================
// HLL (3 target types x list/set/hll x compact/updatable image)
// ===============================================================================================================
struct HllObj : Obj {
  typedef std::allocator<uint8_t> A;
  hll_sketch sk; bool updatable;
  HllObj(hll_sketch&& s, bool u) : sk(std::move(s)), updatable(u) {}
  int fam() const override { return FAM_HLL; }
  int state_class() override {   // mode (0 list, 1 set, 2 hll) + 4*type + 16*updatable + 32*empty + 64*out_of_order + 128*aux present
    int c = (int)sk.get_current_mode() + 4 * (int)sk.get_target_type() + (updatable ? 16 : 0) + (sk.is_empty() ? 32 : 0) + (sk.is_out_of_order_flag() ? 64 : 0);
    if (sk.get_current_mode() == HLL) { const HllArray<A>* h = static_cast<const HllArray<A>*>(sk.sketch_impl); if (h->getAuxHashMap() != nullptr && h->getAuxHashMap()->getAuxCount() > 0) c += 128; }
    return c;
  }
  bool has_header() const override { return !updatable; }
  Bytes ser(unsigned h) override { return to_bytes(updatable ? sk.serialize_updatable() : sk.serialize_compact(h)); }
  void ser(std::ostream& os) override { if (updatable) sk.serialize_updatable(os); else sk.serialize_compact(os); }
  long adv_size() override { return updatable ? (long)sk.get_updatable_serialization_bytes() : (long)sk.get_compact_serialization_bytes(); }
  long max_size() override { return updatable ? (long)hll_sketch::get_max_updatable_serialization_bytes(sk.get_lg_config_k(), sk.get_target_type()) : -1; }
  Obj* de(const void* p, size_t n) override { return new HllObj(hll_sketch::deserialize(p, n), updatable); }
  Obj* de(std::istream& is) override { return new HllObj(hll_sketch::deserialize(is), updatable); }
  void observe(Line& l, int mode) override {
    l.push_back(sk.get_lg_config_k()); l.push_back((int)sk.get_target_type()); l.push_back(sk.is_empty());
    if (mode <= 1) {
      hll_mode m = sk.get_current_mode();
      l.push_back((int)m); l.push_back(sk.is_out_of_order_flag());
      std::vector<uint32_t> v;
      if (m == LIST || m == SET) { const CouponList<A>* cl = static_cast<const CouponList<A>*>(sk.sketch_impl); for (auto it = cl->begin(false); it != cl->end(); ++it) v.push_back(*it); }
      else { const HllArray<A>* h = static_cast<const HllArray<A>*>(sk.sketch_impl); for (auto it = h->begin(false); it != h->end(); ++it) v.push_back(*it); }
      std::sort(v.begin(), v.end());
      l.push_back((I)v.size()); for (uint32_t c : v) l.push_back(c);
      if (m == HLL) {   // the estimator state travels in the image: HIP accumulator, KxQ registers (exact IEEE arithmetic, no libm)
        const HllArray<A>* h = static_cast<const HllArray<A>*>(sk.sketch_impl);
        l.push_back(vh::dbits(h->getHipAccum())); l.push_back(vh::dbits(h->getKxQ0())); l.push_back(vh::dbits(h->getKxQ1()));
        l.push_back(h->getCurMin()); l.push_back(h->getNumAtCurMin());
      }
    }
    if (mode >= 1) {
      l.push_back(vh::dbits(sk.get_estimate())); l.push_back(vh::dbits(sk.get_composite_estimate()));
      for (uint8_t s = 1; s <= 3; ++s) { l.push_back(vh::dbits(sk.get_lower_bound(s))); l.push_back(vh::dbits(sk.get_upper_bound(s))); }
      l.push_back((I)sk.get_compact_serialization_bytes());
    }
  }
  bool cont(const Line& seg) override {   // n base un: n more updates, then union with a sketch of un items when un > 0
    for (int64_t i = 0; i < (int64_t)arg(seg, 0, 50); ++i) sk.update((uint64_t)(arg(seg, 1, 7) + i));
    int64_t un = (int64_t)arg(seg, 2, 0);
    if (un > 0) {
      hll_sketch other(sk.get_lg_config_k(), sk.get_target_type());
      for (int64_t i = 0; i < un; ++i) other.update((uint64_t)(1000003 + i));
      hll_union u(sk.get_lg_config_k()); u.update(sk); u.update(other);
      sk = u.get_result(sk.get_target_type());
    }
    return true;
  }
  static void sort_words(Bytes& b, size_t from) {
    if (from >= b.size()) return;
    size_t n = (b.size() - from) / 4; std::vector<uint32_t> w(n);
    if (n) memcpy(w.data(), b.data() + from, n * 4);
    std::sort(w.begin(), w.end());
    if (n) memcpy(b.data() + from, w.data(), n * 4);
  }
  bool unordered_layout(const Bytes& b) override {
    if (b.size() < 8) return false;
    int mode = b[7] & 3, type = (b[7] >> 2) & 3;
    return mode == 1 || (mode == 2 && type == 0);
  }
  Bytes canon(const Bytes& b) override {
    Bytes c(b); if (c.size() < 8) return c;
    int mode = c[7] & 3, type = (c[7] >> 2) & 3;
    if (mode == 1) sort_words(c, 12);
    else if (mode == 2 && type == 0) sort_words(c, 40 + ((size_t)1 << (c[3] - 1)));
    return c;
  }
};
inline Obj* build_hll(const Line& t) {  // lg_k type start_full n base updatable via_union
  uint8_t lgk = (uint8_t)arg(t, 3, 10); target_hll_type ty = (target_hll_type)(int)arg(t, 4, 0);
  hll_sketch s(lgk, ty, arg(t, 5) != 0);
  int64_t n = (int64_t)arg(t, 6), base = (int64_t)arg(t, 7);
  for (int64_t i = 0; i < n; ++i) s.update((uint64_t)(base + i));
  if (arg(t, 9)) {   // result of a union (out-of-order flag, no HIP)
    hll_sketch o(lgk, ty); for (int64_t i = 0; i < n / 2 + 3; ++i) o.update((uint64_t)(base + 500000 + i));
    hll_union u(lgk); u.update(s); u.update(o);
    return new HllObj(u.get_result(ty), arg(t, 8) != 0);
  }
  return new HllObj(std::move(s), arg(t, 8) != 0);
}

// ===============================================================================================================
// CPC
// ===============================================================================================================
struct CpcObj : Obj {
  cpc_sketch sk; uint64_t seed;
  CpcObj(cpc_sketch&& s, uint64_t sd_) : sk(std::move(s)), seed(sd_) {}
  int fam() const override { return FAM_CPC; }
  int state_class() override { return (int)sk.determine_flavor() + (sk.was_merged ? 8 : 0); }
  Bytes ser(unsigned h) override { return to_bytes(sk.serialize(h)); }
  void ser(std::ostream& os) override { sk.serialize(os); }
  long max_size() override { return (long)cpc_sketch::get_max_serialized_size_bytes(sk.get_lg_k()); }
  Obj* de(const void* p, size_t n) override { return new CpcObj(cpc_sketch::deserialize(p, n, seed), seed); }
  Obj* de(std::istream& is) override { return new CpcObj(cpc_sketch::deserialize(is, seed), seed); }
  void observe(Line& l, int mode) override {
    l.push_back(sk.get_lg_k()); l.push_back(sk.is_empty());
    if (mode <= 1) {
      l.push_back((I)sk.num_coupons); l.push_back((int)sk.determine_flavor()); l.push_back(sk.was_merged);
      auto m = sk.build_bit_matrix();
      l.push_back((I)m.size()); for (uint64_t r : m) l.push_back((I)r);
      if (!sk.was_merged) { l.push_back(vh::dbits(sk.kxp)); l.push_back(vh::dbits(sk.hip_est_accum)); }
    }
    if (mode >= 1) {
      l.push_back(vh::dbits(sk.get_estimate()));
      for (int k = 1; k <= 3; ++k) { l.push_back(vh::dbits(sk.get_lower_bound(k))); l.push_back(vh::dbits(sk.get_upper_bound(k))); }
      l.push_back(sk.validate());
    }
  }
  bool cont(const Line& seg) override {
    for (int64_t i = 0; i < (int64_t)arg(seg, 0, 50); ++i) sk.update((uint64_t)(arg(seg, 1, 7) + i));
    int64_t un = (int64_t)arg(seg, 2, 0);
    if (un > 0) {
      cpc_sketch other(sk.get_lg_k(), seed); for (int64_t i = 0; i < un; ++i) other.update((uint64_t)(1000003 + i));
      cpc_union u(sk.get_lg_k(), seed); u.update(sk); u.update(other);
      sk = u.get_result();
    }
    return true;
  }
};
inline Obj* build_cpc(const Line& t) {  // lg_k seed n base merged
  uint8_t lgk = (uint8_t)arg(t, 3, 10); uint64_t seed = (uint64_t)arg(t, 4, DEFAULT_SEED);
  cpc_sketch s(lgk, seed);
  int64_t n = (int64_t)arg(t, 5), base = (int64_t)arg(t, 6);
  for (int64_t i = 0; i < n; ++i) s.update((uint64_t)(base + i));
  if (arg(t, 7)) {
    cpc_sketch o(lgk, seed); for (int64_t i = 0; i < n / 3 + 1; ++i) o.update((uint64_t)(base + 700000 + i));
    cpc_union u(lgk, seed); u.update(s); u.update(o);
    return new CpcObj(u.get_result(), seed);
  }
  return new CpcObj(std::move(s), seed);
}

// FAMILIES-END
inline Obj* build(int fam, const Line& t) {
  switch (fam) {
    case FAM_THETA: return build_theta(t);
    case FAM_TUPLE: return build_tuple(t);
    case FAM_AOD: return build_aod(t);
    case FAM_HLL: return build_hll(t);
    case FAM_CPC: return build_cpc(t);
    default: return nullptr;
  }
}
inline bool legacy_image(Obj& x, int kind, Bytes& out) { return x.legacy(kind, out); }
} // namespace sd
#endif
