// serde_fams.hpp — one adapter (sd::Obj) per serializable type / image variant, and the `build` language.
// Observation modes: 0 = printable (no libm-derived values; used for recorded content, C10),
//                    1 = full (in-process comparison original vs restored), 2 = public getters only (objects restored
//                        from corrupted images: no private access, nothing that trusts internal invariants)
#ifndef VERIF_SERDE_FAMS_HPP
#define VERIF_SERDE_FAMS_HPP
#include "serde_core.hpp"
#include "hooksrc.hpp"
#ifndef SERDE_GROUP
#define SERDE_GROUP 0            // 0 = every family in one translation unit; 1..5 = one group (prebuilt objects, see fam_serde.py)
#endif
#define SERDE_G(k) (SERDE_GROUP == 0 || SERDE_GROUP == (k))
#if SERDE_GROUP == 0
#define SERDE_LINKAGE inline
#else
#define SERDE_LINKAGE
#endif
#define private public
#define protected public
#if SERDE_G(1)
#include "theta_sketch.hpp"
#include "theta_union.hpp"
#include "tuple_sketch.hpp"
#include "tuple_union.hpp"
#include "array_of_doubles_sketch.hpp"
#endif
#if SERDE_G(2)
#include "hll.hpp"
#include "cpc_sketch.hpp"
#include "cpc_union.hpp"
#endif
#if SERDE_G(3)
#include "kll_sketch.hpp"
#include "req_sketch.hpp"
#include "quantiles_sketch.hpp"
#endif
#if SERDE_G(4)
#include "frequent_items_sketch.hpp"
#include "count_min.hpp"
#include "var_opt_sketch.hpp"
#include "var_opt_union.hpp"
#include "ebpps_sketch.hpp"
#endif
#if SERDE_G(5)
#include "tdigest.hpp"
#include "bloom_filter.hpp"
#include "density_sketch.hpp"
#endif
#undef private
#undef protected

namespace sd {
using namespace datasketches;

enum Fam { FAM_THETA = 1, FAM_TUPLE = 2, FAM_AOD = 3, FAM_HLL = 4, FAM_CPC = 5, FAM_KLL_F = 6, FAM_KLL_I = 7, FAM_KLL_S = 8,
           FAM_REQ_F = 9, FAM_REQ_S = 10, FAM_QNT_D = 11, FAM_QNT_S = 12, FAM_FI_I = 13, FAM_FI_S = 14, FAM_CM = 15,
           FAM_VO_I = 16, FAM_VO_S = 17, FAM_VOU = 18, FAM_EBPPS_I = 19, FAM_EBPPS_S = 20, FAM_TD_D = 21, FAM_TD_F = 22,
           FAM_BLOOM = 23, FAM_BLOOM_MEM = 24, FAM_DENS_D = 25, FAM_DENS_F = 26, FAM_THETA_WRAP = 27, FAM_BLOOM_WRAP = 28 };

// random choices: deterministic source; a request for an index in an empty range (undefined in the library) throws
struct TrapSource : vh::Source {
  uint64_t index(uint64_t n) override { if (n == 0) throw std::logic_error("random index in an empty range"); return vh::Source::index(n); }
};
inline TrapSource& src() { static TrapSource s; return s; }
#if SERDE_GROUP == 0
inline void reseed(uint64_t s) { src().out = nullptr; src().seed(s); random_utils::verif_src() = &src(); }
#elif SERDE_GROUP == 1
void reseed(uint64_t s) { src().out = nullptr; src().seed(s); random_utils::verif_src() = &src(); }
#else
void reseed(uint64_t s);
#endif

inline uint64_t mix64(uint64_t z) {
  z += 0x9E3779B97F4A7C15ULL;
  z = (z ^ (z >> 30)) * 0xBF58476D1CE4E5B9ULL;
  z = (z ^ (z >> 27)) * 0x94D049BB133111EBULL;
  return z ^ (z >> 31);
}
// i-th value of a stream pattern
inline int64_t pat(int pattern, int64_t base, int64_t i, int64_t n) {
  switch (pattern) {
    case 0: return base + i;
    case 1: return base + n - 1 - i;
    case 2: return base + (int64_t)(mix64((uint64_t)(base * 1315423911LL + i)) % 100000);
    case 3: return base;
    case 4: return base + (int64_t)(mix64((uint64_t)(base + i)) % 7);
    default: return base + (i % 13) * 10 + i / 13;
  }
}
template<typename T> struct Item;
template<> struct Item<float> { static float of(int64_t v) { return (float)v * 0.5f; } static void enc(Line& l, float x) { l.push_back(vh::fbits(x)); } };
template<> struct Item<double> { static double of(int64_t v) { return (double)v * 0.25; } static void enc(Line& l, double x) { l.push_back(vh::dbits(x)); } };
template<> struct Item<int64_t> { static int64_t of(int64_t v) { return v * 3 - 1000; } static void enc(Line& l, int64_t x) { l.push_back((I)x); } };
template<> struct Item<std::string> {
  static std::string of(int64_t v) {
    char b[40]; snprintf(b, sizeof b, "%lld", (long long)v);
    std::string s = b; uint64_t m = mix64((uint64_t)v);
    s.append((size_t)(m % 23), (char)('a' + (m >> 8) % 26));       // lengths 1..~40, some long enough to leave SSO
    if ((m >> 16) % 11 == 0) s.clear();                              // the empty string is an item too
    return s;
  }
  static void enc(Line& l, const std::string& x) { l.push_back((I)x.size()); for (char c : x) l.push_back((I)(uint8_t)c); }
};

// custom serde for strings: 1-byte length, bytes, 1-byte xor checksum (exercises the SerDe parameter of the APIs)
struct xs_serde {
  static uint8_t sum(const std::string& s) { uint8_t x = 0x5a; for (char c : s) x ^= (uint8_t)c; return x; }
  void serialize(std::ostream& os, const std::string* items, unsigned num) const {
    for (unsigned i = 0; i < num; ++i) {
      if (items[i].size() > 255) throw std::invalid_argument("string too long for xs_serde");
      uint8_t n = (uint8_t)items[i].size(); os.put((char)n); os.write(items[i].data(), n); os.put((char)sum(items[i]));
    }
  }
  void deserialize(std::istream& is, std::string* items, unsigned num) const {
    unsigned i = 0;
    try {
      for (; i < num; ++i) {
        int n = is.get(); if (!is.good()) throw std::runtime_error("short stream");
        std::string s((size_t)n, '\0'); if (n) is.read(&s[0], n);
        int c = is.get(); if (!is.good()) throw std::runtime_error("short stream");
        if ((uint8_t)c != sum(s)) throw std::runtime_error("checksum");
        new (&items[i]) std::string(std::move(s));
      }
    } catch (...) { for (unsigned j = 0; j < i; ++j) items[j].~basic_string(); throw; }
  }
  size_t serialize(void* ptr, size_t capacity, const std::string* items, unsigned num) const {
    uint8_t* p = static_cast<uint8_t*>(ptr); size_t w = 0;
    for (unsigned i = 0; i < num; ++i) {
      size_t n = items[i].size(); if (n > 255) throw std::invalid_argument("string too long for xs_serde");
      if (w + n + 2 > capacity) throw std::out_of_range("xs_serde: no room");
      p[w++] = (uint8_t)n; memcpy(p + w, items[i].data(), n); w += n; p[w++] = sum(items[i]);
    }
    return w;
  }
  size_t deserialize(const void* ptr, size_t capacity, std::string* items, unsigned num) const {
    const uint8_t* p = static_cast<const uint8_t*>(ptr); size_t r = 0; unsigned i = 0;
    try {
      for (; i < num; ++i) {
        if (r + 1 > capacity) throw std::out_of_range("xs_serde: short");
        size_t n = p[r++];
        if (r + n + 1 > capacity) throw std::out_of_range("xs_serde: short");
        std::string s(reinterpret_cast<const char*>(p + r), n); r += n;
        if (p[r++] != sum(s)) throw std::runtime_error("checksum");
        new (&items[i]) std::string(std::move(s));
      }
    } catch (...) { for (unsigned j = 0; j < i; ++j) items[j].~basic_string(); throw; }
    return r;
  }
  size_t size_of_item(const std::string& s) const { return s.size() + 2; }
};

inline void sort_rows(std::vector<Line>& rows) { std::sort(rows.begin(), rows.end()); }
inline void put_rows(Line& l, std::vector<Line>& rows, bool sorted) {
  if (sorted) sort_rows(rows);
  l.push_back((I)rows.size());
  for (const Line& r : rows) for (I v : r) l.push_back(v);
}
template<typename V> inline Bytes to_bytes(const V& v) { return Bytes(v.begin(), v.end()); }
inline I arg(const Line& t, size_t i, I dflt = 0) { return i < t.size() ? t[i] : dflt; }

// ---------------------------------------------------------------------------------------------------------------
// C10 input canonicalisation: the same logical values through different update() overloads into separate sketches
// must give identical images. F: struct { typedef ... sk; sk make(); template<V> void up(sk&, V); void ups(sk&, const std::string&);
// void upr(sk&, const void*, size_t); Bytes img(sk&); static const bool full; }  (full = has all integer and floating overloads)
// One R token per variant: a 64-bit digest of the image, or -2 where the type has no such overload. Variant list: see CANON in fam_serde.py.
// ---------------------------------------------------------------------------------------------------------------
inline I fnv64(const Bytes& b) { uint64_t h = 0xcbf29ce484222325ULL; for (uint8_t c : b) { h ^= c; h *= 0x100000001b3ULL; } return (I)h; }
inline double dbl_of_bits(uint64_t u) { double d; memcpy(&d, &u, 8); return d; }
inline float flt_of_bits(uint32_t u) { float d; memcpy(&d, &u, 4); return d; }
template<typename F, typename V> inline I canon_ints(F& f, const int64_t* vals, size_t n) {
  typename F::sk s = f.make(); for (size_t i = 0; i < n; ++i) f.up(s, static_cast<V>(vals[i])); return fnv64(f.img(s));
}
template<typename F, typename V> inline I canon_one(F& f, V v) { typename F::sk s = f.make(); f.up(s, v); return fnv64(f.img(s)); }
template<typename F> inline void canon_variants(F f, Out& o) {
  static const int64_t SMALL[5] = {0, 1, 5, 100, 127}, NEG[3] = {-1, -5, -128};
  const bool full = F::full;
  // 0..7: values 0..127 through int8,int16,int32,int64,uint8,uint16,uint32,uint64
  o.R(full ? canon_ints<F, int8_t>(f, SMALL, 5) : -2); o.R(full ? canon_ints<F, int16_t>(f, SMALL, 5) : -2); o.R(full ? canon_ints<F, int32_t>(f, SMALL, 5) : -2);
  o.R(canon_ints<F, int64_t>(f, SMALL, 5));
  o.R(full ? canon_ints<F, uint8_t>(f, SMALL, 5) : -2); o.R(full ? canon_ints<F, uint16_t>(f, SMALL, 5) : -2); o.R(full ? canon_ints<F, uint32_t>(f, SMALL, 5) : -2);
  o.R(canon_ints<F, uint64_t>(f, SMALL, 5));
  // 8..11: negative values through the signed overloads (sign extension)
  o.R(full ? canon_ints<F, int8_t>(f, NEG, 3) : -2); o.R(full ? canon_ints<F, int16_t>(f, NEG, 3) : -2); o.R(full ? canon_ints<F, int32_t>(f, NEG, 3) : -2);
  o.R(canon_ints<F, int64_t>(f, NEG, 3));
  // 12..16: edges of the unsigned overloads (recorded, compared with the reference only)
  o.R(full ? canon_one<F, uint8_t>(f, 255) : -2); o.R(full ? canon_one<F, int8_t>(f, -1) : -2); o.R(full ? canon_one<F, uint16_t>(f, 65535) : -2);
  o.R(full ? canon_one<F, uint32_t>(f, 4294967295u) : -2); o.R(canon_one<F, uint64_t>(f, 0xffffffffffffffffULL));
  // 17,18: the same values as double and as float
  if (full) {
    static const double FV[4] = {1.0, 0.5, -2.25, 16777216.0};
    { typename F::sk s = f.make(); for (int i = 0; i < 4; ++i) f.up(s, FV[i]); o.R(fnv64(f.img(s))); }
    { typename F::sk s = f.make(); for (int i = 0; i < 4; ++i) f.up(s, (float)FV[i]); o.R(fnv64(f.img(s))); }
    // 19..22: 0.0, -0.0 as double and float
    o.R(canon_one<F, double>(f, 0.0)); o.R(canon_one<F, double>(f, -0.0)); o.R(canon_one<F, float>(f, 0.0f)); o.R(canon_one<F, float>(f, -0.0f));
    // 23..28: NaN payloads (quiet, quiet with payload, negative quiet, signalling) as double; quiet and negative NaN as float
    o.R(canon_one<F, double>(f, dbl_of_bits(0x7ff8000000000000ULL))); o.R(canon_one<F, double>(f, dbl_of_bits(0x7ff8000000000001ULL)));
    o.R(canon_one<F, double>(f, dbl_of_bits(0xfff8000000000000ULL))); o.R(canon_one<F, double>(f, dbl_of_bits(0x7ff0000000000001ULL)));
    o.R(canon_one<F, float>(f, flt_of_bits(0x7fc00000u))); o.R(canon_one<F, float>(f, flt_of_bits(0xffc00001u)));
  } else { for (int i = 17; i <= 28; ++i) o.R(-2); }
  // 29..31: "abc"; "" then "abc" (the empty string is ignored); "abc" as raw bytes
  { typename F::sk s = f.make(); f.ups(s, "abc"); o.R(fnv64(f.img(s))); }
  { typename F::sk s = f.make(); f.ups(s, ""); f.ups(s, "abc"); o.R(fnv64(f.img(s))); }
  { typename F::sk s = f.make(); f.upr(s, "abc", 3); o.R(fnv64(f.img(s))); }
  // 32: a fixed small mixed stream (reference image digest)
  { typename F::sk s = f.make(); for (int64_t i = 0; i < 40; ++i) f.up(s, (int64_t)(i * 1000003 - 17)); f.ups(s, "datasketches"); f.ups(s, "x"); f.up(s, (uint64_t)1 << 63); o.R(fnv64(f.img(s))); }
  // 33..163: one item of every length 0..130 as raw bytes, 164..294: the same bytes as a std::string (one sketch per length): every
  // MurmurHash3 tail length 0..15 after 0..8 blocks and every XXHash64 stripe / tail combination
  for (int as_string = 0; as_string < 2; ++as_string) {
    for (size_t len = 0; len <= 130; ++len) {
      std::string item(len, '\0');
      for (size_t j = 0; j < len; ++j) item[j] = (char)(uint8_t)(j * 37 + len * 11 + 1);
      typename F::sk s = f.make();
      if (as_string) f.ups(s, item); else f.upr(s, item.data(), len);
      o.R(fnv64(f.img(s)));
    }
  }
}

#if SERDE_G(1)
// ===============================================================================================================
// Theta
// ===============================================================================================================
template<typename Sk> inline void theta_observe(const Sk& sk, Line& l, int mode) {
  l.push_back(sk.is_empty()); l.push_back(sk.is_ordered()); l.push_back(sk.is_estimation_mode());
  l.push_back((I)sk.get_theta64()); l.push_back((I)sk.get_seed_hash()); l.push_back((I)sk.get_num_retained());
  std::vector<uint64_t> v;
  for (auto it = sk.begin(); it != sk.end(); ++it) v.push_back(*it);
  if (!sk.is_ordered()) std::sort(v.begin(), v.end());
  l.push_back((I)v.size());
  for (uint64_t x : v) l.push_back((I)x);
  l.push_back(vh::dbits(sk.get_estimate()));
  if (mode >= 1) for (uint8_t s = 1; s <= 3; ++s) { l.push_back(vh::dbits(sk.get_lower_bound(s))); l.push_back(vh::dbits(sk.get_upper_bound(s))); }
}

struct ThetaWrapObj : Obj {
  wrapped_compact_theta_sketch sk;
  explicit ThetaWrapObj(const wrapped_compact_theta_sketch& s) : sk(s) {}
  int fam() const override { return FAM_THETA_WRAP; }
  Bytes ser(unsigned) override { throw std::logic_error("wrapped sketch is read-only"); }
  void ser(std::ostream&) override { throw std::logic_error("wrapped sketch is read-only"); }
  Obj* de(const void*, size_t) override { return nullptr; }
  Obj* de(std::istream&) override { return nullptr; }
  void observe(Line& l, int mode) override { theta_observe(sk, l, mode); }
};

struct ThetaObj : Obj {
  compact_theta_sketch sk; bool compressed; uint64_t seed; int lg_k;
  ThetaObj(compact_theta_sketch&& s, bool c, uint64_t sd_, int lgk) : sk(std::move(s)), compressed(c), seed(sd_), lg_k(lgk) {}
  int fam() const override { return FAM_THETA; }
  int state_class() override {   // 0 empty, 1 single, 2 exact, 3 estimation, 4 estimation with zero entries; +8 ordered; +16 compressed image
    int c = sk.is_empty() ? 0 : sk.is_estimation_mode() ? (sk.get_num_retained() == 0 ? 4 : 3) : (sk.get_num_retained() == 1 ? 1 : 2);
    return c + (sk.is_ordered() ? 8 : 0) + (compressed ? 16 : 0);
  }
  Bytes ser(unsigned h) override { return to_bytes(compressed ? sk.serialize_compressed(h) : sk.serialize(h)); }
  void ser(std::ostream& os) override { if (compressed) sk.serialize_compressed(os); else sk.serialize(os); }
  long adv_size() override { return (long)sk.get_serialized_size_bytes(compressed); }
  long max_size() override { return lg_k > 0 ? (long)compact_theta_sketch::get_max_serialized_size_bytes((uint8_t)lg_k) : -1; }
  Obj* de(const void* p, size_t n) override { return new ThetaObj(compact_theta_sketch::deserialize(p, n, seed), compressed, seed, lg_k); }
  Obj* de(std::istream& is) override { return new ThetaObj(compact_theta_sketch::deserialize(is, seed), compressed, seed, lg_k); }
  bool has_wrap() const override { return true; }
  Obj* wrap(const void* p, size_t n) override { return new ThetaWrapObj(wrapped_compact_theta_sketch::wrap(p, n, seed)); }
  void observe(Line& l, int mode) override { theta_observe(sk, l, mode); }
  bool cont(const Line& seg) override {   // n base: union with a fresh sketch of n items
    auto u = theta_union::builder().set_lg_k((uint8_t)(lg_k > 0 ? lg_k : 12)).set_seed(seed).build();
    auto other = update_theta_sketch::builder().set_lg_k((uint8_t)(lg_k > 0 ? lg_k : 12)).set_seed(seed).build();
    for (int64_t i = 0; i < (int64_t)arg(seg, 0, 50); ++i) other.update((uint64_t)(arg(seg, 1, 7) + i));
    bool ord = sk.is_ordered();
    u.update(sk); u.update(other);
    sk = u.get_result(ord);
    return true;
  }
  // legacy images written from the documented layout: kind 1 = serial version 1, kind 2 = serial version 2
  bool legacy(int kind, Bytes& out) override {
    if (!sk.is_ordered()) return false;   // versions 1 and 2 are always ordered: the content is comparable only for ordered sketches
    std::vector<uint64_t> e; for (auto it = sk.begin(); it != sk.end(); ++it) e.push_back(*it);
    std::sort(e.begin(), e.end());   // versions 1 and 2 are always ordered
    uint64_t theta = sk.get_theta64(); uint32_t n = (uint32_t)e.size(); uint16_t sh = sk.get_seed_hash();
    out.clear();
    auto put = [&](const void* p, size_t k) { const uint8_t* b = static_cast<const uint8_t*>(p); out.insert(out.end(), b, b + k); };
    if (kind == 1) {     // 3 preamble longs always: [3, 1, 3(type), lgNom, lgArr, 0,0,0][n, 0][theta][entries]
      uint8_t pre[8] = {3, 1, 3, (uint8_t)lg_k, 0, 0, 0, 0}; put(pre, 8);
      uint32_t z = 0; put(&n, 4); put(&z, 4); put(&theta, 8);
    } else {             // [pl, 2, 3, lgNom, lgArr, flags, seed hash] [n, 0] [theta]
      uint8_t pl = sk.is_empty() ? 1 : sk.is_estimation_mode() ? 3 : 2;
      uint8_t pre[6] = {pl, 2, 3, (uint8_t)lg_k, 0, 0x0a}; put(pre, 6); put(&sh, 2);
      uint32_t z = 0;
      if (pl >= 2) { put(&n, 4); put(&z, 4); }
      if (pl >= 3) put(&theta, 8);
    }
    if (!sk.is_empty()) for (uint64_t x : e) put(&x, 8);
    return true;
  }
};

inline Obj* build_theta(const Line& t) {  // lg_k rf p(float bits) seed n base ordered compressed trim
  int lgk = (int)arg(t, 3, 12);
  auto b = update_theta_sketch::builder();
  b.set_lg_k((uint8_t)lgk).set_resize_factor((theta_constants::resize_factor)(int)arg(t, 4, 3)).set_p(vh::bitsf(arg(t, 5, 0x3f800000))).set_seed((uint64_t)arg(t, 6, DEFAULT_SEED));
  auto u = b.build();
  int64_t n = (int64_t)arg(t, 7), base = (int64_t)arg(t, 8);
  for (int64_t i = 0; i < n; ++i) u.update((uint64_t)(base + i));
  if (arg(t, 11)) u.trim();
  return new ThetaObj(u.compact(arg(t, 9, 1) != 0), arg(t, 10) != 0, (uint64_t)arg(t, 6, DEFAULT_SEED), lgk);
}

// ===============================================================================================================
// Tuple<double> and array of doubles
// ===============================================================================================================
struct TupleObj : Obj {
  typedef compact_tuple_sketch<double> sk_t;
  sk_t sk; uint64_t seed; int lg_k;
  TupleObj(sk_t&& s, uint64_t sd_, int lgk) : sk(std::move(s)), seed(sd_), lg_k(lgk) {}
  int fam() const override { return FAM_TUPLE; }
  int state_class() override {
    int c = sk.is_empty() ? 0 : sk.is_estimation_mode() ? (sk.get_num_retained() == 0 ? 4 : 3) : (sk.get_num_retained() == 1 ? 1 : 2);
    return c + (sk.is_ordered() ? 8 : 0);
  }
  Bytes ser(unsigned h) override { return to_bytes(sk.serialize(h)); }
  void ser(std::ostream& os) override { sk.serialize(os); }
  Obj* de(const void* p, size_t n) override { return new TupleObj(sk_t::deserialize(p, n, seed), seed, lg_k); }
  Obj* de(std::istream& is) override { return new TupleObj(sk_t::deserialize(is, seed), seed, lg_k); }
  void observe(Line& l, int mode) override {
    l.push_back(sk.is_empty()); l.push_back(sk.is_ordered()); l.push_back(sk.is_estimation_mode());
    l.push_back((I)sk.get_theta64()); l.push_back((I)sk.get_seed_hash()); l.push_back((I)sk.get_num_retained());
    std::vector<Line> rows;
    for (auto it = sk.begin(); it != sk.end(); ++it) { Line r; r.push_back((I)(*it).first); r.push_back(vh::dbits((*it).second)); rows.push_back(r); }
    put_rows(l, rows, !sk.is_ordered());
    l.push_back(vh::dbits(sk.get_estimate()));
    if (mode >= 1) for (uint8_t s = 1; s <= 3; ++s) { l.push_back(vh::dbits(sk.get_lower_bound(s))); l.push_back(vh::dbits(sk.get_upper_bound(s))); }
  }
  bool cont(const Line& seg) override {
    auto u = tuple_union<double>::builder().set_lg_k((uint8_t)lg_k).set_seed(seed).build();
    auto other = update_tuple_sketch<double>::builder().set_lg_k((uint8_t)lg_k).set_seed(seed).build();
    for (int64_t i = 0; i < (int64_t)arg(seg, 0, 50); ++i) other.update((uint64_t)(arg(seg, 1, 7) + i), 1.5);
    bool ord = sk.is_ordered();
    u.update(sk); u.update(other);
    sk = u.get_result(ord);
    return true;
  }
  bool legacy(int, Bytes& out) override {   // "legacy" tuple image: serial version 1, sketch type 5, same body
    out = ser(0); if (out.size() < 8) return false; out[1] = 1; out[3] = 5; return true;
  }
};
inline Obj* build_tuple(const Line& t) {  // lg_k p seed n base ordered
  int lgk = (int)arg(t, 3, 12); uint64_t seed = (uint64_t)arg(t, 5, DEFAULT_SEED);
  auto u = update_tuple_sketch<double>::builder().set_lg_k((uint8_t)lgk).set_p(vh::bitsf(arg(t, 4, 0x3f800000))).set_seed(seed).build();
  int64_t n = (int64_t)arg(t, 6), base = (int64_t)arg(t, 7);
  for (int64_t i = 0; i < n; ++i) { u.update((uint64_t)(base + i), 0.5 + (double)(i % 5)); if (i % 3 == 0) u.update((uint64_t)(base + i), 2.25); }
  return new TupleObj(u.compact(arg(t, 8, 1) != 0), seed, lgk);
}

struct AodObj : Obj {
  typedef compact_array_of_doubles_sketch sk_t;
  sk_t sk; uint64_t seed; int lg_k;
  AodObj(sk_t&& s, uint64_t sd_, int lgk) : sk(std::move(s)), seed(sd_), lg_k(lgk) {}
  int fam() const override { return FAM_AOD; }
  int state_class() override {
    int c = sk.is_empty() ? 0 : sk.is_estimation_mode() ? (sk.get_num_retained() == 0 ? 4 : 3) : (sk.get_num_retained() == 1 ? 1 : 2);
    return c + (sk.is_ordered() ? 8 : 0);
  }
  Bytes ser(unsigned h) override { return to_bytes(sk.serialize(h)); }
  void ser(std::ostream& os) override { sk.serialize(os); }
  Obj* de(const void* p, size_t n) override { return new AodObj(sk_t::deserialize(p, n, seed), seed, lg_k); }
  Obj* de(std::istream& is) override { return new AodObj(sk_t::deserialize(is, seed), seed, lg_k); }
  void observe(Line& l, int mode) override {
    l.push_back(sk.is_empty()); l.push_back(sk.is_ordered()); l.push_back(sk.is_estimation_mode());
    l.push_back((I)sk.get_theta64()); l.push_back((I)sk.get_seed_hash()); l.push_back((I)sk.get_num_retained());
    l.push_back((I)sk.get_num_values());
    std::vector<Line> rows;
    for (auto it = sk.begin(); it != sk.end(); ++it) {
      Line r; r.push_back((I)(*it).first);
      const auto& a = (*it).second; r.push_back((I)a.size());
      for (uint8_t j = 0; j < a.size(); ++j) r.push_back(vh::dbits(a[j]));
      rows.push_back(r);
    }
    put_rows(l, rows, !sk.is_ordered());
    l.push_back(vh::dbits(sk.get_estimate()));
    if (mode >= 1) for (uint8_t s = 1; s <= 3; ++s) { l.push_back(vh::dbits(sk.get_lower_bound(s))); l.push_back(vh::dbits(sk.get_upper_bound(s))); }
  }
  bool cont(const Line& seg) override {
    uint8_t nv = sk.get_num_values();
    auto u = array_of_doubles_union::builder(default_array_of_doubles_union_policy(nv)).set_lg_k((uint8_t)lg_k).set_seed(seed).build();
    auto other = update_array_of_doubles_sketch::builder(default_array_of_doubles_update_policy(nv)).set_lg_k((uint8_t)lg_k).set_seed(seed).build();
    std::vector<double> a(nv, 1.5);
    for (int64_t i = 0; i < (int64_t)arg(seg, 0, 50); ++i) other.update((uint64_t)(arg(seg, 1, 7) + i), a);
    bool ord = sk.is_ordered();
    u.update(sk); u.update(other);
    sk = u.get_result(ord);
    return true;
  }
};
inline Obj* build_aod(const Line& t) {  // lg_k p seed n base ordered num_values
  int lgk = (int)arg(t, 3, 12); uint64_t seed = (uint64_t)arg(t, 5, DEFAULT_SEED); uint8_t nv = (uint8_t)arg(t, 9, 1);
  auto u = update_array_of_doubles_sketch::builder(default_array_of_doubles_update_policy(nv)).set_lg_k((uint8_t)lgk)
             .set_p(vh::bitsf(arg(t, 4, 0x3f800000))).set_seed(seed).build();
  int64_t n = (int64_t)arg(t, 6), base = (int64_t)arg(t, 7);
  std::vector<double> a(nv, 0.0);
  for (int64_t i = 0; i < n; ++i) { for (uint8_t j = 0; j < nv; ++j) a[j] = 0.5 * (double)(j + 1) + (double)(i % 4); u.update((uint64_t)(base + i), a); }
  return new AodObj(compact_array_of_doubles_sketch(u, arg(t, 8, 1) != 0), seed, lgk);
}
struct CanonTheta { typedef update_theta_sketch sk; static const bool full = true;
  sk make() { return update_theta_sketch::builder().set_lg_k(8).build(); }
  template<typename V> void up(sk& s, V v) { s.update(v); } void ups(sk& s, const std::string& x) { s.update(x); } void upr(sk& s, const void* p, size_t n) { s.update(p, n); }
  Bytes img(sk& s) { return to_bytes(s.compact(true).serialize()); } };
struct CanonTuple { typedef update_tuple_sketch<double> sk; static const bool full = true;
  sk make() { return update_tuple_sketch<double>::builder().set_lg_k(8).build(); }
  template<typename V> void up(sk& s, V v) { s.update(v, 1.5); } void ups(sk& s, const std::string& x) { s.update(x, 1.5); } void upr(sk& s, const void* p, size_t n) { s.update(p, n, 1.5); }
  Bytes img(sk& s) { return to_bytes(s.compact(true).serialize()); } };
struct CanonAod { typedef update_array_of_doubles_sketch sk; static const bool full = true; std::vector<double> a;
  CanonAod() : a(2, 1.5) {}
  sk make() { return update_array_of_doubles_sketch::builder(default_array_of_doubles_update_policy(2)).set_lg_k(8).build(); }
  template<typename V> void up(sk& s, V v) { s.update(v, a); } void ups(sk& s, const std::string& x) { s.update(x, a); } void upr(sk& s, const void* p, size_t n) { s.update(p, n, a); }
  Bytes img(sk& s) { return to_bytes(compact_array_of_doubles_sketch(s, true).serialize()); } };
SERDE_LINKAGE bool canon_g1(int type, Out& o) {
  switch (type) {
    case 1: canon_variants(CanonTheta(), o); return true;
    case 2: canon_variants(CanonTuple(), o); return true;
    case 3: canon_variants(CanonAod(), o); return true;
    default: return false;
  }
}
SERDE_LINKAGE Obj* build_g1(int fam, const Line& t) {
  switch (fam) {
    case FAM_THETA: return build_theta(t);
    case FAM_TUPLE: return build_tuple(t);
    case FAM_AOD: return build_aod(t);
    default: return nullptr;
  }
}
#endif // group 1

#if SERDE_G(2)
// ===============================================================================================================
// HLL (3 target types x list/set/hll x compact/updatable image)
// ===============================================================================================================
struct HllObj : Obj {
  typedef std::allocator<uint8_t> A;
  hll_sketch sk; bool updatable;
  HllObj(hll_sketch&& s, bool u) : sk(std::move(s)), updatable(u) {}
  int fam() const override { return FAM_HLL; }
  int state_class() override {   // mode (0 list, 1 set, 2 hll) + 4*type + 16*updatable + 32*empty + 64*out_of_order + 128*aux present
    int c = (int)sk.get_current_mode() + 4 * (int)sk.get_target_type() + (updatable ? 16 : 0) + (sk.is_empty() ? 32 : 0) + (sk.is_out_of_order_flag() ? 64 : 0);
    if (sk.get_current_mode() == HLL) { const HllArray<A>* h = static_cast<const HllArray<A>*>(sk.sketch_impl); if (h->getAuxHashMap() != nullptr && h->getAuxHashMap()->getAuxCount() > 0) c += 128; }
    return c;
  }
  bool has_header() const override { return !updatable; }
  Bytes ser(unsigned h) override { return to_bytes(updatable ? sk.serialize_updatable() : sk.serialize_compact(h)); }
  void ser(std::ostream& os) override { if (updatable) sk.serialize_updatable(os); else sk.serialize_compact(os); }
  long adv_size() override { return updatable ? (long)sk.get_updatable_serialization_bytes() : (long)sk.get_compact_serialization_bytes(); }
  long max_size() override { return updatable ? (long)hll_sketch::get_max_updatable_serialization_bytes(sk.get_lg_config_k(), sk.get_target_type()) : -1; }
  Obj* de(const void* p, size_t n) override { return new HllObj(hll_sketch::deserialize(p, n), updatable); }
  Obj* de(std::istream& is) override { return new HllObj(hll_sketch::deserialize(is), updatable); }
  // a compact image does not keep the slot order of the coupon hash set; when the restored set is later promoted to an HLL array
  // its coupons are replayed in a different order, and the HIP accumulator (and the rounding of the KxQ sums) is order dependent by
  // design: after continuing, only the order-independent content is compared for compact images
  bool cont_exact() override { return updatable; }
  void observe(Line& l, int mode) override {
    l.push_back(sk.get_lg_config_k()); l.push_back((int)sk.get_target_type()); l.push_back(sk.is_empty());
    if (mode == 3) {
      hll_mode m = sk.get_current_mode();
      l.push_back((int)m);
      std::vector<uint32_t> v;
      if (m == LIST || m == SET) { const CouponList<A>* cl = static_cast<const CouponList<A>*>(sk.sketch_impl); for (auto it = cl->begin(false); it != cl->end(); ++it) v.push_back(*it); }
      else { const HllArray<A>* h = static_cast<const HllArray<A>*>(sk.sketch_impl); for (auto it = h->begin(false); it != h->end(); ++it) v.push_back(*it); l.push_back(h->getCurMin()); l.push_back(h->getNumAtCurMin()); }
      std::sort(v.begin(), v.end());
      l.push_back((I)v.size()); for (uint32_t c : v) l.push_back(c);
      return;
    }
    if (mode <= 1) {
      hll_mode m = sk.get_current_mode();
      l.push_back((int)m); l.push_back(sk.is_out_of_order_flag());
      std::vector<uint32_t> v;
      if (m == LIST || m == SET) { const CouponList<A>* cl = static_cast<const CouponList<A>*>(sk.sketch_impl); for (auto it = cl->begin(false); it != cl->end(); ++it) v.push_back(*it); }
      else { const HllArray<A>* h = static_cast<const HllArray<A>*>(sk.sketch_impl); for (auto it = h->begin(false); it != h->end(); ++it) v.push_back(*it); }
      std::sort(v.begin(), v.end());
      l.push_back((I)v.size()); for (uint32_t c : v) l.push_back(c);
      if (m == HLL) {   // the estimator state travels in the image: HIP accumulator, KxQ registers (exact IEEE arithmetic, no libm)
        const HllArray<A>* h = static_cast<const HllArray<A>*>(sk.sketch_impl);
        l.push_back(vh::dbits(h->getHipAccum())); l.push_back(vh::dbits(h->getKxQ0())); l.push_back(vh::dbits(h->getKxQ1()));
        l.push_back(h->getCurMin()); l.push_back(h->getNumAtCurMin());
      }
    }
    if (mode >= 1) {
      l.push_back(vh::dbits(sk.get_estimate())); l.push_back(vh::dbits(sk.get_composite_estimate()));
      for (uint8_t s = 1; s <= 3; ++s) { l.push_back(vh::dbits(sk.get_lower_bound(s))); l.push_back(vh::dbits(sk.get_upper_bound(s))); }
      l.push_back((I)sk.get_compact_serialization_bytes());
    }
  }
  bool cont(const Line& seg) override {   // n base un: n more updates, then union with a sketch of un items when un > 0
    for (int64_t i = 0; i < (int64_t)arg(seg, 0, 50); ++i) sk.update((uint64_t)(arg(seg, 1, 7) + i));
    int64_t un = (int64_t)arg(seg, 2, 0);
    if (un > 0) {
      hll_sketch other(sk.get_lg_config_k(), sk.get_target_type());
      for (int64_t i = 0; i < un; ++i) other.update((uint64_t)(1000003 + i));
      hll_union u(sk.get_lg_config_k()); u.update(sk); u.update(other);
      sk = u.get_result(sk.get_target_type());
    }
    return true;
  }
  static void sort_words(Bytes& b, size_t from) {
    if (from >= b.size()) return;
    size_t n = (b.size() - from) / 4; std::vector<uint32_t> w(n);
    if (n) memcpy(w.data(), b.data() + from, n * 4);
    std::sort(w.begin(), w.end());
    if (n) memcpy(b.data() + from, w.data(), n * 4);
  }
  bool unordered_layout(const Bytes& b) override {
    if (b.size() < 8) return false;
    int mode = b[7] & 3, type = (b[7] >> 2) & 3;
    return mode == 1 || (mode == 2 && type == 0);
  }
  Bytes canon(const Bytes& b) override {
    Bytes c(b); if (c.size() < 8) return c;
    int mode = c[7] & 3, type = (c[7] >> 2) & 3;
    if (mode == 1) sort_words(c, 12);
    else if (mode == 2 && type == 0) sort_words(c, 40 + ((size_t)1 << (c[3] - 1)));
    return c;
  }
};
inline Obj* build_hll(const Line& t) {  // lg_k type start_full n base updatable via_union
  uint8_t lgk = (uint8_t)arg(t, 3, 10); target_hll_type ty = (target_hll_type)(int)arg(t, 4, 0);
  hll_sketch s(lgk, ty, arg(t, 5) != 0);
  int64_t n = (int64_t)arg(t, 6), base = (int64_t)arg(t, 7);
  for (int64_t i = 0; i < n; ++i) s.update((uint64_t)(base + i));
  if (arg(t, 9)) {   // result of a union (out-of-order flag, no HIP)
    hll_sketch o(lgk, ty); for (int64_t i = 0; i < n / 2 + 3; ++i) o.update((uint64_t)(base + 500000 + i));
    hll_union u(lgk); u.update(s); u.update(o);
    return new HllObj(u.get_result(ty), arg(t, 8) != 0);
  }
  return new HllObj(std::move(s), arg(t, 8) != 0);
}

// ===============================================================================================================
// CPC
// ===============================================================================================================
struct CpcObj : Obj {
  cpc_sketch sk; uint64_t seed;
  CpcObj(cpc_sketch&& s, uint64_t sd_) : sk(std::move(s)), seed(sd_) {}
  int fam() const override { return FAM_CPC; }
  int state_class() override { return (int)sk.determine_flavor() + (sk.was_merged ? 8 : 0); }
  Bytes ser(unsigned h) override { return to_bytes(sk.serialize(h)); }
  void ser(std::ostream& os) override { sk.serialize(os); }
  long max_size() override { return (long)cpc_sketch::get_max_serialized_size_bytes(sk.get_lg_k()); }
  Obj* de(const void* p, size_t n) override { return new CpcObj(cpc_sketch::deserialize(p, n, seed), seed); }
  Obj* de(std::istream& is) override { return new CpcObj(cpc_sketch::deserialize(is, seed), seed); }
  void observe(Line& l, int mode) override {
    l.push_back(sk.get_lg_k()); l.push_back(sk.is_empty());
    if (mode <= 1) {
      l.push_back((I)sk.num_coupons); l.push_back((int)sk.determine_flavor()); l.push_back(sk.was_merged);
      auto m = sk.build_bit_matrix();
      l.push_back((I)m.size()); for (uint64_t r : m) l.push_back((I)r);
      if (!sk.was_merged) { l.push_back(vh::dbits(sk.kxp)); l.push_back(vh::dbits(sk.hip_est_accum)); }
    }
    if (mode >= 1) {
      l.push_back(vh::dbits(sk.get_estimate()));
      for (int k = 1; k <= 3; ++k) { l.push_back(vh::dbits(sk.get_lower_bound(k))); l.push_back(vh::dbits(sk.get_upper_bound(k))); }
      l.push_back(sk.validate());
    }
  }
  bool cont(const Line& seg) override {
    for (int64_t i = 0; i < (int64_t)arg(seg, 0, 50); ++i) sk.update((uint64_t)(arg(seg, 1, 7) + i));
    int64_t un = (int64_t)arg(seg, 2, 0);
    if (un > 0) {
      cpc_sketch other(sk.get_lg_k(), seed); for (int64_t i = 0; i < un; ++i) other.update((uint64_t)(1000003 + i));
      cpc_union u(sk.get_lg_k(), seed); u.update(sk); u.update(other);
      sk = u.get_result();
    }
    return true;
  }
};
inline Obj* build_cpc(const Line& t) {  // lg_k seed n base merged
  uint8_t lgk = (uint8_t)arg(t, 3, 10); uint64_t seed = (uint64_t)arg(t, 4, DEFAULT_SEED);
  cpc_sketch s(lgk, seed);
  int64_t n = (int64_t)arg(t, 5), base = (int64_t)arg(t, 6);
  for (int64_t i = 0; i < n; ++i) s.update((uint64_t)(base + i));
  if (arg(t, 7)) {
    cpc_sketch o(lgk, seed); for (int64_t i = 0; i < n / 3 + 1; ++i) o.update((uint64_t)(base + 700000 + i));
    cpc_union u(lgk, seed); u.update(s); u.update(o);
    return new CpcObj(u.get_result(), seed);
  }
  return new CpcObj(std::move(s), seed);
}

struct CanonHll { typedef hll_sketch sk; static const bool full = true; target_hll_type ty; explicit CanonHll(target_hll_type t) : ty(t) {}
  sk make() { return hll_sketch(10, ty); }
  template<typename V> void up(sk& s, V v) { s.update(v); } void ups(sk& s, const std::string& x) { s.update(x); } void upr(sk& s, const void* p, size_t n) { s.update(p, n); }
  Bytes img(sk& s) { Bytes b = to_bytes(s.serialize_compact()); Bytes u = to_bytes(s.serialize_updatable()); b.insert(b.end(), u.begin(), u.end()); return b; } };
struct CanonHllUnion { typedef hll_union sk; static const bool full = true;
  sk make() { return hll_union(10); }
  template<typename V> void up(sk& s, V v) { s.update(v); } void ups(sk& s, const std::string& x) { s.update(x); } void upr(sk& s, const void* p, size_t n) { s.update(p, n); }
  Bytes img(sk& s) { return to_bytes(s.get_result(HLL_8).serialize_compact()); } };
struct CanonCpc { typedef cpc_sketch sk; static const bool full = true;
  sk make() { return cpc_sketch(10); }
  template<typename V> void up(sk& s, V v) { s.update(v); } void ups(sk& s, const std::string& x) { s.update(x); } void upr(sk& s, const void* p, size_t n) { s.update(p, n); }
  Bytes img(sk& s) { return to_bytes(s.serialize()); } };
struct CanonCpcUnion { typedef cpc_sketch sk; static const bool full = true;     // cpc_union takes sketches only: each variant's sketch goes through a union
  sk make() { return cpc_sketch(10); }
  template<typename V> void up(sk& s, V v) { s.update(v); } void ups(sk& s, const std::string& x) { s.update(x); } void upr(sk& s, const void* p, size_t n) { s.update(p, n); }
  Bytes img(sk& s) { cpc_union u(10); u.update(s); return to_bytes(u.get_result().serialize()); } };
SERDE_LINKAGE bool canon_g2(int type, Out& o) {
  switch (type) {
    case 4: canon_variants(CanonHll(HLL_4), o); return true;
    case 5: canon_variants(CanonCpc(), o); return true;
    case 6: canon_variants(CanonHllUnion(), o); return true;
    case 7: canon_variants(CanonCpcUnion(), o); return true;
    case 8: canon_variants(CanonHll(HLL_8), o); return true;
    default: return false;
  }
}
SERDE_LINKAGE Obj* build_g2(int fam, const Line& t) {
  switch (fam) {
    case FAM_HLL: return build_hll(t);
    case FAM_CPC: return build_cpc(t);
    default: return nullptr;
  }
}
#endif // group 2

#if SERDE_G(3)
// ===============================================================================================================
// KLL, REQ, classic quantiles (one adapter; item types float / double / int64 / string; default and custom serde)
// ===============================================================================================================
template<typename T> inline kll_sketch<T> q_make(kll_sketch<T>*, int k, int) { return kll_sketch<T>((uint16_t)k); }
template<typename T> inline req_sketch<T> q_make(req_sketch<T>*, int k, int hra) { return req_sketch<T>((uint16_t)k, hra != 0); }
template<typename T> inline quantiles_sketch<T> q_make(quantiles_sketch<T>*, int k, int) { return quantiles_sketch<T>((uint16_t)k); }
template<typename T> inline int q_kind(const kll_sketch<T>&) { return 0; }
template<typename T> inline int q_kind(const req_sketch<T>&) { return 1 + (0); }
template<typename T> inline int q_kind(const quantiles_sketch<T>&) { return 2; }
template<typename T> inline int q_extra(const kll_sketch<T>&) { return 0; }
template<typename T> inline int q_extra(const req_sketch<T>& s) { return s.is_HRA() ? 1 : 0; }
template<typename T> inline int q_extra(const quantiles_sketch<T>&) { return 0; }
template<typename Sk, typename SD> inline long q_max(const Sk&, const SD&) { return -1; }
template<typename SD> inline long q_max(const kll_sketch<float>& s, const SD&) { return (long)kll_sketch<float>::get_max_serialized_size_bytes(s.get_k(), s.get_n()); }
template<typename SD> inline long q_max(const kll_sketch<int64_t>& s, const SD&) { return (long)kll_sketch<int64_t>::get_max_serialized_size_bytes(s.get_k(), s.get_n()); }
template<typename SD> inline long q_max(const kll_sketch<std::string>& s, const SD& sd) {
  size_t m = 0; for (auto it = s.begin(); it != s.end(); ++it) m = std::max(m, sd.size_of_item((*it).first));
  if (!s.is_empty()) { m = std::max(m, sd.size_of_item(s.get_min_item())); m = std::max(m, sd.size_of_item(s.get_max_item())); }
  return (long)kll_sketch<std::string>::get_max_serialized_size_bytes(s.get_k(), s.get_n(), m);
}

template<typename Sk, typename T, typename SD, int FAMCODE>
struct QObj : Obj {
  Sk sk; SD sd;
  explicit QObj(Sk&& s) : sk(std::move(s)) {}
  int fam() const override { return FAMCODE; }
  int state_class() override {   // 0 empty, 1 single item, 2 exact, 3 estimation, 4 REQ raw-items form (2..4 items); +8 HRA
    int c = sk.is_empty() ? 0 : sk.get_n() == 1 ? 1 : sk.is_estimation_mode() ? 3 : 2;
    if (q_kind(sk) == 1 && sk.get_n() >= 2 && sk.get_n() <= 4 && !sk.is_estimation_mode()) c = 4;
    return c + 8 * q_extra(sk);
  }
  Bytes ser(unsigned h) override { return to_bytes(sk.serialize(h, sd)); }
  void ser(std::ostream& os) override { sk.serialize(os, sd); }
  long adv_size() override { return (long)sk.template get_serialized_size_bytes<SD>(sd); }
  long max_size() override { return q_max(sk, sd); }
  Obj* de(const void* p, size_t n) override { return new QObj(Sk::deserialize(p, n, sd)); }
  Obj* de(std::istream& is) override { return new QObj(Sk::deserialize(is, sd)); }
  bool cont_exact() override { return q_kind(sk) != 1; }   // req_compactor's deserializing constructor draws a fresh coin
  void observe(Line& l, int mode) override {
    if (mode == 3) {
      l.push_back(sk.get_k()); l.push_back((I)sk.get_n()); l.push_back(sk.is_empty()); l.push_back(q_extra(sk));
      if (sk.is_empty()) return;
      Item<T>::enc(l, sk.get_min_item()); Item<T>::enc(l, sk.get_max_item());
      uint64_t w = 0; for (auto it = sk.begin(); it != sk.end(); ++it) w += (*it).second;
      l.push_back((I)w);
      return;
    }
    l.push_back(sk.get_k()); l.push_back((I)sk.get_n()); l.push_back((I)sk.get_num_retained()); l.push_back(sk.is_empty()); l.push_back(sk.is_estimation_mode());
    l.push_back(q_extra(sk));
    if (sk.is_empty()) return;
    Item<T>::enc(l, sk.get_min_item()); Item<T>::enc(l, sk.get_max_item());
    std::vector<Line> rows; size_t guard = 0;
    for (auto it = sk.begin(); it != sk.end(); ++it) {
      Line r; Item<T>::enc(r, (*it).first); r.push_back((I)(*it).second); rows.push_back(r);
      if (++guard > (1u << 22)) throw std::runtime_error("iteration does not end");
    }
    put_rows(l, rows, true);
    if (mode >= 1) {
      static const double RK[5] = {0.0, 0.25, 0.5, 0.9, 1.0};
      for (int i = 0; i < 5; ++i) Item<T>::enc(l, sk.get_quantile(RK[i]));
      l.push_back(vh::dbits(sk.get_rank(sk.get_min_item()))); l.push_back(vh::dbits(sk.get_rank(sk.get_max_item(), false)));
    }
  }
  bool cont(const Line& seg) override {   // n base un
    int64_t n = (int64_t)arg(seg, 0, 50), base = (int64_t)arg(seg, 1, 7), un = (int64_t)arg(seg, 2, 0);
    for (int64_t i = 0; i < n; ++i) sk.update(Item<T>::of(pat(2, base, i, n)));
    if (un > 0) {
      Sk other = q_make((Sk*)nullptr, sk.get_k(), q_extra(sk));
      for (int64_t i = 0; i < un; ++i) other.update(Item<T>::of(pat(2, base + 77, i, un)));
      sk.merge(other);
    }
    return true;
  }
};
template<typename Sk, typename T, typename SD, int FAMCODE>
inline Obj* build_q(const Line& t) {   // k extra n pattern base merged
  int k = (int)arg(t, 3, 200), extra = (int)arg(t, 4, 0); int64_t n = (int64_t)arg(t, 5), base = (int64_t)arg(t, 7); int pattern = (int)arg(t, 6);
  Sk s = q_make((Sk*)nullptr, k, extra);
  if (arg(t, 8)) {
    Sk o = q_make((Sk*)nullptr, k, extra);
    for (int64_t i = 0; i < n; ++i) { if (i % 2) s.update(Item<T>::of(pat(pattern, base, i, n))); else o.update(Item<T>::of(pat(pattern, base, i, n))); }
    s.merge(o);
  } else {
    for (int64_t i = 0; i < n; ++i) s.update(Item<T>::of(pat(pattern, base, i, n)));
  }
  return new QObj<Sk, T, SD, FAMCODE>(std::move(s));
}
SERDE_LINKAGE Obj* build_g3(int fam, const Line& t) {
  switch (fam) {
    case FAM_KLL_F: return build_q<kll_sketch<float>, float, serde<float>, FAM_KLL_F>(t);
    case FAM_KLL_I: return build_q<kll_sketch<int64_t>, int64_t, serde<int64_t>, FAM_KLL_I>(t);
    case FAM_KLL_S: return build_q<kll_sketch<std::string>, std::string, serde<std::string>, FAM_KLL_S>(t);
    case FAM_REQ_F: return build_q<req_sketch<float>, float, serde<float>, FAM_REQ_F>(t);
    case FAM_REQ_S: return build_q<req_sketch<std::string>, std::string, xs_serde, FAM_REQ_S>(t);
    case FAM_QNT_D: return build_q<quantiles_sketch<double>, double, serde<double>, FAM_QNT_D>(t);
    case FAM_QNT_S: return build_q<quantiles_sketch<std::string>, std::string, xs_serde, FAM_QNT_S>(t);
    default: return nullptr;
  }
}
#endif // group 3

#if SERDE_G(4)
// independent walkers over serialized items (used only to canonicalise images whose item order is unspecified)
template<typename T, typename SD> struct ItemWalk;
template<typename SD> struct ItemWalk<int64_t, SD> { static size_t len(const uint8_t*, size_t avail) { return avail >= 8 ? 8 : 0; } };
template<> struct ItemWalk<std::string, serde<std::string>> {
  static size_t len(const uint8_t* p, size_t avail) { if (avail < 4) return 0; uint32_t n; memcpy(&n, p, 4); return (size_t)n + 4 <= avail ? (size_t)n + 4 : 0; }
};
template<> struct ItemWalk<std::string, xs_serde> {
  static size_t len(const uint8_t* p, size_t avail) { if (avail < 2) return 0; size_t n = p[0]; return n + 2 <= avail ? n + 2 : 0; }
};

// ===============================================================================================================
// Frequent items (int64 with the default serde, strings with the default serde)
// ===============================================================================================================
template<typename T, typename SD, int FAMCODE>
struct FiObj : Obj {
  typedef frequent_items_sketch<T> sk_t;
  sk_t sk; SD sd;
  explicit FiObj(sk_t&& s) : sk(std::move(s)) {}
  int fam() const override { return FAMCODE; }
  int state_class() override {   // 0 empty, 1 no purge yet, 2 purged (offset > 0), 3 counters all purged but weight seen
    if (sk.get_total_weight() == 0) return 0;
    if (sk.get_num_active_items() == 0) return 3;
    return sk.get_maximum_error() > 0 ? 2 : 1;
  }
  Bytes ser(unsigned h) override { return to_bytes(sk.serialize(h, sd)); }
  void ser(std::ostream& os) override { sk.serialize(os, sd); }
  long adv_size() override { return (long)sk.get_serialized_size_bytes(sd); }
  Obj* de(const void* p, size_t n) override { return new FiObj(sk_t::deserialize(p, n, sd)); }
  Obj* de(std::istream& is) override { return new FiObj(sk_t::deserialize(is, sd)); }
  void observe(Line& l, int mode) override {
    l.push_back(sk.is_empty()); l.push_back((I)sk.get_num_active_items()); l.push_back((I)sk.get_total_weight()); l.push_back((I)sk.get_maximum_error());
    std::vector<Line> rows;
    auto fr = sk.get_frequent_items(NO_FALSE_NEGATIVES, 0);
    for (const auto& r : fr) { Line x; Item<T>::enc(x, r.get_item()); x.push_back((I)r.get_estimate()); x.push_back((I)r.get_lower_bound()); x.push_back((I)r.get_upper_bound()); rows.push_back(x); }
    put_rows(l, rows, true);
    if (mode >= 1) {
      l.push_back(vh::dbits(sk.get_epsilon()));
      for (int64_t v = 0; v < 6; ++v) { T it = Item<T>::of(v * 5); l.push_back((I)sk.get_estimate(it)); l.push_back((I)sk.get_lower_bound(it)); l.push_back((I)sk.get_upper_bound(it)); }
    }
  }
  bool cont(const Line& seg) override {
    int64_t n = (int64_t)arg(seg, 0, 50), base = (int64_t)arg(seg, 1, 7), un = (int64_t)arg(seg, 2, 0);
    for (int64_t i = 0; i < n; ++i) sk.update(Item<T>::of(pat(4, base, i, n) % 40), (uint64_t)(1 + i % 3));
    if (un > 0) { sk_t o(sk.map.get_lg_max_size()); for (int64_t i = 0; i < un; ++i) o.update(Item<T>::of(pat(5, base, i, un)), 2); sk.merge(o); }
    return true;
  }
  bool unordered_layout(const Bytes& b) override { return b.size() > 32; }
  Bytes canon(const Bytes& b) override {   // [32 preamble bytes][weights][items] -> rows (weight, item image) sorted
    if (b.size() <= 32) return b;
    uint32_t n; memcpy(&n, b.data() + 8, 4);
    if ((size_t)n * 8 > b.size() - 32) return b;
    size_t ip = 32 + (size_t)n * 8;
    std::vector<std::pair<Bytes, Bytes>> rows;
    for (uint32_t i = 0; i < n; ++i) {
      size_t k = ItemWalk<T, SD>::len(b.data() + ip, b.size() - ip);
      if (k == 0) return b;
      rows.push_back(std::make_pair(Bytes(b.begin() + ip, b.begin() + ip + k), Bytes(b.begin() + 32 + 8 * i, b.begin() + 40 + 8 * i)));
      ip += k;
    }
    std::sort(rows.begin(), rows.end());
    Bytes c(b.begin(), b.begin() + 32);
    for (const auto& r : rows) c.insert(c.end(), r.second.begin(), r.second.end());
    for (const auto& r : rows) c.insert(c.end(), r.first.begin(), r.first.end());
    c.insert(c.end(), b.begin() + ip, b.end());
    return c;
  }
};
template<typename T, typename SD, int FAMCODE>
inline Obj* build_fi(const Line& t) {   // lg_max n pattern base universe
  frequent_items_sketch<T> s((uint8_t)arg(t, 3, 4));
  int64_t n = (int64_t)arg(t, 4), base = (int64_t)arg(t, 6), uni = std::max<int64_t>(1, (int64_t)arg(t, 7, 1000)); int pattern = (int)arg(t, 5);
  for (int64_t i = 0; i < n; ++i) s.update(Item<T>::of(pat(pattern, base, i, n) % uni), (uint64_t)(1 + (i * 7) % 5));
  return new FiObj<T, SD, FAMCODE>(std::move(s));
}

// ===============================================================================================================
// Count-min
// ===============================================================================================================
struct CmObj : Obj {
  typedef count_min_sketch<int64_t> sk_t;
  sk_t sk; uint64_t seed;
  CmObj(sk_t&& s, uint64_t sd_) : sk(std::move(s)), seed(sd_) {}
  int fam() const override { return FAM_CM; }
  int state_class() override { return sk.is_empty() ? 0 : 1; }
  Bytes ser(unsigned h) override { return to_bytes(sk.serialize(h)); }
  void ser(std::ostream& os) override { sk.serialize(os); }
  long adv_size() override { return (long)sk.get_serialized_size_bytes(); }
  Obj* de(const void* p, size_t n) override { return new CmObj(sk_t::deserialize(p, n, seed), seed); }
  Obj* de(std::istream& is) override { return new CmObj(sk_t::deserialize(is, seed), seed); }
  void observe(Line& l, int mode) override {
    l.push_back(sk.get_num_hashes()); l.push_back((I)sk.get_num_buckets()); l.push_back((I)sk.get_seed()); l.push_back(sk.is_empty()); l.push_back((I)sk.get_total_weight());
    size_t guard = 0;
    for (auto it = sk.begin(); it != sk.end(); ++it) { l.push_back((I)*it); if (++guard > (1u << 24)) throw std::runtime_error("iteration does not end"); }
    if (mode >= 1) {
      l.push_back(vh::dbits(sk.get_relative_error()));
      for (int64_t v = 0; v < 6; ++v) { l.push_back((I)sk.get_estimate((uint64_t)(v * 3))); l.push_back((I)sk.get_upper_bound((uint64_t)(v * 3))); l.push_back((I)sk.get_lower_bound((uint64_t)(v * 3))); }
      l.push_back((I)sk.get_estimate(std::string("abc")));
    }
  }
  bool cont(const Line& seg) override {
    int64_t n = (int64_t)arg(seg, 0, 50), base = (int64_t)arg(seg, 1, 7), un = (int64_t)arg(seg, 2, 0);
    for (int64_t i = 0; i < n; ++i) sk.update((uint64_t)(pat(4, base, i, n) % 40), 1 + i % 3);
    if (un > 0) { sk_t o(sk.get_num_hashes(), sk.get_num_buckets(), sk.get_seed()); for (int64_t i = 0; i < un; ++i) o.update((uint64_t)i, 2); o.update(std::string("abc"), 4); sk.merge(o); }
    return true;
  }
};
inline Obj* build_cm(const Line& t) {   // num_hashes num_buckets seed n base
  uint64_t seed = (uint64_t)arg(t, 5, DEFAULT_SEED);
  count_min_sketch<int64_t> s((uint8_t)arg(t, 3, 3), (uint32_t)arg(t, 4, 16), seed);
  int64_t n = (int64_t)arg(t, 6), base = (int64_t)arg(t, 7);
  for (int64_t i = 0; i < n; ++i) { if (i % 4 == 3) s.update(Item<std::string>::of(base + i), 2); else s.update((uint64_t)(pat(4, base, i, n)), 1 + i % 5); }
  return new CmObj(std::move(s), seed);
}

// ===============================================================================================================
// VarOpt sketch and union
// ===============================================================================================================
template<typename Sk> inline void varopt_rows(const Sk& sk, Line& l) {
  std::vector<Line> rows; size_t guard = 0;
  for (auto it = sk.begin(); it != sk.end(); ++it) {
    Line r; Item<typename std::decay<decltype((*it).first)>::type>::enc(r, (*it).first); r.push_back(vh::dbits((*it).second)); rows.push_back(r);
    if (++guard > (1u << 22)) throw std::runtime_error("iteration does not end");
  }
  put_rows(l, rows, true);
}
template<typename T, typename SD, int FAMCODE>
struct VoObj : Obj {
  typedef var_opt_sketch<T> sk_t;
  sk_t sk; SD sd;
  explicit VoObj(sk_t&& s) : sk(std::move(s)) {}
  int fam() const override { return FAMCODE; }
  int state_class() override { return sk.is_empty() ? 0 : sk.r_ == 0 ? 1 : 2; }   // empty / exact (warm-up) / sampling
  Bytes ser(unsigned h) override { return to_bytes(sk.serialize(h, sd)); }
  void ser(std::ostream& os) override { sk.serialize(os, sd); }
  long adv_size() override { return (long)sk.template get_serialized_size_bytes<T, SD>(sd); }
  Obj* de(const void* p, size_t n) override { return new VoObj(sk_t::deserialize(p, n, sd)); }
  Obj* de(std::istream& is) override { return new VoObj(sk_t::deserialize(is, sd)); }
  void observe(Line& l, int mode) override {
    l.push_back((I)sk.get_k()); l.push_back((I)sk.get_n()); l.push_back((I)sk.get_num_samples()); l.push_back(sk.is_empty());
    varopt_rows(sk, l);
    if (mode <= 1) { l.push_back((I)sk.h_); l.push_back((I)sk.r_); l.push_back(vh::dbits(sk.total_wt_r_)); l.push_back((int)sk.rf_); }
  }
  bool cont(const Line& seg) override {
    int64_t n = (int64_t)arg(seg, 0, 50), base = (int64_t)arg(seg, 1, 7);
    for (int64_t i = 0; i < n; ++i) sk.update(Item<T>::of(base + i), 1.0 + (double)(i % 7));
    return true;
  }
};
template<typename T, typename SD, int FAMCODE>
inline Obj* build_vo(const Line& t) {   // k rf n base heavy
  var_opt_sketch<T> s((uint32_t)arg(t, 3, 16), (resize_factor)(int)arg(t, 4, 3));
  int64_t n = (int64_t)arg(t, 5), base = (int64_t)arg(t, 6); int64_t heavy = (int64_t)arg(t, 7, 0);
  for (int64_t i = 0; i < n; ++i) s.update(Item<T>::of(base + i), (heavy && i % heavy == 0) ? 1000.0 + (double)i : 1.0 + 0.25 * (double)(i % 9));
  return new VoObj<T, SD, FAMCODE>(std::move(s));
}
struct VouObj : Obj {
  typedef var_opt_union<int64_t> u_t;
  u_t u;
  explicit VouObj(u_t&& x) : u(std::move(x)) {}
  int fam() const override { return FAM_VOU; }
  int state_class() override { return u.n_ == 0 ? 0 : u.gadget_.r_ == 0 ? 1 : (u.outer_tau_denom_ > 0 ? 3 : 2); }
  Bytes ser(unsigned h) override { return to_bytes(u.serialize(h)); }
  void ser(std::ostream& os) override { u.serialize(os); }
  long adv_size() override { return (long)u.get_serialized_size_bytes(); }
  Obj* de(const void* p, size_t n) override { return new VouObj(u_t::deserialize(p, n)); }
  Obj* de(std::istream& is) override { return new VouObj(u_t::deserialize(is)); }
  void observe(Line& l, int mode) override {
    // get_result() with marked items in the gadget runs decrease_k_by_1 -> swap_values, which swaps the never-written mark of the gap
    // slot (an uninitialised bool: UBSan stops the process; reported to the VarOpt family, not a serialization matter), so the union is
    // observed through the state that travels in the image; the result is taken only when there are no marks
    const var_opt_sketch<int64_t>& g = u.gadget_;
    if (mode <= 1) {
      l.push_back((I)u.n_); l.push_back((I)u.max_k_); l.push_back(vh::dbits(u.outer_tau_numer_)); l.push_back((I)u.outer_tau_denom_);
      l.push_back((I)g.k_); l.push_back((I)g.n_); l.push_back((I)g.h_); l.push_back((I)g.r_); l.push_back(vh::dbits(g.total_wt_r_)); l.push_back((I)g.num_marks_in_h_);
      std::vector<Line> rows;
      for (uint32_t i = 0; i < g.h_; ++i) { Line r; r.push_back((I)g.data_[i]); r.push_back(vh::dbits(g.weights_[i])); r.push_back(g.marks_ != nullptr && g.marks_[i]); rows.push_back(r); }
      put_rows(l, rows, true);
      rows.clear();
      for (uint32_t i = g.h_ + 1; i < g.h_ + 1 + g.r_; ++i) { Line r; r.push_back((I)g.data_[i]); rows.push_back(r); }
      put_rows(l, rows, true);
    }
    if (g.num_marks_in_h_ == 0) {
      var_opt_sketch<int64_t> r = u.get_result();
      l.push_back((I)r.get_k()); l.push_back((I)r.get_n()); l.push_back((I)r.get_num_samples()); l.push_back(r.is_empty());
      varopt_rows(r, l);
    }
  }
  bool cont(const Line& seg) override {
    var_opt_sketch<int64_t> s((uint32_t)std::max<int64_t>(1, (int64_t)arg(seg, 2, 8)));
    for (int64_t i = 0; i < (int64_t)arg(seg, 0, 50); ++i) s.update(arg(seg, 1, 7) + i, 1.0 + (double)(i % 5));
    u.update(s);
    return true;
  }
};
inline Obj* build_vou(const Line& t) {   // max_k k1 n1 k2 n2 heavy
  var_opt_union<int64_t> u((uint32_t)arg(t, 3, 16));
  for (int j = 0; j < 2; ++j) {
    int64_t k = (int64_t)arg(t, 4 + 2 * j, 0), n = (int64_t)arg(t, 5 + 2 * j, 0);
    if (k <= 0) continue;
    var_opt_sketch<int64_t> s((uint32_t)k);
    for (int64_t i = 0; i < n; ++i) s.update(1000 * j + i, (arg(t, 8) && i % 5 == 0) ? 500.0 + (double)i : 1.0 + 0.5 * (double)(i % 4));
    u.update(s);
  }
  return new VouObj(std::move(u));
}

// ===============================================================================================================
// EBPPS
// ===============================================================================================================
template<typename T, typename SD, int FAMCODE>
struct EbObj : Obj {
  typedef ebpps_sketch<T> sk_t;
  sk_t sk; SD sd;
  explicit EbObj(sk_t&& s) : sk(std::move(s)) {}
  int fam() const override { return FAMCODE; }
  int state_class() override { return sk.is_empty() ? 0 : (sk.sample_.partial_item_ ? 2 : 1); }
  Bytes ser(unsigned h) override { return to_bytes(sk.serialize(h, sd)); }
  void ser(std::ostream& os) override { sk.serialize(os, sd); }
  long adv_size() override { return (long)sk.get_serialized_size_bytes(sd); }
  Obj* de(const void* p, size_t n) override { return new EbObj(sk_t::deserialize(p, n, sd)); }
  Obj* de(std::istream& is) override { return new EbObj(sk_t::deserialize(is, sd)); }
  void observe(Line& l, int mode) override {
    l.push_back((I)sk.get_k()); l.push_back((I)sk.get_n()); l.push_back(sk.is_empty());
    l.push_back(vh::dbits(sk.get_cumulative_weight())); l.push_back(vh::dbits(sk.get_c()));
    if (mode <= 1) {
      l.push_back(vh::dbits(sk.wt_max_)); l.push_back(vh::dbits(sk.rho_));
      std::vector<Line> rows;
      for (const T& x : sk.sample_.data_) { Line r; Item<T>::enc(r, x); rows.push_back(r); }
      put_rows(l, rows, true);
      if (sk.sample_.partial_item_) { l.push_back(1); Item<T>::enc(l, *sk.sample_.partial_item_); } else l.push_back(0);
    } else {
      src().seed(99); random_utils::verif_src() = &src();
      auto r = sk.get_result(); l.push_back((I)r.size());
    }
  }
  bool cont(const Line& seg) override {
    int64_t n = (int64_t)arg(seg, 0, 50), base = (int64_t)arg(seg, 1, 7), un = (int64_t)arg(seg, 2, 0);
    for (int64_t i = 0; i < n; ++i) sk.update(Item<T>::of(base + i), 1.0 + (double)(i % 3));
    if (un > 0) { sk_t o(sk.get_k()); for (int64_t i = 0; i < un; ++i) o.update(Item<T>::of(900 + i), 1.5); sk.merge(o); }
    return true;
  }
};
template<typename T, typename SD, int FAMCODE>
inline Obj* build_eb(const Line& t) {   // k n base wmode
  ebpps_sketch<T> s((uint32_t)arg(t, 3, 8));
  int64_t n = (int64_t)arg(t, 4), base = (int64_t)arg(t, 5); int wm = (int)arg(t, 6);
  for (int64_t i = 0; i < n; ++i) s.update(Item<T>::of(base + i), wm == 0 ? 1.0 : wm == 1 ? 1.0 + 0.5 * (double)(i % 5) : (i % 11 == 0 ? 40.0 : 0.75));
  return new EbObj<T, SD, FAMCODE>(std::move(s));
}

struct CanonCm { typedef count_min_sketch<int64_t> sk; static const bool full = false;
  sk make() { return count_min_sketch<int64_t>(3, 32, 123); }
  void up(sk& s, int64_t v) { s.update(v, 1); } void up(sk& s, uint64_t v) { s.update(v, 1); }
  template<typename V> void up(sk&, V) {}   // count-min has no other item overloads (never reached: full == false)
  void ups(sk& s, const std::string& x) { s.update(x, 1); } void upr(sk& s, const void* p, size_t n) { s.update(p, n, 1); }
  Bytes img(sk& s) { return to_bytes(s.serialize()); } };
SERDE_LINKAGE bool canon_g4(int type, Out& o) {
  if (type == 15) { canon_variants(CanonCm(), o); return true; }
  return false;
}
SERDE_LINKAGE Obj* build_g4(int fam, const Line& t) {
  switch (fam) {
    case FAM_FI_I: return build_fi<int64_t, serde<int64_t>, FAM_FI_I>(t);
    case FAM_FI_S: return build_fi<std::string, serde<std::string>, FAM_FI_S>(t);
    case FAM_CM: return build_cm(t);
    case FAM_VO_I: return build_vo<int64_t, serde<int64_t>, FAM_VO_I>(t);
    case FAM_VO_S: return build_vo<std::string, xs_serde, FAM_VO_S>(t);
    case FAM_VOU: return build_vou(t);
    case FAM_EBPPS_I: return build_eb<int64_t, serde<int64_t>, FAM_EBPPS_I>(t);
    case FAM_EBPPS_S: return build_eb<std::string, xs_serde, FAM_EBPPS_S>(t);
    default: return nullptr;
  }
}
#endif // group 4

#if SERDE_G(5)
// ===============================================================================================================
// t-digest (double / float, image with and without the buffer)
// ===============================================================================================================
template<typename T> struct FB;
template<> struct FB<double> { static I bits(double x) { return vh::dbits(x); } };
template<> struct FB<float> { static I bits(float x) { return vh::fbits(x); } };
inline void put_be(Bytes& out, const void* p, size_t k) { const uint8_t* b = static_cast<const uint8_t*>(p); for (size_t i = 0; i < k; ++i) out.push_back(b[k - 1 - i]); }

template<typename T, int FAMCODE>
struct TdObj : Obj {
  typedef tdigest<T> sk_t;
  sk_t sk; bool with_buffer;
  TdObj(sk_t&& s, bool wb) : sk(std::move(s)), with_buffer(wb) {}
  int fam() const override { return FAMCODE; }
  int state_class() override {   // 0 empty, 1 single value, 2 centroids only, 3 centroids + buffer, 4 buffer only; +8 image with buffer
    int c = sk.is_empty() ? 0 : sk.get_total_weight() == 1 ? 1 : sk.buffer_.empty() ? 2 : sk.centroids_.empty() ? 4 : 3;
    return c + (with_buffer ? 8 : 0);
  }
  Bytes ser(unsigned h) override { return to_bytes(sk.serialize(h, with_buffer)); }
  void ser(std::ostream& os) override { sk.serialize(os, with_buffer); }
  long adv_size() override { return (long)sk.get_serialized_size_bytes(with_buffer); }
  Obj* de(const void* p, size_t n) override { return new TdObj(sk_t::deserialize(p, n), with_buffer); }
  Obj* de(std::istream& is) override { return new TdObj(sk_t::deserialize(is), with_buffer); }
  void observe(Line& l, int mode) override {
    l.push_back(sk.get_k()); l.push_back((I)sk.get_total_weight()); l.push_back(sk.is_empty());
    if (sk.is_empty()) return;
    l.push_back(FB<T>::bits(sk.get_min_value())); l.push_back(FB<T>::bits(sk.get_max_value()));
    if (mode <= 1) {
      // a single value is one logical state whether it sits in the buffer or in a centroid (the image has one form for it)
      const bool single = sk.get_total_weight() == 1;
      l.push_back(single ? 1 : (I)sk.centroids_.size());
      for (const auto& c : sk.centroids_) { l.push_back(FB<T>::bits(c.get_mean())); l.push_back((I)c.get_weight()); }
      if (single && sk.centroids_.empty()) { l.push_back(FB<T>::bits(sk.buffer_[0])); l.push_back(1); }
      l.push_back(single ? 0 : (I)sk.buffer_.size());
      if (!single) for (T x : sk.buffer_) l.push_back(FB<T>::bits(x));
    }
    if (mode == 1) l.push_back(sk.reverse_merge_);
    if (mode >= 1) {
      static const double RK[5] = {0.0, 0.1, 0.5, 0.99, 1.0};
      sk_t c(sk);   // queries compress the digest (a side effect): they are asked of a copy, the observation leaves the object alone
      for (int i = 0; i < 5; ++i) l.push_back(FB<T>::bits(c.get_quantile(RK[i])));
      l.push_back(vh::dbits(c.get_rank(c.get_min_value()))); l.push_back(vh::dbits(c.get_rank((T)((c.get_min_value() + c.get_max_value()) / 2))));
    }
  }
  bool cont(const Line& seg) override {
    int64_t n = (int64_t)arg(seg, 0, 50), base = (int64_t)arg(seg, 1, 7), un = (int64_t)arg(seg, 2, 0);
    for (int64_t i = 0; i < n; ++i) sk.update((T)Item<double>::of(pat(2, base, i, n)));
    if (un > 0) { sk_t o(sk.get_k()); for (int64_t i = 0; i < un; ++i) o.update((T)(0.5 * (double)i)); sk.merge(o); }
    sk.compress();   // canonical form: buffered values and centroids of weight 1 are the same logical content
    return true;
  }
  // images in the two formats of the reference implementation (big endian), written from the description in
  // tdigest_impl.hpp: kind 1 = asBytes() (doubles), kind 2 = asSmallBytes() (floats)
  bool legacy(int kind, Bytes& out) override {
    if (sk.is_empty()) return false;
    sk.compress();
    out.clear(); out.push_back(0); out.push_back(0); out.push_back(0); out.push_back((uint8_t)kind);
    double mn = (double)sk.get_min_value(), mx = (double)sk.get_max_value();
    put_be(out, &mn, 8); put_be(out, &mx, 8);
    if (kind == 1) {
      double k = (double)sk.get_k(); put_be(out, &k, 8);
      uint32_t nc = (uint32_t)sk.centroids_.size(); put_be(out, &nc, 4);
      for (const auto& c : sk.centroids_) { double w = (double)c.get_weight(), m = (double)c.get_mean(); put_be(out, &w, 8); put_be(out, &m, 8); }
    } else if (kind == 2) {
      if (sizeof(T) != 4) return false;     // means would lose precision
      float k = (float)sk.get_k(); put_be(out, &k, 4);
      uint32_t unused = 0; put_be(out, &unused, 4);
      uint16_t nc = (uint16_t)sk.centroids_.size(); put_be(out, &nc, 2);
      for (const auto& c : sk.centroids_) { float w = (float)c.get_weight(), m = (float)c.get_mean(); put_be(out, &w, 4); put_be(out, &m, 4); }
    } else return false;
    return true;
  }
};
template<typename T, int FAMCODE>
inline Obj* build_td(const Line& t) {   // k n pattern base with_buffer merged compress
  tdigest<T> s((uint16_t)arg(t, 3, 100));
  int64_t n = (int64_t)arg(t, 4), base = (int64_t)arg(t, 6); int pattern = (int)arg(t, 5);
  for (int64_t i = 0; i < n; ++i) s.update((T)Item<double>::of(pat(pattern, base, i, n)));
  if (arg(t, 8)) { tdigest<T> o((uint16_t)arg(t, 3, 100)); for (int64_t i = 0; i < n / 2 + 1; ++i) o.update((T)(1000.0 + (double)i)); s.merge(o); }
  if (arg(t, 9)) s.compress();
  return new TdObj<T, FAMCODE>(std::move(s), arg(t, 7) != 0);
}

// ===============================================================================================================
// Bloom filter: owned, initialised in caller memory, read-only wrap
// ===============================================================================================================
inline void bloom_observe(bloom_filter& f, Line& l, int mode) {
  l.push_back((I)f.get_capacity()); l.push_back(f.get_num_hashes()); l.push_back((I)f.get_seed()); l.push_back(f.is_empty());
  l.push_back((I)f.get_bits_used());
  if (mode <= 1) { const uint64_t nb = f.capacity_bits_ >> 3; for (uint64_t i = 0; i < nb; i += 8) { uint64_t w; memcpy(&w, f.bit_array_ + i, 8); l.push_back((I)w); } }
  I q = 0; for (uint64_t v = 0; v < 32; ++v) q = (q << 1) | (f.query(v * 3) ? 1 : 0);
  l.push_back(q); l.push_back(f.query(std::string("abc")));
}
struct BloomObj : Obj {
  bloom_filter f; int famcode; std::unique_ptr<uint8_t[]> mem;
  BloomObj(bloom_filter&& x, int fc, uint8_t* m = nullptr) : f(std::move(x)), famcode(fc), mem(m) {}
  ~BloomObj() override {}
  int fam() const override { return famcode; }
  int state_class() override { return (f.is_empty() ? 0 : 1) + (f.is_dirty_ ? 2 : 0) + (f.is_wrapped() ? 4 : 0) + (f.is_read_only() ? 8 : 0); }
  Bytes ser(unsigned h) override { return to_bytes(f.serialize(h)); }
  void ser(std::ostream& os) override { f.serialize(os); }
  long adv_size() override { return (long)f.get_serialized_size_bytes(); }
  Obj* de(const void* p, size_t n) override { return new BloomObj(bloom_filter::deserialize(p, n), FAM_BLOOM); }
  Obj* de(std::istream& is) override { return new BloomObj(bloom_filter::deserialize(is), FAM_BLOOM); }
  bool has_wrap() const override { return true; }
  Obj* wrap(const void* p, size_t n) override { return new BloomObj(bloom_filter(bloom_filter::wrap(p, n)), FAM_BLOOM_WRAP); }
  void observe(Line& l, int mode) override { bloom_observe(f, l, mode); }
  bool cont(const Line& seg) override {
    if (f.is_read_only()) return false;
    int64_t n = (int64_t)arg(seg, 0, 50), base = (int64_t)arg(seg, 1, 7), un = (int64_t)arg(seg, 2, 0);
    for (int64_t i = 0; i < n; ++i) f.update((uint64_t)(base + i));
    if (un > 0) { bloom_filter o = bloom_filter::builder::create_by_size(f.get_capacity(), f.get_num_hashes(), f.get_seed()); for (int64_t i = 0; i < un; ++i) o.update((uint64_t)(5000 + i)); f.union_with(o); }
    return true;
  }
};
inline Obj* build_bloom(int fam, const Line& t) {   // num_bits num_hashes seed n base invert
  uint64_t nb = (uint64_t)arg(t, 3, 256); uint16_t nh = (uint16_t)arg(t, 4, 3); uint64_t seed = (uint64_t)arg(t, 5, 123);
  int64_t n = (int64_t)arg(t, 6), base = (int64_t)arg(t, 7);
  std::unique_ptr<BloomObj> o;
  if (fam == FAM_BLOOM) o.reset(new BloomObj(bloom_filter::builder::create_by_size(nb, nh, seed), FAM_BLOOM));
  else {
    size_t len = bloom_filter::get_serialized_size_bytes(nb);
    uint8_t* m = new uint8_t[len]; memset(m, 0xcd, len);
    std::unique_ptr<uint8_t[]> guard(m);
    bloom_filter f = bloom_filter::builder::initialize_by_size(m, len, nb, nh, seed);
    guard.release();
    o.reset(new BloomObj(std::move(f), FAM_BLOOM_MEM, m));
  }
  for (int64_t i = 0; i < n; ++i) { if (i % 5 == 4) o->f.update(Item<std::string>::of(base + i)); else o->f.update((uint64_t)(base + i)); }
  if (arg(t, 8)) o->f.invert();
  return o.release();
}

// ===============================================================================================================
// Density sketch
// ===============================================================================================================
template<typename T, int FAMCODE>
struct DensObj : Obj {
  typedef density_sketch<T> sk_t;
  sk_t sk;
  explicit DensObj(sk_t&& s) : sk(std::move(s)) {}
  int fam() const override { return FAMCODE; }
  int state_class() override { return sk.get_n() == 0 ? 0 : sk.is_estimation_mode() ? 2 : 1; }
  Bytes ser(unsigned h) override { return to_bytes(sk.serialize(h)); }
  void ser(std::ostream& os) override { sk.serialize(os); }
  Obj* de(const void* p, size_t n) override { return new DensObj(sk_t::deserialize(p, n)); }
  Obj* de(std::istream& is) override { return new DensObj(sk_t::deserialize(is)); }
  void observe(Line& l, int mode) override {
    l.push_back(sk.get_k()); l.push_back((I)sk.get_dim()); l.push_back((I)sk.get_n()); l.push_back((I)sk.get_num_retained()); l.push_back(sk.is_empty()); l.push_back(sk.is_estimation_mode());
    std::vector<Line> rows; size_t guard = 0;
    for (auto it = sk.begin(); it != sk.end(); ++it) {
      Line r; for (T x : (*it).first) r.push_back(FB<T>::bits(x)); r.push_back((I)(*it).second); rows.push_back(r);
      if (++guard > (1u << 22)) throw std::runtime_error("iteration does not end");
    }
    put_rows(l, rows, true);
    if (mode >= 1 && !sk.is_empty()) {
      std::vector<T> q(sk.get_dim(), (T)0.5);
      l.push_back(FB<T>::bits(sk.get_estimate(q)));
    }
  }
  bool cont(const Line& seg) override {
    int64_t n = (int64_t)arg(seg, 0, 50), base = (int64_t)arg(seg, 1, 7), un = (int64_t)arg(seg, 2, 0);
    std::vector<T> p(sk.get_dim());
    for (int64_t i = 0; i < n; ++i) { for (uint32_t d = 0; d < sk.get_dim(); ++d) p[d] = (T)(0.125 * (double)((base + i * 3 + d) % 17)); sk.update(p); }
    if (un > 0) { sk_t o(sk.get_k(), sk.get_dim()); for (int64_t i = 0; i < un; ++i) { for (uint32_t d = 0; d < sk.get_dim(); ++d) p[d] = (T)(0.25 * (double)((i + d) % 9)); o.update(p); } sk.merge(o); }
    return true;
  }
};
template<typename T, int FAMCODE>
inline Obj* build_dens(const Line& t) {   // k dim n base
  density_sketch<T> s((uint16_t)arg(t, 3, 10), (uint32_t)arg(t, 4, 2));
  int64_t n = (int64_t)arg(t, 5), base = (int64_t)arg(t, 6);
  std::vector<T> p(s.get_dim());
  for (int64_t i = 0; i < n; ++i) { for (uint32_t d = 0; d < s.get_dim(); ++d) p[d] = (T)(0.0625 * (double)((base + i * 7 + d * 3) % 41)); s.update(p); }
  return new DensObj<T, FAMCODE>(std::move(s));
}

struct CanonBloom { typedef bloom_filter sk; static const bool full = true;
  sk make() { return bloom_filter::builder::create_by_size(512, 3, 123); }
  template<typename V> void up(sk& s, V v) { s.update(v); } void ups(sk& s, const std::string& x) { s.update(x); } void upr(sk& s, const void* p, size_t n) { s.update(p, n); }
  Bytes img(sk& s) { return to_bytes(s.serialize()); } };
SERDE_LINKAGE bool canon_g5(int type, Out& o) {
  if (type == 23) { canon_variants(CanonBloom(), o); return true; }
  return false;
}
SERDE_LINKAGE Obj* build_g5(int fam, const Line& t) {
  switch (fam) {
    case FAM_TD_D: return build_td<double, FAM_TD_D>(t);
    case FAM_TD_F: return build_td<float, FAM_TD_F>(t);
    case FAM_BLOOM: case FAM_BLOOM_MEM: return build_bloom(fam, t);
    case FAM_DENS_D: return build_dens<double, FAM_DENS_D>(t);
    case FAM_DENS_F: return build_dens<float, FAM_DENS_F>(t);
    default: return nullptr;
  }
}
#endif // group 5

// FAMILIES-END
#if SERDE_GROUP == 0
inline bool canon(int type, Out& o) { return canon_g1(type, o) || canon_g2(type, o) || canon_g4(type, o) || canon_g5(type, o); }
inline Obj* build(int fam, const Line& t) {
  Obj* p = nullptr;
  if ((p = build_g1(fam, t))) return p;
  if ((p = build_g2(fam, t))) return p;
  if ((p = build_g3(fam, t))) return p;
  if ((p = build_g4(fam, t))) return p;
  if ((p = build_g5(fam, t))) return p;
  return nullptr;
}
#endif
} // namespace sd
#endif
