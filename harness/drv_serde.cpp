// drv_serde.cpp — implementation-side harness of the serialization properties C09 (round trips), C10 (layout / old
// images) and C11 (truncated / corrupted images). No Coq model is attached to it: the oracle in checks/fam_serde.py
// judges the R lines. Script language (hex tokens, see CONVENTIONS.md):
//   1 r fam args*        build an object of family `fam` (codes in serde_fams.hpp) in register r; R: 1 state_class image_size
//   2 r seg*             C09 round trip of r (sub-check flags, see serde_core.hpp op_roundtrip); seg = follow-up history
//   3 r                  C09 header check (h in 1,7,8,64), guarded
//   4 r path dense [max] C11 every strict prefix (images larger than dense+64: first `dense`, last 64 and `dense` evenly spaced lengths); path 0 bytes, 1 stream,
//                        2 wrap, 3 stream with exceptions on; the loop stops after `max` offences (default 24)
//   5 r path start [max] C11 preamble corruption from index `start` (index = position*8 + replacement)
//   7 r                  printable observation of r
//   8 r                  image bytes of r
//   9 r kind             legacy image of r's content synthesised from the documented layout, read back on all paths
//   a r bytes(path)*     load the file through r's readers (bytes, stream, wrap); flags + printable observation
//   b r byte*            load the inline image through r's readers; same output as `a` (baseline corpus)
//   c r byte*            compare the image r writes now with the inline image (baseline corpus)
//   d r path byte*       hand-made (hostile) image through r's reader `path`, guarded like one step of op 5
//   e type               C10 input canonicalisation: image digests of the update() overload variants of a hashing type (serde_fams.hpp canon_variants)
//   63 seed              reseed the random source
#define SERDE_DEFINE_ALLOC
#ifdef SERDE_PREBUILT   // the family adapters were compiled separately (serde_fams.hpp with -DSERDE_GROUP=1..5) and are linked in
#include "serde_core.hpp"
namespace sd {
Obj* build_g1(int, const Line&); Obj* build_g2(int, const Line&); Obj* build_g3(int, const Line&); Obj* build_g4(int, const Line&); Obj* build_g5(int, const Line&);
void reseed(uint64_t);
bool canon_g1(int, Out&); bool canon_g2(int, Out&); bool canon_g4(int, Out&); bool canon_g5(int, Out&);
inline bool canon(int type, Out& o) { return canon_g1(type, o) || canon_g2(type, o) || canon_g4(type, o) || canon_g5(type, o); }
inline Obj* build(int fam, const Line& t) {
  Obj* p = nullptr;
  if ((p = build_g1(fam, t))) return p;
  if ((p = build_g2(fam, t))) return p;
  if ((p = build_g3(fam, t))) return p;
  if ((p = build_g4(fam, t))) return p;
  return build_g5(fam, t);
}
inline I arg(const Line& t, size_t i, I dflt = 0) { return i < t.size() ? t[i] : dflt; }
}
#else
#include "serde_fams.hpp"
#endif
using namespace sd;

static std::map<long, std::unique_ptr<Obj>> regs;
static Obj& get(I r) {
  auto it = regs.find((long)r);
  if (it == regs.end()) throw std::invalid_argument("no such register");
  return *it->second;
}

static Bytes read_file(const std::string& path) {
  std::ifstream f(path.c_str(), std::ios::binary);
  if (!f) throw std::invalid_argument("cannot open " + path);
  std::stringstream ss; ss << f.rdbuf(); std::string s = ss.str();
  return Bytes(s.begin(), s.end());
}

// read an image on every path, compare the observations with each other (and with `same_as` if given)
// R: bytes_ok stream_ok stream_consumed_all wrap_ok(2 n/a) all_paths_agree equals_reference(2 n/a), then the printable observation
static void load_image(Obj& proto, const Bytes& img, Obj* same_as, Out& o) {
  std::unique_ptr<Obj> a, b, w;
  int fb = 0, fs = 0, fc = 2, fw = 2, agree = 1, eq = 2;
  Bytes copy(img);
  try { a.reset(proto.de(copy.data(), copy.size())); fb = a ? 1 : 0; } catch (const std::exception&) { fb = -1; }
  try {
    std::istringstream is(std::string(reinterpret_cast<const char*>(img.data()), img.size()) + std::string(8, '\x5a'), std::ios::in | std::ios::binary);
    b.reset(proto.de(is)); fs = b ? 1 : 0;
    fc = ((long)is.tellg() == (long)img.size()) ? 1 : 0;
  } catch (const std::exception&) { fs = -1; }
  if (proto.has_wrap()) { try { w.reset(proto.wrap(copy.data(), copy.size())); fw = w ? 1 : 0; } catch (const std::exception&) { fw = -1; } }
  Line la, lb, lw, lp;
  if (a) a->observe(la, 1);
  if (b) { b->observe(lb, 1); if (a && la != lb) agree = 0; }
  if (w) { w->observe(lw, 1); if (a && la != lw) agree = 0; }
  if (same_as && a) { Line lr, l0; same_as->observe(lr, 0); a->observe(l0, 0); eq = (lr == l0) ? 1 : 0; }
  o.R(fb); o.R(fs); o.R(fc); o.R(fw); o.R(agree); o.R(eq);
  Obj* p = a ? a.get() : b ? b.get() : w.get();
  if (p) { p->observe(lp, 0); for (I v : lp) o.R(v); }
}

static void handler(const Line& t, Out& o) {
  reseed(12345);
  switch ((int)t.at(0)) {
  case 0x63: reseed((uint64_t)t.at(1)); o.R(1); return;
  case 1: {
    std::unique_ptr<Obj> p(build((int)t.at(2), t));
    if (!p) throw std::invalid_argument("unknown family");
    o.R(1); o.R(p->state_class()); o.R((I)p->ser(0).size());
    regs[(long)t.at(1)] = std::move(p);
    break; }
  case 2: {
    Line seg(t.begin() + 2, t.end());
    op_roundtrip(get(t.at(1)), seg, [](int k) { reseed(777 + (uint64_t)k); }, o);
    break; }
  case 3: op_header(get(t.at(1)), o); break;
  case 4: op_prefixes(get(t.at(1)), (int)t.at(2), (long)arg(t, 3), o, (size_t)arg(t, 4, 24)); break;
  case 5: op_corrupt(get(t.at(1)), (int)t.at(2), (long)arg(t, 3), o, (size_t)arg(t, 4, 24)); break;
  case 7: { Line l; get(t.at(1)).observe(l, 0); o.R(get(t.at(1)).state_class()); for (I v : l) o.R(v); break; }
  case 8: { Bytes b = get(t.at(1)).ser(0); for (uint8_t c : b) o.R(c); break; }
  case 9: {
    Obj& x = get(t.at(1));
    Bytes img;
    if (!x.legacy((int)t.at(2), img)) { o.R(2); break; }
    o.R(1);
    load_image(x, img, &x, o);
    break; }
  case 0xa: {
    Obj& x = get(t.at(1));
    Bytes img = read_file(vh::bytes_of(t, 2));
    o.R((I)img.size());
    load_image(x, img, nullptr, o);
    break; }
  case 0xb: {
    Obj& x = get(t.at(1));
    Bytes img; for (size_t i = 2; i < t.size(); ++i) img.push_back((uint8_t)t[i]);
    o.R((I)img.size());
    load_image(x, img, nullptr, o);
    break; }
  case 0xc: {   // the image r writes now vs. the inline image: 1 identical, 3 identical up to the order of a stored hash table, 0 different, -2 different length
    Obj& x = get(t.at(1));
    Bytes img; for (size_t i = 2; i < t.size(); ++i) img.push_back((uint8_t)t[i]);
    Bytes cur = x.ser(0);
    if (cur == img) o.R(1);
    else if (x.unordered_layout(cur) && cur.size() == img.size() && x.canon(cur) == x.canon(img)) o.R(3);
    else if (x.unordered_layout(cur)) {
      // a stored hash table may also differ in size (growth policy): such images are compared through their content
      std::unique_ptr<Obj> a(x.de(cur.data(), cur.size())), b(x.de(img.data(), img.size()));
      Line la, lb; a->observe(la, 0); b->observe(lb, 0);
      o.R(la == lb ? 3 : 0);
    }
    else if (cur.size() != img.size()) o.R(-2);
    else o.R(0);
    break; }
  case 0xd: {   // hand-made (hostile) inline image through r's readers, guarded: R = total(1) + the counters of a guarded loop
    Obj& x = get(t.at(1));
    int path = (int)t.at(2);
    Bytes img; for (size_t i = 3; i < t.size(); ++i) img.push_back((uint8_t)t[i]);
    LoopResult r = guarded_loop(0, 1, [&](long) { return attempt(x, path, img.data(), img.size(), nullptr); });
    emit_loop(o, r, 1);
    break; }
  case 0xe: {   // C10 input canonicalisation of one hashing type: one image digest per (overload, value set) variant
    if (!canon((int)t.at(1), o)) o.R(-2);
    break; }
  default: o.R(-2);
  }
}

extern "C" void __sanitizer_symbolize_pc(void* pc, const char* fmt, char* out_buf, size_t out_buf_size);

int main(int argc, char** argv) {
  // the guarded loops fork; a child that dies with a sanitizer report symbolizes its stack, which parses the debug information of
  // this (large) binary: done once here, the parsed tables are inherited by every child
  { char buf[512]; __sanitizer_symbolize_pc(reinterpret_cast<void*>(&handler), "%f %s:%l", buf, sizeof buf); }
  return vh::run_main(argc, argv, [] { regs.clear(); }, handler);
}
