// drv_cm.cpp — correspondence harness for count_min_sketch<int64_t> (C14).
#include "common.hpp"
#include <sstream>
#include <cmath>
#define private public
#define protected public
#include "count_min.hpp"
#undef private
#undef protected
using namespace datasketches;
using vh::I; using vh::Line; using vh::Out;
// The weight type W is a template parameter of the sketch: every case runs with one W (int64_t, or int32_t when the case's
// first `new` op carries a 6th token 1), chosen by the generator; the model is the same (weights are integers, no overflow).
template<typename W> struct Regs {
  typedef count_min_sketch<W> cm_t;
  std::map<long, std::unique_ptr<cm_t>> regs;
  cm_t& get(I r) {
    auto it = regs.find((long)r);
    if (it == regs.end()) throw std::invalid_argument("no such register");
    return *it->second;
  }
  void handle(const Line& t, Out& o);
};
// weight conversion: integer weight types take the script's integer as is; for W = double the script's integer counts QUARTERS
// (w/4: dyadic, so every sum is exact in binary64 and results are reported back in quarters)
template<typename W> struct WC { static W in(I w) { return (W)w; } static I out(W x) { return (I)x; } };
template<> struct WC<double> { static double in(I w) { return (double)w / 4.0; } static I out(double x) { return (I)llround(x * 4.0); } };
static Regs<int64_t> R64; static Regs<int32_t> R32; static Regs<double> RD; static int cur_wt = 0;

template<typename W> void Regs<W>::handle(const Line& t, Out& o) {
  switch ((int)t.at(0)) {
  case 1: { // new r nh nb seed
    std::unique_ptr<cm_t> p(new cm_t((uint8_t)t.at(2), (uint32_t)t.at(3), (uint64_t)t.at(4)));
    for (uint64_t s : p->hash_seeds) o.E((I)s);
    regs[(long)t.at(1)] = std::move(p);
    o.R(1); break; }
  case 2: { // update r w kind args
    cm_t& s = get(t.at(1)); W w = WC<W>::in(t.at(2)); int kind = (int)t.at(3);
    if (kind == 0) s.update((uint64_t)t.at(4), w);
    else if (kind == 1) s.update((int64_t)t.at(4), w);
    else s.update(vh::bytes_of(t, 4), w);
    o.R(1); break; }
  case 3: { // query r kind args -> est lb total ; F: ub
    cm_t& s = get(t.at(1)); int kind = (int)t.at(2);
    W est, lb, ub;
    if (kind == 0) { uint64_t x = (uint64_t)t.at(3); est = s.get_estimate(x); lb = s.get_lower_bound(x); ub = s.get_upper_bound(x); }
    else if (kind == 1) { int64_t x = (int64_t)t.at(3); est = s.get_estimate(x); lb = s.get_lower_bound(x); ub = s.get_upper_bound(x); }
    else { std::string x = vh::bytes_of(t, 3); est = s.get_estimate(x); lb = s.get_lower_bound(x); ub = s.get_upper_bound(x); }
    o.R(WC<W>::out(est)); o.R(WC<W>::out(lb)); o.R(WC<W>::out(s.get_total_weight())); o.F(WC<W>::out(ub)); break; }
  case 4: { // merge r r2
    cm_t& a = get(t.at(1)); cm_t& b = get(t.at(2));
    a.merge(b); o.R(1); break; }
  case 5: { // dump
    cm_t& s = get(t.at(1));
    o.R(WC<W>::out(s.get_total_weight()));
    for (auto it = s.begin(); it != s.end(); ++it) o.R(WC<W>::out(*it));
    break; }
  case 6: { // r2 := deserialize(serialize r) ; path 0 = bytes, 1 = stream ; R: 1 seed row-seeds
    cm_t& a = get(t.at(1)); const uint64_t seed = a.get_seed();
    std::unique_ptr<cm_t> p;
    if (t.size() > 3 && t.at(3) == 1) {
      std::stringstream ss(std::ios::in | std::ios::out | std::ios::binary);
      a.serialize(ss);
      p.reset(new cm_t(cm_t::deserialize(ss, seed)));
    } else {
      auto bytes = a.serialize();
      p.reset(new cm_t(cm_t::deserialize(bytes.data(), bytes.size(), seed)));
    }
    o.R(1); o.R((I)p->get_seed());
    for (uint64_t s : p->hash_seeds) o.R((I)s);
    regs[(long)t.at(2)] = std::move(p);
    break; }
  default: o.R(-2);
  }
}

static void handler(const Line& t, Out& o) {
  if ((int)t.at(0) == 1 && R64.regs.empty() && R32.regs.empty() && RD.regs.empty()) cur_wt = t.size() > 5 ? (int)t.at(5) : 0;
  if (cur_wt == 1) R32.handle(t, o); else if (cur_wt == 2) RD.handle(t, o); else R64.handle(t, o);
}

int main(int argc, char** argv) {
  return vh::run_main(argc, argv, [] { R64.regs.clear(); R32.regs.clear(); RD.regs.clear(); cur_wt = 0; }, handler);
}
