// drv_cmcodec.cpp — correspondence harness for the count-min sketch image (coq/CodecCmDefs.v), properties C09/C10/C11.
//   1 r nh nb seed (item weight)*   build count_min_sketch<int64_t>; E: nh nb seed_hash total cells...; R: image bytes
//                                   (bytes = stream = advertised size are checked here: -4 / -5 on disagreement)
//   5 r path cut pos val ntrail     image of r truncated to `cut` bytes (cut < 0: whole), byte `pos` replaced (pos < 0: none), ntrail bytes
//                                   0xA5 appended; read through path 0 (exact-size heap block) / 1 (stream); E: seed hash expected by the reader
//   3 expected byte*                explicit image through deserialize(bytes) with DEFAULT_SEED;  4: through deserialize(istream)
// a decoded sketch is shown as 1 [bytes consumed] nh nb seed_hash total n cells...
#include "common.hpp"
#define private public
#define protected public
#include "count_min.hpp"
#undef private
#undef protected
using namespace datasketches;
using vh::I; using vh::Line; using vh::Out;
typedef count_min_sketch<int64_t> cm_t;

static std::map<long, std::unique_ptr<cm_t>> regs;
static cm_t& get(I r) { auto it = regs.find((long)r); if (it == regs.end()) throw std::invalid_argument("no such register"); return *it->second; }

static void show(const cm_t& s, Out& o) {
  o.R(s.get_num_hashes()); o.R((I)s.get_num_buckets()); o.R(compute_seed_hash(s.get_seed())); o.R((I)(uint64_t)s.get_total_weight());
  std::vector<int64_t> c(s.begin(), s.end());
  o.R((I)c.size());
  for (int64_t v : c) o.R((I)(uint64_t)v);
}

static void decode(int path, uint64_t seed, const std::vector<uint8_t>& img, Out& o) {
  if (path == 0) {
    size_t n = img.size();
    uint8_t* buf = static_cast<uint8_t*>(malloc(n ? n : 1));       // exact size: ASan sees any over-read
    if (n) memcpy(buf, img.data(), n);
    struct Free { uint8_t* p; ~Free() { free(p); } } guard{buf};
    const uint8_t* p = n ? buf : buf + 1;                           // length 0: one past the end of a 1-byte block
    cm_t s = cm_t::deserialize(p, n, seed);
    o.R(1); show(s, o);
  } else {
    std::istringstream is(std::string(reinterpret_cast<const char*>(img.data()), img.size()), std::ios::in | std::ios::binary);
    cm_t s = cm_t::deserialize(is, seed);
    long pos = (long)is.tellg();
    o.R(1); o.R(pos); show(s, o);
  }
}

static void handler(const Line& t, Out& o) {
  switch ((int)t.at(0)) {
  case 1: {
    std::unique_ptr<cm_t> p(new cm_t((uint8_t)t.at(2), (uint32_t)t.at(3), (uint64_t)t.at(4)));
    for (size_t i = 5; i + 1 < t.size(); i += 2) p->update((uint64_t)t[i], (int64_t)t[i + 1]);
    auto bytes = p->serialize();
    std::ostringstream os(std::ios::binary); p->serialize(os); std::string str = os.str();
    if (str.size() != bytes.size() || memcmp(str.data(), bytes.data(), str.size()) != 0) { o.R(-4); break; }
    if (bytes.size() != p->get_serialized_size_bytes()) { o.R(-5); break; }
    o.E(p->get_num_hashes()); o.E((I)p->get_num_buckets()); o.E(compute_seed_hash(p->get_seed())); o.E((I)(uint64_t)p->get_total_weight());
    for (auto it = p->begin(); it != p->end(); ++it) o.E((I)(uint64_t)*it);
    for (uint8_t b : bytes) o.R(b);
    regs[(long)t.at(1)] = std::move(p);
    break; }
  case 5: {
    cm_t& s = get(t.at(1));
    auto v = s.serialize();
    std::vector<uint8_t> img(v.begin(), v.end());
    long cut = (long)t.at(3), pos = (long)t.at(4);
    if (cut >= 0 && (size_t)cut < img.size()) img.resize((size_t)cut);
    if (pos >= 0 && (size_t)pos < img.size()) img[(size_t)pos] = (uint8_t)t.at(5);
    for (long i = 0; i < (long)t.at(6); ++i) img.push_back(0xA5);
    o.E(compute_seed_hash(s.get_seed()));
    decode((int)t.at(2), s.get_seed(), img, o);
    break; }
  case 3: case 4: {
    if ((uint16_t)t.at(1) != compute_seed_hash(DEFAULT_SEED)) { o.R(-6); break; }
    std::vector<uint8_t> img; for (size_t i = 2; i < t.size(); ++i) img.push_back((uint8_t)t[i]);
    decode(t.at(0) == 3 ? 0 : 1, DEFAULT_SEED, img, o);
    break; }
  default: o.R(-2);
  }
}

int main(int argc, char** argv) { return vh::run_main(argc, argv, [] { regs.clear(); }, handler); }
