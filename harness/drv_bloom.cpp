// drv_bloom.cpp — correspondence harness for bloom_filter (C15).
// Filter registers hold bloom_filter objects (owned, or views of caller memory); buffer registers hold harness-owned
// byte blocks that are never freed or resized inside a case, so that several views may alias one block.
#include "common.hpp"
#include <sstream>
#include <cstdlib>
#define private public
#define protected public
#include "bloom_filter.hpp"
#undef private
#undef protected
using namespace datasketches;
using vh::I; using vh::Line; using vh::Out;
typedef bloom_filter bf_t;

struct Buf {
  uint8_t* p; size_t len;
  explicit Buf(size_t n) : p(static_cast<uint8_t*>(calloc(n ? n : 1, 1))), len(n) {}
  ~Buf() { free(p); }
};
static std::map<long, std::unique_ptr<bf_t>> regs;
static std::map<long, std::unique_ptr<Buf>> bufs;

static bf_t& get(I r) {
  auto it = regs.find((long)r);
  if (it == regs.end()) throw std::invalid_argument("no such filter register");
  return *it->second;
}
static Buf& getb(I b) {
  auto it = bufs.find((long)b);
  if (it == bufs.end()) throw std::invalid_argument("no such buffer register");
  return *it->second;
}

// call f with the item decoded from tokens t[k] = kind, t[k+1..] = value / bytes, through the matching overload
template<class F> static void with_item(const Line& t, size_t k, F f) {
  int kind = (int)t.at(k);
  switch (kind) {
  case 0: f((uint64_t)t.at(k + 1)); break;
  case 1: f((uint32_t)t.at(k + 1)); break;
  case 2: f((uint16_t)t.at(k + 1)); break;
  case 3: f((uint8_t)t.at(k + 1)); break;
  case 4: f((int64_t)t.at(k + 1)); break;
  case 5: f((int32_t)t.at(k + 1)); break;
  case 6: f((int16_t)t.at(k + 1)); break;
  case 7: f((int8_t)t.at(k + 1)); break;
  case 8: f(vh::bitsd(t.at(k + 1))); break;
  case 9: f(vh::bitsf(t.at(k + 1))); break;
  case 10: f(vh::bytes_of(t, k + 1)); break;
  default: {
    std::string s = vh::bytes_of(t, k + 1);
    std::vector<uint8_t> v(s.begin(), s.end());     // heap block: suitably aligned for the 64-bit loads of XXHash64
    f(static_cast<const void*>(v.data()), v.size());
    break; }
  }
}
struct Upd { bf_t& f; template<class T> void operator()(T x) { f.update(x); }
             void operator()(const void* p, size_t n) { f.update(p, n); } };
struct Qry { const bf_t& f; bool& r; template<class T> void operator()(T x) { r = f.query(x); }
             void operator()(const void* p, size_t n) { r = f.query(p, n); } };
struct Qau { bf_t& f; bool& r; template<class T> void operator()(T x) { r = f.query_and_update(x); }
             void operator()(const void* p, size_t n) { r = f.query_and_update(p, n); } };

static void handler(const Line& t, Out& o) {
  switch ((int)t.at(0)) {
  case 1: { // new r nbits nh seed
    std::unique_ptr<bf_t> p(new bf_t(bf_t::builder::create_by_size((uint64_t)t.at(2), (uint16_t)t.at(3), (uint64_t)t.at(4))));
    regs[(long)t.at(1)] = std::move(p); o.R(1); break; }
  case 2: { // newbuf b len
    if (bufs.count((long)t.at(1))) throw std::invalid_argument("buffer register in use");
    bufs[(long)t.at(1)].reset(new Buf((size_t)t.at(2))); o.R(1); break; }
  case 3: { // initialize r b nbits nh seed
    Buf& b = getb(t.at(2));
    std::unique_ptr<bf_t> p(new bf_t(bf_t::builder::initialize_by_size(b.p, b.len, (uint64_t)t.at(3), (uint16_t)t.at(4), (uint64_t)t.at(5))));
    regs[(long)t.at(1)] = std::move(p); o.R(1); break; }
  case 4: { bf_t& f = get(t.at(1)); with_item(t, 2, Upd{f}); o.R(1); break; }
  case 5: { const bf_t& f = get(t.at(1)); bool r = false; with_item(t, 2, Qry{f, r}); o.R(r ? 1 : 0); break; }
  case 6: { bf_t& f = get(t.at(1)); bool r = false; with_item(t, 2, Qau{f, r}); o.R(r ? 1 : 0); break; }
  case 7: { bf_t& a = get(t.at(1)); a.union_with(get(t.at(2))); o.R(1); break; }
  case 8: { bf_t& a = get(t.at(1)); a.intersect(get(t.at(2))); o.R(1); break; }
  case 9: { get(t.at(1)).invert(); o.R(1); break; }
  case 10: { get(t.at(1)).reset(); o.R(1); break; }
  case 11: { o.R((I)get(t.at(1)).get_bits_used()); break; }
  case 12: { // info
    const bf_t& f = get(t.at(1));
    o.R((I)f.get_capacity()); o.R(f.get_num_hashes()); o.R((I)f.get_seed()); o.R(f.is_empty() ? 1 : 0);
    o.R(f.is_read_only() ? 1 : 0); o.R(f.is_wrapped() ? 1 : 0); o.R(f.is_memory_owned() ? 1 : 0);
    o.R((I)f.get_serialized_size_bytes()); break; }
  case 13: { // dump: positions of the set bits, ascending
    const bf_t& f = get(t.at(1));
    const uint64_t cap = f.get_capacity();
    for (uint64_t i = 0; i < cap; ++i) if (f.bit_array_[i >> 3] & (1 << (i & 7))) o.R((I)i);
    break; }
  case 14: { // serialize r into buffer b (variant 0: bytes, 1: stream)
    const bf_t& f = get(t.at(1)); Buf& b = getb(t.at(2));
    std::string img;
    if ((int)t.at(3) == 1) { std::ostringstream os; f.serialize(os); img = os.str(); }
    else { auto v = f.serialize(); img.assign(v.begin(), v.end()); }
    if (img.size() > b.len) throw std::invalid_argument("buffer too small for the image");
    memcpy(b.p, img.data(), img.size());
    o.R((I)img.size()); break; }
  case 15: { // deserialize buffer b into r (variant 0: bytes, 1: stream)
    Buf& b = getb(t.at(2));
    std::unique_ptr<bf_t> p;
    if ((int)t.at(3) == 1) {
      if (b.len < 8) throw std::invalid_argument("stream too short");
      std::istringstream is(std::string(reinterpret_cast<const char*>(b.p), b.len));
      p.reset(new bf_t(bf_t::deserialize(is)));
    } else {
      p.reset(new bf_t(bf_t::deserialize(b.p, b.len)));
    }
    regs[(long)t.at(1)] = std::move(p); o.R(1); break; }
  case 16: { // read-only wrap
    Buf& b = getb(t.at(2));
    std::unique_ptr<bf_t> p(new bf_t(bf_t::wrap(static_cast<const void*>(b.p), b.len)));
    regs[(long)t.at(1)] = std::move(p); o.R(1); break; }
  case 17: { // writable wrap
    Buf& b = getb(t.at(2));
    std::unique_ptr<bf_t> p(new bf_t(bf_t::writable_wrap(b.p, b.len)));
    regs[(long)t.at(1)] = std::move(p); o.R(1); break; }
  case 18: { // copy r2 <- r, variant 0 copy ctor, 1 copy assignment, 2 move ctor, 3 move assignment (source dropped)
    long r2 = (long)t.at(1), r = (long)t.at(2); int v = (int)t.at(3);
    bf_t& src = get(r);
    if (v == 2 || v == 3) {
      if (r != r2) {
        if (v == 3 && regs.count(r2)) { *regs[r2] = std::move(src); }
        else { std::unique_ptr<bf_t> p(new bf_t(std::move(src))); regs[r2] = std::move(p); }
        regs.erase(r);
      }
    } else if (v == 1 && regs.count(r2)) {
      *regs[r2] = src;
    } else {
      std::unique_ptr<bf_t> p(new bf_t(src)); regs[r2] = std::move(p);
    }
    o.R(1); break; }
  case 19: { regs.erase((long)t.at(1)); o.R(1); break; }
  case 20: { // the bytes of block b (serialized images, wrapped memory)
    Buf& b = getb(t.at(1));
    for (size_t i = 0; i < b.len; ++i) o.R((I)b.p[i]);
    break; }
  case 21: { // create_by_accuracy r max_items fpp(bits) seed ; E: suggested bits, suggested hashes
    uint64_t n = (uint64_t)t.at(2); double p = vh::bitsd(t.at(3));
    uint64_t nb = bf_t::builder::suggest_num_filter_bits(n, p);
    uint16_t nh = bf_t::builder::suggest_num_hashes(p);
    o.E((I)nb); o.E(nh);
    std::unique_ptr<bf_t> q(new bf_t(bf_t::builder::create_by_accuracy(n, p, (uint64_t)t.at(4))));
    regs[(long)t.at(1)] = std::move(q); o.R(1); break; }
  case 22: { // initialize_by_accuracy r b max_items fpp(bits) seed
    Buf& b = getb(t.at(2));
    uint64_t n = (uint64_t)t.at(3); double p = vh::bitsd(t.at(4));
    uint64_t nb = bf_t::builder::suggest_num_filter_bits(n, p);
    uint16_t nh = bf_t::builder::suggest_num_hashes(p);
    o.E((I)nb); o.E(nh);
    std::unique_ptr<bf_t> q(new bf_t(bf_t::builder::initialize_by_accuracy(b.p, b.len, n, p, (uint64_t)t.at(5))));
    regs[(long)t.at(1)] = std::move(q); o.R(1); break; }
  default: o.R(-2);
  }
}

int main(int argc, char** argv) {
  return vh::run_main(argc, argv, [] { regs.clear(); bufs.clear(); }, handler);
}
