// drv_fi.cpp — correspondence harness for frequent_items_sketch (C12).
// kind 0: <uint64_t, uint64_t, MulHash>, kind 1: <uint64_t, uint64_t, ClusterHash>, kind 2: <std::string, int64_t, StrHash>.
// The hash functors are defined here and modelled identically in coq/FiDefs.v (user_hash).
#include "common.hpp"
#include <algorithm>
#include <sstream>
#define private public
#define protected public
#include "frequent_items_sketch.hpp"
#undef private
#undef protected
using namespace datasketches;
using vh::I; using vh::Line; using vh::Out;

struct MulHash { size_t operator()(uint64_t x) const { return (size_t)(x * 0x9E3779B97F4A7C15ULL); } };
struct ClusterHash { size_t operator()(uint64_t x) const { return (size_t)(x % 5); } };
struct StrHash {
  size_t operator()(const std::string& s) const {
    uint64_t h = 14695981039346656037ULL;
    for (unsigned char c : s) { h ^= c; h *= 1099511628211ULL; }
    return (size_t)h;
  }
};

typedef std::vector<I> Enc;
static uint64_t item_of(const Line& t, size_t from, uint64_t*) { return (uint64_t)t.at(from); }
static std::string item_of(const Line& t, size_t from, std::string*) { return vh::bytes_of(t, from); }
static Enc enc(uint64_t v) { return Enc{(I)v}; }
static Enc enc(const std::string& s) { Enc e; for (unsigned char c : s) e.push_back((I)c); return e; }
static void put_item(Out& o, const Enc& e) { o.R((I)e.size()); for (I v : e) o.R(v); }

struct Base {
  int kind;
  virtual ~Base() {}
  virtual void update(const Line& t, bool rv) = 0;
  virtual void query(const Line& t, Out& o) = 0;
  virtual void merge(Base& other, bool rv, Out& o) = 0;
  virtual void dump(Out& o) = 0;
  virtual void freq(const Line& t, Out& o) = 0;
  virtual Base* roundtrip(bool stream, Out& o) = 0;
  virtual Base* copy() = 0;
  virtual void bulk(const Line& t) = 0;
  virtual void rowcheck(const Line& t, Out& o) = 0;
};

template<class S, class T, class W>
struct Holder : Base {
  S s;
  Holder(int k, const S& s_) : s(s_) { kind = k; }
  Holder(int k, S&& s_) : s(std::move(s_)) { kind = k; }

  void update(const Line& t, bool rv) override {           // op r w item...
    I w = t.at(2);
    if (w < 0 && !std::is_signed<W>::value) throw std::invalid_argument("negative weight for an unsigned weight type");
    T x = item_of(t, 3, (T*)nullptr);
    if (rv) s.update(std::move(x), (W)w); else s.update(x, (W)w);
  }
  void query(const Line& t, Out& o) override {             // 3 r 0 item...
    T x = item_of(t, 3, (T*)nullptr);
    o.R((I)s.get_estimate(x)); o.R((I)s.get_lower_bound(x)); o.R((I)s.get_upper_bound(x));
    o.R((I)s.get_maximum_error()); o.R((I)s.get_total_weight()); o.R((I)s.get_num_active_items());
  }
  void merge(Base& other, bool rv, Out& o) override {
    if (other.kind != kind) throw std::invalid_argument("different sketch types");
    Holder& h = static_cast<Holder&>(other);
    o.F((I)h.s.get_num_active_items()); o.F((I)h.s.get_total_weight()); o.F((I)h.s.get_maximum_error());
    if (rv) { S tmp(h.s); s.merge(std::move(tmp)); } else s.merge(h.s);
  }
  void dump(Out& o) override {
    o.R((I)s.get_num_active_items()); o.R((I)s.get_total_weight()); o.R((I)s.get_maximum_error()); o.R(s.is_empty() ? 1 : 0);
    std::vector<std::pair<Enc, I>> rows;
    for (auto it : s.map) rows.push_back(std::make_pair(enc(it.first), (I)it.second));
    std::sort(rows.begin(), rows.end());
    for (auto& r : rows) { put_item(o, r.first); o.R(r.second); }
    o.Fd(s.get_epsilon());
  }
  void freq(const Line& t, Out& o) override {              // 6 r et has_thr thr
    frequent_items_error_type et = t.at(2) == 1 ? NO_FALSE_NEGATIVES : NO_FALSE_POSITIVES;
    I thr = t.at(4);
    if (t.at(3) == 2) { thr += (I)s.get_maximum_error(); if (thr < 0) thr = 0; }   // threshold relative to the maximum error
    auto rows = t.at(3) != 0 ? s.get_frequent_items(et, (W)thr) : s.get_frequent_items(et);
    struct Row { Enc e; I est, lb, ub; };
    std::vector<Row> v;
    o.has_flt = true;
    for (auto& r : rows) {
      v.push_back(Row{enc(r.get_item()), (I)r.get_estimate(), (I)r.get_lower_bound(), (I)r.get_upper_bound()});
      o.F((I)r.get_estimate());
    }
    std::sort(v.begin(), v.end(), [](const Row& a, const Row& b) { return a.est != b.est ? a.est > b.est : a.e < b.e; });
    o.R((I)v.size()); o.R((I)s.get_maximum_error());
    for (auto& r : v) { put_item(o, r.e); o.R(r.est); o.R(r.lb); o.R(r.ub); }
    // for the oracle only: the tracked items (item, counter) at the time of the call, after the estimates in returned order
    std::vector<std::pair<Enc, I>> act;
    for (auto it : s.map) act.push_back(std::make_pair(enc(it.first), (I)it.second));
    std::sort(act.begin(), act.end());
    for (auto& a : act) { o.F((I)a.first.size()); for (I x : a.first) o.F(x); o.F(a.second); }
  }
  // R = 1, image length, image bytes (the serialized image is public output; the model produces the same bytes)
  Base* roundtrip(bool stream, Out& o) override {
    o.F((I)s.get_num_active_items()); o.F((I)s.get_total_weight()); o.F((I)s.get_maximum_error());
    Base* res;
    std::string img;
    if (stream) {
      std::stringstream ss(std::ios::in | std::ios::out | std::ios::binary);
      s.serialize(ss);
      img = ss.str();
      res = new Holder(kind, S::deserialize(ss));
    } else {
      auto bytes = s.serialize();
      img.assign((const char*)bytes.data(), bytes.size());
      if (bytes.size() != s.get_serialized_size_bytes()) { o.R(-4); }   // size function disagrees with the image
      res = new Holder(kind, S::deserialize(bytes.data(), bytes.size()));
    }
    o.R(1); o.R((I)img.size());
    for (unsigned char c : img) o.R((I)c);
    return res;
  }
  Base* copy() override { return new Holder(kind, s); }
  // 20 r n base stride wmod: n updates, item i = base + i * stride (strings: "k<number>"), weight 1 + i % wmod   (family fibig)
  static uint64_t nth_item(uint64_t v, uint64_t*) { return v; }
  static std::string nth_item(uint64_t v, std::string*) { return "k" + std::to_string(v); }
  void bulk(const Line& t) override {
    uint64_t n = (uint64_t)t.at(2), base = (uint64_t)t.at(3), stride = (uint64_t)t.at(4), wmod = (uint64_t)t.at(5);
    for (uint64_t i = 0; i < n; ++i) s.update(nth_item(base + i * stride, (T*)nullptr), (W)(1 + i % wmod));
  }
  // 21 r et has thr: every row of get_frequent_items must carry the bounds the point queries report for its item.
  // R: number of rows, number of inconsistent rows, then (first inconsistent row only) item, row est lb ub, queried est lb ub
  void rowcheck(const Line& t, Out& o) override {
    frequent_items_error_type et = t.at(2) == 1 ? NO_FALSE_NEGATIVES : NO_FALSE_POSITIVES;
    auto rows = t.at(3) != 0 ? s.get_frequent_items(et, (W)t.at(4)) : s.get_frequent_items(et);
    size_t bad = 0; Enc first; I v[6] = {0, 0, 0, 0, 0, 0};
    for (auto& r : rows) {
      const T& x = r.get_item();
      bool ok = r.get_estimate() == s.get_estimate(x) && r.get_lower_bound() == s.get_lower_bound(x) && r.get_upper_bound() == s.get_upper_bound(x);
      if (!ok && bad++ == 0) {
        first = enc(x);
        v[0] = (I)r.get_estimate(); v[1] = (I)r.get_lower_bound(); v[2] = (I)r.get_upper_bound();
        v[3] = (I)s.get_estimate(x); v[4] = (I)s.get_lower_bound(x); v[5] = (I)s.get_upper_bound(x);
      }
    }
    o.R((I)rows.size()); o.R((I)bad);
    if (bad) { put_item(o, first); for (I x : v) o.R(x); }
  }
};

typedef frequent_items_sketch<uint64_t, uint64_t, MulHash> fi0;
typedef frequent_items_sketch<uint64_t, uint64_t, ClusterHash> fi1;
typedef frequent_items_sketch<std::string, int64_t, StrHash> fi2;

static std::map<long, std::unique_ptr<Base>> regs;

static Base& get(I r) {
  auto it = regs.find((long)r);
  if (it == regs.end()) throw std::invalid_argument("no such register");
  return *it->second;
}

static void handler(const Line& t, Out& o) {
  switch ((int)t.at(0)) {
  case 1: { // new r kind lg_max lg_start
    regs.erase((long)t.at(1));
    int kind = (int)t.at(2); uint8_t lgm = (uint8_t)t.at(3), lgs = (uint8_t)t.at(4);
    Base* b;
    if (kind == 0) b = new Holder<fi0, uint64_t, uint64_t>(0, fi0(lgm, lgs));
    else if (kind == 1) b = new Holder<fi1, uint64_t, uint64_t>(1, fi1(lgm, lgs));
    else if (kind == 2) b = new Holder<fi2, std::string, int64_t>(2, fi2(lgm, lgs));
    else throw std::invalid_argument("kind");
    regs[(long)t.at(1)].reset(b);
    o.R(1); break; }
  case 2: case 12: get(t.at(1)).update(t, t.at(0) == 12); o.R(1); break;
  case 3: get(t.at(1)).query(t, o); break;
  case 4: case 14: { Base& a = get(t.at(1)); Base& b = get(t.at(2)); a.merge(b, t.at(0) == 14, o); o.R(1); break; }
  case 5: get(t.at(1)).dump(o); break;
  case 6: t.at(4); get(t.at(1)).freq(t, o); break;
  case 7: case 17: { Base* b = get(t.at(1)).roundtrip(t.at(0) == 17, o); regs[(long)t.at(2)].reset(b); break; }
  case 20: get(t.at(1)).bulk(t); o.R(1); break;
  case 21: get(t.at(1)).rowcheck(t, o); break;
  case 8: { Base* b = get(t.at(1)).copy(); regs[(long)t.at(2)].reset(b); o.R(1); break; }
  default: o.R(-2);
  }
}

int main(int argc, char** argv) {
  return vh::run_main(argc, argv, [] { regs.clear(); }, handler);
}
