// drv_ledger_eb.cpp — C19: members of allocator-aware types that do not compile / link with a user allocator, kept apart from
// drv_ledger.cpp so that a compile-time defect does not take the whole harness down.  Built three times by checks/C19.py:
//   -DEB_PART=1  ebpps_sketch::merge(const ebpps_sketch&) with an item type and allocator outside namespace std
//                (unqualified swap, ebpps_sketch_impl.hpp:205; finding ebpps_lvalue_merge_custom_alloc)
//   -DEB_PART=2  var_opt_union::operator=(const var_opt_union&) (swap with the const argument, var_opt_union_impl.hpp:82;
//                finding var_opt_union_copy_assign_does_not_compile)
//   -DEB_PART=3  count_min_sketch::get_allocator() (declared, never defined; finding count_min_get_allocator_undefined)
// Each part prints "OK live_items live_bytes flags" after exercising the member with the tracking allocator and destroying everything.
#include "ledger_track.hpp"
#include "ebpps_sketch.hpp"
#include "var_opt_union.hpp"
#include "count_min.hpp"
#include <cstdio>
using namespace datasketches;
#ifndef EB_PART
#define EB_PART 1
#endif
int main() {
#if EB_PART == 1
  {
    typedef ebpps_sketch<vl::Item, vl::talloc<vl::Item>> eb_t;
    eb_t a(4, vl::talloc<vl::Item>(1)), b(4, vl::talloc<vl::Item>(2));
    for (int i = 0; i < 20; ++i) { vl::Item x(i); a.update(x, 1.0); }
    for (int i = 0; i < 50; ++i) { vl::Item x(100 + i); b.update(x, 2.0); }
    a.merge(b);            // larger into smaller: copy + swap branch
    b.merge(a);            // smaller or equal: plain branch
    eb_t c(a);
    c.merge(b);
    if (a.get_n() != 70 || b.get_n() != 120 || c.get_n() != 190) { printf("BAD n\n"); return 1; }
  }
#elif EB_PART == 2
  {
    typedef var_opt_sketch<vl::Item, vl::talloc<vl::Item>> vo_t;
    typedef var_opt_union<vl::Item, vl::talloc<vl::Item>> vou_t;
    vou_t a(32, vl::talloc<vl::Item>(1)), b(8, vl::talloc<vl::Item>(2));
    vo_t s(64, resize_factor::X2, vl::talloc<vl::Item>(3));
    for (int i = 0; i < 40; ++i) { vl::Item x(i); s.update(x, 1.0 + i % 3); }
    a.update(s);
    b = a;                 // copy assignment across arenas
    a = a;                 // self-assignment
    b.update(s);
    vo_t r1 = a.get_result(), r2 = b.get_result();
    if (r1.get_n() != 40 || r2.get_n() != 80) { printf("BAD n\n"); return 1; }
  }
#else
  {
    typedef count_min_sketch<uint64_t, vl::talloc<uint64_t>> cm_t;
    cm_t a(3, 64, 9001, vl::talloc<uint64_t>(2));
    for (uint64_t i = 0; i < 100; ++i) a.update(i, 2);
    vl::talloc<uint64_t> al = a.get_allocator();
    if (al.arena != 2) { printf("BAD arena %d\n", al.arena); return 1; }
    auto bytes = a.serialize();
    cm_t b = cm_t::deserialize(bytes.data(), bytes.size(), 9001, a.get_allocator());
    if (b.get_total_weight() != a.get_total_weight()) { printf("BAD weight\n"); return 1; }
  }
#endif
  vl::State& s = vl::st();
  printf("OK %ld %ld %x\n", s.live_items, s.live_bytes, s.flags & ~(unsigned)vl::F_MOVE_FROM_MOVED);
  return (s.live_items == 0 && s.live_bytes == 0 && (s.flags & ~(unsigned)vl::F_MOVE_FROM_MOVED) == 0) ? 0 : 1;
}
