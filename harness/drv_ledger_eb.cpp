// drv_ledger_eb.cpp — C19: ebpps_sketch::merge(const ebpps_sketch&) with an allocator and an item type that do not live
// in namespace std (finding ebpps_lvalue_merge_custom_alloc: the unqualified swap at ebpps_sketch_impl.hpp:205 is only
// found by ADL through std).  Kept apart from drv_ledger.cpp so that this compile-time defect does not take the whole
// harness down.  Prints "OK live_items live_bytes flags" after merging in both size orders and destroying everything.
#include "ledger_track.hpp"
#include "ebpps_sketch.hpp"
#include <cstdio>
using namespace datasketches;
typedef ebpps_sketch<vl::Item, vl::talloc<vl::Item>> eb_t;
int main() {
  {
    eb_t a(4, vl::talloc<vl::Item>(1)), b(4, vl::talloc<vl::Item>(2));
    for (int i = 0; i < 20; ++i) { vl::Item x(i); a.update(x, 1.0); }
    for (int i = 0; i < 50; ++i) { vl::Item x(100 + i); b.update(x, 2.0); }
    a.merge(b);            // larger into smaller: copy + swap branch
    b.merge(a);            // smaller or equal: plain branch
    eb_t c(a);
    c.merge(b);
    if (a.get_n() != 70 || b.get_n() != 120 || c.get_n() != 190) { printf("BAD n %llu %llu %llu\n", (unsigned long long)a.get_n(), (unsigned long long)b.get_n(), (unsigned long long)c.get_n()); return 1; }
  }
  vl::State& s = vl::st();
  printf("OK %ld %ld %x\n", s.live_items, s.live_bytes, s.flags & ~(unsigned)vl::F_MOVE_FROM_MOVED);
  return (s.live_items == 0 && s.live_bytes == 0 && (s.flags & ~(unsigned)vl::F_MOVE_FROM_MOVED) == 0) ? 0 : 1;
}
