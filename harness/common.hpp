// common.hpp — shared plumbing of the correspondence harnesses.
// Script: lines "C <id>" (new case) and "O tok* " (operation); tokens are hex integers, optional '-'.
// Transcript: "C <id>", then per operation an optional "E tok*" line (environment values the
// implementation drew: seeds, coins, random indices), one "R tok*" line (compared with the model)
// and an optional "F tok*" line (float bit patterns and other values only the property oracle reads).
#ifndef VERIF_COMMON_HPP
#define VERIF_COMMON_HPP
#include <cstdio>
#include <cstdint>
#include <cstring>
#include <string>
#include <vector>
#include <map>
#include <memory>
#include <fstream>
#include <iostream>
#include <sstream>
#include <stdexcept>
#include <functional>

namespace vh {
typedef __int128 I;
typedef std::vector<I> Line;

inline I parse_tok(const std::string& s) {
  bool neg = !s.empty() && s[0] == '-';
  unsigned __int128 v = 0;
  for (size_t i = neg ? 1 : 0; i < s.size(); ++i) {
    char c = s[i]; int d;
    if (c >= '0' && c <= '9') d = c - '0';
    else if (c >= 'a' && c <= 'f') d = c - 'a' + 10;
    else if (c >= 'A' && c <= 'F') d = c - 'A' + 10;
    else throw std::runtime_error("bad token " + s);
    v = (v << 4) | (unsigned)d;
  }
  return neg ? -(I)v : (I)v;
}

inline void print_tok(FILE* f, I v) {
  if (v < 0) { fputc('-', f); v = -v; }
  unsigned __int128 u = (unsigned __int128)v;
  uint64_t hi = (uint64_t)(u >> 64), lo = (uint64_t)u;
  if (hi) fprintf(f, "%llx%016llx", (unsigned long long)hi, (unsigned long long)lo);
  else fprintf(f, "%llx", (unsigned long long)lo);
}

inline void emit(const char* tag, const Line& l) {
  fputs(tag, stdout);
  for (I v : l) { fputc(' ', stdout); print_tok(stdout, v); }
  fputc('\n', stdout);
}

inline I dbits(double d) { uint64_t u; memcpy(&u, &d, 8); return (I)u; }
inline double bitsd(I v) { uint64_t u = (uint64_t)v; double d; memcpy(&d, &u, 8); return d; }
inline I fbits(float d) { uint32_t u; memcpy(&u, &d, 4); return (I)u; }
inline float bitsf(I v) { uint32_t u = (uint32_t)v; float d; memcpy(&d, &u, 4); return d; }

// per-operation output buffers
struct Out {
  Line env, res, flt;
  bool has_env = false, has_flt = false;
  void E(I v) { env.push_back(v); has_env = true; }
  void R(I v) { res.push_back(v); }
  void F(I v) { flt.push_back(v); has_flt = true; }
  void Fd(double d) { F(dbits(d)); }
  void clear() { env.clear(); res.clear(); flt.clear(); has_env = has_flt = false; }
};

inline std::string bytes_of(const Line& t, size_t from) {
  std::string s;
  for (size_t i = from; i < t.size(); ++i) s.push_back((char)(uint8_t)t[i]);
  return s;
}

// handler: (op tokens, out); new_case: reset all registers
inline int run_main(int argc, char** argv,
                    const std::function<void()>& new_case,
                    const std::function<void(const Line&, Out&)>& handler) {
  if (argc < 2) { fprintf(stderr, "usage: %s script\n", argv[0]); return 2; }
  std::ifstream in(argv[1]);
  std::string line;
  Out out;
  while (std::getline(in, line)) {
    if (line.empty()) continue;
    if (line[0] == 'C') { new_case(); printf("%s\n", line.c_str()); fflush(stdout); continue; }
    if (line[0] != 'O') continue;
    Line t;
    std::istringstream ss(line.substr(1));
    std::string tok;
    while (ss >> tok) { if (tok == "|") break; t.push_back(parse_tok(tok)); }
    out.clear();
    try {
      handler(t, out);
    } catch (const std::exception& e) {
      out.res.clear(); out.res.push_back(-1);   // refused
      out.flt.clear(); out.has_flt = false;
    }
    if (out.has_env) emit("E", out.env);
    emit("R", out.res);
    if (out.has_flt) emit("F", out.flt);
    fflush(stdout);
  }
  new_case();
  return 0;
}
} // namespace vh
#endif
