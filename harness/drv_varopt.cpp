// drv_varopt.cpp — correspondence harness for var_opt_sketch<int64_t> / var_opt_union<int64_t> (C16).
// Every random choice of the library goes through the DATASKETCHES_VERIF hook and is logged in the E line.
#include "common.hpp"
#include "hooksrc.hpp"
#include <algorithm>
#include <sstream>
#define private public
#define protected public
#include "var_opt_sketch.hpp"
#include "var_opt_union.hpp"
#undef private
#undef protected
using namespace datasketches;
using vh::I; using vh::Line; using vh::Out;
typedef var_opt_sketch<int64_t> vo_t;
typedef var_opt_union<int64_t> vu_t;
static std::map<long, std::unique_ptr<vo_t>> regs;
static std::map<long, std::unique_ptr<vu_t>> unions;

static vo_t& get(I r) {
  auto it = regs.find((long)r);
  if (it == regs.end()) throw std::invalid_argument("no such register");
  return *it->second;
}
static vu_t& getu(I r) {
  auto it = unions.find((long)r);
  if (it == unions.end()) throw std::invalid_argument("no such union");
  return *it->second;
}

struct pred_t {
  int id; int64_t arg;
  bool operator()(const int64_t& x) const {
    switch (id) {
      case 0: return true;
      case 1: return false;
      case 2: return (x & 1) == 0;
      case 3: return x < arg;
      default: return arg <= x;
    }
  }
};

static void dump(const vo_t& s, Out& o) {
  o.R((I)s.get_n()); o.R((I)s.get_k()); o.R((I)s.get_num_samples());
  o.R((I)s.h_); o.R((I)s.r_);
  o.R(s.r_ == 0 ? (I)0 : vh::dbits(s.total_wt_r_));
  // the samples are walked four ways (++it, it++, *it++, range-for); a walk that deviates from the plain one is reported instead of it
  typedef std::vector<std::pair<int64_t, uint64_t>> walk_t;
  walk_t v, post, deref, rfor;
  for (auto it = s.begin(); it != s.end(); ++it) {
    auto p = *it;
    v.push_back(std::make_pair(p.first, (uint64_t)vh::dbits(p.second)));
  }
  for (auto it = s.begin(); it != s.end(); it++) {
    auto p = *it;
    post.push_back(std::make_pair(p.first, (uint64_t)vh::dbits(p.second)));
  }
  for (auto it = s.begin(); it != s.end(); ) {
    auto p = *it++;
    deref.push_back(std::make_pair(p.first, (uint64_t)vh::dbits(p.second)));
  }
  for (auto p : s) rfor.push_back(std::make_pair(p.first, (uint64_t)vh::dbits(p.second)));
  std::sort(v.begin(), v.end()); std::sort(post.begin(), post.end()); std::sort(deref.begin(), deref.end()); std::sort(rfor.begin(), rfor.end());
  const walk_t& shown = post != v ? post : (deref != v ? deref : (rfor != v ? rfor : v));
  for (auto& p : shown) { o.R((I)p.first); o.R((I)p.second); }
}

static void handler(const Line& t, Out& o) {
  vh::install_source(o);
  if (vh::source_op(t, o)) return;
  switch ((int)t.at(0)) {
  case 1: { // new r k rf
    std::unique_ptr<vo_t> p(new vo_t((uint32_t)t.at(2), (resize_factor)(int)t.at(3)));
    regs[(long)t.at(1)] = std::move(p);
    o.R(1); break; }
  case 2: { // update r item weightbits
    vo_t& s = get(t.at(1));
    s.update((int64_t)t.at(2), vh::bitsd(t.at(3)));
    o.R(1); break; }
  case 3: { // dump r
    dump(get(t.at(1)), o); break; }
  case 4: { // estimate_subset_sum r pred arg -> estimate, total ; F: lb, ub
    vo_t& s = get(t.at(1));
    pred_t p; p.id = (int)t.at(2); p.arg = (int64_t)t.at(3);
    subset_summary ss = s.estimate_subset_sum(p);
    o.R(vh::dbits(ss.estimate)); o.R(vh::dbits(ss.total_sketch_weight));
    o.Fd(ss.lower_bound); o.Fd(ss.upper_bound); break; }
  case 5: { // serialize r, deserialize into r2 (mode 0 bytes, 1 stream, 2 bytes with header)
    vo_t& s = get(t.at(1)); int mode = (int)t.at(3);
    std::unique_ptr<vo_t> p;
    if (mode == 1) {
      std::stringstream ss(std::ios::in | std::ios::out | std::ios::binary);
      s.serialize(ss);
      p.reset(new vo_t(vo_t::deserialize(ss)));
    } else {
      unsigned hdr = mode == 2 ? 8 : 0;
      auto bytes = s.serialize(hdr);
      p.reset(new vo_t(vo_t::deserialize(bytes.data() + hdr, bytes.size() - hdr)));
    }
    regs[(long)t.at(2)] = std::move(p);
    o.R(1); break; }
  case 6: { get(t.at(1)).reset(); o.R(1); break; }
  case 7: { // copy r into r2 by one of four means (mode: 0 copy ctor, 1 copy-assign onto the sketch already in r2, 2 move ctor from a
            // temporary copy, 3 move-assign of a temporary copy onto the sketch already in r2); a missing target is a fresh k = 3 sketch
    vo_t& src = get(t.at(1));
    int mode = t.size() > 3 ? (int)t.at(3) : 0;
    long r2 = (long)t.at(2);
    if ((mode == 1 || mode == 3) && regs.find(r2) == regs.end()) {
      std::unique_ptr<vo_t> f(new vo_t(3)); f->update(77, 2.0); f->update(78, 3.0);
      regs[r2] = std::move(f);
    }
    if (mode == 1) { if (regs[r2].get() != &src) *regs[r2] = src; }
    else if (mode == 2) { vo_t tmp(src); std::unique_ptr<vo_t> p(new vo_t(std::move(tmp))); regs[r2] = std::move(p); }
    else if (mode == 3) { vo_t tmp(src); *regs[r2] = std::move(tmp); }
    else { std::unique_ptr<vo_t> p(new vo_t(src)); regs[r2] = std::move(p); }
    o.R(1); break; }
  case 17: { // copy union u into u2 by the same four means
    vu_t& src = getu(t.at(1));
    int mode = t.size() > 3 ? (int)t.at(3) : 0;
    long u2 = (long)t.at(2);
    if ((mode == 1 || mode == 3) && unions.find(u2) == unions.end()) {
      std::unique_ptr<vu_t> f(new vu_t(5)); vo_t one(2); one.update(5, 1.0); f->update(one);
      unions[u2] = std::move(f);
    }
    if (mode == 1) { if (unions[u2].get() != &src) *unions[u2] = src; }
    else if (mode == 2) { vu_t tmp(src); std::unique_ptr<vu_t> p(new vu_t(std::move(tmp))); unions[u2] = std::move(p); }
    else if (mode == 3) { vu_t tmp(src); *unions[u2] = std::move(tmp); }
    else { std::unique_ptr<vu_t> p(new vu_t(src)); unions[u2] = std::move(p); }
    o.R(1); break; }
  case 20: { // as 11 (feedback cases: the model keeps no ghost log for them)
    getu(t.at(1)).update(get(t.at(2)));
    o.R(1); break; }
  case 21: { // as 12
    std::unique_ptr<vo_t> p(new vo_t(getu(t.at(1)).get_result()));
    regs[(long)t.at(2)] = std::move(p);
    o.R(1); break; }
  case 10: { // new union u max_k
    std::unique_ptr<vu_t> p(new vu_t((uint32_t)t.at(2)));
    unions[(long)t.at(1)] = std::move(p);
    o.R(1); break; }
  case 11: { // union u update with sketch r
    getu(t.at(1)).update(get(t.at(2)));
    o.R(1); break; }
  case 16: { // union u update with an rvalue: update(std::move(copy of sketch r))
    vo_t tmp(get(t.at(2)));
    getu(t.at(1)).update(std::move(tmp));
    o.R(1); break; }
  case 12: { // get_result of u into register r2
    std::unique_ptr<vo_t> p(new vo_t(getu(t.at(1)).get_result()));
    regs[(long)t.at(2)] = std::move(p);
    o.R(1); break; }
  case 13: { getu(t.at(1)).reset(); o.R(1); break; }
  case 14: { // union dump (everything here is visible in var_opt_union::serialize)
    vu_t& u = getu(t.at(1));
    o.R((I)u.n_); o.R(vh::dbits(u.outer_tau_numer_)); o.R((I)u.outer_tau_denom_); o.R((I)u.max_k_);
    o.R((I)u.gadget_.num_marks_in_h_);
    dump(u.gadget_, o); break; }
  case 15: { // union u: serialize, deserialize into union u2 (mode 0 bytes, 1 stream, 2 bytes with header)
    vu_t& u = getu(t.at(1)); int mode = (int)t.at(3);
    std::unique_ptr<vu_t> p;
    if (mode == 1) {
      std::stringstream ss(std::ios::in | std::ios::out | std::ios::binary);
      u.serialize(ss);
      p.reset(new vu_t(vu_t::deserialize(ss)));
    } else {
      unsigned hdr = mode == 2 ? 8 : 0;
      auto bytes = u.serialize(hdr);
      p.reset(new vu_t(vu_t::deserialize(bytes.data() + hdr, bytes.size() - hdr)));
    }
    unions[(long)t.at(2)] = std::move(p);
    o.R(1); break; }
  default: o.R(-2);
  }
}

int main(int argc, char** argv) {
  return vh::run_main(argc, argv, [] { regs.clear(); unions.clear(); vh::source().scripted.clear(); }, handler);
}
