// drv_req.cpp — correspondence harness for req_sketch (C07, C08).
// Three instantiations share one operation protocol (the model is over integers with the usual order):
//   kind 0: req_sketch<int64_t>
//   kind 1: req_sketch<double> fed integer values (plus NaN updates / NaN split points)
//   kind 2: req_sketch<std::string, std::greater<std::string>>: item v is stored as enc(-v) with enc an
//           order-preserving fixed-width encoding, so that greater<string> on the stored items is < on v.
//   kind 4: req_sketch<int64_t, DirCmp> with a STATEFUL comparator instance DirCmp(true) (descending) passed at construction; a
//           default-constructed DirCmp() orders the other way; item v is stored as -v, so that the stored comparator's order on
//           the stored items is < on v (code that uses C() instead of the stored instance orders the wrong way)
// Only the public API is used (no private members are read).
#include "common.hpp"
#include "hooksrc.hpp"
#include "req_sketch.hpp"
#include <cmath>
#include <limits>
#include <algorithm>
using namespace datasketches;
using vh::I; using vh::Line; using vh::Out;

struct K0 {
  typedef req_sketch<int64_t> sk_t; typedef int64_t item_t;
  static item_t enc(I v) { return (int64_t)v; }
  static I dec(const item_t& x) { return (I)x; }
};
struct K1 {
  typedef req_sketch<double> sk_t; typedef double item_t;
  static item_t enc(I v) { return (double)(int64_t)v; }
  static I dec(const item_t& x) { return (I)(int64_t)x; }
};
struct K2 {
  typedef req_sketch<std::string, std::greater<std::string>> sk_t; typedef std::string item_t;
  static item_t enc(I v) { // order-preserving: 20 decimal digits of (-v + 2^63), long enough to live on the heap
    unsigned long long u = (unsigned long long)((int64_t)(-v)) + 0x8000000000000000ULL;
    char buf[40]; snprintf(buf, sizeof buf, "item:%020llu", u); return std::string(buf);
  }
  static I dec(const item_t& x) {
    unsigned long long u = strtoull(x.c_str() + 5, nullptr, 10);
    return -(I)(int64_t)(u - 0x8000000000000000ULL);
  }
};

struct DirCmp { bool desc; DirCmp(bool d = false): desc(d) {} bool operator()(int64_t a, int64_t b) const { return desc ? b < a : a < b; } };
struct KD {
  typedef req_sketch<int64_t, DirCmp> sk_t; typedef int64_t item_t;
  static item_t enc(I v) { return -(int64_t)v; }
  static I dec(const item_t& x) { return -(I)x; }
};

struct Reg {
  int kind;
  std::unique_ptr<K0::sk_t> s0; std::unique_ptr<K1::sk_t> s1; std::unique_ptr<K2::sk_t> s2; std::unique_ptr<KD::sk_t> s4;
};
static std::map<long, Reg> regs;

static Reg& get(I r) {
  auto it = regs.find((long)r);
  if (it == regs.end()) throw std::invalid_argument("no such register");
  return it->second;
}
template<typename K> struct Sel;
template<> struct Sel<K0> { static std::unique_ptr<K0::sk_t>& p(Reg& r) { return r.s0; } };
template<> struct Sel<K1> { static std::unique_ptr<K1::sk_t>& p(Reg& r) { return r.s1; } };
template<> struct Sel<K2> { static std::unique_ptr<K2::sk_t>& p(Reg& r) { return r.s2; } };
template<> struct Sel<KD> { static std::unique_ptr<KD::sk_t>& p(Reg& r) { return r.s4; } };

static I numer(double rank, uint64_t n) { return (I)std::llround(rank * (double)n); }

template<typename K> static void run_op(int op, Reg& reg, const Line& t, Out& o) {
  typedef typename K::sk_t S; typedef typename K::item_t T;
  S& s = *Sel<K>::p(reg);
  switch (op) {
  case 2: s.update(K::enc(t.at(2))); o.R(1); break;
  case 5: { // observe
    o.R((I)s.get_n()); o.R((I)s.get_num_retained()); o.R(s.is_empty() ? 1 : 0); o.R(s.is_estimation_mode() ? 1 : 0);
    o.R((I)s.get_k()); o.R(s.is_HRA() ? 1 : 0);
    if (!s.is_empty()) { o.R(K::dec(s.get_min_item())); o.R(K::dec(s.get_max_item())); }
    // first walk the iterator WITHOUT dereferencing it, at most num_retained + 1 steps: an iterator that does not
    // stop after num_retained steps is reported by its length instead of being followed into foreign memory
    const uint64_t nret = s.get_num_retained();
    uint64_t steps = 0;
    for (auto i = s.begin(); i != s.end() && steps <= nret; ++i) ++steps;
    if (steps != nret) { o.R((I)steps); break; }
    std::vector<std::pair<I, I>> it;
    for (auto i = s.begin(); i != s.end(); ++i) { auto p = *i; it.push_back(std::make_pair(K::dec(p.first), (I)p.second)); }
    // every way of walking the sketch must expose the same entries: post-increment, *it++, range-for;
    // on disagreement the deviating walk is reported instead, and judged like any other listing
    { std::vector<std::pair<I, I>> w1, w2, w3;
      for (auto i = s.begin(); i != s.end(); i++) { auto p = *i; w1.push_back(std::make_pair(K::dec(p.first), (I)p.second)); }
      for (auto i = s.begin(); i != s.end(); ) { auto p = *i++; w2.push_back(std::make_pair(K::dec(p.first), (I)p.second)); }
      for (const auto& p : s) w3.push_back(std::make_pair(K::dec(p.first), (I)p.second));
      if (w1 != it) it = w1; else if (w2 != it) it = w2; else if (w3 != it) it = w3; }
    std::sort(it.begin(), it.end());
    o.R((I)it.size());
    for (auto& p : it) { o.R(p.first); o.R(p.second); }
    break; }
  case 6: { // rank
    T x = K::enc(t.at(2));
    double ri = s.get_rank(x, true), re = s.get_rank(x, false);
    o.R(numer(ri, s.get_n())); o.R(numer(re, s.get_n())); o.R(s.is_estimation_mode() ? 1 : 0);
    // the ranks as doubles and the published bounds around the inclusive estimate (1..3 standard deviations): only
    // IEEE + - * / sqrt and comparisons, compared bit for bit with the model
    o.R(vh::dbits(ri)); o.R(vh::dbits(re));
    for (uint8_t sd = 1; sd <= 3; ++sd) { o.R(vh::dbits(s.get_rank_lower_bound(ri, sd))); o.R(vh::dbits(s.get_rank_upper_bound(ri, sd))); }
    break; }
  case 22: { // published bounds at the rank j / 2^t with sd standard deviations
    if (t.at(2) < 0 || t.at(3) < 0 || t.at(3) > 40 || t.at(2) > ((I)1 << (unsigned)t.at(3)) || t.at(4) < 0 || t.at(4) > 255) throw std::invalid_argument("args");
    double rank = (double)(int64_t)t.at(2) / (double)((uint64_t)1 << (unsigned)t.at(3));
    o.R(vh::dbits(s.get_rank_lower_bound(rank, (uint8_t)t.at(4)))); o.R(vh::dbits(s.get_rank_upper_bound(rank, (uint8_t)t.at(4))));
    break; }
  case 7: { // quantile at rank j / 2^t
    double rank = (double)(int64_t)t.at(2) / (double)((uint64_t)1 << (unsigned)t.at(3));
    T a = s.get_quantile(rank, true); T b = s.get_quantile(rank, false);
    o.R(K::dec(a)); o.R(K::dec(b)); o.R(s.is_estimation_mode() ? 1 : 0); break; }
  case 8: { // CDF / PMF
    std::vector<T> sp; for (size_t i = 2; i < t.size(); ++i) sp.push_back(K::enc(t[i]));
    auto ci = s.get_CDF(sp.data(), (uint32_t)sp.size(), true);
    auto ce = s.get_CDF(sp.data(), (uint32_t)sp.size(), false);
    auto pi = s.get_PMF(sp.data(), (uint32_t)sp.size(), true);
    auto pe = s.get_PMF(sp.data(), (uint32_t)sp.size(), false);
    for (double d : ci) o.R(numer(d, s.get_n()));
    for (double d : ce) o.R(numer(d, s.get_n()));
    o.F((I)ci.size());
    for (double d : ci) o.Fd(d);
    for (double d : ce) o.Fd(d);
    for (double d : pi) o.Fd(d);
    for (double d : pe) o.Fd(d);
    break; }
  case 10: { // sorted view, ties collapsed: (item, cumulative weight at the end of its run)
    auto v = s.get_sorted_view();
    std::vector<std::pair<I, I>> g;
    for (auto i = v.begin(); i != v.end(); ++i) {
      auto p = *i; I x = K::dec(p.first);
      if (!g.empty() && g.back().first == x) g.back().second = (I)p.second; else g.push_back(std::make_pair(x, (I)p.second));
    }
    o.R(g.empty() ? 0 : g.back().second);
    for (auto& p : g) { o.R(p.first); o.R(p.second); }
    break; }
  default: o.R(-2);
  }
}

template<typename K> static void merge_op(Reg& a, Reg& b, bool rvalue) {
  typename K::sk_t& x = *Sel<K>::p(a); typename K::sk_t& y = *Sel<K>::p(b);
  if (rvalue) x.merge(std::move(y)); else x.merge(y);
}

static bool is_hra(Reg& g) { return g.kind == 0 ? g.s0->is_HRA() : g.kind == 1 ? g.s1->is_HRA() : g.kind == 2 ? g.s2->is_HRA() : g.s4->is_HRA(); }
static void merge_any(Reg& a, Reg& b, bool rv) {
  if (a.kind == 0) merge_op<K0>(a, b, rv); else if (a.kind == 1) merge_op<K1>(a, b, rv); else if (a.kind == 2) merge_op<K2>(a, b, rv); else merge_op<KD>(a, b, rv);
}

static void handler(const Line& t, Out& o) {
  vh::install_source(o);
  if (vh::source_op(t, o)) return;
  int op = (int)t.at(0);
  switch (op) {
  case 1: { // new r kind k hra
    int kind = (int)t.at(2); I k = t.at(3); bool hra = t.at(4) != 0;
    if (k < 0 || k > 65535) throw std::invalid_argument("k does not fit uint16_t");
    Reg g; g.kind = kind;
    if (kind == 0) g.s0.reset(new K0::sk_t((uint16_t)k, hra));
    else if (kind == 1) g.s1.reset(new K1::sk_t((uint16_t)k, hra));
    else if (kind == 2) g.s2.reset(new K2::sk_t((uint16_t)k, hra));
    else if (kind == 4) g.s4.reset(new KD::sk_t((uint16_t)k, hra, DirCmp(true)));
    else throw std::invalid_argument("kind");
    regs[(long)t.at(1)] = std::move(g);
    o.R(1); break; }
  case 3: { // NaN update
    Reg& g = get(t.at(1));
    if (g.kind == 1) g.s1->update(std::numeric_limits<double>::quiet_NaN());
    o.R(1); break; }
  case 4: { // merge r r2 mode
    if (t.at(1) == t.at(2)) throw std::invalid_argument("self merge not exercised");
    Reg& a = get(t.at(1)); Reg& b = get(t.at(2)); bool rv = t.at(3) == 1;
    if (a.kind != b.kind) throw std::invalid_argument("kinds differ");
    if (is_hra(a) != is_hra(b)) { // the sketch must refuse by itself; nothing may have changed
      bool threw = false;
      try { merge_any(a, b, false); }
      catch (const std::exception&) { threw = true; }
      if (threw) throw std::invalid_argument("refused");
      o.R(2); break; // a mixed-mode merge was accepted
    }
    merge_any(a, b, rv);
    if (rv) regs.erase((long)t.at(2));
    o.R(1); break; }
  case 9: { // CDF with a NaN split point at position t[2] (double sketches)
    Reg& g = get(t.at(1));
    if (g.kind != 1) { // other kinds: nothing to ask; behave as the model (level 0 sorted, then refused)
      if (g.kind == 0) { if (!g.s0->is_empty()) g.s0->get_rank(0, true); }
      else if (g.kind == 2) { if (!g.s2->is_empty()) g.s2->get_rank(K2::enc(0), true); }
      else { if (!g.s4->is_empty()) g.s4->get_rank(0, true); }
      throw std::invalid_argument("no NaN for this kind");
    }
    std::vector<double> sp; for (size_t i = 3; i < t.size(); ++i) sp.push_back(K1::enc(t[i]));
    size_t pos = std::min((size_t)t.at(2), sp.size());
    sp.insert(sp.begin() + pos, std::numeric_limits<double>::quiet_NaN());
    auto c = g.s1->get_CDF(sp.data(), (uint32_t)sp.size(), true);
    o.R((I)c.size()); break; }
  case 13: { // r := copy of r2
    Reg& b = get(t.at(2)); Reg g; g.kind = b.kind;
    if (b.kind == 0) g.s0.reset(new K0::sk_t(*b.s0));
    else if (b.kind == 1) g.s1.reset(new K1::sk_t(*b.s1));
    else if (b.kind == 2) g.s2.reset(new K2::sk_t(*b.s2));
    else g.s4.reset(new KD::sk_t(*b.s4));
    regs[(long)t.at(1)] = std::move(g);
    o.R(1); break; }
  case 20: { // the machine's binary32 arithmetic on the section-size schedule (checks the model's float32 arithmetic;
             // the formulas are those of req_compactor::ensure_enough_sections / nearest_even)
    I k = t.at(1);
    if (k < 4 || k > 65535) throw std::invalid_argument("k");
    volatile float raw = (float)(uint32_t)k; uint32_t sz = (uint32_t)k;
    for (int i = 0; i < 64; ++i) {
      o.R(vh::fbits(raw)); o.R((I)sz);
      volatile float two = 2.0f;
      volatile float ssr = raw / sqrtf(two);
      const uint32_t ne = static_cast<uint32_t>(round(ssr / 2)) << 1;
      if (ne < 4) break;
      raw = ssr; sz = ne;
    }
    break; }
  case 21: { // static get_RSE(k, j / 2^t, hra, n)
    I k = t.at(1), j = t.at(2), tt = t.at(3), n = t.at(5);
    if (k < 0 || k > 65535 || j < 0 || tt < 0 || tt > 40 || j > ((I)1 << (unsigned)tt) || n < 0) throw std::invalid_argument("args");
    double rank = (double)(int64_t)j / (double)((uint64_t)1 << (unsigned)tt);
    o.R(vh::dbits(req_sketch<float>::get_RSE((uint16_t)k, rank, t.at(4) != 0, (uint64_t)n))); break; }
  case 97: o.R(1); o.F((I)vh::source().scripted.size()); break;
  default: {
    Reg& g = get(t.at(1));
    if (g.kind == 0) run_op<K0>(op, g, t, o); else if (g.kind == 1) run_op<K1>(op, g, t, o); else if (g.kind == 2) run_op<K2>(op, g, t, o); else run_op<KD>(op, g, t, o);
  }
  }
}

int main(int argc, char** argv) {
  return vh::run_main(argc, argv, [] { regs.clear(); vh::source().seed(0); }, handler);
}
