// drv_theta.cpp — correspondence harness for update_theta_sketch / compact_theta_sketch (C01).
// Only the public API is used (no private access): builder, update overloads, trim, reset, compact, copy,
// get_theta64, is_empty, is_estimation_mode, get_num_retained, begin/end, get_estimate, is_ordered.
#include "common.hpp"
#include <algorithm>
#include "theta_sketch.hpp"
using namespace datasketches;
using vh::I; using vh::Line; using vh::Out;

struct Reg {
  std::unique_ptr<update_theta_sketch> u;
  std::unique_ptr<compact_theta_sketch> c;
};
static std::map<long, Reg> regs;

static Reg& get(I r) {
  auto it = regs.find((long)r);
  if (it == regs.end()) throw std::invalid_argument("no such register");
  return it->second;
}
static update_theta_sketch& getu(I r) {
  Reg& g = get(r);
  if (!g.u) throw std::invalid_argument("not an update sketch");
  return *g.u;
}

template<typename Sk> static void summary(const Sk& s, Out& o) {
  o.R((I)s.get_theta64()); o.R(s.is_empty() ? 1 : 0); o.R(s.is_estimation_mode() ? 1 : 0); o.R((I)s.get_num_retained());
  o.Fd(s.get_estimate()); o.F(s.is_ordered() ? 1 : 0);
}
static void summary(const Reg& g, Out& o) { if (g.u) summary(*g.u, o); else summary(*g.c, o); }

template<typename Sk> static void entries(const Sk& s, Out& o) {
  std::vector<uint64_t> v;
  for (auto it = s.begin(); it != s.end(); ++it) v.push_back(*it);
  // every way of walking the sketch must expose the same entries: post-increment, *it++, range-for
  { std::vector<uint64_t> w1, w2, w3;
    for (auto it = s.begin(); it != s.end(); it++) w1.push_back(*it);
    for (auto it = s.begin(); it != s.end(); ) w2.push_back(*it++);
    for (const auto& e : s) w3.push_back(e);
    // on disagreement report the deviating walk: the oracle then judges it like any other exposed entry set
    if (w1 != v) v = w1; else if (w2 != v) v = w2; else if (w3 != v) v = w3; }
  for (uint64_t x : v) o.F((I)x);             // iteration order: only the oracle reads it
  std::sort(v.begin(), v.end());
  for (uint64_t x : v) o.R((I)x);             // sorted: slot order is structure, not behaviour
}

static void handler(const Line& t, Out& o) {
  switch ((int)t.at(0)) {
  case 1: { // new r lg_k rf p(float bits) seed
    I lgk = t.at(2), rf = t.at(3), pb = t.at(4);
    if (lgk < 0 || lgk > 255 || rf < 0 || rf > 3 || pb < 0) throw std::invalid_argument("bad builder argument");
    update_theta_sketch::builder b;
    b.set_lg_k((uint8_t)lgk);
    b.set_resize_factor((theta_constants::resize_factor)(int)rf);
    b.set_p(vh::bitsf(pb));
    b.set_seed((uint64_t)t.at(5));
    Reg g; g.u.reset(new update_theta_sketch(b.build()));
    summary(g, o);
    regs[(long)t.at(1)] = std::move(g);
    break; }
  case 2: { // update r kind args
    update_theta_sketch& s = getu(t.at(1));
    int kind = (int)t.at(2);
    I v = t.size() > 3 ? t[3] : 0;
    switch (kind) {
      case 0: s.update((uint64_t)v); break;
      case 1: s.update((int64_t)v); break;
      case 2: s.update((uint32_t)v); break;
      case 3: s.update((int32_t)v); break;
      case 4: s.update((uint16_t)v); break;
      case 5: s.update((int16_t)v); break;
      case 6: s.update((uint8_t)v); break;
      case 7: s.update((int8_t)v); break;
      case 8: s.update(vh::bitsd(v)); break;
      case 9: s.update(vh::bitsf(v)); break;
      case 10: s.update(vh::bytes_of(t, 3)); break;
      default: { std::string bytes = vh::bytes_of(t, 3); s.update(static_cast<const void*>(bytes.data()), bytes.size()); break; }
    }
    summary(s, o); break; }
  case 3: { update_theta_sketch& s = getu(t.at(1)); s.trim(); summary(s, o); break; }
  case 4: { update_theta_sketch& s = getu(t.at(1)); s.reset(); summary(s, o); break; }
  case 5: { // r2 := compact(r, ordered)
    Reg& src = get(t.at(1)); bool ord = t.at(3) != 0;
    Reg g;
    if (src.u) g.c.reset(new compact_theta_sketch(src.u->compact(ord)));
    else g.c.reset(new compact_theta_sketch(*src.c, ord));
    summary(g, o);
    regs[(long)t.at(2)] = std::move(g);
    break; }
  case 6: { // r2 := copy of r
    Reg& src = get(t.at(1));
    Reg g;
    // optional 4th token: HOW the copy is made (all mean "r2 := copy of r" for the model):
    //   0 copy constructor; 1 copy ASSIGNMENT onto a sketch in another state (estimation mode, other lg_k, theta < 1);
    //   2 move constructor from a temporary copy; 3 move assignment from a temporary copy onto such a sketch
    const long how = t.size() > 3 ? (long)t.at(3) : 0;
    if (src.u) {
      if (how == 0) g.u.reset(new update_theta_sketch(*src.u));
      else if (how == 2) { update_theta_sketch tmp(*src.u); g.u.reset(new update_theta_sketch(std::move(tmp))); }
      else {
        update_theta_sketch::builder b; b.set_lg_k(5); b.set_p(0.5f);
        g.u.reset(new update_theta_sketch(b.build()));
        for (int i = 0; i < 300; ++i) g.u->update((uint64_t)(1000003u * (unsigned)i + 17u));   // estimation mode, theta < start
        if (how == 1) *g.u = *src.u;
        else { update_theta_sketch tmp(*src.u); *g.u = std::move(tmp); }
      }
    } else {
      if (how == 0) g.c.reset(new compact_theta_sketch(*src.c));
      else if (how == 2) { compact_theta_sketch tmp(*src.c); g.c.reset(new compact_theta_sketch(std::move(tmp))); }
      else {
        update_theta_sketch::builder b; b.set_lg_k(5);
        update_theta_sketch u = b.build();
        for (int i = 0; i < 200; ++i) u.update((uint64_t)(7919u * (unsigned)i + 3u));
        g.c.reset(new compact_theta_sketch(u.compact(how == 1)));
        if (how == 1) *g.c = *src.c;
        else { compact_theta_sketch tmp(*src.c); *g.c = std::move(tmp); }
      }
    }
    summary(g, o);
    regs[(long)t.at(2)] = std::move(g);
    break; }
  case 7: { // query r
    Reg& g = get(t.at(1));
    summary(g, o);
    if (g.u) entries(*g.u, o); else entries(*g.c, o);
    break; }
  default: o.R(-2);
  }
}

int main(int argc, char** argv) {
  return vh::run_main(argc, argv, [] { regs.clear(); }, handler);
}
