// drv_bloomcodec.cpp — correspondence harness for the Bloom filter image (coq/BloomCodecDefs.v), properties C09/C10/C11.
//   1 mem nbits nh seed fin hsz nupd item*   build a filter (mem 0: create_by_size, 1: initialize_by_size over a block of exactly the
//                                   advertised size); the first nupd items go through update(uint64), the others through
//                                   query_and_update; fin 1: get_bits_used() at the end. bytes = stream (-4), = advertised size (-5),
//                                   serialize(hsz) = hsz zero bytes + image (-6) are checked here.
//                                   E: num_hashes seed num_longs is_empty is_dirty num_bits_set set-bit-positions...; R: 1 image bytes
//   3 reader cut pos val ntrail     the image truncated to `cut` bytes (cut < 0: whole), byte `pos` replaced by val (pos < 0: none), ntrail
//                                   bytes 0xA5 appended, read through reader 0 deserialize(bytes) / 1 deserialize(istream) / 2 wrap /
//                                   3 writable_wrap from an exact-size heap block (ASan sees any over-read)
//   4 reader byte*                  an explicit image through the same readers
//   5 reader item*                  deserialize(image) and restore-through-reader (0, 1, 3), the same updates on both, then equal images?
// a restored filter is shown as 1 consumed|-2 num_hashes seed capacity is_empty read_only wrapped bits_used positions... -7 image-it-writes...
#include "common.hpp"
#include <sstream>
#include <cstdlib>
#define private public
#define protected public
#include "bloom_filter.hpp"
#undef private
#undef protected
using namespace datasketches;
using vh::I; using vh::Line; using vh::Out;
typedef bloom_filter bf_t;

struct Block { uint8_t* p; size_t n; explicit Block(size_t k) : p(static_cast<uint8_t*>(malloc(k ? k : 1))), n(k) {} ~Block() { free(p); }
               uint8_t* data() { return n ? p : p + 1; } };

static std::unique_ptr<Block> cur_mem;
static std::unique_ptr<bf_t> cur;
static std::vector<uint8_t> img;

static void show(const bf_t& f, long consumed, Out& o) {
  auto again = f.serialize();
  o.R(1); o.R(consumed); o.R(f.get_num_hashes()); o.R((I)f.get_seed()); o.R((I)f.get_capacity()); o.R(f.is_empty() ? 1 : 0);
  o.R(f.is_read_only() ? 1 : 0); o.R(f.is_wrapped() ? 1 : 0);
  { bf_t c(f); o.R((I)c.get_bits_used()); }
  const uint64_t cap = f.get_capacity();
  for (uint64_t i = 0; i < cap; ++i) if (f.bit_array_[i >> 3] & (1 << (i & 7))) o.R((I)i);
  o.R(-7);
  for (uint8_t b : again) o.R(b);
}

static void decode(int reader, const std::vector<uint8_t>& bytes, Out& o) {
  if (reader == 1) {
    std::istringstream is(std::string(reinterpret_cast<const char*>(bytes.data()), bytes.size()), std::ios::in | std::ios::binary);
    bf_t f = bf_t::deserialize(is);
    show(f, (long)is.tellg(), o);
    return;
  }
  Block b(bytes.size());
  if (!bytes.empty()) memcpy(b.data(), bytes.data(), bytes.size());
  if (reader == 0) { bf_t f = bf_t::deserialize(b.data(), b.n); show(f, -2, o); }
  else if (reader == 2) { const bf_t f = bf_t::wrap(static_cast<const void*>(b.data()), b.n); show(f, -2, o); }
  else { bf_t f = bf_t::writable_wrap(b.data(), b.n); show(f, -2, o); }
}

static void handler(const Line& t, Out& o) {
  switch ((int)t.at(0)) {
  case 1: {
    cur.reset(); cur_mem.reset(); img.clear();
    const uint64_t nbits = (uint64_t)t.at(2); const uint16_t nh = (uint16_t)t.at(3); const uint64_t seed = (uint64_t)t.at(4);
    if ((int)t.at(1) == 1) {
      cur_mem.reset(new Block(bf_t::get_serialized_size_bytes(nbits)));
      cur.reset(new bf_t(bf_t::builder::initialize_by_size(cur_mem->data(), cur_mem->n, nbits, nh, seed)));
    } else {
      cur.reset(new bf_t(bf_t::builder::create_by_size(nbits, nh, seed)));
    }
    const size_t nupd = (size_t)t.at(7);
    for (size_t i = 8; i < t.size(); ++i) { if (i - 8 < nupd) cur->update((uint64_t)t[i]); else cur->query_and_update((uint64_t)t[i]); }
    if ((int)t.at(5) == 1) cur->get_bits_used();
    auto bytes = cur->serialize();
    std::ostringstream os(std::ios::binary); cur->serialize(os); std::string str = os.str();
    if (str.size() != bytes.size() || memcmp(str.data(), bytes.data(), str.size()) != 0) { o.R(-4); break; }
    if (bytes.size() != cur->get_serialized_size_bytes()) { o.R(-5); break; }
    const unsigned hsz = (unsigned)t.at(6);
    auto hb = cur->serialize(hsz);
    bool hok = hb.size() == hsz + bytes.size();
    for (unsigned i = 0; hok && i < hsz; ++i) hok = hb[i] == 0;
    if (hok && memcmp(hb.data() + hsz, bytes.data(), bytes.size()) != 0) hok = false;
    if (!hok) { o.R(-6); break; }
    o.E(cur->num_hashes_); o.E((I)cur->seed_); o.E((I)(cur->capacity_bits_ >> 6)); o.E(cur->is_empty() ? 1 : 0);
    o.E(cur->is_dirty_ ? 1 : 0); o.E((I)cur->num_bits_set_);
    for (uint64_t i = 0; i < cur->capacity_bits_; ++i) if (cur->bit_array_[i >> 3] & (1 << (i & 7))) o.E((I)i);
    img.assign(bytes.begin(), bytes.end());
    o.R(1); for (uint8_t b : bytes) o.R(b);
    break; }
  case 3: {
    std::vector<uint8_t> d(img);
    long cut = (long)t.at(2), pos = (long)t.at(3);
    if (cut >= 0 && (size_t)cut < d.size()) d.resize((size_t)cut);
    if (pos >= 0 && (size_t)pos < d.size()) d[(size_t)pos] = (uint8_t)t.at(4);
    for (long i = 0; i < (long)t.at(5); ++i) d.push_back(0xA5);
    decode((int)t.at(1), d, o);
    break; }
  case 4: {
    std::vector<uint8_t> d; for (size_t i = 2; i < t.size(); ++i) d.push_back((uint8_t)t[i]);
    decode((int)t.at(1), d, o);
    break; }
  case 5: {
    Block b0(img.size()); memcpy(b0.data(), img.data(), img.size());
    bf_t a = bf_t::deserialize(b0.data(), b0.n);
    Block b1(img.size()); memcpy(b1.data(), img.data(), img.size());
    std::unique_ptr<bf_t> r;
    const int reader = (int)t.at(1);
    if (reader == 1) { std::istringstream is(std::string(reinterpret_cast<const char*>(img.data()), img.size())); r.reset(new bf_t(bf_t::deserialize(is))); }
    else if (reader == 3) r.reset(new bf_t(bf_t::writable_wrap(b1.data(), b1.n)));
    else r.reset(new bf_t(bf_t::deserialize(b1.data(), b1.n)));
    bool same = true;
    for (size_t i = 2; i < t.size(); ++i) {
      if (i % 2) { a.update((uint64_t)t[i]); r->update((uint64_t)t[i]); }
      else { bool x = a.query_and_update((uint64_t)t[i]); bool y = r->query_and_update((uint64_t)t[i]); same = same && x == y; }
    }
    for (size_t i = 2; i < t.size(); ++i) same = same && a.query((uint64_t)t[i]) && r->query((uint64_t)t[i]);
    auto ia = a.serialize(); auto ir = r->serialize();
    same = same && ia.size() == ir.size() && memcmp(ia.data(), ir.data(), ia.size()) == 0;
    if (reader == 3) same = same && memcmp(b1.data(), ia.data(), ia.size()) == 0;   // the wrapped memory is the image
    same = same && a.get_bits_used() == r->get_bits_used();
    o.R(same ? 1 : 0);
    break; }
  default: o.R(-2);
  }
}

int main(int argc, char** argv) { return vh::run_main(argc, argv, [] { cur.reset(); cur_mem.reset(); img.clear(); }, handler); }
