// ledger_objs.hpp — uniform wrappers around the sketches exercised by the C19 harness.
// Every sketch is instantiated with the tracking allocator vl::talloc and, where it is templated on an
// item type, with the instrumented vl::Item.  The wrappers expose the lifecycle operations only
// (construct, update, copy, move, copy/move-assign, merge by ref / by move, reset, destroy) plus two
// observers: retained() (public counter) and digest() (hash of the serialized image).
#ifndef VERIF_LEDGER_OBJS_HPP
#define VERIF_LEDGER_OBJS_HPP
#include "ledger_track.hpp"
#include "common.hpp"
#define private public
#define protected public
#include "kll_sketch.hpp"
#include "tuple_sketch.hpp"
#include "frequent_items_sketch.hpp"
#include "req_sketch.hpp"
#include "var_opt_sketch.hpp"
#include "quantiles_sketch.hpp"
#include "ebpps_sketch.hpp"
#include "hll.hpp"
#include "cpc_sketch.hpp"
#include "theta_sketch.hpp"
#include "bloom_filter.hpp"
#include "var_opt_union.hpp"
#include "tdigest.hpp"
#include "count_min.hpp"
#include "density_sketch.hpp"
#include "cpc_union.hpp"
#include "theta_union.hpp"
#include "theta_intersection.hpp"
#include "theta_a_not_b.hpp"
#include "tuple_union.hpp"
#include "tuple_intersection.hpp"
#include "array_of_doubles_sketch.hpp"
#undef private
#undef protected

namespace vl {
using namespace datasketches;
using vh::I; using vh::Out;

struct Obj {
  virtual ~Obj() {}
  virtual int kind() const = 0;
  virtual void update(int64_t v, int64_t w, bool mv, Out& o) = 0;
  virtual Obj* copy() const = 0;
  virtual Obj* move_out() = 0;                    // new T(std::move(this->s))
  virtual void copy_assign(const Obj& o) = 0;
  virtual void move_assign(Obj& o) = 0;
  virtual void merge(const Obj& o) = 0;
  virtual void merge_move(Obj& o) = 0;
  virtual void reset() = 0;
  virtual void trim() = 0;
  virtual long retained() const = 0;
  virtual void query() = 0;                       // a read-only query that may build caches
  virtual uint64_t digest() const = 0;
  virtual Obj* roundtrip() const = 0;             // deserialize(serialize(*this))
  virtual Obj* result(long arg) const = 0;        // union.get_result(arg)
};

inline uint64_t fnv(const uint8_t* p, size_t n, uint64_t h = 0xcbf29ce484222325ULL) {
  for (size_t i = 0; i < n; ++i) { h ^= p[i]; h *= 0x100000001b3ULL; }
  return h;
}
struct unsupported : std::logic_error { unsupported(): std::logic_error("unsupported operation") {} };

// copy assignment goes through this hook so that a type whose operator=(const&) does not compile can be routed around
template<typename S> struct copy_assigner { static void go(S& a, const S& b) { a = b; } };
#ifndef VERIF_VOU_COPY_ASSIGN
// var_opt_union::operator=(const var_opt_union&) does not compile (std::swap(allocator_, other.allocator_) with a const
// 'other', var_opt_union_impl.hpp:82; finding var_opt_union_copy_assign_does_not_compile, harness drv_ledger_eb.cpp)
template<typename T, typename A> struct copy_assigner<var_opt_union<T, A>> {
  static void go(var_opt_union<T, A>& a, const var_opt_union<T, A>& b) { var_opt_union<T, A> tmp(b); a = std::move(tmp); }
};
#endif

template<typename D, typename S> struct ObjBase : Obj {
  S s;
  template<typename... Args> explicit ObjBase(Args&&... a): s(std::forward<Args>(a)...) {}
  static const D& down(const Obj& o) {
    const D* p = dynamic_cast<const D*>(&o);
    if (!p) throw std::invalid_argument("kind mismatch");
    return *p;
  }
  static D& down(Obj& o) {
    D* p = dynamic_cast<D*>(&o);
    if (!p) throw std::invalid_argument("kind mismatch");
    return *p;
  }
  Obj* copy() const override { return new D(static_cast<const D&>(*this).s); }
  Obj* move_out() override { return new D(std::move(s)); }
  void copy_assign(const Obj& o) override { copy_assigner<S>::go(s, down(o).s); }
  void move_assign(Obj& o) override { s = std::move(down(o).s); }
  void merge(const Obj&) override { throw unsupported(); }
  void merge_move(Obj&) override { throw unsupported(); }
  void reset() override { throw unsupported(); }
  void trim() override { throw unsupported(); }
  void query() override {}
  Obj* roundtrip() const override { throw unsupported(); }
  Obj* result(long) const override { throw unsupported(); }
};

// ---- 0: KLL ----------------------------------------------------------------------------------
typedef kll_sketch<Item, std::less<Item>, talloc<Item>> kll_t;
struct KllObj : ObjBase<KllObj, kll_t> {
  using ObjBase::ObjBase;
  int kind() const override { return 0; }
  void update(int64_t v, int64_t, bool mv, Out&) override { Item it(v); if (mv) s.update(std::move(it)); else s.update(it); }
  void merge(const Obj& o) override { s.merge(down(o).s); }
  void merge_move(Obj& o) override { s.merge(std::move(down(o).s)); }
  long retained() const override { return (long)s.get_num_retained(); }
  void query() override { if (!s.is_empty()) { (void)s.get_rank(Item(0)); Item q = s.get_quantile(0.5); (void)q; } }
  uint64_t digest() const override { auto b = s.serialize(0, ItemSerde()); return fnv(b.data(), b.size()); }
  Obj* roundtrip() const override {
    auto b = s.serialize(0, ItemSerde());
    return new KllObj(kll_t::deserialize(b.data(), b.size(), ItemSerde(), std::less<Item>(), s.get_allocator()));
  }
};

// ---- 1: update tuple sketch (theta hash table with an Item payload) ------------------------------
struct TuplePolicy {
  Item create() const { return Item(0); }
  void update(Item& summary, const int64_t& u) const { summary += u; }
};
typedef update_tuple_sketch<Item, int64_t, TuplePolicy, talloc<Item>> tup_t;
typedef compact_tuple_sketch<Item, talloc<Item>> ctup_t;
struct TupObj : ObjBase<TupObj, tup_t> {
  using ObjBase::ObjBase;
  int kind() const override { return 1; }
  void update(int64_t v, int64_t w, bool, Out& o) override {
    uint64_t key = (uint64_t)v;
    o.E((I)compute_hash(&key, sizeof(key), DEFAULT_SEED));
    s.update(key, w);
  }
  void reset() override { s.reset(); }
  void trim() override { s.trim(); }
  long retained() const override { return (long)s.get_num_retained(); }
  void query() override { (void)s.get_estimate(); long c = 0; for (const auto& e: s) { c += (e.second.get() != 0x7fffffff); } (void)c; }
  uint64_t digest() const override { auto c = s.compact(true); auto b = c.serialize(0, ItemSerde()); return fnv(b.data(), b.size()); }
};

// ---- 2: frequent items ---------------------------------------------------------------------------
typedef frequent_items_sketch<Item, uint64_t, ItemHash, std::equal_to<Item>, talloc<Item>> fi_t;
struct FiObj : ObjBase<FiObj, fi_t> {
  using ObjBase::ObjBase;
  int kind() const override { return 2; }
  void update(int64_t v, int64_t w, bool mv, Out& o) override {
    o.E((I)fmix64((uint64_t)std::hash<int64_t>()(v)));
    Item it(v); if (mv) s.update(std::move(it), (uint64_t)w); else s.update(it, (uint64_t)w);
  }
  void merge(const Obj& o) override { s.merge(down(o).s); }
  void merge_move(Obj& o) override { s.merge(std::move(down(o).s)); }
  long retained() const override { return (long)s.get_num_active_items(); }
  void query() override { (void)s.get_estimate(Item(1)); auto rows = s.get_frequent_items(NO_FALSE_POSITIVES); (void)rows; }
  uint64_t digest() const override { auto b = s.serialize(0, ItemSerde()); return fnv(b.data(), b.size()); }
  Obj* roundtrip() const override {
    auto b = s.serialize(0, ItemSerde());
    return new FiObj(fi_t::deserialize(b.data(), b.size(), ItemSerde(), std::equal_to<Item>(), s.map.get_allocator()));
  }
};

// ---- 3: REQ ----------------------------------------------------------------------------------------
typedef req_sketch<Item, std::less<Item>, talloc<Item>> req_t;
struct ReqObj : ObjBase<ReqObj, req_t> {
  using ObjBase::ObjBase;
  int kind() const override { return 3; }
  void update(int64_t v, int64_t, bool mv, Out&) override { Item it(v); if (mv) s.update(std::move(it)); else s.update(it); }
  void merge(const Obj& o) override { s.merge(down(o).s); }
  void merge_move(Obj& o) override { s.merge(std::move(down(o).s)); }
  long retained() const override { return (long)s.get_num_retained(); }
  void query() override { if (!s.is_empty()) { (void)s.get_rank(Item(0)); Item q = s.get_quantile(0.5); (void)q; } }
  uint64_t digest() const override { auto b = s.serialize(0, ItemSerde()); return fnv(b.data(), b.size()); }
  Obj* roundtrip() const override {
    auto b = s.serialize(0, ItemSerde());
    return new ReqObj(req_t::deserialize(b.data(), b.size(), ItemSerde(), std::less<Item>(), s.get_allocator()));
  }
};

// ---- 4: var_opt ----------------------------------------------------------------------------------
typedef var_opt_sketch<Item, talloc<Item>> vo_t;
struct VoObj : ObjBase<VoObj, vo_t> {
  using ObjBase::ObjBase;
  int kind() const override { return 4; }
  // E: (h_, r_) after the update: which items stay in the heap depends on the weights (model input)
  void update(int64_t v, int64_t w, bool mv, Out& o) override { Item it(v); double wt = (double)(w <= 0 ? 1 : w); if (mv) s.update(std::move(it), wt); else s.update(it, wt); o.E((I)s.h_); o.E((I)s.r_); }
  void reset() override { s.reset(); }
  long retained() const override { return (long)s.get_num_samples(); }
  void query() override { long c = 0; for (auto it = s.begin(); it != s.end(); ++it) { c += ((*it).first.get() != 0x7fffffff); } (void)c; }
  uint64_t digest() const override { auto b = s.serialize(0, ItemSerde()); return fnv(b.data(), b.size()); }
  Obj* roundtrip() const override {
    auto b = s.serialize(0, ItemSerde());
    return new VoObj(vo_t::deserialize(b.data(), b.size(), ItemSerde(), s.allocator_));
  }
};

// ---- 5: classic quantiles -------------------------------------------------------------------------
typedef quantiles_sketch<Item, std::less<Item>, talloc<Item>> qs_t;
struct QsObj : ObjBase<QsObj, qs_t> {
  using ObjBase::ObjBase;
  int kind() const override { return 5; }
  void update(int64_t v, int64_t, bool mv, Out&) override { Item it(v); if (mv) s.update(std::move(it)); else s.update(it); }
  void merge(const Obj& o) override { s.merge(down(o).s); }
  void merge_move(Obj& o) override { s.merge(std::move(down(o).s)); }
  long retained() const override { return (long)s.get_num_retained(); }
  void query() override { if (!s.is_empty()) { (void)s.get_rank(Item(0)); Item q = s.get_quantile(0.5); (void)q; } }
  uint64_t digest() const override { auto b = s.serialize(0, ItemSerde()); return fnv(b.data(), b.size()); }
  Obj* roundtrip() const override {
    auto b = s.serialize(0, ItemSerde());
    return new QsObj(qs_t::deserialize(b.data(), b.size(), ItemSerde(), std::less<Item>(), s.get_allocator()));
  }
};

// ---- 6: EBPPS ----------------------------------------------------------------------------------------
typedef ebpps_sketch<Item, talloc<Item>> eb_t;
struct EbObj : ObjBase<EbObj, eb_t> {
  using ObjBase::ObjBase;
  int kind() const override { return 6; }
  void update(int64_t v, int64_t w, bool mv, Out&) override { Item it(v); double wt = (double)(w <= 0 ? 1 : w); if (mv) s.update(std::move(it), wt); else s.update(it, wt); }
#ifdef VERIF_EBPPS_LVALUE_MERGE
  void merge(const Obj& o) override { s.merge(down(o).s); }
#else
  // ebpps_sketch::merge(const ebpps_sketch&) does not compile with an allocator and item type outside namespace std
  // (unqualified swap at ebpps_sketch_impl.hpp:205; finding ebpps_lvalue_merge_custom_alloc, harness drv_ledger_eb.cpp)
  void merge(const Obj& o) override { eb_t tmp(down(o).s); s.merge(std::move(tmp)); }
#endif
  void merge_move(Obj& o) override { s.merge(std::move(down(o).s)); }
  void reset() override { s.reset(); }
  long retained() const override { return (long)s.get_n(); }
  uint64_t digest() const override { auto b = s.serialize(0, ItemSerde()); return fnv(b.data(), b.size()); }
};

// ---- 7: HLL -------------------------------------------------------------------------------------------
typedef hll_sketch_alloc<talloc<uint8_t>> hll_t;
// block-level shape of an hll_sketch impl: mode (0 list, 1 set, 2 HLL array), lg_k, target type, ints of the coupon array,
// ints of the aux hash map array (0 = no aux map)  -- model input of the HLL block ledger
inline void hll_shape(const hll_t& s, Out& o) {
  typedef talloc<uint8_t> A;
  HllSketchImpl<A>* impl = s.sketch_impl;
  if (impl == nullptr) { o.E(9); o.E(0); o.E(0); o.E(0); o.E(0); return; }
  const int mode = (int)impl->getCurMode();
  o.E(mode == (int)hll_mode::LIST ? 0 : mode == (int)hll_mode::SET ? 1 : 2); o.E((I)impl->getLgConfigK()); o.E((I)(int)impl->getTgtHllType());
  if (mode != (int)hll_mode::HLL) { o.E((I)static_cast<CouponList<A>*>(impl)->coupons_.size()); o.E(0); }
  else { AuxHashMap<A>* aux = static_cast<HllArray<A>*>(impl)->getAuxHashMap(); o.E(0); o.E(aux ? (I)(1u << aux->getLgAuxArrInts()) : (I)0); }
}
inline void hll_sizes(Out& o) {
  typedef talloc<uint8_t> A;
  o.E((I)sizeof(CouponList<A>)); o.E((I)sizeof(CouponHashSet<A>)); o.E((I)sizeof(Hll4Array<A>)); o.E((I)sizeof(Hll6Array<A>)); o.E((I)sizeof(Hll8Array<A>));
  o.E((I)sizeof(AuxHashMap<A>));
}
struct HllObj : ObjBase<HllObj, hll_t> {
  using ObjBase::ObjBase;
  int kind() const override { return 7; }
  void update(int64_t v, int64_t, bool, Out& o) override { s.update((uint64_t)v); hll_shape(s, o); }
  void reset() override { s.reset(); }
  long retained() const override { return 0; }
  void query() override { (void)s.get_estimate(); (void)s.get_composite_estimate(); }
  uint64_t digest() const override { auto b = s.serialize_updatable(); return fnv(b.data(), b.size()); }
  Obj* roundtrip() const override { auto b = s.serialize_compact(); return new HllObj(hll_t::deserialize(b.data(), b.size(), s.sketch_impl->getAllocator())); }
};

// ---- 8: CPC -------------------------------------------------------------------------------------------
typedef cpc_sketch_alloc<talloc<uint8_t>> cpc_t;
struct CpcObj : ObjBase<CpcObj, cpc_t> {
  using ObjBase::ObjBase;
  int kind() const override { return 8; }
  void update(int64_t v, int64_t, bool, Out&) override { s.update((uint64_t)v); }
  long retained() const override { return (long)s.get_num_coupons(); }
  void query() override { (void)s.get_estimate(); }
  uint64_t digest() const override { auto b = s.serialize(); return fnv(b.data(), b.size()); }
  Obj* roundtrip() const override { auto b = s.serialize(); return new CpcObj(cpc_t::deserialize(b.data(), b.size(), DEFAULT_SEED, s.get_allocator())); }
};

// ---- 9: theta update sketch ---------------------------------------------------------------------------
typedef update_theta_sketch_alloc<talloc<uint64_t>> th_t;
struct ThObj : ObjBase<ThObj, th_t> {
  using ObjBase::ObjBase;
  int kind() const override { return 9; }
  void update(int64_t v, int64_t, bool, Out&) override { s.update((uint64_t)v); }
  void reset() override { s.reset(); }
  void trim() override { s.trim(); }
  long retained() const override { return (long)s.get_num_retained(); }
  void query() override { (void)s.get_estimate(); }
  uint64_t digest() const override { auto c = s.compact(true); auto b = c.serialize(); return fnv(b.data(), b.size()); }
};


// ---- 10: Bloom filter in every memory mode ----------------------------------------------------------------
// caller-owned buffers (wrap / writable_wrap / initialize_by_*) live in a per-case pool and are registered with the
// tracking state: handing one of them to the allocator raises F_CALLER_MEMORY
typedef bloom_filter_alloc<talloc<uint8_t>> bf_t;
inline std::vector<std::unique_ptr<uint8_t[]>>& caller_pool() { static std::vector<std::unique_ptr<uint8_t[]>> p; return p; }
inline uint8_t* caller_buffer(size_t n) {
  std::unique_ptr<uint8_t[]> b(new uint8_t[n ? n : 1]); memset(b.get(), 0, n);
  uint8_t* p = b.get(); st().caller[reinterpret_cast<uintptr_t>(p)] = n ? n : 1; caller_pool().push_back(std::move(b)); return p;
}
struct BfObj : ObjBase<BfObj, bf_t> {
  using ObjBase::ObjBase;
  int kind() const override { return 10; }
  void update(int64_t v, int64_t, bool, Out&) override { s.update((uint64_t)v); }
  void merge(const Obj& o) override { s.union_with(down(o).s); }
  void reset() override { s.reset(); }
  // memory mode as the object reports it: 1 owned, 2 wrapped, 4 read-only
  long retained() const override { return (s.is_memory_owned() ? 1 : 0) + (s.is_wrapped() ? 2 : 0) + (s.is_read_only() ? 4 : 0); }
  void query() override { (void)s.query((uint64_t)1); (void)s.get_bits_used(); }
  uint64_t digest() const override { auto b = s.serialize(); return fnv(b.data(), b.size()); }
  Obj* roundtrip() const override { auto b = s.serialize(); return new BfObj(bf_t::deserialize(b.data(), b.size(), s.allocator_)); }
};
inline Obj* make_bloom(long num_bits, long mode, int arena) {
  talloc<uint8_t> a(arena);
  if (num_bits < 1 || num_bits > (1 << 16) || mode < 0 || mode > 3) throw std::invalid_argument("parameter out of range");
  if (mode == 0) return new BfObj(bf_t::builder::create_by_size((uint64_t)num_bits, 3, 123, a));
  const size_t len = bf_t::get_serialized_size_bytes((uint64_t)num_bits);
  uint8_t* mem = caller_buffer(len);
  if (mode == 1) return new BfObj(bf_t::builder::initialize_by_size(mem, len, (uint64_t)num_bits, 3, 123, a));
  { bf_t tmp = bf_t::builder::create_by_size((uint64_t)num_bits, 3, 123, a);
    for (uint64_t i = 0; i < 5; ++i) tmp.update(i * 7919 + 1);
    auto b = tmp.serialize(); if (b.size() > len) throw std::logic_error("image larger than announced"); memcpy(mem, b.data(), b.size()); }
  if (mode == 2) return new BfObj(bf_t::writable_wrap(mem, len, a));
  return new BfObj(bf_t::wrap(mem, len, a));
}

// ---- 11: var_opt_union (the only owner of a gadget sketch with marks_) ---------------------------------------
typedef var_opt_union<Item, talloc<Item>> vou_t;
struct VouObj : ObjBase<VouObj, vou_t> {
  using ObjBase::ObjBase;
  int kind() const override { return 11; }
  void update(int64_t, int64_t, bool, Out&) override { throw unsupported(); }
  void merge(const Obj& o) override { const VoObj* p = dynamic_cast<const VoObj*>(&o); if (!p) throw std::invalid_argument("kind mismatch"); s.update(p->s); }
  void merge_move(Obj& o) override { VoObj* p = dynamic_cast<VoObj*>(&o); if (!p) throw std::invalid_argument("kind mismatch"); s.update(std::move(p->s)); }
  void reset() override { s.reset(); }
  long retained() const override { return 0; }
  uint64_t digest() const override { auto b = s.serialize(0, ItemSerde()); return fnv(b.data(), b.size()); }
  Obj* result(long) const override { return new VoObj(s.get_result()); }
};

// ---- 12: t-digest --------------------------------------------------------------------------------------------------
typedef tdigest<double, talloc<double>> td_t;
struct TdObj : ObjBase<TdObj, td_t> {
  using ObjBase::ObjBase;
  int kind() const override { return 12; }
  void update(int64_t v, int64_t, bool, Out&) override { s.update((double)v); }
  void merge(const Obj& o) override { s.merge(down(o).s); }
  long retained() const override { return (long)s.get_total_weight(); }
  void query() override { if (!s.is_empty()) { (void)s.get_rank(1.0); (void)s.get_quantile(0.5); } }
  uint64_t digest() const override { auto b = s.serialize(0, true); return fnv(b.data(), b.size()); }
  Obj* roundtrip() const override { auto b = s.serialize(0, true); return new TdObj(td_t::deserialize(b.data(), b.size(), s.get_allocator())); }
};

// ---- 13: count-min -------------------------------------------------------------------------------------------------
typedef count_min_sketch<uint64_t, talloc<uint64_t>> cmk_t;
struct CmObj : ObjBase<CmObj, cmk_t> {
  using ObjBase::ObjBase;
  int kind() const override { return 13; }
  void update(int64_t v, int64_t w, bool, Out&) override { s.update((uint64_t)v, (uint64_t)(w <= 0 ? 1 : w)); }
  void merge(const Obj& o) override { s.merge(down(o).s); }
  long retained() const override { return (long)s.get_total_weight(); }
  void query() override { (void)s.get_estimate((uint64_t)1); }
  uint64_t digest() const override { auto b = s.serialize(); return fnv(b.data(), b.size()); }
  Obj* roundtrip() const override { auto b = s.serialize(); return new CmObj(cmk_t::deserialize(b.data(), b.size(), 9001, s._allocator)); }   // get_allocator() is declared but never defined (finding count_min_get_allocator_undefined)
};

// ---- 14: density sketch ------------------------------------------------------------------------------------------------
// gaussian_kernel<T> only accepts std::vector<T> with the default allocator, so it cannot be used with a user allocator
// (density_sketch's points are std::vector<T, Allocator>); the harness supplies an allocator-agnostic kernel
struct AnyKernel {
  template<typename V1, typename V2> double operator()(const V1& a, const V2& b) const {
    double d2 = 0; for (size_t i = 0; i < a.size() && i < b.size(); ++i) d2 += (a[i] - b[i]) * (a[i] - b[i]);
    return 1.0 / (1.0 + d2);
  }
};
typedef density_sketch<double, AnyKernel, talloc<double>> ds_t;
struct DsObj : ObjBase<DsObj, ds_t> {
  using ObjBase::ObjBase;
  int kind() const override { return 14; }
  void update(int64_t v, int64_t w, bool mv, Out&) override {
    std::vector<double, talloc<double>> pt(s.get_dim(), 0.0, s.get_allocator());
    for (size_t i = 0; i < pt.size(); ++i) pt[i] = (double)((v + (int64_t)i * w) % 17) * 0.25;
    if (mv) s.update(std::move(pt)); else s.update(pt);
  }
  void merge(const Obj& o) override { s.merge(down(o).s); }
  void merge_move(Obj& o) override { s.merge(std::move(down(o).s)); }
  long retained() const override { return (long)s.get_num_retained(); }
  void query() override { if (!s.is_empty()) { std::vector<double> pt(s.get_dim(), 0.5); (void)s.get_estimate(pt); } }
  uint64_t digest() const override { auto b = s.serialize(); return fnv(b.data(), b.size()); }
};


// ---- set-operation objects (hand-managed polymorphic or table state of their own) -----------------------------------------
typedef hll_union_alloc<talloc<uint8_t>> hu_t;
struct HuObj : ObjBase<HuObj, hu_t> {
  using ObjBase::ObjBase;
  int kind() const override { return 15; }
  void update(int64_t v, int64_t, bool, Out& o) override { s.update((uint64_t)v); hll_shape(s.gadget_, o); }
  void merge(const Obj& o) override { const HllObj* p = dynamic_cast<const HllObj*>(&o); if (!p) throw std::invalid_argument("kind mismatch"); s.update(p->s); }
  void merge_move(Obj& o) override { HllObj* p = dynamic_cast<HllObj*>(&o); if (!p) throw std::invalid_argument("kind mismatch"); s.update(std::move(p->s)); }
  void reset() override { s.reset(); }
  long retained() const override { return 0; }
  void query() override { (void)s.get_estimate(); (void)s.get_composite_estimate(); }
  uint64_t digest() const override { auto r = s.get_result(HLL_8); auto b = r.serialize_compact(); return fnv(b.data(), b.size()); }
  Obj* result(long t) const override { return new HllObj(s.get_result((target_hll_type)(t < 0 || t > 2 ? 0 : t))); }
};

typedef cpc_union_alloc<talloc<uint8_t>> cu_t;
struct CuObj : ObjBase<CuObj, cu_t> {
  using ObjBase::ObjBase;
  int kind() const override { return 16; }
  void update(int64_t, int64_t, bool, Out&) override { throw unsupported(); }
  void merge(const Obj& o) override { const CpcObj* p = dynamic_cast<const CpcObj*>(&o); if (!p) throw std::invalid_argument("kind mismatch"); s.update(p->s); }
  void merge_move(Obj& o) override { CpcObj* p = dynamic_cast<CpcObj*>(&o); if (!p) throw std::invalid_argument("kind mismatch"); s.update(std::move(p->s)); }
  long retained() const override { return 0; }
  uint64_t digest() const override { auto r = s.get_result(); auto b = r.serialize(); return fnv(b.data(), b.size()); }
  Obj* result(long) const override { return new CpcObj(s.get_result()); }
};

typedef theta_union_alloc<talloc<uint64_t>> tu_t;
struct TuObj : ObjBase<TuObj, tu_t> {
  using ObjBase::ObjBase;
  int kind() const override { return 17; }
  void update(int64_t, int64_t, bool, Out&) override { throw unsupported(); }
  void merge(const Obj& o) override { const ThObj* p = dynamic_cast<const ThObj*>(&o); if (!p) throw std::invalid_argument("kind mismatch"); s.update(p->s); }
  void merge_move(Obj& o) override { ThObj* p = dynamic_cast<ThObj*>(&o); if (!p) throw std::invalid_argument("kind mismatch"); s.update(std::move(p->s)); }
  void reset() override { s.reset(); }
  long retained() const override { return 0; }
  uint64_t digest() const override { auto r = s.get_result(true); auto b = r.serialize(); auto r2 = s.get_result(false); return fnv(b.data(), b.size()) ^ (uint64_t)r2.get_num_retained(); }
};

typedef theta_intersection_alloc<talloc<uint64_t>> ti_t;
struct TiObj : ObjBase<TiObj, ti_t> {
  using ObjBase::ObjBase;
  int kind() const override { return 18; }
  void update(int64_t, int64_t, bool, Out&) override { throw unsupported(); }
  void merge(const Obj& o) override { const ThObj* p = dynamic_cast<const ThObj*>(&o); if (!p) throw std::invalid_argument("kind mismatch"); s.update(p->s); }
  void merge_move(Obj& o) override { ThObj* p = dynamic_cast<ThObj*>(&o); if (!p) throw std::invalid_argument("kind mismatch"); s.update(std::move(p->s)); }
  long retained() const override { return (long)s.has_result(); }
  uint64_t digest() const override { if (!s.has_result()) return 0; auto r = s.get_result(true); auto b = r.serialize(); return fnv(b.data(), b.size()); }
};

// A-not-B is stateless: merge(o) computes o \ o-with-half-the-items-removed through the operator and keeps the digest
typedef theta_a_not_b_alloc<talloc<uint64_t>> ta_t;
struct TaObj : ObjBase<TaObj, ta_t> {
  using ObjBase::ObjBase;
  uint64_t last = 0;
  int kind() const override { return 19; }
  void update(int64_t, int64_t, bool, Out&) override { throw unsupported(); }
  void merge(const Obj& o) override { const ThObj* p = dynamic_cast<const ThObj*>(&o); if (!p) throw std::invalid_argument("kind mismatch");
    auto c = p->s.compact(false); auto r = s.compute(p->s, c, true); auto r2 = s.compute(c, p->s, false); auto b = r.serialize(); last = fnv(b.data(), b.size()) ^ r2.get_num_retained(); }
  void merge_move(Obj& o) override { ThObj* p = dynamic_cast<ThObj*>(&o); if (!p) throw std::invalid_argument("kind mismatch");
    auto c = p->s.compact(true); auto cc = p->s.compact(false); auto r = s.compute(std::move(cc), c, true); auto b = r.serialize(); last = fnv(b.data(), b.size()); }
  long retained() const override { return 0; }
  uint64_t digest() const override { return 0; }   // the operator itself is stateless
};

struct TupUnionPolicy { void operator()(Item& a, const Item& b) const { a += b; } };
typedef tuple_union<Item, TupUnionPolicy, talloc<Item>> tpu_t;
struct TpuObj : ObjBase<TpuObj, tpu_t> {
  using ObjBase::ObjBase;
  int kind() const override { return 21; }
  void update(int64_t, int64_t, bool, Out&) override { throw unsupported(); }
  void merge(const Obj& o) override { const TupObj* p = dynamic_cast<const TupObj*>(&o); if (!p) throw std::invalid_argument("kind mismatch"); s.update(p->s); }
  void merge_move(Obj& o) override { TupObj* p = dynamic_cast<TupObj*>(&o); if (!p) throw std::invalid_argument("kind mismatch"); s.update(std::move(p->s)); }
  void reset() override { s.reset(); }
  long retained() const override { return 0; }
  uint64_t digest() const override { auto r = s.get_result(true); auto b = r.serialize(0, ItemSerde()); return fnv(b.data(), b.size()); }
};

typedef tuple_intersection<Item, TupUnionPolicy, talloc<Item>> tpi_t;
struct TpiObj : ObjBase<TpiObj, tpi_t> {
  using ObjBase::ObjBase;
  int kind() const override { return 22; }
  void update(int64_t, int64_t, bool, Out&) override { throw unsupported(); }
  void merge(const Obj& o) override { const TupObj* p = dynamic_cast<const TupObj*>(&o); if (!p) throw std::invalid_argument("kind mismatch"); s.update(p->s); }
  void merge_move(Obj& o) override { TupObj* p = dynamic_cast<TupObj*>(&o); if (!p) throw std::invalid_argument("kind mismatch"); s.update(std::move(p->s)); }
  long retained() const override { return (long)s.has_result(); }
  uint64_t digest() const override { if (!s.has_result()) return 0; auto r = s.get_result(true); auto b = r.serialize(0, ItemSerde()); return fnv(b.data(), b.size()); }
};

// ---- 23..28: array_of_doubles family (tuple sketches whose summary owns a heap block) -----------------------
// 23: the summary type itself, datasketches::array<double, A>: a hand-managed buffer with its own copy / move / assignment
typedef array<double, talloc<double>> arr_t;
struct ArrObj : ObjBase<ArrObj, arr_t> {
  using ObjBase::ObjBase;
  int kind() const override { return 23; }
  // an array that was moved from keeps its size but holds no buffer: element access is not defined for it
  void update(int64_t v, int64_t w, bool, Out&) override { if (s.size() == 0 || s.data() == nullptr) throw unsupported(); s[(size_t)((uint64_t)v % s.size())] += (double)w; }
  long retained() const override { return s.data() == nullptr ? 0 : (long)s.size(); }
  void query() override { if (s.data() != nullptr) { arr_t c(s); if (!(c == s)) throw std::logic_error("copy differs"); } }
  uint64_t digest() const override { const uint8_t n = s.size(); uint64_t h = fnv(&n, 1); return s.data() == nullptr ? h : fnv((const uint8_t*)s.data(), sizeof(double) * n, h); }
};

typedef default_array_tuple_update_policy<arr_t> aup_t;
typedef update_array_tuple_sketch<arr_t> uad_t;
typedef compact_array_tuple_sketch<arr_t> cad_t;
struct CadObj : ObjBase<CadObj, cad_t> {
  using ObjBase::ObjBase;
  int kind() const override { return 25; }
  void update(int64_t, int64_t, bool, Out&) override { throw unsupported(); }
  long retained() const override { return (long)s.get_num_retained(); }
  void query() override { (void)s.get_estimate(); double c = 0; for (const auto& e: s) { for (uint8_t i = 0; i < s.get_num_values(); ++i) c += e.second[i]; } (void)c; }
  uint64_t digest() const override { auto b = s.serialize(); return fnv(b.data(), b.size()); }
  Obj* roundtrip() const override { auto b = s.serialize(); return new CadObj(cad_t::deserialize(b.data(), b.size(), DEFAULT_SEED, s.get_allocator())); }
};
struct UadObj : ObjBase<UadObj, uad_t> {
  using ObjBase::ObjBase;
  int kind() const override { return 24; }
  void update(int64_t v, int64_t w, bool, Out&) override {
    std::vector<double> a(s.get_num_values()); for (size_t i = 0; i < a.size(); ++i) a[i] = (double)(w + (int64_t)i);
    s.update((uint64_t)v, a);
  }
  void reset() override { s.reset(); }
  void trim() override { s.trim(); }
  long retained() const override { return (long)s.get_num_retained(); }
  void query() override { (void)s.get_estimate(); double c = 0; for (const auto& e: s) { for (uint8_t i = 0; i < s.get_num_values(); ++i) c += e.second[i]; } (void)c; }
  uint64_t digest() const override { auto c = s.compact(true); auto b = c.serialize(); return fnv(b.data(), b.size()); }
  Obj* result(long arg) const override { return new CadObj(s.compact((arg & 1) == 0)); }
};

// the set operations take update and compact sketches, by reference and by rvalue
#define VL_AD_DISPATCH(o, fn) \
  do { if (const UadObj* p_ = dynamic_cast<const UadObj*>(&(o))) fn(p_->s); \
       else if (const CadObj* q_ = dynamic_cast<const CadObj*>(&(o))) fn(q_->s); \
       else throw std::invalid_argument("kind mismatch"); } while (0)
#define VL_AD_DISPATCH_MOVE(o, fn) \
  do { if (UadObj* p_ = dynamic_cast<UadObj*>(&(o))) fn(std::move(p_->s)); \
       else if (CadObj* q_ = dynamic_cast<CadObj*>(&(o))) fn(std::move(q_->s)); \
       else throw std::invalid_argument("kind mismatch"); } while (0)
inline uint8_t ad_num_values(const Obj& o) {
  if (const UadObj* p = dynamic_cast<const UadObj*>(&o)) return p->s.get_num_values();
  if (const CadObj* q = dynamic_cast<const CadObj*>(&o)) return q->s.get_num_values();
  throw std::invalid_argument("kind mismatch");
}

typedef array_tuple_union<arr_t> adu_t;
struct AduObj : ObjBase<AduObj, adu_t> {
  using ObjBase::ObjBase;
  int kind() const override { return 26; }
  uint8_t nv() const { return s.state_.get_policy().get_external_policy().get_num_values(); }
  template<typename X> void feed(X&& x) { s.update(std::forward<X>(x)); }
  void update(int64_t, int64_t, bool, Out&) override { throw unsupported(); }
  // the union policy reads num_values doubles of each incoming summary without a check: the harness refuses a mismatch
  void merge(const Obj& o) override { if (ad_num_values(o) != nv()) throw std::invalid_argument("num_values mismatch"); VL_AD_DISPATCH(o, feed); }
  void merge_move(Obj& o) override { if (ad_num_values(o) != nv()) throw std::invalid_argument("num_values mismatch"); VL_AD_DISPATCH_MOVE(o, feed); }
  void reset() override { s.reset(); }
  long retained() const override { return 0; }
  uint64_t digest() const override { auto r = s.get_result(true); auto b = r.serialize(); return fnv(b.data(), b.size()); }
  Obj* result(long arg) const override { return new CadObj(s.get_result((arg & 1) == 0)); }
};

struct ArrIsectPolicy {
  uint8_t n;
  explicit ArrIsectPolicy(uint8_t n = 1): n(n) {}
  void operator()(arr_t& a, const arr_t& b) const { for (uint8_t i = 0; i < n; ++i) a[i] += b[i]; }
  uint8_t get_num_values() const { return n; }
};
typedef array_tuple_intersection<arr_t, ArrIsectPolicy> adi_t;
struct AdiObj : ObjBase<AdiObj, adi_t> {
  using ObjBase::ObjBase;
  int kind() const override { return 27; }
  uint8_t nv() const { return s.state_.get_policy().get_external_policy().get_num_values(); }
  template<typename X> void feed(X&& x) { s.update(std::forward<X>(x)); }
  void update(int64_t, int64_t, bool, Out&) override { throw unsupported(); }
  void merge(const Obj& o) override { if (ad_num_values(o) != nv()) throw std::invalid_argument("num_values mismatch"); VL_AD_DISPATCH(o, feed); }
  void merge_move(Obj& o) override { if (ad_num_values(o) != nv()) throw std::invalid_argument("num_values mismatch"); VL_AD_DISPATCH_MOVE(o, feed); }
  long retained() const override { return (long)s.has_result(); }
  uint64_t digest() const override { if (!s.has_result()) return 0; auto r = s.get_result(true); auto b = r.serialize(); return fnv(b.data(), b.size()); }
  Obj* result(long arg) const override { if (!s.has_result()) throw unsupported(); return new CadObj(s.get_result((arg & 1) == 0)); }
};

// stateless operator: merge(o) computes o \ (o compacted) both ways; the by-move form passes A as an rvalue against an empty B
typedef array_tuple_a_not_b<arr_t> ada_t;
struct AdaObj : ObjBase<AdaObj, ada_t> {
  using ObjBase::ObjBase;
  uint64_t last = 0;
  int kind() const override { return 28; }
  template<typename X> void diff(const X& x) {
    cad_t c(x, false); auto r = s.compute(x, c, true); auto r2 = s.compute(c, x, false); auto b = r.serialize(); last = fnv(b.data(), b.size()) ^ r2.get_num_retained(); }
  template<typename X> void diff_move(X&& x) {
    cad_t c(x, true); talloc<double> al(x.get_allocator()); uad_t::builder bb{aup_t(x.get_num_values(), al), al}; uad_t e = bb.build();
    auto r = s.compute(std::move(x), e.compact(), true); auto b = r.serialize(); auto b0 = c.serialize(); last = fnv(b.data(), b.size());
    if (b.size() != b0.size() || !std::equal(b.begin(), b.end(), b0.begin())) throw std::logic_error("A-not-empty differs from A"); }
  void update(int64_t, int64_t, bool, Out&) override { throw unsupported(); }
  void merge(const Obj& o) override { VL_AD_DISPATCH(o, diff); }
  void merge_move(Obj& o) override { VL_AD_DISPATCH_MOVE(o, diff_move); }
  long retained() const override { return 0; }
  uint64_t digest() const override { return 0; }
};

// factory: kind, two parameters, arena
inline Obj* make(int kind, long p1, long p2, int arena) {
  // parameters that do not fit the constructor argument types are refused here (no silent truncation);
  // frequent-items tables are limited to 2^12 slots in this harness
  if (kind == 10) return make_bloom(p1, p2, arena);
  if (p1 < 0 || p2 < 0 || p1 > 65535 || p2 > 255 || (kind != 0 && kind != 3 && kind != 4 && kind != 5 && kind != 6 && kind < 11 && p1 > 255))
    throw std::invalid_argument("parameter out of range");
  if (kind == 2 && (p1 > 12 || p2 > 12)) throw std::invalid_argument("parameter out of range");
  if ((kind == 1 || kind == 9 || kind == 4 || kind == 17 || kind == 21) && p2 > 3) throw std::invalid_argument("parameter out of range");
  if (kind == 7 && p2 > 2) throw std::invalid_argument("parameter out of range");
  if (kind == 3 && (p1 < 4 || p1 > 255 || (p1 & 1) || p2 > 1)) throw std::invalid_argument("parameter out of range");   // req rounds k silently
  if (kind >= 23 && kind <= 28 && p1 > 255) throw std::invalid_argument("parameter out of range");
  if (kind >= 24 && kind <= 26 && (p1 < 5 || p1 > 26)) throw std::invalid_argument("parameter out of range");
  if (kind == 4 && p1 < 1) throw std::invalid_argument("parameter out of range");
  switch (kind) {
  case 0: return new KllObj((uint16_t)p1, std::less<Item>(), talloc<Item>(arena));
  case 1: {
    tup_t::builder b{TuplePolicy(), talloc<Item>(arena)};
    b.set_lg_k((uint8_t)p1); b.set_resize_factor((tup_t::resize_factor)p2);
    return new TupObj(b.build()); }
  case 2: return new FiObj((uint8_t)p1, (uint8_t)p2, std::equal_to<Item>(), talloc<Item>(arena));
  case 3: return new ReqObj((uint16_t)p1, p2 != 0, std::less<Item>(), talloc<Item>(arena));
  case 4: return new VoObj((uint32_t)p1, (resize_factor)p2, talloc<Item>(arena));
  case 5: return new QsObj((uint16_t)p1, std::less<Item>(), talloc<Item>(arena));
  case 6: return new EbObj((uint32_t)p1, talloc<Item>(arena));
  case 7: return new HllObj((uint8_t)p1, (target_hll_type)p2, false, talloc<uint8_t>(arena));
  case 8: return new CpcObj((uint8_t)p1, DEFAULT_SEED, talloc<uint8_t>(arena));
  case 9: {
    th_t::builder b{talloc<uint64_t>(arena)};
    b.set_lg_k((uint8_t)p1); b.set_resize_factor((th_t::resize_factor)p2);
    return new ThObj(b.build()); }
  case 11: return new VouObj((uint32_t)p1, talloc<Item>(arena));
  case 12: return new TdObj((uint16_t)p1, talloc<double>(arena));
  case 13: return new CmObj((uint8_t)(p2 ? p2 : 3), (uint32_t)p1, 9001, talloc<uint64_t>(arena));
  case 14: return new DsObj((uint16_t)p1, (uint32_t)(p2 ? p2 : 2), AnyKernel(), talloc<double>(arena));
  case 15: return new HuObj((uint8_t)p1, talloc<uint8_t>(arena));
  case 16: return new CuObj((uint8_t)p1, DEFAULT_SEED, talloc<uint8_t>(arena));
  case 17: { tu_t::builder b{talloc<uint64_t>(arena)}; b.set_lg_k((uint8_t)p1); b.set_resize_factor((tu_t::resize_factor)p2); return new TuObj(b.build()); }
  case 18: return new TiObj(DEFAULT_SEED, talloc<uint64_t>(arena));
  case 19: return new TaObj(DEFAULT_SEED, talloc<uint64_t>(arena));
  case 21: { tpu_t::builder b{TupUnionPolicy(), talloc<Item>(arena)}; b.set_lg_k((uint8_t)p1); b.set_resize_factor((tpu_t::resize_factor)p2); return new TpuObj(b.build()); }
  case 22: return new TpiObj(DEFAULT_SEED, TupUnionPolicy(), talloc<Item>(arena));
  case 23: return new ArrObj((uint8_t)p1, 0.0, talloc<double>(arena));
  case 24: { uad_t::builder b{aup_t((uint8_t)p2, talloc<double>(arena)), talloc<double>(arena)}; b.set_lg_k((uint8_t)p1); return new UadObj(b.build()); }
  case 25: { uad_t::builder b{aup_t((uint8_t)p2, talloc<double>(arena)), talloc<double>(arena)}; b.set_lg_k((uint8_t)p1); return new CadObj(b.build().compact()); }
  case 26: { adu_t::builder b{default_array_tuple_union_policy<arr_t>((uint8_t)p2), talloc<double>(arena)}; b.set_lg_k((uint8_t)p1); return new AduObj(b.build()); }
  case 27: return new AdiObj(DEFAULT_SEED, ArrIsectPolicy((uint8_t)p2), talloc<double>(arena));
  case 28: return new AdaObj(DEFAULT_SEED, talloc<double>(arena));
  default: throw std::invalid_argument("unknown kind");
  }
}
} // namespace vl
#endif
