// drv_bounds.cpp — correspondence / oracle harness for the estimate and confidence-bound code (C06).
// Calls the real functions: binomial_bounds (public get_lower_bound/get_upper_bound and, opened by the macro, the private
// inner approximations), theta / tuple sketches and set-operation results, hll_sketch / hll_union, cpc_sketch / cpc_union,
// compute_icon_estimate, hll get_rel_err, bounds_binomial_proportions.
// R: values the bit-exact binary64 model reproduces (only + - * / sqrt, table lookups, comparisons, ceil);
// E: values read from the objects / inner approximations that go through libm (the model takes them as inputs);
// F: values only the property oracle reads.  NaNs are printed with one canonical pattern.
#include "common.hpp"
#include <cmath>
#include <iomanip>
#include <sstream>
#include <algorithm>
#include <type_traits>
#include <iterator>
#include <exception>
#include <random>
#include <chrono>
#include <thread>
#include <cstdlib>
#include <climits>
#include <functional>
#include <utility>
#define private public
#define protected public
#include "binomial_bounds.hpp"
#include "bounds_binomial_proportions.hpp"
#include "theta_sketch.hpp"
#include "theta_union.hpp"
#include "theta_intersection.hpp"
#include "theta_a_not_b.hpp"
#include "bounds_on_ratios_in_sampled_sets.hpp"
#include "bounds_on_ratios_in_theta_sketched_sets.hpp"
#include "tuple_sketch.hpp"
#include "tuple_union.hpp"
#include "tuple_intersection.hpp"
#include "tuple_a_not_b.hpp"
#include "hll.hpp"
#include "cpc_sketch.hpp"
#include "cpc_union.hpp"
#include "icon_estimator.hpp"
#undef private
#undef protected
using namespace datasketches;
using vh::I; using vh::Line; using vh::Out;
typedef std::allocator<uint8_t> A;

static I db(double d) { return (d != d) ? (I)0x7ff8000000000000ULL : vh::dbits(d); }

// inner approximations of binomial_bounds for sd = 1..3 (environment values: several branches go through log / pow)
static void inner_env(uint64_t m, double theta, Out& o) {
  for (unsigned sd = 1; sd <= 3; ++sd) {
    o.E(db(binomial_bounds::compute_approx_binomial_lower_bound(m, theta, sd)));
    o.E(db(binomial_bounds::compute_approx_binomial_upper_bound(m, theta, sd)));
  }
  // the only libm values of the exact binomial tails (special_n_star / special_n_prime_f): pow(p, n) and pow(p, n + 1)
  o.E(db(std::pow(theta, m))); o.E(db(std::pow(theta, m + 1)));
}

// theta and tuple sketches: R = n estmode est (lb ub)x3 0 ; E = [n theta64 empty m]? inner x6
template<typename S, typename LB, typename UB>
static void emit_sketch(const S& s, uint32_t m, bool with_state, LB lbf, UB ubf, Out& o) {
  const uint32_t n = s.get_num_retained();
  double lb[4], ub[4];
  for (uint8_t sd = 1; sd <= 3; ++sd) { lb[sd] = lbf(sd); ub[sd] = ubf(sd); }
  const double est = s.get_estimate();
  if (with_state) { o.E(n); o.E((I)s.get_theta64()); o.E(s.is_empty() ? 1 : 0); o.E(m); }
  if (s.is_estimation_mode()) inner_env(std::min(m, n), s.get_theta(), o);
  else for (int i = 0; i < 8; ++i) o.E(0);
  o.R(n); o.R(s.is_estimation_mode() ? 1 : 0); o.R(db(est));
  for (uint8_t sd = 1; sd <= 3; ++sd) { o.R(db(lb[sd])); o.R(db(ub[sd])); }
  o.R(0);
}

template<typename S>
static void emit_theta(const S& s, bool with_state, Out& o) {
  emit_sketch(s, s.get_num_retained(), with_state,
              [&](uint8_t sd) { return s.get_lower_bound(sd); }, [&](uint8_t sd) { return s.get_upper_bound(sd); }, o);
}
template<typename S>
static void emit_tuple(const S& s, uint32_t m, bool with_state, Out& o) {
  if (m == s.get_num_retained() || m == 0x80000000u)  // plain overloads
    emit_sketch(s, m, with_state,
                [&](uint8_t sd) { return s.get_lower_bound(sd); }, [&](uint8_t sd) { return s.get_upper_bound(sd); }, o);
  else
    emit_sketch(s, m, with_state,
                [&](uint8_t sd) { return s.get_lower_bound(sd, m); }, [&](uint8_t sd) { return s.get_upper_bound(sd, m); }, o);
}

static uint64_t key(uint64_t seed, uint64_t i) { return (seed << 32) + i; }
struct sum_policy { void operator()(int& a, const int& b) const { a += b; } };

static void hll_emit(const hll_sketch& s, Out& o) {
  double lb[4], ub[4];
  for (uint8_t sd = 1; sd <= 3; ++sd) { lb[sd] = s.get_lower_bound(sd); ub[sd] = s.get_upper_bound(sd); }
  const double est = s.get_estimate();
  hll_mode m = s.get_current_mode();
  o.E((int)m); o.E(s.get_lg_config_k());
  if (m == LIST || m == SET) {
    const CouponList<A>* cl = static_cast<const CouponList<A>*>(s.sketch_impl);
    const uint32_t cnt = cl->getCouponCount();
    o.E(cl->isOutOfOrderFlag() ? 1 : 0); o.E(cnt); o.E(0); o.E(0);
    o.E(db(est)); o.E(db(CubicInterpolation<A>::usingXAndYTables(cnt)));
    o.E(0); o.E(0); o.E(0); o.E(0);
  } else {
    const HllArray<A>* h = static_cast<const HllArray<A>*>(s.sketch_impl);
    o.E(h->isOutOfOrderFlag() ? 1 : 0); o.E(0); o.E(h->getCurMin()); o.E(h->getNumAtCurMin());
    o.E(db(est)); o.E(0);
    // composite estimator: kxq registers, the bitmap estimate (goes through log) and the value the model must reproduce
    o.E(db(h->getKxQ0())); o.E(db(h->getKxQ1())); o.E(db(h->getHllBitMapEstimate())); o.E(db(s.get_composite_estimate()));
  }
  for (uint8_t sd = 1; sd <= 3; ++sd) { o.R(db(lb[sd])); o.R(db(ub[sd])); }
  o.R(db(est)); o.R(0);
  o.Fd(s.get_composite_estimate());
}

static void cpc_emit(const cpc_sketch& s, Out& o) {
  double lb[4], ub[4];
  for (unsigned k = 1; k <= 3; ++k) { lb[k] = s.get_lower_bound(k); ub[k] = s.get_upper_bound(k); }
  const double est = s.get_estimate();
  o.E(s.get_lg_k()); o.E(s.get_num_coupons()); o.E(s.was_merged ? 1 : 0); o.E(db(est));
  for (unsigned k = 1; k <= 3; ++k) { o.R(db(lb[k])); o.R(db(ub[k])); }
  o.Fd(est);
}

// bounds_on_ratios_in_theta_sketched_sets on (A, B): R = est lb ub 0 ; E = n_a theta64_a n_b theta64_b |A below theta(B)| kappa inner_lb inner_ub
// (inner = bounds_binomial_proportions at the kappa derived from theta(B): goes through exp/pow)
template<typename EK, typename SA, typename SB>
static void ratio_emit(const SA& a, const SB& b, Out& o) {
  typedef bounds_on_ratios_in_theta_sketched_sets<EK> br;
  o.E(a.get_num_retained()); o.E((I)a.get_theta64()); o.E(b.get_num_retained()); o.E((I)b.get_theta64());
  uint64_t below = 0;
  for (const auto& entry : a) if (EK()(entry) < b.get_theta64()) ++below;
  o.E((I)below);
  const uint64_t ca = (a.get_theta64() == b.get_theta64()) ? a.get_num_retained() : below;
  const double kappa = bounds_on_ratios_in_sampled_sets::NUM_STD_DEVS * bounds_on_ratios_in_sampled_sets::hacky_adjuster(b.get_theta());
  o.E(db(kappa));
  if (ca >= b.get_num_retained()) {
    o.E(db(bounds_binomial_proportions::approximate_lower_bound_on_p(ca, b.get_num_retained(), kappa)));
    o.E(db(bounds_binomial_proportions::approximate_upper_bound_on_p(ca, b.get_num_retained(), kappa)));
  } else { o.E(0); o.E(0); }
  const double est = br::estimate_of_b_over_a(a, b);
  const double lb = br::lower_bound_for_b_over_a(a, b);
  const double ub = br::upper_bound_for_b_over_a(a, b);
  o.R(db(est)); o.R(db(lb)); o.R(db(ub)); o.R(0);
}

static target_hll_type ty_of(I t) {
  switch ((int)t) { case 0: return HLL_4; case 1: return HLL_6; case 2: return HLL_8; }
  throw std::invalid_argument("bad type");
}

static void handler(const Line& t, Out& o) {
  switch ((int)t.at(0)) {
  case 1: { // binomial_bounds on (n, theta) for sd 1..3
    const uint64_t n = (uint64_t)t.at(1); const double theta = vh::bitsd(t.at(2));
    double lb[4], ub[4];
    for (unsigned sd = 1; sd <= 3; ++sd) {
      lb[sd] = binomial_bounds::get_lower_bound(n, theta, sd);
      ub[sd] = binomial_bounds::get_upper_bound(n, theta, sd);
    }
    inner_env(n, theta, o);
    o.R(db(n / theta));
    for (unsigned sd = 1; sd <= 3; ++sd) { o.R(db(lb[sd])); o.R(db(ub[sd])); }
    o.R(0);
    break; }
  case 2: { // argument validation
    const uint64_t n = (uint64_t)t.at(1); const double theta = vh::bitsd(t.at(2)); const unsigned sd = (unsigned)t.at(3);
    binomial_bounds::get_lower_bound(n, theta, sd);
    binomial_bounds::get_upper_bound(n, theta, sd);
    o.R(1); break; }
  case 3: { // compact sketch with given state: 3 kind n theta64 empty m
    const int kind = (int)t.at(1); const uint32_t n = (uint32_t)t.at(2); const uint64_t theta64 = (uint64_t)t.at(3);
    const bool empty = t.at(4) != 0; const uint32_t m = (uint32_t)t.at(5);
    const uint16_t sh = compute_seed_hash(DEFAULT_SEED);
    if (kind == 0) {
      std::vector<uint64_t> entries(n);
      for (uint32_t i = 0; i < n; ++i) entries[i] = i + 1;
      compact_theta_sketch s(empty, true, sh, theta64, std::move(entries));
      emit_theta(s, false, o);
    } else {
      typedef compact_tuple_sketch<int> cts;
      std::vector<std::pair<uint64_t, int>> entries(n);
      for (uint32_t i = 0; i < n; ++i) entries[i] = std::make_pair((uint64_t)i + 1, 1);
      cts s(empty, true, sh, theta64, std::move(entries));
      emit_tuple(s, m, false, o);
    }
    break; }
  case 4: { // real sketches: 4 kind setop lgk pbits na nb overlap seed m
    const int kind = (int)t.at(1); const int setop = (int)t.at(2); const uint8_t lgk = (uint8_t)t.at(3);
    const float p = vh::bitsf(t.at(4)); const uint64_t na = (uint64_t)t.at(5), nb = (uint64_t)t.at(6), ov = (uint64_t)t.at(7);
    const uint64_t seed = (uint64_t)t.at(8); const uint32_t m = (uint32_t)t.at(9);
    if (ov > na) throw std::invalid_argument("overlap");
    if (kind == 0) {
      auto a = update_theta_sketch::builder().set_lg_k(lgk).set_p(p).build();
      auto b = update_theta_sketch::builder().set_lg_k(lgk).set_p(p).build();
      for (uint64_t i = 0; i < na; ++i) a.update(key(seed, i));
      for (uint64_t i = 0; i < nb; ++i) b.update(key(seed, na - ov + i));
      switch (setop) {
      case 0: emit_theta(a, true, o); break;
      case 1: emit_theta(a.compact(), true, o); break;
      case 2: { auto u = theta_union::builder().set_lg_k(lgk).build(); u.update(a); u.update(b); emit_theta(u.get_result(), true, o); break; }
      case 3: { theta_intersection x; x.update(a); x.update(b); emit_theta(x.get_result(), true, o); break; }
      case 4: { theta_a_not_b x; emit_theta(x.compute(a, b), true, o); break; }
      default: throw std::invalid_argument("setop");
      }
    } else {
      auto a = update_tuple_sketch<int>::builder().set_lg_k(lgk).set_p(p).build();
      auto b = update_tuple_sketch<int>::builder().set_lg_k(lgk).set_p(p).build();
      for (uint64_t i = 0; i < na; ++i) a.update(key(seed, i), 1);
      for (uint64_t i = 0; i < nb; ++i) b.update(key(seed, na - ov + i), 1);
      switch (setop) {
      case 0: emit_tuple(a, m, true, o); break;
      case 1: emit_tuple(a.compact(), m, true, o); break;
      case 2: { auto u = tuple_union<int>::builder().set_lg_k(lgk).build(); u.update(a); u.update(b); emit_tuple(u.get_result(), m, true, o); break; }
      case 3: { tuple_intersection<int, sum_policy> x; x.update(a); x.update(b); emit_tuple(x.get_result(), m, true, o); break; }
      case 4: { tuple_a_not_b<int> x; emit_tuple(x.compute(a, b), m, true, o); break; }
      default: throw std::invalid_argument("setop");
      }
    }
    break; }
  case 5: { // hll get_rel_err: 5 upper unioned lgk sd
    o.R(db(hll_sketch::get_rel_err(t.at(1) != 0, t.at(2) != 0, (uint8_t)t.at(3), (uint8_t)t.at(4))));
    break; }
  case 6: { // hll sketches
    const int src = (int)t.at(1);
    if (src == 0) { // 6 0 lgk type n seed
      hll_sketch s((uint8_t)t.at(2), ty_of(t.at(3)));
      const uint64_t n = (uint64_t)t.at(4), seed = (uint64_t)t.at(5);
      for (uint64_t i = 0; i < n; ++i) s.update(key(seed, i));
      hll_emit(s, o);
    } else if (src == 1) { // 6 1 lgku lgka lgkb type na nb overlap seed
      hll_sketch a((uint8_t)t.at(3), ty_of(t.at(5))), b((uint8_t)t.at(4), ty_of(t.at(5)));
      const uint64_t na = (uint64_t)t.at(6), nb = (uint64_t)t.at(7), ov = (uint64_t)t.at(8), seed = (uint64_t)t.at(9);
      if (ov > na) throw std::invalid_argument("overlap");
      for (uint64_t i = 0; i < na; ++i) a.update(key(seed, i));
      for (uint64_t i = 0; i < nb; ++i) b.update(key(seed, na - ov + i));
      hll_union u((uint8_t)t.at(2));
      u.update(a); u.update(b);
      hll_emit(u.get_result(ty_of(t.at(5))), o);
    } else if (src == 2) { // 6 2 lgk type curMin numAtCurMin ooo hipbits : HllArray with overwritten estimator registers
      const uint8_t lgk = (uint8_t)t.at(2);
      hll_sketch s(lgk, ty_of(t.at(3)));
      uint64_t i = 0;
      while (s.get_current_mode() != HLL && i < (1u << 24)) s.update(key(77, i++));
      if (s.get_current_mode() != HLL) throw std::logic_error("not in HLL mode");
      HllArray<A>* h = static_cast<HllArray<A>*>(s.sketch_impl);
      if (t.at(4) != 255) { h->curMin_ = (uint8_t)t.at(4); h->numAtCurMin_ = (uint32_t)t.at(5); h->hipAccum_ = vh::bitsd(t.at(7)); }
      h->oooFlag_ = t.at(6) != 0;
      hll_emit(s, o);
    } else if (src == 3) { // 6 3 lgk type curMin numAtCurMin kxq0bits kxq1bits [tag] : out-of-order HllArray with overwritten kxq registers
      const uint8_t lgk = (uint8_t)t.at(2);
      hll_sketch s(lgk, ty_of(t.at(3)));
      uint64_t i = 0;
      while (s.get_current_mode() != HLL && i < (1u << 24)) s.update(key(77, i++));
      if (s.get_current_mode() != HLL) throw std::logic_error("not in HLL mode");
      HllArray<A>* h = static_cast<HllArray<A>*>(s.sketch_impl);
      h->curMin_ = (uint8_t)t.at(4); h->numAtCurMin_ = (uint32_t)t.at(5);
      h->kxq0_ = vh::bitsd(t.at(6)); h->kxq1_ = vh::bitsd(t.at(7));
      h->oooFlag_ = true;
      hll_emit(s, o);
    } else throw std::invalid_argument("src");
    break; }
  case 7: { // compute_icon_estimate: 7 lgk c
    const double v = compute_icon_estimate((uint8_t)t.at(1), (uint32_t)t.at(2));
    o.E(db(v));
    // the only libm value of the exponential branch: pow(2.0, c / k)
    o.E(db(pow(2.0, static_cast<double>((uint32_t)t.at(2)) / static_cast<double>(1u << (uint8_t)t.at(1)))));
    o.R(0); o.Fd(v);
    break; }
  case 8: { // cpc sketches
    const int src = (int)t.at(1);
    if (src == 0) { // 8 0 lgk n seed
      cpc_sketch s((uint8_t)t.at(2));
      const uint64_t n = (uint64_t)t.at(3), seed = (uint64_t)t.at(4);
      for (uint64_t i = 0; i < n; ++i) s.update(key(seed, i));
      cpc_emit(s, o);
    } else if (src == 1) { // 8 1 lgku lgka lgkb na nb overlap seed
      cpc_sketch a((uint8_t)t.at(3)), b((uint8_t)t.at(4));
      const uint64_t na = (uint64_t)t.at(5), nb = (uint64_t)t.at(6), ov = (uint64_t)t.at(7), seed = (uint64_t)t.at(8);
      if (ov > na) throw std::invalid_argument("overlap");
      for (uint64_t i = 0; i < na; ++i) a.update(key(seed, i));
      for (uint64_t i = 0; i < nb; ++i) b.update(key(seed, na - ov + i));
      cpc_union u((uint8_t)t.at(2));
      u.update(a); u.update(b);
      cpc_emit(u.get_result(), o);
    } else if (src == 2) { // 8 2 lgk num_coupons merged hipbits : estimator registers overwritten on an empty sketch
      cpc_sketch s((uint8_t)t.at(2));
      s.num_coupons = (uint32_t)t.at(3); s.was_merged = t.at(4) != 0; s.hip_est_accum = vh::bitsd(t.at(5));
      cpc_emit(s, o);
    } else throw std::invalid_argument("src");
    break; }
  case 9: { // bounds_binomial_proportions: 9 n k
    const uint64_t n = (uint64_t)t.at(1), k = (uint64_t)t.at(2);
    const double est = bounds_binomial_proportions::estimate_unknown_p(n, k);
    o.R(db(est));
    for (int sd = 1; sd <= 3; ++sd) {
      o.Fd(bounds_binomial_proportions::approximate_lower_bound_on_p(n, k, (double)sd));
      o.Fd(bounds_binomial_proportions::approximate_upper_bound_on_p(n, k, (double)sd));
    }
    break; }
  case 12: { // bounds_on_ratios_in_sampled_sets: 12 a b fbits
    const uint64_t a = (uint64_t)t.at(1), b = (uint64_t)t.at(2); const double f = vh::bitsd(t.at(3));
    const double lb = bounds_on_ratios_in_sampled_sets::lower_bound_for_b_over_a(a, b, f);
    const double ub = bounds_on_ratios_in_sampled_sets::upper_bound_for_b_over_a(a, b, f);
    const double est = bounds_on_ratios_in_sampled_sets::get_estimate_of_b_over_a(a, b);
    const double kappa = bounds_on_ratios_in_sampled_sets::NUM_STD_DEVS * bounds_on_ratios_in_sampled_sets::hacky_adjuster(f);
    o.E(db(kappa));
    o.E(db(bounds_binomial_proportions::approximate_lower_bound_on_p(a, b, kappa)));
    o.E(db(bounds_binomial_proportions::approximate_upper_bound_on_p(a, b, kappa)));
    o.R(db(est)); o.R(db(lb)); o.R(db(ub)); o.R(0);
    break; }
  case 13: { // ratio bounds on real sketches: 13 kind mode lgkA lgkC pAbits pCbits na nc overlap seed
    const int kind = (int)t.at(1), mode = (int)t.at(2);
    const uint8_t lga = (uint8_t)t.at(3), lgc = (uint8_t)t.at(4);
    const float pa = vh::bitsf(t.at(5)), pc = vh::bitsf(t.at(6));
    const uint64_t na = (uint64_t)t.at(7), nc = (uint64_t)t.at(8), ov = (uint64_t)t.at(9), seed = (uint64_t)t.at(10);
    if (ov > na) throw std::invalid_argument("overlap");
    if (kind == 0) {
      auto a = update_theta_sketch::builder().set_lg_k(lga).set_p(pa).build();
      auto c = update_theta_sketch::builder().set_lg_k(lgc).set_p(pc).build();
      for (uint64_t i = 0; i < na; ++i) a.update(key(seed, i));
      for (uint64_t i = 0; i < nc; ++i) c.update(key(seed, na - ov + i));
      typedef trivial_extract_key EK;
      switch (mode) {
      case 0: { theta_intersection x; x.update(a); x.update(c); ratio_emit<EK>(a, x.get_result(), o); break; }   // B = A n C
      case 1: ratio_emit<EK>(a, a.compact(), o); break;                                                             // B = A
      case 2: { theta_a_not_b x; ratio_emit<EK>(a, x.compute(a, c), o); break; }                                  // B = A \ C
      case 3: ratio_emit<EK>(a.compact(), c, o); break;                                                             // unrelated B (refused when theta(B) > theta(A))
      default: throw std::invalid_argument("mode");
      }
    } else {
      auto a = update_tuple_sketch<int>::builder().set_lg_k(lga).set_p(pa).build();
      auto c = update_tuple_sketch<int>::builder().set_lg_k(lgc).set_p(pc).build();
      for (uint64_t i = 0; i < na; ++i) a.update(key(seed, i), 1);
      for (uint64_t i = 0; i < nc; ++i) c.update(key(seed, na - ov + i), 1);
      typedef pair_extract_key<uint64_t, int> EK;
      switch (mode) {
      case 0: { tuple_intersection<int, sum_policy> x; x.update(a); x.update(c); ratio_emit<EK>(a, x.get_result(), o); break; }
      case 1: ratio_emit<EK>(a, a.compact(), o); break;
      case 2: { tuple_a_not_b<int> x; ratio_emit<EK>(a, x.compute(a, c), o); break; }
      case 3: ratio_emit<EK>(a.compact(), c, o); break;
      default: throw std::invalid_argument("mode");
      }
    }
    break; }
  case 10: { // erf, normal_cdf
    const double x = vh::bitsd(t.at(1));
    o.R(db(bounds_binomial_proportions::erf(x))); o.R(db(bounds_binomial_proportions::normal_cdf(x)));
    break; }
  default: o.R(-2);
  }
}

int main(int argc, char** argv) {
  return vh::run_main(argc, argv, [] {}, handler);
}
