// drv_cpccodec.cpp — correspondence harness for the serialized image of cpc_sketch (coq/CpcImageDefs.v, CpcImageRun.v),
// properties C09/C10/C11. Everything of drv_cpc.cpp (sketch / union registers, ops 1..34) plus:
//   40 r                                  serialize sketch r.  E: kxp bits, hip_est_accum bits.  R: the image bytes.
//                                         F: stream form identical (1/0), serialize(h) = h zero bytes + image for h = 1, 7, 8 (1/0),
//                                            size = 4 * (preamble_ints + table words + window words) (1/0), size
//   41 seed b*                            deserialize(bytes, size, seed) of the given bytes (exact-size heap block)
//   42 seed b*                            deserialize(istream, seed) of the given bytes
//   43 r path seed cut ntrail (pos val)*  the image of r, mangled, through reader path 0 (bytes) / 1 (stream); E: kxp bits, hip bits of r
// mangling: cut >= 0 keeps the first cut bytes, cut < 0 drops -cut-1 bytes from the end; every (pos, val) with pos inside
// replaces byte pos by val (val < 256) or adds val-256 to it (mod 256); then ntrail bytes 0xA5 are appended.
// A decoded sketch is shown as 1 lg_k num_coupons fic merged offset |window| window.. |items| sorted items.. kxp hip
// [bytes consumed, stream only]; R -1 if the reader throws any std::exception.
#define VH_CPC_EXTRA
#include "drv_cpc.cpp"

static void show_sketch(const cpc_sketch& s, Out& o) {
  o.R(1); o.R(s.get_lg_k()); o.R(s.get_num_coupons()); o.R(s.first_interesting_column); o.R(s.was_merged ? 1 : 0); o.R(s.window_offset);
  o.R((I)s.sliding_window.size());
  for (uint8_t b : s.sliding_window) o.R(b);
  std::vector<uint32_t> v = items_sorted(s);
  o.R((I)v.size());
  for (uint32_t x : v) o.R(x);
  o.R(vh::dbits(s.kxp)); o.R(vh::dbits(s.hip_est_accum));
}

static void decode(int path, uint64_t seed, const std::vector<uint8_t>& img, Out& o) {
  if (path == 0) {
    const size_t n = img.size();
    uint8_t* buf = static_cast<uint8_t*>(malloc(n ? n : 1));        // exact size: ASan sees any over-read
    if (n) memcpy(buf, img.data(), n);
    struct Free { uint8_t* p; ~Free() { free(p); } } guard{buf};
    const uint8_t* p = n ? buf : buf + 1;                            // length 0: one past the end of a 1-byte block
    cpc_sketch s = cpc_sketch::deserialize(p, n, seed);
    show_sketch(s, o);
  } else {
    std::istringstream is(std::string(reinterpret_cast<const char*>(img.data()), img.size()), std::ios::in | std::ios::binary);
    cpc_sketch s = cpc_sketch::deserialize(is, seed);
    const long pos = (long)is.tellg();
    show_sketch(s, o); o.R(pos);
  }
}

static bool extra_handler(const Line& t, Out& o) {
  switch ((int)t.at(0)) {
  case 40: {
    const cpc_sketch& s = gets(t.at(1));
    o.E(vh::dbits(s.kxp)); o.E(vh::dbits(s.hip_est_accum));
    auto bytes = s.serialize();
    std::ostringstream os(std::ios::binary); s.serialize(os); const std::string str = os.str();
    const bool stream_eq = str.size() == bytes.size() && (bytes.empty() || memcmp(str.data(), bytes.data(), bytes.size()) == 0);
    bool header_ok = true;
    for (unsigned h : {1u, 7u, 8u}) {
      auto hb = s.serialize(h);
      header_ok = header_ok && hb.size() == bytes.size() + h;
      for (unsigned i = 0; header_ok && i < h; i++) header_ok = hb[i] == 0;
      header_ok = header_ok && (bytes.empty() || memcmp(hb.data() + h, bytes.data(), bytes.size()) == 0);
    }
    // the advertised size: what serialize(header_size_bytes) computes from the compressed state before it writes
    typedef std::allocator<uint8_t> A;
    compressed_state<A> c{A()};
    c.table_data_words = 0; c.table_num_entries = 0; c.window_data_words = 0;
    get_compressor<A>().compress(s, c);
    const size_t want = 4 * ((size_t)bytes.at(0) + c.table_data_words + c.window_data_words);
    for (uint8_t b : bytes) o.R(b);
    o.F(stream_eq ? 1 : 0); o.F(header_ok ? 1 : 0); o.F(want == bytes.size() ? 1 : 0); o.F((I)bytes.size());
    return true; }
  case 41: case 42: {
    std::vector<uint8_t> img; for (size_t i = 2; i < t.size(); ++i) img.push_back((uint8_t)t[i]);
    decode(t.at(0) == 41 ? 0 : 1, (uint64_t)t.at(1), img, o);
    return true; }
  case 43: {
    const cpc_sketch& s = gets(t.at(1));
    o.E(vh::dbits(s.kxp)); o.E(vh::dbits(s.hip_est_accum));
    auto v = s.serialize();
    std::vector<uint8_t> img(v.begin(), v.end());
    const long cut = (long)t.at(4), ntrail = (long)t.at(5);
    if (cut >= 0) { if ((size_t)cut < img.size()) img.resize((size_t)cut); }
    else { const size_t drop = (size_t)(-cut - 1); img.resize(drop >= img.size() ? 0 : img.size() - drop); }
    for (size_t i = 6; i + 1 < t.size(); i += 2) {
      const I pos = t[i], val = t[i + 1];
      if (pos < 0 || pos >= (I)img.size()) continue;
      img[(size_t)pos] = val < 256 ? (uint8_t)val : (uint8_t)(img[(size_t)pos] + (unsigned)(val - 256));
    }
    for (long i = 0; i < ntrail; ++i) img.push_back(0xA5);
    decode((int)t.at(2), (uint64_t)t.at(3), img, o);
    return true; }
  default: return false;
  }
}
