# fam_cmcodec.py — count-min sketch image: Coq codec model coq/CodecCmDefs.v (enc / dec_bytes / dec_stream, theorems in
# Properties_C09_cm.v, Properties_C10_cm.v, Properties_C11_cm.v, old behaviour in Regression_cmcodec.v) against
# count_min_sketch<int64_t>::serialize / deserialize(bytes) / deserialize(istream) through harness/drv_cmcodec.cpp.
# The model describes the readers as repaired by the commit 'fix: count_min_sketch::deserialize checks the size of the weight and table ...'
# (fixes/11_count_min_reader_checks.patch); the behaviour before it is kept as theorems in coq/Regression_cmcodec.v.
#
# Mutations confirmed caught (scratch worktree, VERIF_REPO): see MUTATIONS at the end of this file.
READY_C09 = True
READY_C10 = True
READY_C11 = True
COQ_PROPS_C09 = ['Properties_C09_cm']
COQ_PROPS_C10 = ['Properties_C10_cm']
COQ_PROPS_C11 = ['Properties_C11_cm', 'Regression_cmcodec']
TRUSTED = ['count-min codec model coq/CodecCmDefs.v written by hand from count_min_impl.hpp (layout comments and code); the table content of a sketch is read from the object '
           '(E line) and passed to the model: hashing and row seeds are C14\'s business, the codec model starts from the logical content']
ASSUMPTIONS = ['count_min_sketch<int64_t> only (W = 8 bytes); num_hashes * num_buckets < 2^30 as the constructor demands']

DEFAULT_SEED = 9001
SH = 0x93cc

def le(x, n):
    return [(x >> (8 * i)) & 0xff for i in range(n)]

def py_enc(nh, nb, sh, total, cells):
    """the image written from the documented layout (count_min_impl.hpp comments)"""
    empty = total == 0
    b = [2, 1, 18, 1 if empty else 0, 0, 0, 0, 0] + le(nb, 4) + [nh] + le(sh, 2) + [0]
    if not empty:
        b += le(total % 2**64, 8)
        for c in cells:
            b += le(c % 2**64, 8)
    return b

def configs(rng, tier):
    base = [(1, 3), (1, 4), (2, 3), (3, 16), (5, 7), (8, 5), (255, 3), (4, 64)]
    if tier == 'thorough':
        base += [(rng.randrange(1, 9), rng.randrange(3, 200)) for _ in range(40)] + [(3, 5000)]
    return base

def build_op(rng, r, nh, nb, seed, nupd):
    op = [1, r, nh, nb, seed]
    for _ in range(nupd):
        op += [rng.choice([0, 1, 2, 3, 5, 2**63, 2**64 - 1, rng.randrange(50)]), rng.choice([1, 1, 2, 7, -1, -3, 1000, 2**40, 0])]
    return op

def image_len(nh, nb, nupd_nonzero):
    return 16 + (8 * (1 + nh * nb) if nupd_nonzero else 0)

def gen_c09(rng, tier):
    cases = []
    for ci, (nh, nb) in enumerate(configs(rng, tier)):
        for nupd in (0, 1, 6, 40):
            seed = rng.choice([DEFAULT_SEED, DEFAULT_SEED, 0, 1, 12345678901234567])
            ops = [build_op(rng, 0, nh, nb, seed, nupd)]
            for path in (0, 1):
                ops.append([5, 0, path, -1, -1, 0, 0])
                ops.append([5, 0, path, -1, -1, 0, rng.choice([1, 3, 8, 17])])      # trailing bytes: tolerated / not consumed
            tags = ['roundtrip'] + (['non-empty'] if nupd else ['empty'])
            cases.append(dict(id='cmrt%d_%d' % (ci, nupd), ops=ops, tags=tags, kind='rt'))
    # refused configurations
    cases.append(dict(id='cmrefused', ops=[[1, 0, 3, 2, DEFAULT_SEED], [1, 1, 0, 0, DEFAULT_SEED], [1, 2, 200, 2**23, DEFAULT_SEED]], tags=['refused'], kind='rt'))
    return cases

def gen_c10(rng, tier):
    """images written in Python from the documented layout, read by the implementation (and by the model)"""
    cases = gen_c09(rng, tier)
    for ci in range(12 if tier == 'quick' else 80):
        nh = rng.choice([1, 2, 3, 5]); nb = rng.choice([3, 4, 7, 16])
        cells = [rng.choice([0, 1, 5, 2**63 - 1, 2**64 - 1, rng.randrange(1000)]) for _ in range(nh * nb)]
        total = rng.choice([0, 1, 77, 2**62, 2**64 - 5])
        img = py_enc(nh, nb, SH, total, cells)
        ops = [[3, SH] + img, [4, SH] + img, [3, SH] + img + [9, 9, 9], [4, SH] + img + [9, 9, 9]]
        exp = [nh, nb, SH, total, nh * nb] + (cells if total else [0] * (nh * nb))
        cases.append(dict(id='cmdoc%d' % ci, ops=ops, tags=['documented-layout'], kind='doc', expect=exp, imglen=len(img)))
    return cases

REPL = [0x00, 0xFF, 0x7F, 0x80]

def gen_c11(rng, tier):
    cases = []
    cfgs = configs(rng, tier)
    if tier == 'quick':
        cfgs = rng.sample(cfgs, 4) + [(1, 3)]
    for ci, (nh, nb) in enumerate(cfgs):
        if nh * nb > 400:
            continue
        for nupd in (0, 5):
            seed = rng.choice([DEFAULT_SEED, 7])
            L = image_len(nh, nb, nupd)
            ops = [build_op(rng, 0, nh, nb, seed, nupd)]
            if nupd:
                ops[0] += [1, 1]        # make sure the total weight is not zero
            for cut in range(L):
                ops.append([5, 0, 0, cut, -1, 0, 0]); ops.append([5, 0, 1, cut, -1, 0, 0])
            cases.append(dict(id='cmpre%d_%d' % (ci, nupd), ops=ops, tags=['prefixes'], kind='prefix'))
            ops = [list(ops[0])]
            for pos in range(16):
                for v in REPL + ['+1', '-1', '^1', '^80']:
                    # the value is applied by the harness relative to nothing: concrete values only; the relative ones are resolved on the known header
                    hdr = [2, 1, 18, 0 if nupd else 1, 0, 0, 0, 0] + le(nb, 4) + [nh] + [None, None] + [0]
                    old = hdr[pos]
                    if isinstance(v, str):
                        if old is None:
                            continue
                        v = {'+1': (old + 1) % 256, '-1': (old - 1) % 256, '^1': old ^ 1, '^80': old ^ 0x80}[v]
                    if v == old:
                        continue
                    mut = list(hdr); mut[pos] = v
                    mnb = int.from_bytes(bytes(mut[8:12]), 'little'); mnh = mut[12]; mempty = mut[3] & 1
                    cells = (mnh * mnb) & 0xffffffff
                    for path in (0, 1):
                        # the readers build the table before looking at the data when the image says "empty" (bytes) or always (stream):
                        # a corrupted size would allocate gigabytes; those inputs are the known finding of the serde family, not replayed here
                        if cells * 8 > (1 << 16) and (path == 1 or mempty):
                            continue
                        ops.append([5, 0, path, -1, pos, v, 0])
            for k in range(1, len(ops), 80):
                cases.append(dict(id='cmcor%d_%d_%d' % (ci, nupd, k), ops=[ops[0]] + ops[k:k + 80], tags=['corrupt'], kind='corrupt'))
    return cases + gen_product_overflow()

def gen_product_overflow():
    """num_buckets with bit 31 set and an even num_hashes: the 32-bit product of the old constructor wrapped to a small table
       (stream reader accepted the image, every later update / get_estimate indexed outside the table)"""
    cases = []
    for nh, nb in [(2, 5), (4, 3), (2, 3), (6, 7)]:
        ops = [[1, 0, nh, nb, DEFAULT_SEED, 1, 3, 2, 1]]
        for path in (0, 1):
            for v in (0x80, 0xc0):
                ops.append([5, 0, path, -1, 11, v, 0])
        cases.append(dict(id='cmwrap_%d_%d' % (nh, nb), ops=ops, tags=['corrupt', 'product-overflow'], kind='corrupt'))
    return cases

def oracle(case, irecs, mrecs):
    fails = []
    state = None
    for i, op in enumerate(case['ops']):
        if i >= len(irecs):
            break
        R = irecs[i]['R']
        if op[0] == 1:
            state = irecs[i].get('E')
            if R in ([-4], [-5]):
                fails.append(dict(sig='cm_bytes_stream_size', what='serialize(bytes) / serialize(stream) / get_serialized_size_bytes disagree (%s)' % R, op_index=i))
            continue
        if op[0] == 5 and state is not None:
            path, cut, pos, ntrail = op[2], op[3], op[4], op[6]
            nh, nb, sh, total = state[:4]; cells = state[4:]
            L = 16 + (8 * (1 + len(cells)) if total else 0)
            want = [nh, nb, sh, total, len(cells)] + cells
            if pos < 0 and (cut < 0 or cut >= L):
                exp = ([1] + want) if path == 0 else ([1, L] + want)
                if R != exp:
                    fails.append(dict(sig='cm_roundtrip', what='path %d: a freshly written image does not read back as the same sketch / the stream reader does not consume exactly the image: got %s... want %s...' % (path, R[:8], exp[:8]), op_index=i))
            elif pos < 0 and 0 <= cut < L:
                if R != [-1]:
                    fails.append(dict(sig='cm_prefix_accepted', what='path %d: strict prefix of length %d of a %d-byte image accepted' % (path, cut, L), op_index=i))
        if op[0] == 5 and R[:1] == [1]:
            body = R[1:] if op[2] == 0 else R[2:]
            if len(body) >= 5 and body[0] * body[1] != body[4]:
                fails.append(dict(sig='cm_accepted_table_size_mismatch', what='path %d: an image (byte %d replaced by %#x) is accepted as a sketch with num_hashes %d x num_buckets %d = %d '
                                  'logical cells but a table of %d cells: every update / get_estimate indexes outside it' % (op[2], op[4], op[5], body[0], body[1], body[0] * body[1], body[4]), op_index=i))
        if op[0] in (3, 4) and case.get('kind') == 'doc':
            exp = case['expect']
            want = ([1] + exp) if op[0] == 3 else ([1, case['imglen']] + exp)
            if R != want:
                fails.append(dict(sig='cm_documented_layout', what='an image written from the documented layout is not read as the content it encodes: got %s... want %s...' % (R[:8], want[:8]), op_index=i))
    return fails

def fam(gen):
    return dict(name='cmcodec', harness='drv_cmcodec.cpp', extract='Extract_cmcodec.v', model='model_cmcodec', gen=gen, oracle=oracle)

FAMILIES_C09 = [fam(gen_c09)]
FAMILIES_C10 = [fam(gen_c10)]
FAMILIES_C11 = [fam(gen_c11)]

RULE_C09 = ('count_min_sketch<int64_t> with num_hashes 1..8 and 255, num_buckets 3..64 (thorough: up to 5000), 0/1/6/40 updates with positive, negative, zero and huge weights, several seeds: '
            'image bytes compared byte for byte with the Coq encoder applied to the content read from the object; bytes = stream = advertised size; the image and the image followed by '
            'trailing bytes are read back through both readers and compared with the Coq decoders and with the original content; non-trivial = every case')
RULE_C10 = RULE_C09 + '; plus images written in Python from the documented layout (arbitrary cell values incl. 2^64-1) read by both readers'
RULE_C11 = ('every strict prefix of empty and non-empty images on both reader paths (must be rejected; the model decoder must agree), every byte of the 16-byte preamble replaced by '
            '0x00/0xFF/0x7F/0x80/+1/-1/bit flips with the Coq decoders predicting accept/reject and the decoded content (including the uint8 wrap of check_header_validity); corrupted sizes that '
            'make the reader allocate gigabytes before checking are left to the serde family (known finding); non-trivial = every case')

MUTATIONS = '''
 M4 (see fam_serde.py) num_buckets / num_hashes written and read in swapped order consistently: image != Coq encoder (correspondence), cm_documented_layout
 M7 count_min_sketch::deserialize(istream) loses its final stream-state test: cm_prefix_accepted on every cut inside the table (model decoder rejects)
 on the tree before the reader fix: 336 cm_prefix_accepted + model/implementation differences on corrupted headers read from a stream (recorded run)
 harmless H2 (bulk write of the table): exit 0
'''
