# fam_ebppscodec.py — EBPPS sketch image: Coq codec model coq/EbppsCodecDefs.v (enc / dec_bytes / dec_stream; theorems in
# Properties_C09_ebpps.v, Properties_C10_ebpps.v, Properties_C11_ebpps.v, old reader behaviour in Regression_ebppscodec.v)
# against ebpps_sketch<int64_t>::serialize / deserialize(bytes) / deserialize(istream) through harness/drv_ebppscodec.cpp.
# The model describes the readers as repaired by three reader patches (stream state tested before the fields
# are used; C rejected unless it is below 2^32 and not NaN before it is converted to the 32-bit item count; a non-empty image with
# C == 0.0 rejected: fixes/11_ebpps_c_range.patch, 11_ebpps_stream_state.patch, 11_ebpps_zero_c_image.patch, in this order).
#
# Mutations confirmed caught / harmless rewrites tolerated (scratch worktree, VERIF_REPO): see MUTATIONS at the end.
import struct

READY_C09 = True
READY_C10 = True
READY_C11 = True
COQ_PROPS_C09 = ['Properties_C09_ebpps']
COQ_PROPS_C10 = ['Properties_C10_ebpps']
COQ_PROPS_C11 = ['Properties_C11_ebpps', 'Regression_ebppscodec']
TRUSTED = ['EBPPS codec model coq/EbppsCodecDefs.v written by hand from ebpps_sketch_impl.hpp / ebpps_sample_impl.hpp (layout comment and code); the content of a sketch '
           '(k, n, the three doubles, C, full items, partial item) is read from the object (E line, private members opened in the harness TU) and passed to the model: '
           'how a sketch gets its content is C18\'s business, the codec model starts from the content; doubles travel as 64-bit patterns']
ASSUMPTIONS = ['ebpps_sketch<int64_t> with the default arithmetic serde only (8 bytes per item); other item types and serdes are covered on the implementation side by fam_serde',
               'the image of a non-empty sketch whose sample lost its shape by binary64 rounding (C18 findings sample_shape_lost@*) is still written and read back field by field '
               '(the correspondence covers it), but the round-trip THEOREM is stated for well-formed content: floor(C) full items and a partial item iff C is not an integer']

MAX_K = 2 ** 31 - 2
ONE = 0x3FF0000000000000
ALLOC_CAP = 1 << 24


def dbits(x):
    return struct.unpack('<Q', struct.pack('<d', float(x)))[0]


def bitsd(b):
    return struct.unpack('<d', struct.pack('<Q', b & (2 ** 64 - 1)))[0]


def le(x, n):
    return [(x >> (8 * i)) & 0xff for i in range(n)]


def py_enc(k, n, cw, wmax, rho, c, data, part):
    """the image written from the documented layout (comment above get_serialized_size_bytes in ebpps_sketch_impl.hpp);
       cw, wmax, rho, c are 64-bit patterns, items 64-bit patterns"""
    if n == 0:
        return [1, 1, 19, 4] + le(k, 4)
    b = [5, 1, 19, 8 if part is not None else 0] + le(k, 4) + le(n, 8) + le(cw, 8) + le(wmax, 8) + le(rho, 8) + le(c, 8)
    for x in data:
        b += le(x % 2 ** 64, 8)
    if part is not None:
        b += le(part % 2 ** 64, 8)
    return b


def show(k, n, cw, wmax, rho, c, data, part):
    return [k, n, cw, wmax, rho, c, len(data)] + [x % 2 ** 64 for x in data] + ([1, part % 2 ** 64] if part is not None else [0])


def states(rng, tier):
    """(k, [(item, weight)]) for every state class: empty, zero weights only, single item, exact (n <= k, equal weights: integral C),
       mixed weights (partial item), n > k (downsampled), k = 1, rounding (weight 49: C = 1 - 2^-53: no full item, one partial item)"""
    out = [(4, []), (1, []), (100000, []), (7, [(5, 0.0), (6, 0.0)]),
           (4, [(11, 1.0)]), (1, [(-3, 2.5)]), (1, [(9, 49.0)]),
           (8, [(i, 3.0) for i in range(1, 6)]), (5, [(i, 0.5) for i in range(1, 6)]),
           (8, [(1, 1.0), (2, 2.0), (3, 3.0), (-4, 0.25)]), (16, [(i * 7 - 30, float(1 + i % 5)) for i in range(10)]),
           (3, [(i, 1.0) for i in range(1, 12)]), (4, [(i, float(i)) for i in range(1, 40)]),
           (1, [(i, float(1 + (i * 37) % 11)) for i in range(1, 10)]), (2, [(2 ** 63 - 1, 1e6), (-2 ** 63, 1.0), (0, 3.0)]),
           (32, [(i, 1.5) for i in range(1, 33)]), (100, [(i, 2.0 ** (i % 7)) for i in range(1, 61)])]
    reps = 6 if tier == 'quick' else 120
    for _ in range(reps):
        k = rng.choice([1, 2, 3, 5, 8, 13, 32, 100])
        n = rng.choice([1, 2, k, k + 1, 3 * k, rng.randint(1, 60)])
        prof = rng.choice(['eq', 'int', 'frac', 'pow2'])
        ws = {'eq': lambda: 2.0, 'int': lambda: float(rng.randint(1, 20)), 'frac': lambda: rng.choice([0.1, 0.25, 1.0 / 3, 2.5, 0.7, 3.0]),
              'pow2': lambda: 2.0 ** rng.randint(-3, 6)}[prof]
        out.append((k, [(rng.choice([i, -i, rng.randrange(-2 ** 63, 2 ** 63)]), ws()) for i in range(1, n + 1)]))
    return out


def build_op(r, k, ups):
    op = [1, r, k]
    for it, w in ups:
        op += [it, dbits(w)]
    return op


def gen_c09(rng, tier):
    cases = []
    for ci, (k, ups) in enumerate(states(rng, tier)):
        ops = [build_op(0, k, ups)]
        for path in (0, 1):
            ops.append([5, 0, path, -1, -1, 0, 0])
            ops.append([5, 0, path, -1, -1, 0, rng.choice([1, 3, 8, 17])])      # trailing bytes: tolerated / not consumed
        tags = ['roundtrip'] + (['non-empty'] if any(w > 0 for _, w in ups) else ['empty'])
        cases.append(dict(id='ebrt%d' % ci, ops=ops, tags=tags, kind='rt'))
    cases.append(dict(id='ebrefused', ops=[[1, 0, 0], [1, 1, MAX_K + 1], [1, 2, 2 ** 32 + 7]], tags=['refused'], kind='rt'))
    return cases


def doc_images(rng, tier):
    out = [(9, 0, 0, 0, ONE, 0, [], None)]
    for _ in range(14 if tier == 'quick' else 120):
        k = rng.choice([1, 2, 7, 100, MAX_K, rng.randint(1, 1000)])
        n = rng.choice([1, 2, 77, 2 ** 40, 2 ** 64 - 1])
        nd = rng.choice([0, 1, 2, 5, 9])
        frac = rng.choice([0.0, 0.0, 0.5, 0.25, 1e-9, 1 - 2.0 ** -53])
        if nd == 0 and frac == 0.0:
            frac = 0.75
        c = float(nd) + frac if nd + frac < 2 ** 52 else float(nd)
        part = rng.choice([0, -1, 12345, 2 ** 63 - 1]) if (c != int(c)) else None
        data = [rng.choice([0, 1, -1, 2 ** 63 - 1, -2 ** 63, rng.randrange(1000)]) for _ in range(int(c))]
        dbl = lambda: rng.choice([0, ONE, dbits(3.25), dbits(1e300), 0x7FF8000000000000, 0xFFF0000000000000, dbits(-2.5), rng.getrandbits(64)])
        out.append((k, n, dbl(), dbl(), dbl(), dbits(c), data, part))
    return out


def gen_c10(rng, tier):
    """the C09 cases plus images written in Python from the documented layout, read by the implementation (and by the model)"""
    cases = gen_c09(rng, tier)
    for ci, (k, n, cw, wmax, rho, c, data, part) in enumerate(doc_images(rng, tier)):
        img = py_enc(k, n, cw, wmax, rho, c, data, part)
        ops = [[3] + img, [4] + img, [3] + img + [9, 9, 9], [4] + img + [9, 9, 9]]
        exp = show(k, n, cw, wmax, rho, c, data, part)
        cases.append(dict(id='ebdoc%d' % ci, ops=ops, tags=['documented-layout'], kind='doc', expect=exp, imglen=len(img)))
    return cases


REPL = [0x00, 0xFF, 0x7F, 0x80]
NPRE = 48          # the five documented preamble longs and C


def gen_c11(rng, tier):
    cases = []
    # the smallest trigger of the zero-C defect (fixes/11_ebpps_zero_c_image.patch): C = 2.0 with its top byte cleared
    cases.append(dict(id='ebzero', ops=[build_op(0, 5, [(1, 2.0), (2, 2.0)]), [5, 0, 0, -1, 47, 0, 0], [5, 0, 1, -1, 47, 0, 0]], tags=['corrupt', 'fixed'], kind='corrupt'))
    sts = states(rng, tier)
    if tier == 'quick':
        sts = sts[:4] + rng.sample(sts[4:17], 7) + sts[17:20]
    for ci, (k, ups) in enumerate(sts):
        if k * 8 > ALLOC_CAP or len(ups) > 70:
            continue
        build = build_op(0, k, ups)
        # prefixes: the image length is not known here; cuts beyond the image read the whole image (the oracle sorts them out)
        maxlen = 8 if not any(w > 0 for _, w in ups) else 48 + 8 * (min(k, len(ups)) + 1)
        ops = [build]
        for cut in range(maxlen):
            ops.append([5, 0, 0, cut, -1, 0, 0]); ops.append([5, 0, 1, cut, -1, 0, 0])
        cases.append(dict(id='ebpre%d' % ci, ops=ops, tags=['prefixes'], kind='prefix'))
        # preamble corruption: absolute replacement values (the harness and the model answer -8 for the mutations that only
        # provoke an allocation above 16 MiB from a header field)
        ops = []
        for pos in range(min(NPRE, maxlen)):
            for v in REPL + [1, 2, 4, 5, 8, 12, 13, 18, 19, 20, 0x3F, 0x40, 0x41, 0xF0]:
                for path in (0, 1):
                    ops.append([5, 0, path, -1, pos, v, 0])
        for j in range(0, len(ops), 120):
            cases.append(dict(id='ebcor%d_%d' % (ci, j), ops=[build] + ops[j:j + 120], tags=['corrupt'], kind='corrupt'))
    # the registered finding, once: a C of 1e9 in a 48-byte image makes the bytes reader allocate 8 GB before the serde checks the size
    img = py_enc(5, 3, dbits(3.0), dbits(1.0), dbits(1.0), dbits(1e9), [], None)
    cases.append(dict(id='eballoc', ops=[[6] + img], tags=['corrupt', 'allocation'], kind='alloc'))
    return cases


def img_len(st):
    n, nd = st[1], st[6]
    haspart = st[7 + nd]
    return 8 if n == 0 else 48 + 8 * (nd + haspart)


def oracle(case, irecs, mrecs):
    fails = []
    state = None
    for i, op in enumerate(case['ops']):
        if i >= len(irecs):
            break
        R = irecs[i]['R']
        if op[0] == 1:
            state = irecs[i].get('E')
            if R in ([-4], [-5], [-7]):
                fails.append(dict(sig='ebpps_bytes_stream_size_header',
                                  what='serialize(bytes) / serialize(stream) / get_serialized_size_bytes / serialize(header) disagree (%s)' % R, op_index=i))
            continue
        if R and R[0] == 1 and op[0] in (3, 4, 5):
            cb = R[7] if (op[0] == 3 or (op[0] == 5 and op[2] == 0)) else R[8]
            c = bitsd(cb)
            rs = R[1] if (op[0] == 3 or (op[0] == 5 and op[2] == 0)) else R[2]
            if rs == 2:
                fails.append(dict(sig='ebpps_accepted_unserializable', what='an accepted image yields a sketch whose serialize() throws (n = %d, C bits %x): with a header of 8 or more '
                                  'bytes the same call writes past its buffer' % (R[3] if rs == R[1] else R[4], cb), op_index=i))
            if c != c or c < 0 or c >= 2 ** 32:
                fails.append(dict(sig='ebpps_invalid_c_accepted', what='an image whose C (%r, bits %x) is not a valid item count was accepted and a sketch with that C returned'
                                  % (c, cb), op_index=i))
        if op[0] == 5 and state:
            path, cut, pos = op[2], op[3], op[4]
            L = img_len(state)
            if pos < 0 and (cut < 0 or cut >= L):
                exp = ([1, 1] + state) if path == 0 else ([1, L, 1] + state)
                if R != exp:
                    fails.append(dict(sig='ebpps_roundtrip', what='path %d: a freshly written image does not read back as the same sketch, does not re-serialize to the same '
                                      'bytes, or the stream reader does not consume exactly the image: got %s... want %s...' % (path, R[:9], exp[:9]), op_index=i))
            elif pos < 0 and 0 <= cut < L:
                if R != [-1]:
                    fails.append(dict(sig='ebpps_prefix_accepted', what='path %d: strict prefix of length %d of a %d-byte image accepted' % (path, cut, L), op_index=i))
        if op[0] in (3, 4) and case.get('kind') == 'doc' and R != [-8]:
            exp = case['expect']
            reser = 1 if exp[1] != 0 or case['imglen'] == 8 else 0
            want = ([1, reser] + exp) if op[0] == 3 else ([1, case['imglen'], reser] + exp)
            if R != want:
                fails.append(dict(sig='ebpps_documented_layout', what='an image written from the documented layout is not read as the content it encodes: got %s... want %s...'
                                  % (R[:9], want[:9]), op_index=i))
    return fails


def crash_sig(case, text):
    # floor(C) items are allocated before the size of the image is checked (the sanitizer's allocation cap aborts the process)
    if case.get('kind') == 'alloc' and 'allocation-size-too-big' in text and 'ebpps_sample' in text:
        return 'ebpps_corrupt_c_allocation'
    return None


def fam(gen):
    return dict(name='ebppscodec', harness='drv_ebppscodec.cpp', extract='Extract_ebppscodec.v', model='model_ebppscodec', gen=gen, oracle=oracle,
                crash_sig=crash_sig, cxx_flags='-ffp-contract=off')


FAMILIES_C09 = [fam(gen_c09)]
FAMILIES_C10 = [fam(gen_c10)]
FAMILIES_C11 = [fam(gen_c11)]

RULE_C09 = ('ebpps_sketch<int64_t> in every state class (empty, zero weights only, single item, n <= k with equal weights, mixed weights with a partial item, n > k, k = 1, '
            'k = 100000, the rounding state with no full item and one partial item, extreme int64 items) built through the public API with hooked random choices: image bytes compared '
            'byte for byte with the Coq encoder applied to the content read from the object; bytes = stream = advertised size; header of 1/8/13 bytes = zeros ++ image; the image and '
            'the image followed by trailing bytes are read back through both readers, compared with the Coq decoders and with the original content, the stream position is the image '
            'length, and the restored sketch re-serializes to the same bytes; non-trivial = every case')
RULE_C10 = RULE_C09 + ('; plus images written in Python from the documented layout (arbitrary k, n, double patterns incl. NaN/inf/negative, C with and without fractional part, '
                       'extreme items) read by both readers and compared field by field')
RULE_C11 = ('every strict prefix of the image of each state on both reader paths (must be rejected; the model decoders must agree), every byte of the 48 documented preamble bytes '
            '(five longs and C) replaced by 18 values with the Coq decoders predicting accept/reject and the decoded content; mutations whose only effect is an allocation above 16 MiB '
            'from a header field (k of an empty image, floor(C) items) are not replayed except once (registered finding ebpps_corrupt_c_allocation); non-trivial = every case')

MUTATIONS = '''
 (scratch worktree = /repo + the three fixes/11_ebpps_*.patch, VERIF_REPO, quick tier, seed 1; C09/C10/C11 restricted to this family)
 CM1 both writers emit rho before wt_max (readers unchanged)                       C09 C10 C11: ebpps_roundtrip + image != Coq encoder
 CM2 deserialize(bytes): ensure_minimum_memory(size, (prelongs - 1) << 3)          C11: ASan heap-buffer-overflow on prefixes 32..39
 CM3 deserialize(bytes): HAS_PARTIAL_ITEM consistency check dropped                C11: model decoder rejects the corrupted flags byte, the code accepts
 CM4 get_serialized_size_bytes 8 too large                                         C09 C10 C11: ebpps_bytes_stream_size_header
 CM5 both sample writers emit the partial item before the full items               C09 C10 C11: ebpps_roundtrip + image != Coq encoder
 CM6 check_preamble_longs: the non-empty branch no longer checks the value         C11: ASan on a corrupted byte 0 (size check uses the corrupted count)
 CM7 stream reader skips the family / serial version check                         C11: model decoder rejects corrupted bytes 1, 2; the code accepts
 CM8 sample stream reader: C < 0.0 check dropped                                   C11: ebpps_invalid_c_accepted
 on /repo before the reader fixes: ebpps_invalid_c_accepted (C = NaN, inf, 1.4e304 accepted after corrupting bytes 46/47), ebpps_accepted_unserializable (case ebzero)
 + model/implementation differences
 harmless CH1 (header checks of the bytes reader in another order), CH2 (has_partial computed as c != floor(c)), CH3 (flags computed by one
 expression, two independent declarations swapped in serialize): exit 0 on C09, C10 and C11
'''
