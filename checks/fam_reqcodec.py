# fam_reqcodec.py — REQ serialization: C09 (round trip), C10 (documented layout), C11 (truncated / corrupted images) for
# req_sketch<int64_t>, req_sketch<double> and req_sketch<float> (integer values).  Model coq/ReqCodecDefs.v (enc / dec_core / dec,
# theorems Properties_C09_req.v, Properties_C10_req.v, Properties_C11_req.v) against serialize() / deserialize(bytes) /
# deserialize(istream) of the code through harness/drv_reqcodec.cpp (extract/Extract_reqcodec.v, runner crun); the harness INCLUDES
# harness/drv_req.cpp, so the sketch operations (and their output format) are always those of the req family.
#
# Mutations confirmed caught (scratch worktree of /repo, VERIF_REPO, VERIF_SEED=1, ./check C09 / C10 / C11 with this family alone):
#   r1 serialize(bytes): high-rank flag dropped                          -> C09, C10: req_bytes_differ_from_stream (+ image differs from the model)
#   r2 compactor serialize(bytes): lg_weight / num_sections swapped      -> C09, C10: req_bytes_differ_from_stream
#   r3 bytes reader: level 0 always flagged sorted                        -> C09: req_reserialized_differs, C10: req_layout_reserialized
#   r4 deserializing compactor constructor: section_size_ truncated instead of nearest_even -> C09 (section-doubling cases, k = 8 / 50)
#   r5 stream reader: n of a single-level sketch not recomputed          -> C09: req_reserialized_differs, C10: req_layout_counts
#   r6 compactor bytes reader checks only 8 of its 20 fixed bytes (f4128db reverted) -> C11: ASan heap-buffer-overflow on strict prefixes
#   r7 get_serialized_size_bytes without the raw-items form (0740b2e reverted)       -> C09, C10: req_bytes_differ_from_stream
#   r8 serialize(stream): min and max swapped                             -> C09, C10: req_bytes_differ_from_stream
#   r9 bytes reader: presence of n not checked before it is copied        -> C11: ASan heap-buffer-overflow on strict prefixes
#  harmless rewrites tolerated by all three (exit 0): h1 padding written as two uint8 zeros; h2 flags byte built with + instead of |;
#   h3 reader loop with another index type and != instead of <.
import struct
from fam_req import stream, eff_k

READY_C09 = True
READY_C10 = True
READY_C11 = True
COQ_PROPS_C09 = ['Properties_C09_req']
COQ_PROPS_C10 = ['Properties_C10_req']
COQ_PROPS_C11 = ['Properties_C11_req']

RULE_C09 = ('REQ sketches (int64, double, float items; k in {4,6,8,12,20,50}; HRA and LRA) built by updates and merges to the states empty, raw-items form (n = 1..4), '
            'n = 5, single level below/at the nominal capacity, after one and after many compactions (section doublings), after a merge, level zero sorted or not; '
            'serialize() compared byte for byte with the Coq encoder; the implementation checks bytes form = stream form, size = get_serialized_size_bytes(), 5-byte header '
            'form; r1 := deserialize(bytes), r2 := deserialize(stream followed by garbage: the reader must stop exactly at the end of the image); original and both restored '
            'sketches are observed (n, min, max, retained, iterator with weights, sorted view, ranks) and re-serialized: all three must agree; then all three are continued '
            'with the same updates (the coins of the restored compactors are redrawn by the reader, so the continuation is compared with the model, not pairwise). '
            'non-trivial = estimation mode or raw form')
RULE_C10 = ('images written by an independent Python encoder from the documented layout (preamble, flags, k, num_levels, num_raw_items, n / min / max in estimation mode, raw items, '
            'per-compactor state / binary32 section size / lg_weight / num_sections / padding / num_items / items) for empty, raw, single-level and arbitrary multi-level contents; '
            'decoded by deserialize(bytes) and deserialize(stream) and by the Coq decoder; the oracle compares n, min, max, items and weights 2^lg_weight with the content the image '
            'was written from and the re-serialized image with the input. non-trivial = image with at least two levels')
RULE_C11 = ('for images of every state class (independent encoder): EVERY strict prefix is given to the bytes reader (exact-size heap buffer, ASan) and to the stream reader and '
            'must be refused by both (the Coq decoder refuses them: theorem); preamble mutations with defined behaviour (preamble_ints, serial version, family id -> refused; '
            'flag bits high-rank / sorted toggled, empty bit set, k replaced by another even k -> accepted with the content the Coq decoder computes); model and implementation must '
            'agree on accept/reject, on the coins drawn before a refusal and on the accepted content. non-trivial = image with at least one compactor')
TRUSTED = ['REQ codec model coq/ReqCodecDefs.v written by hand from req_sketch_impl.hpp:332-589 and req_compactor_impl.hpp:344-506',
           'IEEE-754 binary32/binary64 patterns of integers computed in Z (ReqCodecDefs.flt_bits, KllCodecDefs.dbl_bits), compared with the bytes the implementation writes']
ASSUMPTIONS = ['corrupted images on which the code has undefined behaviour (non-empty image with num_levels = 0, single level without items, section size not a positive normal '
               'binary32, lg_weight > 63, item counts far beyond the image) are rejected by the model and are NOT fed to the readers by this family: they are the known findings '
               'of the implementation-side C11 family (fam_serde: c11_corrupt_*:req_*)',
               'string items and custom serdes are not modelled for REQ']

KS = [4, 6, 8, 12, 20, 50]
KINDS = [0, 1, 3]

def le(x, n):
    x &= (1 << (8 * n)) - 1
    return [(x >> (8 * i)) & 0xff for i in range(n)]

def item_bytes(kind, v):
    if kind == 1: return list(struct.pack('<d', float(v)))
    if kind == 3: return list(struct.pack('<f', float(v)))
    return le(v, 8)

def py_enc(kind, k, hra, n, comps, srt0, mn, mx):
    """independent encoder, from the documented layout. comps: list of dict(state, ssr (float), lgw, nsec, items)"""
    empty = n == 0; raw = n <= 4; est = len(comps) > 1
    flags = (4 if empty else 0) | (8 if hra else 0) | (16 if raw else 0) | (32 if srt0 else 0)
    b = [4 if est else 2, 1, 17, flags] + le(k, 2) + [0 if empty else len(comps), n if raw else 0]
    if empty: return b
    if est: b += le(n, 8) + item_bytes(kind, mn) + item_bytes(kind, mx)
    if raw:
        for x in comps[0]['items']: b += item_bytes(kind, x)
    else:
        for c in comps:
            b += le(c['state'], 8) + list(struct.pack('<f', c['ssr'])) + [c['lgw'], c['nsec'], 0, 0] + le(len(c['items']), 4)
            for x in c['items']: b += item_bytes(kind, x)
    return b

def rand_state(rng):
    kind = rng.choice(KINDS); k = rng.choice(KS); hra = rng.random() < 0.5
    base = rng.choice([0, -1000, 2 ** 20, -2 ** 20]) if kind != 3 else rng.choice([0, -1000, 5000])
    z = rng.random()
    fresh = lambda lg, items: dict(state=0, ssr=float(k), lgw=lg, nsec=3, items=items)
    if z < 0.1:
        return dict(kind=kind, k=k, hra=hra, n=0, comps=[fresh(0, [])], srt0=True, mn=0, mx=0)
    if z < 0.3:
        n = rng.randrange(1, 5); items = [base + rng.randrange(200) for _ in range(n)]
        srt0 = rng.random() < 0.5 or n == 1
        if srt0: items.sort()
        return dict(kind=kind, k=k, hra=hra, n=n, comps=[fresh(0, items)], srt0=srt0, mn=min(items), mx=max(items))
    if z < 0.5:
        n = rng.randrange(5, 6 * k); items = [base + rng.randrange(500) for _ in range(n)]
        srt0 = rng.random() < 0.5
        if srt0: items.sort()
        return dict(kind=kind, k=k, hra=hra, n=n, comps=[fresh(0, items)], srt0=srt0, mn=min(items), mx=max(items))
    L = rng.choice([2, 2, 3, 4])
    comps = []
    for lg in range(L):
        ni = rng.randrange(1 if lg else 0, 3 * k) if lg < L - 1 else rng.randrange(1, 2 * k)
        items = [base + rng.randrange(2000) for _ in range(ni)]
        if lg > 0: items.sort()
        st = rng.choice([0, 1, 2, 3, 5, 8]) if lg < L - 1 else 0
        nsec, ssr = rng.choice([(3, float(k)), (3, float(k)), (6, struct.unpack('<f', struct.pack('<f', k / 2 ** 0.5))[0]) if k >= 8 else (3, float(k))])
        comps.append(dict(state=st, ssr=ssr, lgw=lg, nsec=nsec, items=items))
    srt0 = rng.random() < 0.5
    if srt0: comps[0]['items'].sort()
    allit = [x for c in comps for x in c['items']]
    n = max(5, sum(len(c['items']) << c['lgw'] for c in comps))
    return dict(kind=kind, k=k, hra=hra, n=n, comps=comps, srt0=srt0, mn=min(allit) - rng.choice([0, 0, 3]), mx=max(allit) + rng.choice([0, 0, 7]))

def image(st):
    return py_enc(st['kind'], st['k'], st['hra'], st['n'], st['comps'], st['srt0'], st['mn'], st['mx'])

# ---------------------------------------------------------------------------------------------------------------------
# C09
# ---------------------------------------------------------------------------------------------------------------------
def gen_c09(rng, tier):
    thorough = tier != 'quick'
    cases = []
    for ci in range(60 if not thorough else 600):
        ops = [[99, rng.randrange(1 << 30)]]; pairs = []; tags = set()
        kind = rng.choice(KINDS); k = rng.choice(KS); hra = 1 if rng.random() < 0.5 else 0
        doubling = ci % 8 == 3          # level 0 has doubled its sections: section size k / sqrt(2) is not an integer (k = 8: 5.66 -> 6, k = 50: 35.4 -> 36)
        if doubling: k = rng.choice([8, 8, 50])
        ops.append([1, 0, kind, k, hra])
        cap = 6 * eff_k(k)
        n = rng.choice([0, 1, 2, 3, 4, 5, 6, cap - 1, cap, cap + 1, 2 * cap, rng.randrange(1, 4 * cap), rng.randrange(1, 40 * cap)])
        if doubling: n = rng.randrange(8 * cap, 14 * cap); tags.add('section-doubling')
        n = min(n, 2500 if not doubling else 5000)
        vals = []
        for x in stream(rng, n):
            x = x % 4096 if kind == 3 else x
            ops.append([2, 0, x]); vals.append(x)
        if rng.random() < 0.35:
            k2 = rng.choice(KS); ops.append([1, 3, kind, k2, hra])
            for x in stream(rng, rng.choice([1, 3, 6 * eff_k(k2) + 2, rng.randrange(1, 20 * k2)])):
                x = x % 4096 if kind == 3 else x
                ops.append([2, 3, x]); vals.append(x)
            ops.append([4, 0, 3, 0]); tags.add('merge')
        if vals and rng.random() < 0.5:
            ops.append([6, 0, rng.choice(vals)])                 # a query: level zero gets sorted
        i0 = len(ops); ops.append([30, 0])
        ops.append([31, 1, 0]); ops.append([32, 2, 0])
        for r in (1, 2):
            ops.append([30, r]); pairs.append((i0, len(ops) - 1))
        def trio(mk):
            a = len(ops); ops.append(mk(0)); ops.append(mk(1)); ops.append(mk(2)); pairs.append((a, a + 1)); pairs.append((a, a + 2))
        trio(lambda r: [5, r]); trio(lambda r: [10, r])
        lo = min(vals) if vals else 0; hi = max(vals) if vals else 5
        for _ in range(4):
            x = rng.randrange(lo - 1, hi + 2); trio(lambda r, x=x: [6, r, x])
        xs = stream(rng, rng.choice([1, 2, cap, rng.randrange(1, 6 * cap)]) if not doubling else rng.randrange(3 * cap, 6 * cap))
        for r in (0, 1, 2):
            for x in xs:
                ops.append([2, r, x % 4096 if kind == 3 else x])
            ops.append([5, r]); ops.append([30, r])
        if n > cap or 'merge' in tags: tags.add('estimation')
        if 1 <= n <= 4 and 'merge' not in tags: tags.add('raw')
        cases.append(dict(id='rc%d' % ci, ops=ops, tags=sorted(tags), pairs=pairs, kind=kind))
    return cases

def check_image(R, F, fail, i):
    if len(F) >= 4:
        if F[0] != 1: fail('req_bytes_differ_from_stream', 'serialize(): byte-vector and stream forms differ', i)
        if not (F[1] == F[2] == len(R)): fail('req_serialized_size', 'image has %d bytes, get_serialized_size_bytes() = %d' % (len(R), F[1]), i)
        if F[3] != 1: fail('req_header_form', 'serialize(5) is not 5 zero bytes followed by the image', i)
    if len(R) >= 8:
        if R[1] != 1 or R[2] != 17 or R[0] != (4 if R[6] > 1 else 2):
            fail('req_layout_header', 'preamble bytes %s do not follow the documented layout' % R[:8], i)

def oracle_c09(case, irecs, mrecs):
    fails = []
    def fail(sig, what, i):
        fails.append(dict(sig=sig, what=what, op_index=i))
    ops = case['ops']
    for i, op in enumerate(ops):
        if i >= len(irecs): break
        R = irecs[i]['R']; F = irecs[i].get('F') or []
        if op[0] == 30 and R != [-1]:
            check_image(R, F, fail, i)
        if op[0] in (31, 32) and R != [1]:
            fail('req_own_image_refused', 'deserialize(serialize(s)) was refused by the %s reader' % ('bytes' if op[0] == 31 else 'stream'), i)
        if op[0] == 32 and R == [1] and F != [1]:
            fail('req_stream_position', 'deserialize(stream) did not stop exactly at the end of the image', i)
    for (a, b) in case.get('pairs', []):
        if a < len(irecs) and b < len(irecs) and a < len(ops) and b < len(ops):
            Ra = irecs[a]['R']; Rb = irecs[b]['R']
            if Ra != Rb:
                if ops[a][0] == 30:
                    fail('req_reserialized_differs', 'restored sketch re-serializes to a different image (%d vs %d bytes)' % (len(Ra), len(Rb)), b)
                else:
                    fail('req_restored_differs', 'op %s: original answers %s, restored sketch answers %s' % (ops[a], Ra[:12], Rb[:12]), b)
    return fails

# ---------------------------------------------------------------------------------------------------------------------
# C10
# ---------------------------------------------------------------------------------------------------------------------
def gen_c10(rng, tier):
    thorough = tier != 'quick'
    cases = []
    for ci in range(60 if not thorough else 600):
        st = rand_state(rng); img = image(st)
        ops = [[99, rng.randrange(1 << 30)], [33, 0, st['kind']] + img, [34, 1, st['kind']] + img, [30, 0], [30, 1], [5, 0], [5, 1], [10, 0], [10, 1]]
        cases.append(dict(id='rl%d' % ci, ops=ops, tags=(['levels>=2'] if len(st['comps']) >= 2 else []), state=st, image=img))
    return cases

def oracle_c10(case, irecs, mrecs):
    fails = []
    def fail(sig, what, i):
        fails.append(dict(sig=sig, what=what, op_index=i))
    st = case.get('state')
    if st is None or len(irecs) < 7:
        return fails
    img = case['image']
    for i, nm in ((1, 'bytes'), (2, 'stream')):
        if irecs[i]['R'] != [1]:
            fail('req_documented_image_refused', 'an image written from the documented layout was refused by the %s reader' % nm, i); return fails
    if (irecs[2].get('F') or [None])[0] != len(img):
        fail('req_stream_position', 'deserialize(stream) did not consume exactly the image', 2)
    for i in (3, 4):
        R = irecs[i]['R']; check_image(R, irecs[i].get('F') or [], fail, i)
        if R != img:
            fail('req_layout_reserialized', 'the decoded sketch does not serialize back to the documented image', i)
    n = st['n']; items = sorted((x, 1 << c['lgw']) for c in st['comps'] for x in c['items'])
    for i in (5, 6):
        R = irecs[i]['R']
        single = len(st['comps']) == 1
        want_n = n if not single else len(items)
        if R[0] != want_n or R[1] != len(items) or R[2] != (1 if n == 0 else 0) or R[4] != st['k'] or R[5] != (1 if st['hra'] else 0):
            fail('req_layout_counts', 'decoded n/retained/empty/k/hra = %s, the image says n = %d, %d items, k = %d' % (R[:6], want_n, len(items), st['k']), i)
        p = 6
        if n > 0:
            if [R[6], R[7]] != [st['mn'], st['mx']]:
                fail('req_layout_minmax', 'decoded min/max %s, image holds %s' % (R[6:8], [st['mn'], st['mx']]), i)
            p = 8
        got = list(zip(R[p + 1::2], R[p + 2::2]))
        if got != items:
            fail('req_layout_items', 'decoded items/weights differ from the content the image was written from', i)
    return fails

# ---------------------------------------------------------------------------------------------------------------------
# C11
# ---------------------------------------------------------------------------------------------------------------------
def gen_c11(rng, tier):
    thorough = tier != 'quick'
    cases = []
    for ci in range(24 if not thorough else 200):
        st = rand_state(rng)
        if st['n'] > 0 and len(st['comps']) == 1 and len(st['comps'][0]['items']) > 40:
            st['comps'][0]['items'] = st['comps'][0]['items'][:40]; st['n'] = 40
            st['mn'] = min(st['comps'][0]['items']); st['mx'] = max(st['comps'][0]['items'])
        img = image(st); kind = st['kind']
        ops = [[99, rng.randrange(1 << 30)]]; expect = []
        for ln in range(len(img)):
            for rd in (33, 34):
                ops.append([rd, 0, kind] + img[:ln]); expect.append((len(ops) - 1, 'prefix', ln))
        muts = []
        for v in (0, 1, 2, 3, 4, 5, 255):
            if v != img[0]: muts.append((0, v, 'reject'))
        for v in (0, 2, 3, 255):
            muts.append((1, v, 'reject'))
        for v in (0, 15, 16, 18, 255):
            muts.append((2, v, 'reject'))
        muts.append((3, img[3] ^ 8, 'accept')); muts.append((3, img[3] ^ 32, 'accept')); muts.append((3, img[3] | 4, 'accept'))
        k2 = rng.choice([k for k in (4, 6, 10, 30, 100, 254) if k != st['k']])
        muts.append((4, k2, 'accept'))
        for (pos, v, verdict) in muts:
            m = list(img); m[pos] = v
            if pos == 4: m[5] = 0
            for rd in (33, 34):
                ops.append([rd, 0, kind] + m); expect.append((len(ops) - 1, verdict, (pos, v)))
                if verdict == 'accept':
                    ops.append([5, 0])
        ops.append([33, 0, kind] + img); ops.append([5, 0])
        cases.append(dict(id='rp%d' % ci, ops=ops, tags=(['compactor'] if st['n'] > 4 else []), expect=expect))
    return cases

def oracle_c11(case, irecs, mrecs):
    fails = []
    def fail(sig, what, i):
        fails.append(dict(sig=sig, what=what, op_index=i))
    for (i, verdict, info) in case.get('expect', []):
        if i >= len(irecs) or i >= len(case['ops']): continue
        rd = 'bytes' if case['ops'][i][0] == 33 else 'stream'
        R = irecs[i]['R']
        if verdict == 'prefix' and R != [-1]:
            fail('req_prefix_accepted', 'the %s reader accepted the first %d bytes of a %d-byte image' % (rd, info, len(case['ops'][i]) - 3 + 0), i)
        if verdict == 'reject' and R != [-1]:
            fail('req_corrupt_preamble_accepted', 'the %s reader accepted an image whose byte %d was replaced by %d' % (rd, info[0], info[1]), i)
        if verdict == 'accept' and R != [1]:
            fail('req_valid_variant_refused', 'the %s reader refused an image whose byte %d was replaced by %d (a valid variant)' % (rd, info[0], info[1]), i)
    return fails

FAM = dict(name='reqcodec', harness='drv_reqcodec.cpp', extract='Extract_reqcodec.v', model='model_reqcodec', run='crun',
           ocaml_flags='-rectypes -thread -package coq-core.kernel -linkpkg', cxx_flags='-ffp-contract=off')   # ReqDefs carries binary64 rank bounds since C08-5
FAMILIES_C09 = [dict(FAM, gen=gen_c09, oracle=oracle_c09)]
FAMILIES_C10 = [dict(FAM, gen=gen_c10, oracle=oracle_c10)]
FAMILIES_C11 = [dict(FAM, gen=gen_c11, oracle=oracle_c11)]
