# C19 — value semantics and allocator hygiene
#
# (mutation list: see the end of this file)
PROP = "C19"
READY = False
COQ_PROPS = []
RULE = ''
TRUSTED = []
ASSUMPTIONS = []

FLAG_NAMES = {1: 'double_destroy', 2: 'construct_over_live', 4: 'use_of_destroyed', 8: 'read_of_moved_from', 16: 'dealloc_size_mismatch',
              32: 'dealloc_unknown_block', 64: 'dealloc_other_arena', 128: 'default_allocator_used', 256: 'dealloc_with_live_items'}

def flag_sig(v):
    names = [n for b, n in sorted(FLAG_NAMES.items()) if v & b]
    return 'hygiene_' + '+'.join(names) if names else 'hygiene_%x' % v

# ---------------------------------------------------------------------------------------------------------------------
# family "ledger": kll_sketch<Item>, update_tuple_sketch<Item>, frequent_items_sketch<Item> against coq/LedgerDefs.v
# ---------------------------------------------------------------------------------------------------------------------
KIND_PARAMS = {
    0: lambda rng: [rng.choice([8, 8, 9, 12, 16, 20, 50, 200]), 0],
    1: lambda rng: [rng.choice([5, 5, 5, 6]), rng.choice([0, 1, 2, 3])],
    2: lambda rng: (lambda mx: [mx, rng.choice([3, mx, rng.randrange(3, mx + 1)])])(rng.choice([3, 3, 4, 4, 5, 6, 7])),
}

def upd(rng, kind, r, universe):
    if kind == 0:
        return [2, r, rng.randrange(-50, 1000), 1, rng.randrange(2)]
    if kind == 1:
        return [2, r, rng.randrange(universe), rng.randrange(1, 5), 0]
    return [2, r, rng.randrange(universe), rng.choice([0, 1, 1, 1, 2, 3, 5, 9]), rng.randrange(2)]

def gen_ledger(rng, tier):
    ncases = 90 if tier == 'quick' else 900
    cases = []
    for ci in range(ncases):
        kind = ci % 3
        ops = []; tags = set(); live = {}      # register -> kind
        nreg = 5
        universe = rng.choice([6, 20, 60, 150, 400]) if kind != 0 else 0
        budget = rng.choice([40, 120, 300]) if tier == 'quick' else rng.choice([40, 120, 300, 900])
        def free():
            f = [r for r in range(nreg) if r not in live]
            return rng.choice(f) if f else None
        def some(k=None):
            c = [r for r in live if k is None or live[r] == k]
            return rng.choice(c) if c else None
        def follow(s):
            # follow-up for a moved-from register s: destroy, or assign from another register of the same kind
            c = [r for r in live if r != s and live[r] == live[s]]
            if c and rng.random() < 0.5:
                return [1, rng.choice(c)], False
            return [0, 0], True
        # first register
        p = KIND_PARAMS[kind](rng); ops.append([1, 0, kind] + p); live[0] = kind
        if kind == 2 and p[1] > p[0]: live.pop(0)
        while len(ops) < budget:
            x = rng.random()
            if x < 0.07 or not live:
                r = free()
                if r is None: continue
                k2 = kind if rng.random() < 0.9 else rng.randrange(3)
                p = KIND_PARAMS[k2](rng)
                if rng.random() < 0.04:
                    p = [rng.choice([0, 4, 7, 27, 70000]), rng.choice([0, 9])]     # mostly refused configurations
                ops.append([1, r, k2] + p)
                ok = (k2 == 0 and 8 <= p[0] <= 65535) or (k2 == 1 and 5 <= p[0] <= 26 and 0 <= p[1] <= 3) or (k2 == 2 and p[1] <= p[0])
                if ok: live[r] = k2
            elif x < 0.55:
                r = some()
                burst = rng.choice([1, 1, 3, 10, 30, 80])
                for _ in range(burst):
                    ops.append(upd(rng, live[r], r, universe or 50))
                tags.add('updates')
            elif x < 0.62:
                s = some(); r = free()
                if r is None: continue
                ops.append([3, r, s]); live[r] = live[s]; tags.add('copy')
            elif x < 0.68:
                s = some(); r = free()
                if r is None: continue
                f, gone = follow(s)
                ops.append([4, r, s] + f); live[r] = live[s]
                if gone: live.pop(s)
                tags.add('move')
            elif x < 0.74:
                r = some(); s = some(live[r]) if rng.random() < 0.9 else some()
                ops.append([5, r, s]); tags.add('self-assign' if r == s else 'copy-assign')
                if live[r] != live[s]: tags.add('refused')
            elif x < 0.80:
                r = some(); s = some(live[r])
                if r == s:
                    ops.append([6, r, s, 0, 0]); tags.add('self-move')
                else:
                    f, gone = follow(s)
                    ops.append([6, r, s] + f)
                    if gone: live.pop(s)
                    tags.add('move-assign')
            elif x < 0.87:
                r = some(); s = some(live[r])
                if live[r] == 1 or r == s:
                    ops.append([7, r, s]); tags.add('refused')
                elif rng.random() < 0.5:
                    ops.append([7, r, s]); tags.add('merge')
                else:
                    f, gone = follow(s)
                    ops.append([8, r, s] + f)
                    if gone: live.pop(s)
                    tags.add('merge-move')
            elif x < 0.90:
                r = some(); ops.append([rng.choice([9, 12]), r]); tags.add('reset/trim' if live[r] == 1 else 'refused')
            elif x < 0.93:
                r = some(); ops.append([10, r]); live.pop(r); tags.add('destroy')
            elif x < 0.96:
                r = some(); ops.append([11, r]); tags.add('query-on-copy')
            elif x < 0.98:
                ks = [r for r in live]
                if len(ks) >= 1:
                    a = rng.choice(ks); same = [r for r in ks if live[r] == live[a]]
                    ops.append([13, a, rng.choice(same), rng.choice(same)]); tags.add('chain')
            else:
                # invalid uses: missing registers, occupied target, bad follow-up
                ops.append(rng.choice([[2, 9, 1, 1, 0], [3, some() if live else 0, some() if live else 0], [5, 9, 0], [7, 0, 9],
                                       [4, 8, some() if live else 0, 1, 9], [10, 9], [14 + 3, 0]]))
                tags.add('invalid')
        ops.append([99])
        cases.append(dict(id='ld%d' % ci, ops=ops, tags=sorted(tags)))
    return cases

def oracle_ledger(case, irecs, mrecs):
    fails = []
    for i, op in enumerate(case['ops']):
        if i >= len(irecs):
            break
        R = irecs[i]['R']
        if op[0] == 99:
            if len(R) >= 5:
                if R[0] != 0:
                    fails.append(dict(sig='leak_items', what='%d items still alive after every object was destroyed' % R[0], op_index=i))
                if R[1] != 0 or R[2] != 0 or R[3] != 0:
                    fails.append(dict(sig='leak_blocks', what='%d blocks / %d bytes still allocated after every object was destroyed' % (R[3], R[2]), op_index=i))
                if R[4] != 0:
                    fails.append(dict(sig=flag_sig(R[4]), what='hygiene flags %x while destroying all objects' % R[4], op_index=i))
            continue
        if len(R) >= 5 and R[4] != 0:
            fails.append(dict(sig=flag_sig(R[4]), what='hygiene flags %x raised by op %s' % (R[4], ' '.join('%x' % x for x in op)), op_index=i))
        if i < len(mrecs) and len(mrecs[i]['R']) >= 5 and mrecs[i]['R'][4] != 0 and op[0] != 99:
            fails.append(dict(sig='model_ledger_rejects', what='the effect log of the MODEL is rejected by the ledger at op %d' % i, op_index=i))
    return fails

FAMILIES = [dict(name='ledger', harness='drv_ledger.cpp', extract='Extract_ledger.v', model='model_ledger', gen=gen_ledger, oracle=oracle_ledger)]

MANIFEST = dict(level_text='', level_note='', design_ref='DESIGN.md section 5 C19')
