# C19 — value semantics and allocator hygiene
#
# Families:
#   ledger   kll_sketch<Item>, update_tuple_sketch<Item> (= theta_update_sketch_base with a payload), frequent_items_sketch<Item>,
#            req_sketch<Item> (compactor items_), var_opt_sketch<Item> (data_ with the gap slot / filled_data_), and (pure cases, R reports live
#            bytes) hll_sketch / hll_union at block level (impl object, coupon / register array, aux map)
#            with the tracking allocator vl::talloc and the instrumented vl::Item (harness/ledger_track.hpp) against the
#            extracted Coq machine coq/LedgerDefs.v: after every operation live item count, total slots of live item buffers
#            and the hygiene flags are compared EXACTLY with what the model's effect ledger says.
#   vsem     value-semantics scripts on the implementation alone (all ten sketch kinds): differential TESTING with sanitizers.
#   ebmerge  (extra) members that did not compile/link with a user allocator (ebpps merge(const&), var_opt_union operator=(const&),
#            count_min get_allocator): harness/drv_ledger_eb.cpp built once per part and run.
# Seeded changes /verif/seeded/C19-1,2,3,4,5: all CAUGHT (lib/seedrun.py).
#
# Mutations confirmed caught (scratch worktree /tmp/wt_ledger = /repo + fixes/19_*.patch + fixes/03_self_assign.patch, VERIF_REPO):
#   see MUTATIONS at the end of this file.
PROP = "C19"
READY = True
COQ_PROPS = ['Properties_C19', 'Regression_ledger']
RULE = ('[ledger] operation scripts over 5 registers holding kll_sketch<Item> (k in 8..200), update_tuple_sketch<Item> (lg_k 5/6, all resize factors), '
        'frequent_items_sketch<Item> (lg_max 3..7, all start sizes), req_sketch<Item> (k 4..20, HRA and LRA; bursts crossing compactions, section-size reductions and '
        'new levels) or var_opt_sketch<Item> (k 1..100, all resize factors; warm-up growth, the switch to sampling, updates, copies and resets in sampling mode); '
        'plus pure hll_sketch / hll_union cases (lg_k 4..12, all target types; list -> set -> HLL promotions, set and aux-map growth, copies, moves, '
        'assignments, reset, union updates by lvalue / rvalue incl. down-sampling, get_result of every type) compared on live bytes: bursts of updates sized to cross KLL compactions/buffer growth, theta resize/rebuild '
        'and frequent-items resize/purge; copy construction, move construction, copy assignment incl. self-assignment, move assignment incl. self-move, '
        'merge by reference and by move (moved-from objects are then destroyed or assigned to within the same operation), a = b = c, reset/trim, '
        'query on a temporary copy, destruction, refused configurations and invalid register uses; every case ends with "destroy all". '
        'non-trivial = every case (each has at least one lifecycle operation besides construction). '
        '[vsem] the same lifecycle grammar over all ten sketch kinds (kll, tuple, fi, req, var_opt, quantiles, ebpps, hll, cpc, theta) with a digest '
        '(hash of the serialized image) after each copy/move/assignment and again after mutating one side; one case in three arms the item copy '
        'constructor to throw at the n-th copy inside a copy construction / copy assignment / update / merge / chain; dedicated hll cases for self-assignment '
        'and assignment to a moved-from sketch; SYSTEMATIC cases every run: bloom_filter_alloc in each memory mode (owned, initialize_by_size into caller memory, '
        'writable_wrap, read-only wrap) x copy ctor / move ctor / copy-assign / move-assign / chain for all 16 (target, source) mode pairs with is_memory_owned() '
        'checked against the history and caller buffers registered so that handing one to the allocator is flagged; var_opt (k in 8,16,17,32,100, all resize factors) '
        'and var_opt_union (max_k in the same set, gadget grown past every reallocation of data_/weights_/marks_, get_result, copy/move/assign, reset); '
        'growth-through-every-reallocation cases for kll, tuple, fi, req, quantiles, ebpps, hll (list->set->array, HLL_4 aux), cpc (all flavors), theta, tdigest, '
        'count-min, density, with copies/moves/assignments/merges taken at every stage; set-operation objects with the tracking allocator: hll_union through every '
        'union_impl branch (gadget list/set/HLL x source list/set/HLL x source lg_k below/equal/above the gadget\'s, lvalue and rvalue, down-sampled gadget), '
        'get_result of every type, reset, copy/move/assign; cpc_union, theta_union, theta_intersection, theta_a_not_b, tuple_union, tuple_intersection grown through '
        'several sources with the result taken and the operator reused; MOVED-FROM MATRIX (110 cases) for datasketches::array<double> (the heap-owning tuple summary), '
        'update / compact array_of_doubles sketches, array_of_doubles union / intersection / A-not-B: after move construction, move assignment and a sketch passed '
        'as rvalue to union (empty / loaded) / intersection (first / later update) / A-not-B, the moved-from object is destroyed, copy-assigned from a same-size '
        '(array length, num_values, entry count) or different-size live object, or move-assigned (s = T(c)); then updated / queried / serialized, shown independent of its source, destroyed')
TRUSTED = ['effect-ledger models coq/LedgerKll.v, LedgerTup.v, LedgerFi.v, LedgerReq.v, LedgerVo.v written by hand from kll_sketch_impl.hpp / kll_helper_impl.hpp, '
           'theta_update_sketch_base_impl.hpp, reverse_purge_hash_map_impl.hpp, req_compactor_impl.hpp / req_sketch_impl.hpp and var_opt_sketch_impl.hpp (sizes and constructed sets only, no item values); tied to the code by the '
           'exact comparison of live items / live item-buffer slots / flags after every operation of every generated script',
           'hash values (theta compute_hash, fmix64 of the item hash), the REQ table of section sizes nearest_even(k / sqrt(2)^j) (float arithmetic) and the var_opt '
           '(h_, r_) after each update (weight-dependent), the HLL impl shape (mode, lg_k, type, coupon ints, aux ints) after each operation and the sizeof() of the '
           'six HLL impl classes are read from the implementation and passed to the model (theorems hold for ANY values)',
           'theta/tuple table: physical slot positions are canonicalised in the model (compact prefix); only counts, sizes and block identity are modelled',
           'instrumentation harness/ledger_track.hpp (tracking allocator with arenas, instrumented item with an address registry) and ASan/LSan/UBSan',
           'the value-semantics part (family vsem) and everything about exceptions is differential TESTING with sanitizers, not proof']
ASSUMPTIONS = ['KLL merge, frequent-items resize/purge/iteration: the theorems allow the model outcome Abort (a postcondition the C++ relies on without checking: '
               'general_compress returns no more items than capacity and at most ub levels; re-insertion into the doubled map succeeds; a purge brings the map below '
               'capacity; the map iterator yields active slots). Abort raises the flag in the model and was never observed in the correspondence runs; '
               'the KLL space bound is proved for the value-level model in coq/KllSpace.v (C07)',
               'num_levels <= 61, frequent-items tables <= 2^12 slots in the harness, n < 2^64',
               'aliasing, use-after-free, leaks and out-of-bounds accesses of the compiled C++ are run-time facts: observed by the sanitizers and the '
               'instrumentation on the generated scripts (testing), not proved']

FLAG_NAMES = {1: 'double_destroy', 2: 'construct_over_live', 4: 'use_of_destroyed', 8: 'read_of_moved_from', 16: 'dealloc_size_mismatch',
              32: 'dealloc_unknown_block', 64: 'dealloc_other_arena', 128: 'default_allocator_used', 256: 'dealloc_with_live_items',
              1024: 'caller_memory_passed_to_allocator'}

def flag_sig(v):
    names = [n for b, n in sorted(FLAG_NAMES.items()) if v & b]
    return 'hygiene_' + '+'.join(names) if names else 'hygiene_%x' % v

# ---------------------------------------------------------------------------------------------------------------------
# family "ledger": kll_sketch<Item>, update_tuple_sketch<Item>, frequent_items_sketch<Item> against coq/LedgerDefs.v
# ---------------------------------------------------------------------------------------------------------------------
KIND_PARAMS = {
    0: lambda rng: [rng.choice([8, 8, 9, 12, 16, 20, 50, 200]), 0],
    1: lambda rng: [rng.choice([5, 5, 5, 6]), rng.choice([0, 1, 2, 3])],
    2: lambda rng: (lambda mx: [mx, rng.choice([3, mx, rng.randrange(3, mx + 1)])])(rng.choice([3, 3, 4, 4, 5, 6, 7])),
    3: lambda rng: [rng.choice([4, 4, 6, 8, 12, 20]), rng.randrange(2)],
    4: lambda rng: [rng.choice([1, 2, 8, 16, 17, 32, 100]), rng.randrange(4)],
}
NKINDS = 5

def upd(rng, kind, r, universe):
    if kind in (0, 3):
        return [2, r, rng.randrange(-50, 1000), 1, rng.randrange(2)]
    if kind == 4:
        return [2, r, rng.randrange(1000), rng.choice([1, 1, 2, 3, 5, 8, 40]), rng.randrange(2)]
    if kind == 1:
        return [2, r, rng.randrange(universe), rng.randrange(1, 5), 0]
    return [2, r, rng.randrange(universe), rng.choice([0, 1, 1, 1, 2, 3, 5, 9]), rng.randrange(2)]

def gen_ledger(rng, tier):
    ncases = 90 if tier == 'quick' else 360
    cases = []
    for ci in range(ncases):
        kind = ci % NKINDS
        ops = []; tags = set(); live = {}      # register -> kind
        nreg = 5
        universe = rng.choice([6, 20, 60, 150, 400]) if kind in (1, 2) else 0
        budget = rng.choice([40, 120, 300]) if tier == 'quick' else rng.choice([40, 120, 300, 900])
        def free():
            f = [r for r in range(nreg) if r not in live]
            return rng.choice(f) if f else None
        def some(k=None):
            c = [r for r in live if k is None or live[r] == k]
            return rng.choice(c) if c else None
        def follow(s):
            # follow-up for a moved-from register s: destroy, or assign from another register of the same kind
            c = [r for r in live if r != s and live[r] == live[s]]
            if c and rng.random() < 0.5:
                return [1, rng.choice(c)], False
            return [0, 0], True
        # first register
        p = KIND_PARAMS[kind](rng); ops.append([1, 0, kind] + p); live[0] = kind
        if kind == 2 and p[1] > p[0]: live.pop(0)
        while len(ops) < budget:
            x = rng.random()
            if x < 0.07 or not live:
                r = free()
                if r is None: continue
                k2 = kind if rng.random() < 0.9 else rng.randrange(NKINDS)
                p = KIND_PARAMS[k2](rng)
                if rng.random() < 0.04:
                    p = [rng.choice([0, 4, 7, 27, 70000]), rng.choice([0, 9])]     # mostly refused configurations
                ops.append([1, r, k2] + p)
                ok = (k2 == 0 and 8 <= p[0] <= 65535) or (k2 == 1 and 5 <= p[0] <= 26 and 0 <= p[1] <= 3) or (k2 == 2 and p[1] <= p[0] <= 12) or \
                     (k2 == 3 and 4 <= p[0] <= 255 and p[0] % 2 == 0 and p[1] <= 1) or (k2 == 4 and 1 <= p[0] <= 65535 and p[1] <= 3)
                if ok: live[r] = k2
            elif x < 0.55:
                r = some()
                burst = rng.choice([1, 1, 3, 10, 30, 80]) if live[r] != 3 else rng.choice([1, 3, 30, 80, 200])
                for _ in range(burst):
                    ops.append(upd(rng, live[r], r, universe or 50))
                tags.add('updates')
            elif x < 0.62:
                s = some(); r = free()
                if r is None: continue
                ops.append([3, r, s]); live[r] = live[s]; tags.add('copy')
            elif x < 0.68:
                s = some(); r = free()
                if r is None: continue
                f, gone = follow(s)
                ops.append([4, r, s] + f); live[r] = live[s]
                if gone: live.pop(s)
                tags.add('move')
            elif x < 0.74:
                r = some(); s = some(live[r]) if rng.random() < 0.9 else some()
                ops.append([5, r, s]); tags.add('self-assign' if r == s else 'copy-assign')
                if live[r] != live[s]: tags.add('refused')
            elif x < 0.80:
                r = some(); s = some(live[r])
                if r == s:
                    ops.append([6, r, s, 0, 0]); tags.add('self-move')
                else:
                    f, gone = follow(s)
                    ops.append([6, r, s] + f)
                    if gone: live.pop(s)
                    tags.add('move-assign')
            elif x < 0.87:
                r = some(); s = some(live[r])
                if live[r] in (1, 4) or r == s:
                    ops.append([7, r, s]); tags.add('refused')
                elif rng.random() < 0.5:
                    ops.append([7, r, s]); tags.add('merge')
                else:
                    f, gone = follow(s)
                    ops.append([8, r, s] + f)
                    if gone: live.pop(s)
                    tags.add('merge-move')
            elif x < 0.90:
                r = some(); ops.append([rng.choice([9, 12]), r]); tags.add('reset/trim' if live[r] in (1, 4) else 'refused')
            elif x < 0.93:
                r = some(); ops.append([10, r]); live.pop(r); tags.add('destroy')
            elif x < 0.96:
                r = some(); ops.append([11, r]); tags.add('query-on-copy')
            elif x < 0.98:
                ks = [r for r in live]
                if len(ks) >= 1:
                    a = rng.choice(ks); same = [r for r in ks if live[r] == live[a]]
                    ops.append([13, a, rng.choice(same), rng.choice(same)]); tags.add('chain')
            else:
                # invalid uses: missing registers, occupied target, bad follow-up
                ops.append(rng.choice([[2, 9, 1, 1, 0], [3, some() if live else 0, some() if live else 0], [5, 9, 0], [7, 0, 9],
                                       [4, 8, some() if live else 0, 1, 9], [10, 9], [14 + 3, 0]]))
                tags.add('invalid')
        ops.append([99])
        cases.append(dict(id='ld%d' % ci, ops=ops, tags=sorted(tags)))
    return cases + gen_ledger_hll(rng, tier)


def gen_ledger_hll(rng, tier):
    """pure hll_sketch / hll_union cases for the HLL block ledger (R reports the live bytes of the tracking allocator)"""
    n = 18 if tier == 'quick' else 70
    cases = []
    for ci in range(n):
        ops = []; live = {}      # register -> 7 | 15
        lg = rng.choice([4, 5, 6, 7, 8, 10, 12]); budget = rng.choice([60, 150, 400])
        pos = [1]
        def upd(r, cnt):
            for _ in range(cnt):
                ops.append([2, r, pos[0], 1, 0]); pos[0] += rng.choice([1, 7919, 104729])
        def free():
            f = [r for r in range(5) if r not in live]
            return rng.choice(f) if f else None
        def some(k=None):
            c = [r for r in live if k is None or live[r] == k]
            return rng.choice(c) if c else None
        ops.append([1, 0, 7, lg, rng.randrange(3)]); live[0] = 7
        while len(ops) < budget:
            x = rng.random()
            if x < 0.08:
                r = free()
                if r is None: continue
                if rng.random() < 0.4: ops.append([1, r, 15, rng.choice([lg, lg - 1 if lg > 4 else lg, lg + 2]), 0]); live[r] = 15
                else: ops.append([1, r, 7, rng.choice([lg, max(4, lg - 2), lg + 2, 3, 22]), rng.choice([0, 1, 2, 2, 3])]); 
                if ops[-1][2] == 7 and 4 <= ops[-1][3] <= 21 and ops[-1][4] <= 2: live[r] = 7
            elif x < 0.5:
                r = some(); upd(r, rng.choice([1, 5, 20, 60, 200 if lg <= 8 else 900]))
            elif x < 0.58:
                s_ = some(); r = free()
                if r is None: continue
                ops.append([3, r, s_]); live[r] = live[s_]
            elif x < 0.64:
                s_ = some(); r = free()
                if r is None: continue
                c = [q for q in live if q != s_ and live[q] == live[s_]]
                if c and rng.random() < 0.5: ops.append([4, r, s_, 1, rng.choice(c)]); live[r] = live[s_]
                else: ops.append([4, r, s_, 0, 0]); live[r] = live.pop(s_)
            elif x < 0.70:
                r = some(); s_ = some(live[r]); ops.append([5, r, s_])
            elif x < 0.75:
                r = some(); s_ = some(live[r])
                if r == s_: ops.append([6, r, s_, 0, 0])
                else:
                    c = [q for q in live if q != s_ and live[q] == live[s_]]
                    if c and rng.random() < 0.5: ops.append([6, r, s_, 1, rng.choice(c)])
                    else: ops.append([6, r, s_, 0, 0]); live.pop(s_)
            elif x < 0.86:
                u = some(15); s_ = some(7)
                if u is None or s_ is None: ops.append([7, some(), some()]); continue
                if rng.random() < 0.5: ops.append([7, u, s_])
                else:
                    c = [q for q in live if q != s_ and live[q] == 7]
                    if c and rng.random() < 0.5: ops.append([8, u, s_, 1, rng.choice(c)])
                    else: ops.append([8, u, s_, 0, 0]); live.pop(s_)
            elif x < 0.91:
                u = some(15); r = free()
                if u is None or r is None: continue
                ops.append([18, r, u, rng.randrange(3)]); live[r] = 7
            elif x < 0.94:
                ops.append([9, some()])
            elif x < 0.97:
                r = some()
                if len(live) > 1: ops.append([10, r]); live.pop(r)
            else:
                ops.append([11, some()])
        ops.append([99])
        cases.append(dict(id='ldh%d' % ci, ops=ops, tags=['hll-blocks', 'lg%d' % lg]))
    return cases

def oracle_ledger(case, irecs, mrecs):
    fails = []
    for i, op in enumerate(case['ops']):
        if i >= len(irecs):
            break
        R = irecs[i]['R']
        if op[0] == 99:
            if len(R) >= 5:
                if R[0] != 0:
                    fails.append(dict(sig='leak_items', what='%d items still alive after every object was destroyed' % R[0], op_index=i))
                if R[1] != 0 or R[2] != 0 or R[3] != 0:
                    fails.append(dict(sig='leak_blocks', what='%d blocks / %d bytes still allocated after every object was destroyed' % (R[3], R[2]), op_index=i))
                if R[4] != 0:
                    fails.append(dict(sig=flag_sig(R[4]), what='hygiene flags %x while destroying all objects' % R[4], op_index=i))
            continue
        if len(R) >= 5 and R[4] != 0:
            fails.append(dict(sig=flag_sig(R[4]), what='hygiene flags %x raised by op %s' % (R[4], ' '.join('%x' % x for x in op)), op_index=i))
        if i < len(mrecs) and len(mrecs[i]['R']) >= 5 and mrecs[i]['R'][4] != 0 and op[0] != 99:
            fails.append(dict(sig='model_ledger_rejects', what='the effect log of the MODEL is rejected by the ledger at op %d' % i, op_index=i))
    return fails


# ---------------------------------------------------------------------------------------------------------------------
# family "vsem": value-semantics scripts on the implementation alone (differential TESTING with sanitizers, no model):
# every sketch family, tracking allocator, instrumented items, scripted exceptions from the item copy constructor.
# The oracle gives every register a "value token": a copy/move/assignment transfers the token, any operation on a
# register gives it a fresh one; all digests (hash of the serialized image) taken under one token must be equal.
# ---------------------------------------------------------------------------------------------------------------------
KIND_NAMES = {0: 'kll', 1: 'tuple', 2: 'fi', 3: 'req', 4: 'var_opt', 5: 'quantiles', 6: 'ebpps', 7: 'hll', 8: 'cpc', 9: 'theta',
              10: 'bloom', 11: 'var_opt_union', 12: 'tdigest', 13: 'count_min', 14: 'density', 15: 'hll_union', 16: 'cpc_union',
              17: 'theta_union', 18: 'theta_intersection', 19: 'theta_a_not_b', 21: 'tuple_union', 22: 'tuple_intersection',
              23: 'array', 24: 'array_of_doubles_update', 25: 'array_of_doubles_compact', 26: 'array_of_doubles_union',
              27: 'array_of_doubles_intersection', 28: 'array_of_doubles_a_not_b'}
VS_PARAMS = {
    0: lambda rng: [rng.choice([8, 9, 20, 200]), 0],
    1: lambda rng: [rng.choice([5, 6]), rng.randrange(4)],
    2: lambda rng: [rng.choice([3, 4, 6]), 3],
    3: lambda rng: [rng.choice([4, 6, 12]), rng.randrange(2)],
    4: lambda rng: [rng.choice([4, 16, 50]), rng.randrange(4)],
    5: lambda rng: [rng.choice([2, 4, 16, 128]), 0],
    6: lambda rng: [rng.choice([1, 3, 10]), 0],
    7: lambda rng: [rng.choice([4, 7, 8, 10, 12]), rng.randrange(3)],
    8: lambda rng: [rng.choice([4, 8, 11]), 0],
    9: lambda rng: [rng.choice([5, 6, 9]), rng.randrange(4)],
}
HAS_MERGE = {0, 2, 3, 5, 6}
HAS_RESET = {1, 4, 6, 7, 9}
ITEM_KINDS = {0, 1, 2, 3, 4, 5, 6}

def vs_update(rng, kind, r, universe):
    return [2, r, rng.randrange(universe), rng.choice([1, 1, 2, 3, 7]), rng.randrange(2)]

def gen_vsem(rng, tier):
    ncases = 140 if tier == 'quick' else 560
    cases = []
    for ci in range(ncases):
        kind = ci % 10
        throwing = (ci // 10) % 3 == 2 and kind in ITEM_KINDS
        ops = []; tags = set([KIND_NAMES[kind]]); live = set()
        universe = rng.choice([10, 100, 3000])
        budget = rng.choice([30, 80, 200]) if tier == 'quick' else rng.choice([30, 80, 200, 600])
        armed = False
        def free():
            f = [r for r in range(5) if r not in live]
            return rng.choice(f) if f else None
        def some():
            return rng.choice(sorted(live)) if live else None
        def follow(s):
            c = [r for r in live if r != s]
            if c and rng.random() < 0.5 and kind != 7:
                return [1, rng.choice(c)], False
            return [0, 0], True
        def digests():
            for r in sorted(live):
                ops.append([14, r])
        ops.append([1, 0, kind] + VS_PARAMS[kind](rng)); live.add(0)
        while len(ops) < budget:
            x = rng.random()
            if throwing and not armed and len(ops) > budget // 3 and live:
                # one scripted copy failure per case, in front of an operation that copies items
                n = rng.choice([1, 1, 2, 3, 5, 8, 13, 30])
                r = some(); s = some()
                cand = [[3, free(), s], [5, r, s], [11, r], [2, r, rng.randrange(universe), 1, 0], [13, r, s, some()]]
                if kind in HAS_MERGE and r != s: cand.append([7, r, s])
                op = rng.choice(cand)
                if op[0] == 3 and op[1] is None: continue
                ops.append([20, n]); ops.append(op); armed = True
                tags.add('throw:' + {3: 'copy', 5: 'copy-assign', 11: 'copy', 2: 'update', 13: 'chain', 7: 'merge'}[op[0]])
                # the driver cannot know whether the copy succeeded: assume it did only for bookkeeping of free registers
                if op[0] == 3: live.add(op[1])
                digests()
                continue
            if x < 0.05:
                r = free()
                if r is None: continue
                ops.append([1, r, kind] + VS_PARAMS[kind](rng)); live.add(r)
            elif x < 0.45:
                r = some()
                if r is None: continue
                for _ in range(rng.choice([1, 3, 10, 40, 120])):
                    ops.append(vs_update(rng, kind, r, universe))
                tags.add('updates')
            elif x < 0.55:
                s = some(); r = free()
                if r is None or s is None: continue
                ops.append([3, r, s]); live.add(r); tags.add('copy'); digests()
                # mutate one side, the other must not change
                t = rng.choice([r, s])
                for _ in range(rng.choice([1, 5, 30])):
                    ops.append(vs_update(rng, kind, t, universe))
                digests()
            elif x < 0.62:
                s = some(); r = free()
                if r is None or s is None: continue
                ops.append([14, s]); f, gone = follow(s)
                ops.append([4, r, s] + f); live.add(r)
                if gone: live.discard(s)
                tags.add('move'); digests()
            elif x < 0.70:
                r = some(); s = some()
                if r is None or (kind == 7 and r == s): continue
                ops.append([5, r, s]); tags.add('self-assign' if r == s else 'copy-assign'); digests()
            elif x < 0.77:
                r = some(); s = some()
                if r is None: continue
                if r == s:
                    ops.append([6, r, s, 0, 0]); tags.add('self-move')
                    # a self-moved object holds an unspecified value: it is only assigned to or destroyed
                    o2 = sorted(q for q in live if q != r)
                    if o2 and rng.random() < 0.6: ops.append([5, r, rng.choice(o2)])
                    elif o2: ops.append([10, r]); live.discard(r)
                    else:
                        ops.append([10, r]); ops.append([1, r, kind] + VS_PARAMS[kind](rng))
                else:
                    ops.append([14, s]); f, gone = follow(s)
                    ops.append([6, r, s] + f)
                    if gone: live.discard(s)
                    tags.add('move-assign')
                digests()
            elif x < 0.84:
                r = some(); s = some()
                if r is None or r == s or kind not in HAS_MERGE: continue
                if rng.random() < 0.5:
                    ops.append([7, r, s]); tags.add('merge')
                else:
                    f, gone = follow(s); ops.append([8, r, s] + f)
                    if gone: live.discard(s)
                    tags.add('merge-move')
                digests()
            elif x < 0.87:
                r = some()
                if r is None: continue
                ops.append([rng.choice([9, 12]), r]); tags.add('reset/trim')
            elif x < 0.90:
                r = some()
                if r is None or len(live) < 2: continue
                ops.append([10, r]); live.discard(r); tags.add('destroy'); digests()
            elif x < 0.94:
                r = some()
                if r is None: continue
                ops.append([15, r]); tags.add('query'); digests()
            elif x < 0.97:
                if not live: continue
                abc = [some(), some(), some()]
                if kind == 7 and len(set(abc)) < 3: continue
                ops.append([13] + abc); tags.add('chain'); digests()
            else:
                s = some(); r = free()
                if r is None or s is None or kind in (1, 6, 9): continue
                ops.append([16, r, s]); live.add(r); tags.add('roundtrip')
        digests()
        ops.append([99])
        cases.append(dict(id='vs%d' % ci, ops=ops, tags=sorted(tags), kind=kind))
    # dedicated self-assignment cases for hll_sketch (known finding hll_self_assign until fixes/03_hll_self_assign is applied)
    for j in range(2 if tier == 'quick' else 6):
        lg = rng.choice([4, 8, 12]); n = rng.choice([0, 3, 40, 600])
        ops = [[1, 0, 7, lg, rng.randrange(3)]] + [[2, 0, rng.randrange(10000), 1, 0] for _ in range(n)] + [[14, 0], [5, 0, 0], [14, 0], [99]]
        cases.append(dict(id='vshllself%d' % j, ops=ops, tags=['hll', 'self-assign'], kind=7))
        # assignment to a moved-from hll_sketch (finding hll_assign_to_moved_from)
        ops = [[1, 0, 7, lg, rng.randrange(3)], [1, 1, 7, rng.choice([4, 8, 12]), 0]] + [[2, rng.randrange(2), rng.randrange(10000), 1, 0] for _ in range(n)] + \
              [[14, 0], [14, 1], rng.choice([[4, 2, 0, 1, 1], [6, 1, 0, 1, 1]]), [14, 0], [14, 1], [99]]
        cases.append(dict(id='vshllmoved%d' % j, ops=ops, tags=['hll', 'assign-to-moved-from'], kind=7))
    cases += gen_bloom_matrix(rng) + gen_growth(rng, tier) + gen_setops(rng, tier) + gen_arrays(rng, tier)
    return cases


# ---- systematic cases: memory modes of the Bloom filter, growth through every reallocation ------------------------------
BLOOM_MODES = {0: 'owned', 1: 'initialize_by_size', 2: 'writable_wrap', 3: 'wrap'}

def gen_bloom_matrix(rng):
    """every (target mode, source mode) pair x copy ctor, move ctor, copy assignment, move assignment, then destroy"""
    cases = []
    for tm in range(4):
        for sm in range(4):
            bits = rng.choice([64, 100, 512, 1000, 4096])
            ops = [[1, 0, 10, bits, tm], [1, 1, 10, rng.choice([bits, 64, 2048]), sm]]
            for r in (0, 1):
                ops += [[2, r, rng.randrange(10000), 1, 0] for _ in range(rng.choice([0, 3, 20]))]
            ops += [[14, 0], [14, 1],
                    [5, 0, 1], [14, 0], [14, 1], [2, 0, 77, 1, 0], [14, 0], [14, 1],          # T = S, then mutate T
                    [1, 2, 10, bits, tm], [2, 2, 5, 1, 0], [14, 2],
                    [6, 2, 1, 1, 0], [14, 0], [14, 1], [14, 2],                                   # T' = move(S); S = T
                    [3, 3, 2], [14, 3], [2, 3, 99, 1, 0], [14, 2], [14, 3],                       # copy ctor
                    [4, 4, 3, 0, 0], [14, 4],                                                     # move ctor, source destroyed
                    [5, 1, 1], [14, 1], [13, 0, 4, 2], [14, 0], [14, 4], [14, 2],                 # self-assignment, chain
                    [9, 4], [15, 2], [16, 3, 0], [14, 3]]
            if tm == 0: ops += [[7, 0, 2]]
            ops += [[10, rng.choice([0, 1, 2])], [99]]
            cases.append(dict(id='vsbloom_%s_%s' % (BLOOM_MODES[tm], BLOOM_MODES[sm]), ops=ops, kind=10,
                              tags=['bloom', 'mode:%s<-%s' % (BLOOM_MODES[tm], BLOOM_MODES[sm])]))
    return cases

def stages(rng, total):
    out = []; n = 1
    while sum(out) < total:
        out.append(n); n = max(n + 1, int(n * rng.choice([2, 3, 3.3])))
    return out

def gen_growth(rng, tier):
    """each allocator-aware type driven through all its reallocations, with copies / moves / assignments taken at every stage"""
    big = tier != 'quick'
    plan = []
    for k in (8, 16, 17, 32, 100):
        plan.append((4, [k, rng.randrange(4)], 12 * k + 60, 7))
    plan += [(0, [200, 0], 20000, 1), (0, [8, 0], 3000, 1), (1, [7, 1], 3000, 3), (2, [10, 3], 4000, 5), (3, [12, 1], 20000, 1), (3, [4, 0], 3000, 1),
             (5, [128, 0], 20000, 1), (5, [2, 0], 2000, 1), (6, [100, 0], 3000, 5), (6, [1, 0], 50, 3),
             (7, [12, 0], 30000, 1), (7, [4, 0], 100000, 1), (7, [6, 0], 100000, 1), (7, [10, 1], 8000, 1), (7, [8, 2], 3000, 1),
             (8, [11, 0], 60000, 1), (8, [8, 0], 30000, 1), (8, [4, 0], 3000, 1),
             (9, [12, 1], 20000, 1), (9, [5, 3], 500, 1), (12, [100, 0], 6000, 1), (12, [10, 0], 2000, 1),
             (13, [64, 3], 300, 4), (14, [10, 3], 600, 5), (14, [5, 2], 300, 3)]
    cases = []
    for ci, (kind, p, total, wmod) in enumerate(plan):
        if big: total *= 2
        ops = [[1, 0, kind] + p]; pos = 0; live = {0}
        for st in stages(rng, total):
            ops.append([21, 0, pos * 7919 + 1, st, 7919, wmod, rng.randrange(2)]); pos += st
            x = rng.random()
            if x < 0.35 and 1 not in live:
                ops += [[3, 1, 0], [14, 0], [14, 1]]; live.add(1)
            elif x < 0.55 and 1 in live:
                ops += [[5, 1, 0], [14, 0], [14, 1], [21, 1, 5, rng.choice([1, 40]), 3, wmod, 0], [14, 0]]
            elif x < 0.7 and 1 in live:
                ops += [[14, 1], [6, 0, 1, 0, 0], [14, 0]]; live.discard(1)          # sketch := move(older copy), copy destroyed
            elif x < 0.8:
                ops += [[14, 0], [4, 2, 0, 1, 2] if False else [3, 2, 0], [10, 2]]
            elif x < 0.9 and 1 in live and kind in (0, 2, 3, 5, 6, 12, 14):
                ops += [[7, 0, 1], [14, 1]]
            else:
                ops += [[15, 0], [11, 0]]
        ops += [[14, 0], [16, 3, 0]] if kind in (0, 2, 3, 4, 5, 7, 8, 12, 13) else [[14, 0]]
        ops.append([99])
        cases.append(dict(id='vsgrow%d_%s' % (ci, KIND_NAMES[kind]), ops=ops, kind=kind, tags=[KIND_NAMES[kind], 'growth']))
    # var_opt_union: gadget (data_/weights_/marks_) growth, get_result, copy/move/assign, reset
    for ui, max_k in enumerate((8, 16, 17, 32, 100)):
        ops = [[1, 0, 11, max_k, 0]]
        feeds = [100] + [rng.choice([8, 16, 17, 32, 100]) for _ in range(4)]
        pos = 0
        for j, k in enumerate(feeds):
            r = 1 + j % 2
            cnt = 60 if j == 0 else rng.choice([5, 20, 3 * k, 10 * k + 7])     # first feed: 60 items in exact mode, the gadget grows past 16
            ops += [[1, r, 4, k, rng.randrange(4)], [21, r, pos + 1, cnt, 13, 7, rng.randrange(2)], [14, r]]
            pos += cnt * 13
            ops += [[7, 0, r], [14, r]] if rng.random() < 0.6 else [[8, 0, r, 0, 0]]
            if 7 == ops[-2][0] if len(ops[-1]) == 2 else False: pass
            if ops[-1][0] != 8: ops.append([10, r])
            ops += [[14, 0], [18, 3, 0], [14, 3], [10, 3]]
            if j == 1: ops += [[3, 4, 0], [14, 0], [14, 4]]
            if j == 2: ops += [[5, 0, 4], [14, 0], [14, 4], [6, 4, 0, 1, 4] if False else [13, 4, 4, 0], [14, 4]]
        ops += [[4, 5, 0, 0, 0], [14, 5], [18, 3, 5], [14, 3], [9, 5], [14, 5], [99]]
        cases.append(dict(id='vsunion%d_k%d' % (ui, max_k), ops=ops, kind=11, tags=['var_opt_union', 'growth']))
    return cases


def gen_setops(rng, tier):
    """set-operation objects with the tracking allocator: every hll_union::union_impl branch (gadget list/set/HLL x source list/set/HLL x
       source lg_k below / equal / above the gadget's, lvalue and rvalue), get_result of every type, reset, copy/move/assign; cpc/theta/tuple
       unions and intersections through growth, result taken and the operator reused."""
    cases = []
    PRE = {'list': 3, 'set': 40, 'hll': 2500}
    for lg_max in (8, 10):
        for gname, gpre in PRE.items():
            ops = [[1, 0, 15, lg_max, 0]]; pos = 1
            combos = [(dlg, sname, mv) for dlg in (-2, 0, 2) for sname in PRE for mv in (0, 1)]
            rng.shuffle(combos)
            for ci, (dlg, sname, mv) in enumerate(combos):
                ops += [[9, 0], [21, 0, pos, gpre, 7919, 1, 0]]; pos += gpre * 7919
                if gname == 'hll' and ci % 3 == 0:
                    # bring the gadget to a smaller lg_k first, so that equal / larger sources meet a down-sampled gadget
                    ops += [[1, 1, 7, lg_max - 1, 0], [21, 1, pos, 2500, 104729, 1, 0], [7, 0, 1], [10, 1]]
                ops += [[1, 1, 7, lg_max + dlg, rng.randrange(3)], [21, 1, pos + 5, PRE[sname], 104729, 1, 0], [14, 1]]
                ops += [[8, 0, 1, 0, 0]] if mv else [[7, 0, 1], [14, 1], [10, 1]]
                ops += [[14, 0], [18, 2, 0, ci % 3], [14, 2], [10, 2]]
                if ci % 5 == 0: ops += [[3, 3, 0], [14, 0], [14, 3], [2, 3, 77, 1, 0], [14, 0], [5, 0, 3], [14, 0], [14, 3], [10, 3]]
                if ci % 7 == 3: ops += [[4, 3, 0, 0, 0], [14, 3], [1, 0, 15, lg_max, 0], [6, 0, 3, 0, 0], [14, 0]]
            ops += [[15, 0], [99]]
            cases.append(dict(id='vshllunion_%d_%s' % (lg_max, gname), ops=ops, kind=15, tags=['hll_union', 'gadget:' + gname]))
    # cpc_union whose empty accumulator adopts a sparse sketch of equal lg_k living in ANOTHER arena (registers 0 and 1 use different
    # arenas), by copy and by move; the accumulator object is then released when the union graduates to a bit matrix, is down-sampled,
    # copied / assigned, or destroyed: each block must go back to the allocator it came from
    for mv in (0, 1):
        for nxt in ('graduate', 'reduce', 'copy', 'destroy'):
            ops = [[1, 0, 16, 10, 0], [1, 1, 8, 10, 0], [21, 1, 1, rng.choice([3, 60]), 7919, 3, 0]]
            ops += [[8, 0, 1, 0, 0]] if mv else [[7, 0, 1], [14, 1], [10, 1]]
            ops += [[14, 0]]
            if nxt == 'graduate': ops += [[1, 1, 8, 10, 0], [21, 1, 98, 3000, 7919, 3, 0], [7, 0, 1], [14, 0], [14, 1]]
            elif nxt == 'reduce': ops += [[1, 1, 8, 4, 0], [21, 1, 98, 60, 7919, 3, 0], [7, 0, 1], [14, 0], [14, 1]]
            elif nxt == 'copy': ops += [[3, 2, 0], [14, 2], [1, 3, 16, 11, 0], [5, 3, 0], [14, 3], [6, 3, 2, 1, 0], [14, 3], [14, 2], [4, 4, 3, 0, 0], [14, 4]]
            ops += [[18, 5, 0], [14, 5], [99]]
            cases.append(dict(id='vscpcadopt_%s_%s' % ('move' if mv else 'copy', nxt), ops=ops, kind=16, tags=['cpc_union', 'adopt-foreign-arena', 'then:' + nxt]))
    # cpc / theta / tuple set operations: grow through several sources, take the result, keep going
    for kind, src, params, sp in ((16, 8, [[10, 0], [4, 0]], [[10, 0], [8, 0], [4, 0], [11, 0]]),
                                  (17, 9, [[5, 0], [9, 2]], [[5, 1], [9, 0], [12, 3]]),
                                  (18, 9, [[0, 0]], [[6, 0], [9, 1]]),
                                  (19, 9, [[0, 0]], [[6, 0], [10, 2]]),
                                  (21, 1, [[5, 0], [7, 2]], [[5, 1], [6, 0], [7, 3]]),
                                  (22, 1, [[0, 0]], [[5, 0], [6, 2]])):
        for up in params:
            ops = [[1, 0, kind] + up]; pos = 1
            for j in range(7):
                cnt = rng.choice([0, 3, 60, 700, 4000 if src != 1 else 900])
                stride = rng.choice([1, 3, 7919])
                ops += [[1, 1, src] + rng.choice(sp), [21, 1, pos if j % 2 else 1, cnt, stride, 3, 0], [14, 1]]
                pos += 97
                ops += [[8, 0, 1, 0, 0]] if rng.random() < 0.4 else [[7, 0, 1], [14, 1], [10, 1]]
                ops += [[14, 0]]
                if kind == 16: ops += [[18, 2, 0], [14, 2], [10, 2]]
                if j == 2: ops += [[3, 3, 0], [14, 0], [14, 3]]
                if j == 4: ops += [[5, 0, 3], [14, 0], [14, 3], [13, 3, 3, 0], [14, 3]]
                if j == 5: ops += [[4, 4, 0, 1, 3], [14, 4], [14, 0], [10, 4]]
                if j == 3 and kind in (17, 21): ops += [[9, 0], [14, 0]]
            ops += [[99]]
            cases.append(dict(id='vssetop_%s_%d_%d' % (KIND_NAMES[kind], up[0], up[1]), ops=ops, kind=kind, tags=[KIND_NAMES[kind], 'set-operation']))
    return cases

def gen_arrays(rng, tier):
    """datasketches::array<double> (the heap-owning summary of the array_of_doubles sketches), update / compact array_of_doubles sketches,
       union, intersection and A-not-B with the tracking allocator.  Moved-from matrix: after every kind of move (move construction, move
       assignment, sketch passed as rvalue to union / intersection / A-not-B) the moved-from object is destroyed, or copy-assigned from a live
       object of the same size (array length / num_values and entry count) or of a different size, or move-assigned from such an object; then
       it is used (update, query, serialize), shown independent of its source, and destroyed."""
    cases = []
    FOLLOW = [('destroy', 0, None), ('copy-assign-same', 1, 'same'), ('copy-assign-diff', 1, 'diff'), ('move-assign-same', 2, 'same'), ('move-assign-diff', 2, 'diff')]
    S, CS, CD, T, U, TMP, X = 0, 1, 2, 3, 4, 5, 6
    def fill(r, start, cnt):
        return [[21, r, start, cnt, 7, 3, 0]] if cnt else []
    def build(kind, r, lg, nv, start, cnt):
        """a value object of the given kind in register r"""
        if kind == 23:
            return [[1, r, 23, nv, 0]] + [[2, r, start + i, 1 + i % 5, 0] for i in range(min(cnt, 2 * nv))]
        if kind == 24:
            return [[1, r, 24, lg, nv]] + fill(r, start, cnt)
        return [[1, TMP, 24, lg, nv]] + fill(TMP, start, cnt) + [[18, r, TMP, rng.randrange(2)], [10, TMP]]
    def operator(kind, r, lg, nv):
        return [[1, r, kind, lg if kind == 26 else 0, nv if kind != 28 else 0]]
    rounds = 1 if tier == 'quick' else 3
    for rd in range(rounds):
        for kind in (23, 24, 25):
            movers = ['move-ctor', 'move-assign'] + ([] if kind == 23 else ['rvalue-union', 'rvalue-union-nonempty', 'rvalue-intersection', 'rvalue-intersection-second', 'rvalue-a-not-b'])
            for mover in movers:
                for fname, mode, which in FOLLOW:
                    lg = rng.choice([5, 7]); nv = rng.choice([1, 2, 3, 8, 40]) if kind != 23 else rng.choice([1, 2, 5, 64, 255])
                    nv2 = rng.choice([x for x in (1, 2, 3, 8, 17, 100) if x != nv])
                    cnt = rng.choice([1, 3, 20, 100, 300]) if kind != 23 else 10
                    ops = build(kind, S, lg, nv, 1, cnt)
                    # same size: equal array length / num_values and equal entry count (other keys, other values); also fewer and more entries
                    cnt_same = cnt if rng.random() < 0.6 else rng.choice([1, max(1, cnt // 2), cnt + 5])
                    ops += build(kind, CS, lg, nv, 1000003, cnt_same)
                    ops += build(kind, CD, rng.choice([5, 6]), nv2, 2000003, rng.choice([2, cnt, 50]) if kind != 23 else 7)
                    ops += [[14, S], [14, CS], [14, CD]]
                    f = [mode, CS if which == 'same' else CD] if mode else [0, 0]
                    if mover == 'move-ctor':
                        ops += [[4, T, S] + f, [14, T]]
                    elif mover == 'move-assign':
                        ops += build(kind, T, lg, rng.choice([nv, nv2]), 3000003, rng.choice([0, 4, cnt]))
                        ops += [[14, T], [6, T, S] + f, [14, T]]
                    else:
                        ok = {'rvalue-union': 26, 'rvalue-union-nonempty': 26, 'rvalue-intersection': 27, 'rvalue-intersection-second': 27, 'rvalue-a-not-b': 28}[mover]
                        ops += operator(ok, U, lg, nv)
                        if mover in ('rvalue-union-nonempty', 'rvalue-intersection-second'):
                            # the operator already holds entries, half of them with the keys of S: existing summaries are combined, new ones moved in
                            ops += [[1, X, 24, lg, nv]] + fill(X, 1, max(1, cnt // 2)) + fill(X, 5000011, 9) + [[7, U, X], [10, X], [14, U]]
                        ops += [[8, U, S] + f, [14, U]]
                        if ok != 28: ops += [[18, T, U, rng.randrange(2)], [14, T], [15, T]]
                    if mode:
                        src = CS if which == 'same' else CD
                        ops += [[14, S], [14, src], [15, S], [14, S]]
                        # use the re-assigned object; its source must not change
                        if kind == 24: ops += fill(S, 4000037, rng.choice([1, 30])) + [[14, S], [14, src], [12, S], [14, S]]
                        elif kind == 23: ops += [[2, S, 3, 9, 0], [14, S], [14, src]]
                        else: ops += [[16, X, S], [14, X], [10, X], [14, S]]
                        # and the other way round: the source changes / goes away, the re-assigned object keeps its value
                        if kind == 24: ops += fill(src, 4500037, 3) + [[14, S]]
                        ops += [[10, src], [14, S], [11, S], [3, X, S], [14, X], [14, S], [10, S], [14, X]]
                    ops += [[99]]
                    cases.append(dict(id='vsarr%d_%s_%s_%s' % (rd, KIND_NAMES[kind], mover, fname), ops=ops, kind=kind,
                                      tags=[KIND_NAMES[kind], 'moved-from-matrix', 'mover:' + mover, 'then:' + fname]))
        # the operators themselves: move construction / move assignment of a loaded union / intersection / A-not-B, same follow-ups
        for kind in (26, 27, 28):
            for mover in ('move-ctor', 'move-assign'):
                for fname, mode, which in FOLLOW:
                    lg = rng.choice([5, 7]); nv = rng.choice([1, 3, 8]); nv2 = rng.choice([2, 5, 20])
                    ops = []
                    def load2(r, lg_, nv_, start, cnt):
                        mv = rng.random() < 0.5
                        return operator(kind, r, lg_, nv_) + [[1, X, 24, lg_, nv_]] + fill(X, start, cnt) + ([[8, r, X, 0, 0]] if mv else [[7, r, X], [10, X]])
                    cnt = rng.choice([0, 3, 40, 200])
                    ops += load2(S, lg, nv, 1, cnt) + load2(CS, lg, nv, 1000003, cnt) + load2(CD, 6, nv2, 2000003, rng.choice([5, 90]))
                    ops += [[14, S], [14, CS], [14, CD]]
                    f = [mode, CS if which == 'same' else CD] if mode else [0, 0]
                    if mover == 'move-ctor':
                        ops += [[4, T, S] + f, [14, T]]
                    else:
                        ops += load2(T, lg, rng.choice([nv, nv2]), 3000003, rng.choice([0, 30])) + [[14, T], [6, T, S] + f, [14, T]]
                    if mode:
                        src = CS if which == 'same' else CD
                        snv = nv if which == 'same' else nv2
                        slg = lg if which == 'same' else 6
                        ops += [[14, S], [14, src], [1, X, 24, slg, snv]] + fill(X, 4000037, 25) + [[7, S, X], [14, S], [14, src], [8, src, X, 0, 0], [14, S]]
                        if kind != 28: ops += [[18, X, S, 0], [14, X], [10, X]]
                        ops += [[10, src], [14, S], [3, X, S], [14, X], [10, S], [14, X]]
                    ops += [[99]]
                    cases.append(dict(id='vsarr%d_%s_%s_%s' % (rd, KIND_NAMES[kind], mover, fname), ops=ops, kind=kind,
                                      tags=[KIND_NAMES[kind], 'moved-from-matrix', 'mover:' + mover, 'then:' + fname]))
    return cases

def oracle_vsem(case, irecs, mrecs):
    fails = []
    kind = KIND_NAMES.get(case.get('kind', -1), 'k')
    if 'kind' not in case:
        for op in case['ops']:
            if op[0] == 1: kind = KIND_NAMES.get(op[2], 'k'); break
    tok = {}; fresh = [0]; seen = {}; own = {}
    is_bloom = case.get('kind') == 10
    def new():
        fresh[0] += 1; return fresh[0]
    thrown_op = None
    prev = None
    def hsig(v):
        # after a scripted item-copy failure every hygiene event is attributed to the operation that threw
        if thrown_op: return '%s_not_exception_safe_%s' % (thrown_op, kind)
        if kind == 'var_opt_union':
            # item-lifetime events (double destroy, construct over live, use of destroyed, release with live items) in the union's
            # get_result path are one known root cause (decrease_k_by_1 / filled_data_); allocator events keep their own signature
            other = v & ~(1 | 2 | 4 | 256)
            if other == 0: return 'var_opt_union_result_item_lifetime'
            return flag_sig(other) + '_' + kind
        if kind == 'cpc_union' and v == 64 and cpc_adopts:
            # the union took a sparse sketch of equal lg_k from another arena into its empty accumulator (snowplow shortcut of internal_update):
            # one root cause (fixes/19_cpc_union_adopt_foreign_allocator); any other foreign-arena release keeps the generic signature
            return 'cpc_union_adopt_foreign_allocator'
        return flag_sig(v) + '_' + kind
    # cpc_union: a by-reference / by-move update of a union register from a cpc_sketch register of another arena (arena = 1 + register % 3)
    kinds_ = {}
    cpc_adopts = False
    for op in case['ops']:
        if op[0] == 1: kinds_[op[1]] = op[2]
        if op[0] in (7, 8) and kinds_.get(op[1]) == 16 and kinds_.get(op[2]) == 8 and op[1] % 3 != op[2] % 3: cpc_adopts = True
    for i, op in enumerate(case['ops']):
        if i >= len(irecs): break
        R = irecs[i]['R']; F = irecs[i].get('F') or [0, 0]
        c = op[0]
        if c == 99:
            if len(R) >= 5:
                if thrown_op and (R[0] != 0 or R[1] != 0 or R[2] != 0 or R[3] != 0):
                    fails.append(dict(sig='%s_not_exception_safe_%s' % (thrown_op, kind),
                                      what='%s: after the item copy constructor threw inside %s, %d items and %d blocks / %d bytes are still alive when every object has been destroyed'
                                           % (kind, thrown_op, R[0], R[3], R[2]), op_index=i))
                else:
                    if R[0] != 0:
                        fails.append(dict(sig='var_opt_union_result_item_lifetime' if kind == 'var_opt_union' else 'leak_items_' + kind, what='%s: %d items still alive after every object was destroyed' % (kind, R[0]), op_index=i))
                    if R[1] != 0 or R[2] != 0 or R[3] != 0:
                        fails.append(dict(sig='leak_blocks_' + kind, what='%s: %d blocks / %d bytes still allocated after every object was destroyed' % (kind, R[3], R[2]), op_index=i))
                if R[4] != 0:
                    fails.append(dict(sig=hsig(R[4]), what='%s: hygiene flags %x (%s) while destroying all objects' % (kind, R[4], flag_sig(R[4])), op_index=i))
            continue
        if c == 14 and is_bloom and R and R[0] != -1 and len(R) >= 2 and op[1] in own and (R[1] & 1) != (1 if own[op[1]] else 0):
            fails.append(dict(sig='bloom_ownership_flag', what='bloom: register %d reports is_memory_owned() = %d but holds %s memory (history of copies/moves/assignments)'
                              % (op[1], R[1] & 1, 'its own' if own[op[1]] else 'caller'), op_index=i))
        if c == 14:
            if len(R) >= 5 and R[4] != 0:
                fails.append(dict(sig=hsig(R[4]), what='%s: hygiene flags %x (%s) while serializing' % (kind, R[4], flag_sig(R[4])), op_index=i))
            if R and R[0] != -1 and op[1] in tok:
                t = tok[op[1]]
                if t in seen and seen[t][0] != R[0]:
                    fails.append(dict(sig='value_changed_%s_%s' % (kind, seen[t][2]),
                                      what='%s: register %d must still hold the value observed at op %d (established by %s) but its serialized image changed'
                                           % (kind, op[1], seen[t][1], seen[t][2]), op_index=i))
                elif t not in seen:
                    seen[t] = (R[0], i, tokwhy.get(t, 'construction'))
            continue
        if c == 20:
            continue
        status = R[0] if R else -1
        threw = len(F) > 1 and F[1] > 0
        if threw and thrown_op is None:
            # copy construction, copy assignment (copy-and-swap) and assignment chains all run the copy constructor
            thrown_op = {3: 'copy_ctor', 5: 'copy_ctor', 11: 'copy_ctor', 13: 'copy_ctor', 2: 'update', 7: 'merge'}.get(c, 'op%d' % c)
        if len(R) >= 5 and R[4] != 0:
            fails.append(dict(sig=hsig(R[4]), what='%s: hygiene flags %x (%s) raised by op %s' % (kind, R[4], flag_sig(R[4]), ' '.join('%x' % x for x in op)), op_index=i))
        if threw:
            if c in (3, 11) and prev is not None and len(R) >= 4 and (R[2] != prev[2] or R[3] != prev[3]):
                fails.append(dict(sig='%s_not_exception_safe_%s' % (thrown_op, kind),
                                  what='%s: the item copy constructor threw inside a copy construction; live items %d -> %d, item buffer slots %d -> %d (nothing may be left behind)'
                                       % (kind, prev[2], R[2], prev[3], R[3]), op_index=i))
        if len(R) >= 5: prev = R
        if status != 1:
            # refused or failed: no claim about the registers it names, except that untouched ones keep their value
            for r in op[1:3]:
                if c in (2, 5, 6, 7, 8, 9, 12, 13, 15) and r in tok: tok[r] = new()
            if c in (3, 4, 16): tok.pop(op[1], None)
            if c == 13 and op[2] in tok: tok[op[2]] = new()
            continue
        def give(dst, src, why):
            tok[dst] = tok.get(src, new()); tokwhy.setdefault(tok[dst], why)
            if src in own: own[dst] = own[src]
        if c == 1:
            tok[op[1]] = new(); own[op[1]] = (op[4] == 0)
        elif c in (2, 9, 12, 15, 21): tok[op[1]] = new()
        elif c == 18: tok[op[1]] = new()
        elif c == 3: give(op[1], op[2], 'copy construction')
        elif c == 4:
            give(op[1], op[2], 'move construction'); tokwhy[tok[op[1]]] = 'move construction'
            if op[3] == 0: tok.pop(op[2], None)
            else: give(op[2], op[4], 'copy assignment to a moved-from object'); tokwhy[tok[op[2]]] = 'copy assignment to a moved-from object'
        elif c == 5:
            why = 'self-assignment' if op[1] == op[2] else 'copy assignment'
            give(op[1], op[2], why); tokwhy[tok[op[1]]] = why
        elif c == 6:
            if op[1] == op[2]: tok[op[1]] = new()
            else:
                old_own = own.get(op[1])
                give(op[1], op[2], 'move assignment')
                if old_own is not None: own[op[2]] = old_own      # move assignment swaps; tokwhy[tok[op[1]]] = 'move assignment'
                if op[3] == 0: tok.pop(op[2], None)
                else: give(op[2], op[4], 'copy assignment to a moved-from object'); tokwhy[tok[op[2]]] = 'copy assignment to a moved-from object'
        elif c == 7: tok[op[1]] = new()
        elif c == 8:
            tok[op[1]] = new()
            if op[3] == 0: tok.pop(op[2], None)
            else: give(op[2], op[4], 'copy assignment to a moved-from object')
        elif c == 10: tok.pop(op[1], None)
        elif c == 13:
            give(op[2], op[3], 'assignment chain'); tokwhy[tok[op[2]]] = 'assignment chain'
            give(op[1], op[2], 'assignment chain')
        elif c == 16:
            tok[op[1]] = new(); own[op[1]] = True
        # 11: nothing changes
        if is_bloom:
            # filters that do not own their memory alias the caller's buffer: no independence claim for them
            for r in list(tok):
                if not own.get(r, True): tok[r] = new()
    return fails
tokwhy = {}

def crash_sig_vsem(case, text):
    ops = case['ops']
    kinds = {}
    for op in ops:
        if op[0] == 1: kinds[op[1]] = op[2]
    hll_self = any(op[0] == 5 and op[1] == op[2] and kinds.get(op[1]) == 7 for op in ops) or \
               any(op[0] == 13 and kinds.get(op[1]) == 7 and (op[1] == op[2] or op[2] == op[3]) for op in ops)
    asan = any(m in text for m in ('heap-use-after-free', 'AddressSanitizer', 'freed by thread', 'Shadow byte'))
    if hll_self and asan:
        return 'hll_self_assign'
    hll_moved = any(op[0] in (4, 6, 8) and len(op) > 4 and op[3] == 1 and kinds.get(op[2]) == 7 and op[1] != op[2] for op in ops)
    if hll_moved and 'null pointer' in text and 'HllSketch-internal.hpp' in text:
        return 'hll_assign_to_moved_from'
    armed = any(op[0] == 20 for op in ops)
    if armed and any(m in text for m in ('scripted copy failure', 'terminate called', 'ABRT', 'abort')):
        k = KIND_NAMES.get(case.get('kind', kinds.get(0, -1)), 'k')
        return 'terminate_on_item_throw_%s' % k
    return None

FAMILIES = [dict(name='ledger', harness='drv_ledger.cpp', extract='Extract_ledger.v', model='model_ledger', gen=gen_ledger, oracle=oracle_ledger),
            dict(name='vsem', harness='drv_ledger.cpp', extract=None, model=None, gen=gen_vsem, oracle=oracle_vsem, crash_sig=crash_sig_vsem)]

EB_PARTS = [(1, 'ebpps_sketch<Item, talloc<Item>>::merge(const ebpps_sketch&)', r"swap.{0,4} was not declared", 'ebpps_sketch_impl.hpp', 'ebpps_lvalue_merge_custom_alloc'),
            (2, 'var_opt_union<Item, talloc<Item>>::operator=(const var_opt_union&)', r"no matching function for call to .{0,4}swap", 'var_opt_union_impl.hpp',
             'var_opt_union_copy_assign_does_not_compile'),
            (3, 'count_min_sketch<uint64_t, talloc<uint64_t>>::get_allocator()', r"undefined reference to .{0,200}get_allocator", 'count_min', 'count_min_get_allocator_undefined')]

def extra(chk):
    """members that do not compile / link with a user allocator: harness/drv_ledger_eb.cpp is built once per part (a compile-time
       defect is reported with its own signature instead of taking the main harness down), then run under the sanitizers."""
    import os, re, vlib
    bdir = os.path.join(chk.bdir, 'ebmerge'); os.makedirs(bdir, exist_ok=True)
    fam = dict(name='ebmerge', harness='drv_ledger_eb.cpp')
    chk.cov['families']['ebmerge'] = dict(cases=len(EB_PARTS), built=[])
    for part, what, pat, where, sig in EB_PARTS:
        exe = os.path.join(bdir, 'drv_ledger_eb%d' % part)
        rc, out, _ = vlib.sh('g++ %s -DEB_PART=%d %s -o %s' % (vlib.harness_flags(True), part, os.path.join(vlib.VERIF, 'harness', 'drv_ledger_eb.cpp'), exe), timeout=600)
        chk.cov['evaluations'] += 1
        case = dict(id='ebpart%d' % part, ops=[])
        if rc != 0:
            known = re.search(pat, out, re.S) is not None and where in out
            chk.report(fam, case, '%s does not compile / link' % what, dict(error=out[-1500:]), True, sig=sig if known else None)
            continue
        chk.cov['families']['ebmerge']['built'].append(part)
        env = dict(os.environ); env['ASAN_OPTIONS'] = vlib.ASAN_ENV
        rc, out, _ = vlib.sh([exe], timeout=120, env=env)
        if rc != 0 or not out.startswith('OK 0 0 0'):
            chk.report(fam, case, '%s with a tracking allocator: %s' % (what, out[-300:]), dict(output=out[-1500:]), True, sig='ebpart%d_unbalanced' % part)
        else:
            chk.cov['traces_validated_against_impl'] += 1

MANIFEST = dict(
    level_text=('Theorems (coq/Properties_C19.v, 17, and coq/Regression_ledger.v, 3; axiom-free) about the effect-ledger machine coq/LedgerDefs.v that is extracted and run against the C++ on every '
                'check: for ANY script of lifecycle operations (construct, update, copy, move, copy-/move-assignment incl. self-assignment and self-move, merge by '
                'reference / by move, a = b = c, reset, trim, destroy, destroy all) over registers holding the modelled hand-managed buffers — KLL items_, the theta/tuple '
                'hash table entries_, the frequent-items keys_/values_/states_ triple, the REQ compactor items_ buffers, var_opt data_ (gap slot and filled_data_ as coded) '
                'and the hll_sketch / hll_union-gadget impl blocks (every change of shape allocates the new blocks and releases each old block once with its size) '
                '— and for ANY hash values / section-size tables / heap sizes / shape sequences: every allocate/deallocate/placement-new/destructor '
                'effect the model emits is accepted by the ledger judge (accepted = release with the size of the allocation, of a live block holding no constructed '
                'slot; construction only over unconstructed slots inside a live block; destruction/read only of constructed slots — C19_accepted_*), so the hygiene flag '
                'of every step is 0 unless the model reached an Abort outcome (possible only in a KLL merge or a frequent-items update/merge: for REQ the guards are '
                'proved unreachable, var_opt and the HLL block model have none that raises the flag); at rest each register\'s ledger is exactly its buffers with exactly the slots its counters '
                'imply constructed (live items = retained items, + min/max for KLL); "destroy all" leaves no live block and no live item. The model is tied to '
                'kll_sketch_impl.hpp / kll_helper_impl.hpp / theta_update_sketch_base_impl.hpp / reverse_purge_hash_map_impl.hpp by running both on the same generated '
                'scripts with a tracking allocator and an instrumented item type under ASan/LSan/UBSan and comparing live item count, live item-buffer slots and '
                'hygiene flags exactly after every operation.'),
    level_note=('PROVED (all scripts, all hash values): the bookkeeping above, for the three modelled families only. COMPARED with the code on generated scripts (testing, not '
                'proof): that the model\'s counts are the code\'s (live items, item-buffer slots), allocator hygiene flags (size mismatch, double free, foreign arena, '
                'default-constructed allocator, release with live items) and item hygiene (double destroy, construct over live, use of destroyed / moved-from). TESTED only '
                '(family vsem, sanitizers): value semantics of all ten sketch kinds — copies equal and independent, moves transfer the state and leave the source '
                'destructible and assignable, chains, self-assignment, self-move, merge(std::move) — and behaviour when the item copy constructor throws. NOT claimed: '
                'Regression_ledger.v: var_opt_sketch_lifecycle_ok (all histories without decrease_k_by_1) and two _refuted theorems with computed witnesses for the shipped '
                'decrease_k_by_1 discipline (finding var_opt_union_result_item_lifetime: swap with the raw gap slot of the gadget copy; slot dropped by --k never destroyed); '
                'var_opt weights_/marks_ and the union itself, quantiles, ebpps, CPC buffers have no ledger model; the HLL model is at block level only, its shapes are read from the implementation (not derived from the coupons); theta slot positions are canonicalised; the Abort outcomes (KLL general_compress space '
                'bound — proved separately in coq/KllSpace.v for C07 —, frequent-items resize/purge/iterator consistency) are assumed unreachable, never observed; absence of '
                'leaks / use-after-free / aliasing in the compiled C++ beyond the sampled scripts. Known findings are listed in known_findings.json (hll assignment x2, '
                'ebpps merge with user allocator, optional::emplace, sorted-view release through the wrong allocator x3, exception safety of copy constructors / update / merge).'),
    design_ref='DESIGN.md section 5 C19, section 7')



# ---------------------------------------------------------------------------------------------------------------------
# MUTATIONS (scratch worktree /tmp/wt_ledger = /repo + fixes/03_self_assign + fixes/19_*.patch; VERIF_SEED=1; each run compared
# with the unmutated worktree, which is green with the exception-safety known findings only)
#  reported as VIOLATION:
#   M1  kll ~kll_sketch destroys [begin, end-1)                         (destructor loop bound off by one; DESIGN 9)
#   M2  theta resize(): deallocate(new_entries, new_size)                (deallocate with the new size after resize; DESIGN 9)
#   M3  theta copy constructor: entries_ = other.entries_                (shallow copy of a raw buffer; DESIGN 9)
#   M4  kll move constructor without other.items_ = nullptr              (move leaving the source owning the buffer; DESIGN 9)
#   M5  kll compress_while_updating destroys half_adj_pop - 1 items
#   M6  fi hash_delete: moved-from key keys_[probe] not destroyed
#   M7  theta rebuild(): destroy loop starts at nominal_size + 1
#   M8  kll add_empty_top_level: deallocate(items_, new_total_cap)
#   M9  kll operator=(const&): items_size_ not swapped (later deallocate with the wrong size)
#   M10 req_compactor destructor skips the first item
#   M11 req compact(): destroys one item less than the compaction range          M12 req grow(): deallocate(items_, new_capacity)
#   M13 var_opt grow_data_arrays(): moved-from items not destroyed               M14 var_opt copy ctor keeps filled_data_ of the source
#   (DESIGN 9 "missing self-assignment guard (F9 regression)": hll_sketch::operator=; on the unrepaired code the dedicated cases
#    vshllself* stop under ASan -> sig hll_self_assign, reported as KNOWN-FINDING while that entry is in known_findings.json)
#  tolerated (exit 0):
#   H1  theta STRIDE_HASH_BITS 7 -> 8 (different physical slot layout)
#   H2  kll add_empty_top_level allocates and releases an extra scratch block (allocation count changes, sizes matched)
#   H3  theta resize(): deallocate the old table before installing the new pointer, no std::swap (order of independent statements)
#   H4  req grow(): install the new pointer before releasing the old buffer
# ---------------------------------------------------------------------------------------------------------------------
