# C20 — density sketch keeps exact counts and is exact before its first compaction
#
# Mutations confirmed caught (round 2; scratch worktree /tmp/wt_density = /repo + fixes/20_*.patch, VERIF_REPO, seed 1, quick tier;
# each reported as VIOLATION, reason in brackets):
#   M1  compact_level: `--num_retained_` omitted            [getters: num_retained 4 vs 0 after a compaction that drops everything; can also hang update()]
#   M2  merge: `n_ += other.n_` removed                       [n_exact: n = 29 but 65 points were fed; estimate_value]
#   M3  update: dimension check removed                       [update_wrong_dim_accepted; sanitizer stop in the kernel]
#   M4  get_estimate divides by num_retained_ instead of n_   [estimate_value]
#   M5  iterator weight `height_` instead of `1 << height_`   [iteration_weight]
#   M5b update loop `>` instead of `>=`                       [transcripts differ: compaction one update late]
#   M5c sign test `delta <= 0`                                [transcripts differ: other points promoted]
#   M5d kernel arguments swapped in compact_level             [transcripts differ (asymmetric kernel 1); estimate_value]
#   M5e get_estimate dimension check dropped again            [estimate_wrong_dim_not_refused - KNOWN-FINDING while that entry is still in known_findings.json]
#   M5f is_empty() tests num_retained_ again                  [merge_ignores_source_with_zero_retained / n_exact / transcripts differ]
#   M6..M12 (serialization; caught by checks/fam_densitycodec.py): n written before num_retained; stream writer skips the size word of
#       empty levels; serialize(header) end pointer bug back; bytes reader level-size bounds check dropped (ASan); final count check
#       dropped; stream check after the level size dropped (endless loop, allocation cap); preamble_ints 6 accepted with the empty flag
# Harmless rewrites confirmed NOT reported (exit 0, 698/698 cases validated):
#   H1  constructor reserves 8 levels (vector growth)      H2  update: ++n_, ++num_retained_ before the push_back
#   H3  merge: counters added before the level copy         H4  the unhooked std::shuffle replaced by a hand-written Fisher-Yates
import struct
from fractions import Fraction

PROP = "C20"
READY = True
COQ_PROPS = ['Properties_C20']
RULE = ('operation scripts over up to three density_sketch<double, Kernel> registers with every random choice (first sign bit, '
        'Fisher-Yates indices of compact_level) drawn through the hook and replayed by the model: k in {2..16, 64}, refused k<2, '
        'dimensions 0..3, integer points from a small box (kernel values non-zero) and far outliers (kernel exactly 0), updates of the '
        'wrong dimension, merges (different dimensions, sources with zero retained points, deeper sources), getters, estimates at query '
        'points, sorted iteration, serialize/deserialize into another register; three kernels: an exact dyadic compact-support kernel, a '
        'signed asymmetric kernel (argument order, all-promoted compactions), the library Gaussian kernel on the lattice 40Z^d (values exactly '
        '0/1) and on near points without compaction; directed cases script the choices (all-zero bits, all-one bits); '
        'big-n cases: a sketch merged 33..40 times with a copy of itself (copy by merge into a fresh sketch or by serialize/deserialize), n observed '
        'after every merge, then merged into a fresh and into a non-empty sketch; '
        'non-trivial = the case has a compaction or a merge, or at least 8 updates and one estimate')
TRUSTED = ['random choices are read from the hook source and passed to the model; their generation is not modelled',
           'gaussian_kernel on the lattice 40Z^d: exp(-0.0) == 1 and exp(-x) == 0 for x >= 1600 in any libm (the only libm values the '
           'correspondence depends on); estimates at other points are only checked finite and >= 0',
           'harness kernels return dyadic values with at most 21 significant bits, so the double sums in compact_level are exact and the model '
           'decides the same signs over Z; get_estimate divides each term by n, so the estimate is compared with the exact rational within the '
           'rigorous rounding bound (terms+2) * 2^-52 * sum|terms| (exact equality is implied when n is a power of two)']
ASSUMPTIONS = ['the model counts n in Z (unbounded): n up to 2^40 is exercised (a sketch merged 33..40 times with a copy of itself, so any 32-bit '
               'truncation of n is visible) and up to 46 levels are reached (k = 2, 40..46 self-merges with a promoting kernel: iterator weights up to 2^45 '
               'are compared); get_estimate is queried at every depth reached (its level weight is 1ULL << height since fix 13cf11e; before it the int shift was undefined from '
               'level 31 on: fixes/20_estimate_weight_shift.patch); n >= 2^64, num_retained >= 2^32 and one compaction dropping more than 2^32 points '
               'are outside the model and not exercised; one compaction dropping 65999 points is exercised by the implementation-only family densitybigk',
               'self-merge (a.merge(a)) is not exercised here: it is a use-after-free in std::copy/back_inserter, left to C19',
               'the error guarantee of the coreset after compaction (discrepancy bound) is statistical and not claimed']

KINDS = {0: 'dyadic', 1: 'signed', 2: 'gaussian'}
DEEP_ESTIMATES = True   # get_estimate is queried at every depth since fix 13cf11e (1ULL << height)
                         # get_estimate computes its weight as (1 << height) in int: undefined from level 31 on (see ASSUMPTIONS); set to True
                         # once fixes/20_estimate_weight_shift.patch is applied, the deep cases then also query estimates at 32..45 levels

def kcode(rng, kind):
    """kernel code of a `new` op: kind + 4 * parameter; the harness kernels 0 and 1 get radius 20 - parameter as their STATE, handed to the
       sketch through the public constructor (a default-constructed harness kernel has a radius no script uses)"""
    return kind if kind == 2 else kind + 4 * rng.choice([0, 0, 3, 10, 15])

def pt(rng, dim, kind, far=0.1):
    if kind == 2:
        return [40 * rng.choice([0, 0, 0, 1, -1, 5]) for _ in range(dim)]
    if rng.random() < far:
        return [rng.choice([-60, 50, 90, rng.randrange(-100, 100)]) for _ in range(dim)]
    return [rng.randrange(-3, 4) for _ in range(dim)]

def gen_random(rng, ci, tier):
    ops = []; tags = set()
    kind = rng.choice([0, 0, 1, 2]); code = kcode(rng, kind)
    k = rng.choice([2, 2, 3, 4, 5, 8, 16]) if ci % 25 else 64
    dim = rng.choice([1, 2, 3]) if ci % 9 else 0
    far = rng.choice([0.0, 0.0, 0.1, 0.3, 1.0])
    nreg = rng.choice([1, 2, 3])
    ops.append([99, rng.randrange(1 << 30)])
    dims = {}
    for r in range(nreg):
        kk = k if rng.random() < 0.8 else rng.choice([2, 3, k + 1, 1, 0])
        dd = dim if rng.random() < 0.85 else rng.choice([0, 1, 2])
        ops.append([1, r, kk, dd, code])
        if kk >= 2:
            dims[r] = dd
    def query(r):
        # query point of the register's own dimension; rarely a wrong one (a SHORTER query is an out-of-bounds read in
        # gaussian_kernel, so it is only generated for the harness kernels here and once in the directed cases)
        d = dims.get(r, dim)
        q = pt(rng, d, kind, far)
        x = rng.random() if ci % 4 == 0 else 1.0
        if x < 0.03:
            q = q + [40 if kind == 2 else 1]
        elif x < 0.06 and kind != 2 and q:
            q = q[:-1]
        return q
    nupd = rng.choice([3, 10, 30, 80]) if tier == 'quick' else rng.choice([3, 10, 30, 80, 250])
    nu = nq = nm = 0
    for _ in range(nupd):
        x = rng.random(); r = rng.randrange(nreg)
        if x < 0.62:
            p = pt(rng, dim, kind, far)
            if rng.random() < 0.04:
                p = p + [40 if kind == 2 else 1] if rng.random() < 0.5 or not p else p[:-1]
            ops.append([2, r] + p); nu += 1
        elif x < 0.72:
            ops.append([3, r, rng.choice([x for x in range(nreg + 1) if x != r])]); nm += 1
        elif x < 0.82:
            ops.append([5, r] + query(r)); nq += 1
        elif x < 0.92:
            ops.append([4, r])
        elif x < 0.96:
            ops.append([6, r])
        elif dims.get(r, 0) > 0:
            r2 = rng.randrange(nreg)
            ops.append([7, r, r2])
            if r in dims: dims[r2] = dims[r]
    for r in range(nreg):
        ops.append([4, r]); ops.append([6, r])
        for _ in range(2):
            ops.append([5, r] + query(r)); nq += 1
    # pairwise merges at the end (merge adds n), then getters again
    for r in range(1, nreg):
        ops.append([3, 0, r]); nm += 1
    ops.append([4, 0]); ops.append([6, 0]); ops.append([5, 0] + query(0))
    if nm: tags.add('merge')
    if nu >= 2 * k: tags.add('compaction')
    if nu >= 8 and nq: tags.add('updates>=8')
    tags.add(KINDS[kind])
    return dict(id='r%d' % ci, ops=ops, tags=sorted(tags))

def gen_exact(rng, ci):
    """no compaction: fewer than k points in total; many queries (exact kernel mean)"""
    kind = rng.choice([0, 1, 2]); code = kcode(rng, kind)
    k = rng.choice([8, 16, 33, 64]); dim = rng.choice([1, 2, 3])
    ops = [[99, ci], [1, 0, k, dim, code], [1, 1, k, dim, code]]
    n = rng.randrange(1, k)
    for i in range(n):
        ops.append([2, rng.randrange(2)] + pt(rng, dim, kind, 0.1))
        if rng.random() < 0.3:
            ops.append([5, rng.randrange(2)] + pt(rng, dim, kind, 0.1))
    ops.append([3, 0, 1])
    for _ in range(6):
        ops.append([5, 0] + pt(rng, dim, kind, 0.1))
    ops += [[4, 0], [6, 0], [7, 0, 2], [4, 2], [5, 2] + pt(rng, dim, kind, 0.0)]
    return dict(id='x%d' % ci, ops=ops, tags=['exact', 'merge', KINDS[kind]])

def gen_near_gauss(rng, ci):
    """library Gaussian kernel at arbitrary (near) integer points, never compacting: estimates only finite and >= 0"""
    k = rng.choice([16, 32]); dim = rng.choice([1, 2, 3])
    ops = [[1, 0, k, dim, 2], [1, 1, k, dim, 2]]
    for i in range(rng.randrange(1, k - 1)):
        ops.append([2, rng.randrange(2)] + [rng.randrange(-3, 4) for _ in range(dim)])
    ops.append([3, 0, 1])
    for _ in range(5):
        ops.append([5, 0] + [rng.randrange(-4, 5) for _ in range(dim)])
    ops += [[4, 0], [6, 0], [4, 1]]
    return dict(id='g%d' % ci, ops=ops, tags=['near-gaussian', 'merge'])

def gen_directed(rng, ci):
    """scripted choices: all-zero or all-one bits/indices; far-apart points (kernel 0) or all-negative kernel"""
    mode = ci % 4
    k = rng.choice([2, 3, 4]); dim = rng.choice([1, 2])
    ops = []
    if mode == 0:      # kernel exactly 0 everywhere, first bit 0: a compaction drops every point
        kind = rng.choice([0, 2]); code = kcode(rng, kind)
        ops += [[1, 0, k, dim, code], [1, 1, k, dim, code], [1, 2, k, dim, code]]
        for i in range(k - 1):
            ops.append([2, 0] + [200 * (i + 1)] * dim)
        ops.append([2, 1] + [-200] * dim)
        ops.append([98] + [0] * (k + 2))
        ops += [[3, 0, 1], [4, 0], [6, 0], [5, 0] + [0] * dim, [2, 2] + [0] * dim, [3, 2, 0], [4, 2], [5, 2] + [0] * dim,
                [7, 0, 1], [4, 1]]
        tags = ['directed-drop-all', 'merge', 'compaction']
    elif mode == 1:    # signed kernel, odd first coordinates, first bit 1: every compaction promotes every point
        ops += [[1, 0, k, dim, kcode(rng, 1)]]
        for i in range(12 * k):
            ops.append([98] + [1] * (4 * k + 4))
            ops.append([2, 0] + [2 * rng.randrange(-2, 2) + 1] * dim)
        ops += [[4, 0], [6, 0], [5, 0] + [1] * dim]
        tags = ['directed-promote-all', 'compaction']
    elif mode == 2:    # deep: k = 2, many updates, random choices
        kind = rng.choice([0, 1, 2]); code = kcode(rng, kind)
        ops += [[99, ci], [1, 0, 2, dim, code], [1, 1, 2, dim, code]]
        for i in range(120):
            ops.append([2, i % 2 if i > 90 else 0] + pt(rng, dim, kind, 0.05))
            if i % 16 == 15:
                ops += [[4, 0], [6, 0], [5, 0] + pt(rng, dim, kind, 0.0)]
        ops += [[3, 1, 0], [4, 1], [6, 1], [3, 0, 1], [4, 0], [6, 0], [5, 0] + pt(rng, dim, kind, 0.0), [7, 0, 2], [4, 2], [6, 2]]
        tags = ['deep', 'merge', 'compaction', KINDS[kind]]
    else:              # wrong dimensions everywhere
        kind = 2 if ci == 3 else rng.choice([0, 1, 2]); code = kcode(rng, kind)
        ops += [[1, 0, k, 2, code], [1, 1, k, 3, code], [2, 0, 0, 0], [2, 0, 0], [2, 0, 0, 0, 0], [2, 0], [2, 1, 0, 0], [2, 1, 0, 0, 0],
                [3, 0, 1], [3, 1, 0], [4, 0], [4, 1], [1, 2, k, 7, code], [3, 0, 2], [3, 2, 0], [4, 0], [4, 2],
                [5, 0, 0, 0], [5, 0, 0, 0, 40], [5, 1, 0, 0, 0], [5, 1, 0, 0, 0, 0, 40]]
        if kind != 2 or ci == 3:
            ops.append([5, 1, 0])      # shorter query: with the Gaussian kernel an out-of-bounds read (sanitizer stop)
        tags = ['wrong-dim', 'merge']
    return dict(id='d%d' % ci, ops=ops, tags=tags)

def gen_big_n(rng, ci):
    """n beyond 32 bits in microseconds: b := copy of a; a.merge(b), 33..40 times (n doubles every time), n observed after every merge.
       Signed kernel with odd first coordinates and all-zero scripted choices: every compaction drops its whole level, so the retained
       count and the number of levels stay tiny while n grows; a few updates in between keep some points retained.  The copy is made by
       merging into a fresh sketch (even cases) or by serialize/deserialize (odd cases).  Then the big sketch is merged into a fresh
       and into a non-empty sketch, with getters, iteration and estimates."""
    k = rng.choice([2, 3, 4]); dim = rng.choice([1, 2]); kind = 1; code = kcode(rng, 1)
    def p():
        return [2 * rng.randrange(-3, 3) + 1] + [rng.randrange(-3, 4) for _ in range(dim - 1)]
    Z = [98] + [0] * 48
    ops = [[1, 0, k, dim, code]]
    for _ in range(rng.randrange(1, k + 1)):
        ops += [Z, [2, 0] + p()]
    rounds = rng.randrange(33, 41)
    for j in range(rounds):
        if ci % 2 == 0:
            ops += [[1, 1, k, dim, code], Z, [3, 1, 0]]
        else:
            ops += [[7, 0, 1]]
        ops += [Z, [3, 0, 1], [4, 0]]
        if rng.random() < 0.3:
            ops += [Z, [2, 0] + p(), [4, 0]]
        if j in (31, 32, rounds - 1):
            ops += [[4, 1], [6, 0], [5, 0] + p()]
    for _ in range(rng.randrange(0, k)):
        ops += [Z, [2, 0] + p()]
    ops += [[4, 0], [6, 0], [5, 0] + p(),
            [1, 2, k, dim, code], Z, [3, 2, 0], [4, 2], [6, 2], [5, 2] + p(),
            [1, 3, k, dim, code], Z, [2, 3] + p(), Z, [3, 3, 0], [4, 3], [6, 3], [5, 3] + p(),
            [7, 0, 1], [4, 1], [5, 1] + p()]
    return dict(id='b%d' % ci, ops=ops, tags=['big-n', 'merge', 'compaction', KINDS[kind]])

def gen_deep(rng, ci):
    """32..45 levels: k = 2 and the positive dyadic kernel on (nearly) identical points, so every compaction promotes about half of its
       level and the total weight is kept: merging the sketch with a copy of itself R times gives about R - 5 levels while only ~2 * levels
       points are retained.  The iteration (point, weight 2^level) and the getters are observed after every merge; estimates only while the
       sketch has fewer than 31 levels unless DEEP_ESTIMATES.  Random (hooked) choices."""
    dim = rng.choice([1, 2]); code = kcode(rng, 0)
    def p():
        return [rng.choice([0, 0, 0, 1]) for _ in range(dim)]
    ops = [[99, rng.randrange(1 << 30)], [1, 0, 2, dim, code]]
    for _ in range(rng.randrange(1, 4)):
        ops.append([2, 0] + p())
    rounds = rng.randrange(40, 47)
    for j in range(rounds):
        if ci % 2 == 0:
            ops += [[1, 1, 2, dim, code], [3, 1, 0]]
        else:
            ops += [[7, 0, 1]]
        ops += [[3, 0, 1], [4, 0], [6, 0]]
        if j % 7 == 3:
            ops += [[2, 0] + p()]
        if (j < 24 and j % 5 == 0) or (DEEP_ESTIMATES and j >= 36):
            ops += [[5, 0] + p()]
    ops += [[1, 2, 2, dim, code], [2, 2] + p(), [3, 2, 0], [4, 2], [6, 2], [7, 2, 3], [4, 3], [6, 3]]
    if DEEP_ESTIMATES:
        ops += [[5, 2] + p(), [5, 3] + p()]
    return dict(id='L%d' % ci, ops=ops, tags=['deep-levels', 'merge', 'compaction', 'dyadic'])

def gen_big_k(rng, tier):
    """implementation-only family: ONE compaction that drops more than 65535 points.  Two exact-mode sketches of k = 33000 points each, all
       66000 points at mutual distance >= 1000 (kernel exactly 0 between any two), merged: the single compaction of level 0 keeps at most one
       point.  The list-based model is not run on this size; the oracle checks the property predicates on the implementation's outputs."""
    k = 33000
    ops = [[99, rng.randrange(1 << 30)], [1, 0, k, 1, 0], [1, 1, k, 1, 0], [12, 0, k, 0, 1000], [12, 1, k, -1000, -1000],
           [4, 0], [4, 1], [3, 0, 1], [4, 0], [6, 0], [5, 0, 0], [2, 0, 500], [4, 0], [6, 0]]
    return [dict(id='K0', ops=ops, tags=['big-k', 'merge', 'compaction'], fed={0: k, 1: k})]

def oracle_big_k(case, irecs, mrecs):
    fails = []
    def fail(sig, what, i):
        fails.append(dict(sig=sig, what=what, op_index=i))
    fed = {}
    for i, op in enumerate(case['ops']):
        if i >= len(irecs):
            break
        R = irecs[i]['R']; F = irecs[i].get('F'); c = op[0]
        if c == 12 and R == [1]: fed[op[1]] = fed.get(op[1], 0) + op[2]
        elif c == 2 and R == [1]: fed[op[1]] = fed.get(op[1], 0) + 1
        elif c == 3 and R == [1]: fed[op[1]] = fed.get(op[1], 0) + fed.get(op[2], 0)
        elif c in (2, 3, 12) and R != [1]:
            fail('update_refused', 'operation %s refused' % op[:3], i)
        elif c == 4 and R != [-1]:
            n, ret, est, empty, k, dim = R[:6]
            if n != fed.get(op[1], 0):
                fail('n_exact', 'n = %d but %d points were fed' % (n, fed.get(op[1], 0)), i)
            if F and ret > k * F[0]:
                fail('retained_bound', 'num_retained %d > k %d * levels %d at rest' % (ret, k, F[0]), i)
        elif c == 6 and R != [-1]:
            ret, cnt = R[0], R[1]
            if ret != cnt:
                fail('retained_vs_iteration', 'num_retained %d but iteration yields %d points (one compaction dropped %d points)' %
                     (ret, cnt, 66000 - cnt), i)
            levels = F[0] if F else 1
            for w in R[2::2]:
                if w <= 0 or (w & (w - 1)) or w >= (1 << levels):
                    fail('iteration_weight', 'iterator weight %d is not 2^level for a level below %d' % (w, levels), i); break
        elif c == 5 and R == [1] and F:
            v = dbl(F[0])
            if v != v or v < 0 or v == float('inf'):
                fail('estimate_negative_or_nonfinite', 'estimate %r' % v, i)
    return fails

def gen(rng, tier):
    q = tier == 'quick'
    cases = []
    for ci in range(500 if q else 6000):
        cases.append(gen_random(rng, ci, tier))
    for ci in range(120 if q else 1500):
        cases.append(gen_exact(rng, ci))
    for ci in range(30 if q else 300):
        cases.append(gen_near_gauss(rng, ci))
    for ci in range(48 if q else 400):
        cases.append(gen_directed(rng, ci))
    for ci in range(8 if q else 40):
        cases.append(gen_big_n(rng, ci))
    for ci in range(6 if q else 30):
        cases.append(gen_deep(rng, ci))
    return cases

def dbl(bits):
    return struct.unpack('<d', struct.pack('<Q', bits & 0xFFFFFFFFFFFFFFFF))[0]

def oracle(case, irecs, mrecs):
    """Property predicates of C20 evaluated on the implementation's outputs; ground truth (S lines) from the Coq model's ghost state."""
    fails = []
    regs = {}   # register -> (k, dim, kind) as accepted by the implementation
    deser = set()   # registers produced by deserialization and not updated since: the reader drops trailing empty levels, so the
                    # bound retained <= k * levels (a statement about update/merge) is only re-established by the next update (C09 matter)
    def fail(sig, what, i):
        fails.append(dict(sig=sig, what=what, op_index=i))
    # Gaussian registers fed with off-lattice coordinates: estimates go through libm, values are not compared
    offlat = any(op[0] in (2, 5) and any(c % 40 for c in op[2:]) for op in case['ops'])
    for i, op in enumerate(case['ops']):
        if i >= len(irecs) or i >= len(mrecs):
            break
        R = irecs[i]['R']; F = irecs[i].get('F'); S = mrecs[i].get('S')
        c = op[0]
        if i > 0 and irecs[i - 1]['R'] != mrecs[i - 1]['R'] and case['ops'][i - 1][0] not in (4, 5, 6, 8):
            break       # implementation and model diverged at a state-changing operation: the model's ground truth no longer describes this history
        if c == 1 and R == [1] and len(op) >= 5:
            regs[op[1]] = (op[2], op[3], op[4] % 4); deser.discard(op[1])
        elif c == 7 and R == [1] and op[1] in regs:
            regs[op[2]] = regs[op[1]]; deser.add(op[2])
        elif c == 2 and op[1] in regs:
            k, dim, kind = regs[op[1]]
            if len(op) - 2 != dim and R != [-1]:
                fail('update_wrong_dim_accepted', 'update with a point of %d coordinates accepted by a sketch of dimension %d' % (len(op) - 2, dim), i)
            if len(op) - 2 == dim and R != [1]:
                fail('update_refused', 'update with a point of the configured dimension refused', i)
            if R == [1]:
                deser.discard(op[1])
        elif c == 4 and R != [-1] and S and len(R) >= 6:
            n, ret, estmode, empty, k, dim = R[:6]
            true_n, lost, comp, _ = S
            if n != true_n:
                if op[1] in deser and n == 0 and ret == 0:
                    fail('roundtrip_drops_n_zero_retained',
                         'after serialize/deserialize n = 0 but the sketch had n = %d: a sketch whose compactions dropped every point '
                         '(num_retained 0) is written as empty' % true_n, i)
                elif lost > 0 and n == true_n - lost:
                    fail('merge_ignores_source_with_zero_retained',
                         'n = %d but %d points were fed (updates + merged sketches): merge() skipped a source whose num_retained was 0 '
                         'although its n was %d (is_empty() tests num_retained; a compaction had dropped all its points)' % (n, true_n, lost), i)
                else:
                    fail('n_exact', 'n = %d but %d points were fed (updates + merged sketches)' % (n, true_n), i)
            if F and ret > k * F[0] and op[1] not in deser:
                fail('retained_bound', 'num_retained %d > k %d * levels %d at rest' % (ret, k, F[0]), i)
        elif c == 6 and R != [-1] and len(R) >= 2:
            ret, cnt = R[0], R[1]
            if F and len(F) >= 3 and F[2]:
                fail('iteration_walks_differ', 'walking the sketch by %s exposes other (point, weight) pairs than walking it by ++it' %
                     {1: 'it++', 2: '*it++', 3: 'range-for'}.get(F[2], '?'), i)
            if ret != cnt:
                fail('retained_vs_iteration', 'num_retained %d but iteration yields %d points' % (ret, cnt), i)
            if op[1] in regs and F:
                dim = regs[op[1]][1]; levels = F[0]
                ws = R[2::dim + 1] if cnt else []
                for w in ws:
                    if w <= 0 or (w & (w - 1)) or w >= (1 << levels):
                        fail('iteration_weight', 'iterator weight %d is not 2^level for a level below %d' % (w, levels), i); break
                if ret > F[1] * levels and op[1] not in deser:
                    fail('retained_bound', 'num_retained %d > k %d * levels %d at rest' % (ret, F[1], levels), i)
        elif c == 5 and op[1] in regs and S:
            k, dim, kind = regs[op[1]]
            num, den, absnum, terms, exnum, exden, comp, _ = S
            if len(op) - 2 != dim:
                if R != [-1] and exden > 0:
                    fail('estimate_wrong_dim_not_refused', 'get_estimate with a query point of %d coordinates on a sketch of dimension %d is not '
                         'refused (no dimension check in get_estimate; a shorter query is read out of bounds by the kernel)' % (len(op) - 2, dim), i)
                continue
            if R == [-1]:
                if exden > 0:
                    if terms == 0:
                        fail('estimate_refused_zero_retained', 'get_estimate throws "undefined for an empty sketch" although %d points were fed: '
                             'num_retained is 0 after a compaction dropped every point' % (exden // 1048576), i)
                    else:
                        fail('estimate_refused', 'get_estimate refused on a sketch holding %d points' % terms, i)
                continue
            if not F:
                fail('estimate_missing', 'no estimate value', i); continue
            v = dbl(F[0])
            if v != v or v in (float('inf'), float('-inf')):
                fail('estimate_negative_or_nonfinite', 'estimate is not finite', i); continue
            if kind != 1 and v < 0:
                fail('estimate_negative_or_nonfinite', 'estimate %r < 0 for a non-negative kernel' % v, i); continue
            if kind == 2 and offlat:
                continue
            if den <= 0:
                continue
            fv = Fraction(v)
            tol = Fraction(terms + 2, 2 ** 52) * Fraction(absnum, den)
            if not comp and exden > 0:
                if abs(fv - Fraction(exnum, exden)) > tol:
                    fail('exact_mean_before_compaction', 'no compaction yet, estimate %r differs from the exact kernel mean %s over the %d inputs' %
                         (v, Fraction(exnum, exden), exden // 1048576), i); continue
            if abs(fv - Fraction(num, den)) > tol:
                fail('estimate_value', 'estimate %r differs from sum 2^level K(p,q) / n = %s over the retained points' % (v, Fraction(num, den)), i)
    return fails

def crash_sig(case, text):
    """a sanitizer stop inside the kernel's inner_product while the case asks for an estimate at a point shorter than the
       dimension of a Gaussian sketch is the out-of-bounds form of the known missing dimension check in get_estimate"""
    dims = {}
    short = False
    for op in case['ops']:
        if op[0] == 1 and len(op) >= 5 and op[2] >= 2:
            dims[op[1]] = (op[3], op[4] % 4)
        elif op[0] == 7 and op[1] in dims:
            dims[op[2]] = dims[op[1]]
        elif op[0] == 5 and op[1] in dims and dims[op[1]][1] == 2 and len(op) - 2 < dims[op[1]][0]:
            short = True
    if short and ('inner_product' in text or 'stl_numeric' in text or 'stl_iterator' in text):
        return 'estimate_wrong_dim_not_refused'
    return None

FAMILIES = [dict(name='density', harness='drv_density.cpp', extract='Extract_density.v', model='model_density', gen=gen, oracle=oracle,
                 impl_timeout=120,   # a quick run takes ~10 s; a compaction loop that never terminates must be reported promptly
                
                 crash_sig=crash_sig),
            # implementation-only (no model run: k = 33000): one compaction dropping > 65535 points; oracle predicates only
            dict(name='densitybigk', harness='drv_density.cpp', extract=None, gen=gen_big_k, oracle=oracle_big_k, cxx_flags='-O2 -fno-sanitize=all', impl_timeout=300)]

MANIFEST = dict(
    level_text=('Theorems (coq/Properties_C20.v, 19, axiom-free) about an executable model of density_sketch (the code with the repairs fixes/20_is_empty_n and '
                'fixes/20_estimate_dim_check; the old behaviour is kept as refuted statements in coq/Regression_density.v) for ANY kernel into Z, any merge tree of '
                'updates and ANY sequence of internal choices: n exact and every accepted merge adds n; num_retained = sum of level sizes = length of the iteration, '
                'iteration weights are 2^level, retained points are input points of the configured dimension; num_retained <= k * levels at rest; wrong-dimension '
                'updates, merges and queries refused; the compaction loops terminate (fuel never exhausted); the estimate is defined whenever n > 0 (also when the '
                'compactions dropped every point), equals the exact kernel mean over the inputs while there is one level, equals (sum over the iteration of weight * K) / n '
                'after any compactions and merges, and is >= 0 for a non-negative kernel. The model is tied to density_sketch_impl.hpp by running both on the same generated '
                'scripts with the hooked choices replayed (n, retained, flags, sorted iteration compared exactly; the double estimate compared with the model rational within '
                'the rounding bound) and by evaluating the property predicates on the implementation outputs. Serialization of the sketch: checks/fam_densitycodec.py (C09, C11).'),
    level_note=('Trusted: Coq kernel; hand-written model validated only by the correspondence runs; choices read from the hook; harness kernels exact '
                'dyadic; Gaussian kernel only on lattice points (exp = 0/1) for values, elsewhere finite/non-negative only; counter overflow and >30 levels '
                'not modelled; floating-point rounding of get_estimate bounded, not modelled; coreset error guarantee not claimed (the iterator weights need not add up to n: '
                'Example C20_weights_need_not_sum_to_n); self-merge left to C19.'),
    design_ref='DESIGN.md section 5 C20')
