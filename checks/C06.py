# C06 — distinct-count estimates and their confidence bounds are consistent (Theta, Tuple, HLL, CPC, shared estimator functions)
#
# Mutations confirmed caught (scratch worktree /tmp/wt_bounds, VERIF_REPO, quick tier; each printed VIOLATION):
#  M1  binomial_bounds::get_lower_bound: `std::min(estimate, std::max(n, lb))` -> `lb`            (oracle bb_lb_below_retained + transcript)
#  M2  lb_equiv_table index `3*n + (sd-1)` -> `3*n + sd` (off by one)                              (oracle bb_widen + transcript)
#  M3b evaluate_polynomial loop `j >= start` -> `j > start` (ICON constant coefficient dropped)     (transcript: bit-exact ICON polynomial)
#  M4  HllArray::getLowerBound numNonZeros = configK - numAtCurMin_ even when curMin_ > 0          (oracle hll_lb_below_count + transcript)
#  M5  compute_approx_binomial_upper_bound: `if (theta == 1) return n` removed                      (oracle bb_exact / sk_exact)
#  M5b theta get_upper_bound: `if (!is_estimation_mode()) return get_num_retained()` removed       (oracle sk_exact on an empty sketch with p < 1)
#  M6  one lb_equiv_table entry with two digits swapped (3.8678.. -> 3.6878..)                      (proof obligation C06_tables_pinned)
#  M7  get_hip_confidence_lb: `if (result < check) result = check` removed                          (transcript; oracle cpc_lb_below_coupons)
#  M8  get_icon_confidence_lb reading ICON_LOW_SIDE_DATA instead of ICON_HIGH_SIDE_DATA            (transcript on cpc union results)
#  M10 tuple get_upper_bound(sd, subset): `std::min(num_subset_entries, get_num_retained())` removed (oracle sk_exact / transcript)
# Seeded changes (lib/seedrun.py): C06-1 exact-tail upper bound reading delta_of_num_std_devs[sd-1] -> CAUGHT (bit-exact exact-tail model given
#  pow(theta,n) from the environment + oracle bb_exact_tail_ub: binomial tail at the bound does not bracket delta, exact rationals);
#  C06-2 getCompositeEstimate finalY = yStride * xArrLen -> CAUGHT (bit-exact composite model on the translated CompositeInterpolationXTable
#  + oracle hll_composite_jump_at_table_end); C06-3 get_icon_confidence_ub reading HIP_LOW_SIDE_DATA -> CAUGHT.
#  C02-6 (bounds_on_ratios_in_theta_sketched_sets::upper_bound_for_b_over_a taking f from sketch A) -> CAUGHT by C06 (ops 12/13: the model chooses
#  (count_a, count_b, f = theta(B)) and kappa = 2*hacky_adjuster(f) bit-exactly; the exp/pow part comes through the environment at that kappa).
#  C06-12 (ICON threshold compared with c/(2k)) -> CAUGHT: branch selection and the exponential branch (given pow(2, c/k)) are modelled bit-exactly,
#  grid straddles 5.6k/5.7k/11.4k, oracle icon_not_monotone / icon_jump_at_threshold / icon_below_coupons.
# NOT observable (equivalent mutant, reported): M3 "ICON clamp removed" (`if (result >= c) return result; else return c` -> `return result`):
#  an exhaustive scan of lg_k 4..26 x every coupon count of the polynomial branch (up to 3*10^6) shows the clamp never fires, so no
#  output changes; the clamp itself is covered by theorem C06_clamps_never_below_count.
# Harmless rewrites confirmed tolerated (one run with all four, exit 0): H1 the min/max clamp written as explicit comparisons;
#  H2 table entries written with more / fewer decimal digits that round to the same double; H3 commuted factors and summands in
#  cont_classic_lb; H4 HllArray::getLowerBound with numNonZeros computed as an integer first, statements reordered, fmax arguments swapped.
import struct, math, os, sys
from fractions import Fraction
sys.path.insert(0, os.path.join(os.path.dirname(os.path.abspath(__file__)), '..', 'translators'))
PROP = "C06"
READY = True
COQ_PROPS = ['Properties_C06']
TRANSLATORS = ['gen_boundtables']
RULE = ('ENUMERATION over the implementation (not proof): the real functions are called on a dense grid and the property predicates '
        '(lb <= estimate <= ub for 1,2,3 std devs; the interval widens with the number of std devs; exact outside estimation mode; '
        'estimate >= retained/coupon count where the code clamps) are evaluated on the implementation outputs. Grid: binomial_bounds on '
        'num_samples 0..400 and powers of two (+-1) up to 2^26, 2^32+1, 2^53+1 x theta on ~400 points per tier-sample (k/360 borders and '
        'their neighbours, 1-1e-5 and neighbours, 1, nextbelow(1), log-spaced down to 1e-12, uniform, random); argument validation; '
        'compact theta/tuple sketches built with chosen (retained, theta64, empty, subset size); real theta/tuple update sketches, '
        'compact forms, unions, intersections, A-not-B fed distinct keys across the exact/estimation boundary with sampling '
        'probabilities 1, 0.5, 0.1, 0.001; hll get_rel_err on every (lg_k 3..22, sd, side, unioned); hll sketches of the three register '
        'widths fed streams across LIST/SET/HLL boundaries, union results, HllArray with overwritten estimator registers; '
        'out-of-order HllArrays with overwritten kxq registers (raw estimates below, inside and beyond the composite interpolation '
        'table for each lg_k, a continuity pair at the table end); the defining bracket of the exact binomial tails checked in exact '
        'rational arithmetic for small sample counts; compute_icon_estimate on (lg_k 3..27, coupon counts around k/2, k, 27k/8, 5.6k, 5.7k, 20k); cpc sketches and union results, '
        'cpc sketch with overwritten estimator registers; bounds_binomial_proportions. '
        'bounds_on_ratios_in_sampled_sets on an (a, b, f) grid and the theta-sketched wrapper on theta/tuple sketch pairs (B = A n C, A, A \\ C with C '
        'at a smaller k; A exact or in estimation mode, theta(B) < theta(A)): 0 <= lb <= est <= ub <= 1, exact for f = 1. '
        'BIT-EXACT comparison with the extracted binary64 model wherever only + - * / sqrt, comparisons, ceil and table lookups are '
        'used (clamps of every type, the whole of binomial_bounds except its two log branches — cont_classic bounds, table branches and the exact-tail loops given pow(theta,n) —, HllArray::getCompositeEstimate given the bitmap estimate, rel-err, cpc eps, ICON polynomial, coupon cubic interpolation, erf/normal_cdf); '
        'non-trivial = the case reaches an estimation-mode / table / clamp branch')
TRUSTED = ['tables and constants are regenerated from the headers by translators/gen_boundtables.py (python float() = correctly rounded '
           'decimal->binary64 conversion, as the C++ compiler does); the side-condition theorems are re-checked on them in every run',
           'values that go through log/pow/exp (binomial bounds for 1 sample / 0 samples, pow(theta,n) of the exact tail sums, the HLL bitmap '
           'estimate, ICON exponential branch) are read from the implementation and passed to the model as inputs; the ordering theorems hold for '
           'ANY value in their place',
           'extraction of primitive floats/ints: ExtrOCamlFloats, ExtrOCamlInt63 (coq-core kernel Float64/Uint63), coq/FloatBits.v; '
           'C library fmax/ceil/sqrt modelled by their IEEE-754 definitions (fmax as in glibc for quiet NaNs)',
           'stdlib axioms used by the binary64 theorems: the FloatAxioms specification of primitive floats (ltb_spec, leb_spec, '
           'eqb_spec, div_spec, of_uint63_spec, Prim2SF/SF2Prim round trip) and the Uint63 axioms they mention',
           'harness compiled with -ffp-contract=off on x86-64 SSE2 (no fused multiply-add, no x87 excess precision)']
ASSUMPTIONS = ['NOT claimed (not decidable by this technique): negligible bias of the estimators, spread <= published RSE, coverage of the '
               'intervals at the nominal confidence; monotone widening across the approximation branches as a theorem (it is only '
               'enumerated on the grid); every value that goes through pow/log/exp beyond the ordering clamps',
               'theorems about the HLL/CPC/coupon clamps with the relative-error divisions are over exact rational arithmetic '
               '(instance qops); the binary64 instance of the same definitions is tied to the code by bit-exact replay. The Theta/Tuple '
               'ordering and exact-mode theorems are about binary64 itself (all floats incl. NaN/inf)',
               'theta = 0 and NaN arguments are outside the property domain (sampling probabilities in (0,1]); they are replayed '
               'bit-exactly but the ordering predicates are not evaluated there',
               'num_samples below 2^63']

def d2b(x):
    return struct.unpack('<Q', struct.pack('<d', x))[0]
def b2d(b):
    return struct.unpack('<d', struct.pack('<Q', b & (2**64 - 1)))[0]
def f2b(x):
    return struct.unpack('<I', struct.pack('<f', x))[0]
def nxt(x, k=1):
    b = d2b(x)
    return b2d(b + k)

MAXT = 2**63 - 1

_TABLES = {}
def tables():
    """x arrays of CompositeInterpolationXTable and delta_of_num_std_devs, parsed from the checked tree by the translator's parser"""
    if not _TABLES:
        import gen_boundtables as gbt, vlib
        def src(rel):
            return gbt.drop_ifdef(gbt.strip_comments(open(os.path.join(vlib.REPO, rel)).read()), 'LARGER_K_VALUES')
        try:
            _TABLES['x'] = [[float(e) for e in row] for row in gbt.find_array2d(src('hll/include/CompositeInterpolationXTable-internal.hpp'), 'xArray', 'double')]
            _TABLES['delta'] = [float(e) for e in gbt.find_array(src('common/include/binomial_bounds.hpp'), 'delta_of_num_std_devs', 'double')]
        except Exception:
            _TABLES['x'] = []; _TABLES['delta'] = []
    return _TABLES
SQ = 1 - 1e-5

def theta_points(rng, n, count):
    """theta values aimed at the branch borders of binomial_bounds for this n"""
    pts = [1.0, nxt(1.0, -1), SQ, nxt(SQ, 1), nxt(SQ, -1), nxt(SQ, -2), 0.5, 1e-12, 1e-9, 1e-6, 1e-3, 0.999, 0.9999, 0.99999, 0.999999]
    if n > 0:
        b = n / 360.0
        if b <= 1.0:
            pts += [b, nxt(b, 1), nxt(b, -1), nxt(b, 2), nxt(b, -2), b * 1.001, b * 0.999]
        pts += [min(1.0, n / 500.0), min(1.0, n / 499.0), min(1.0, (n + 1) / 360.0)]
    for _ in range(count):
        k = rng.random()
        if k < 0.25:
            pts.append(rng.randrange(1, 121) / 360.0)
        elif k < 0.5:
            pts.append(10.0 ** rng.uniform(-12, 0))
        elif k < 0.75:
            pts.append(rng.uniform(0.003, 1.0))
        elif k < 0.9 and n > 0:
            pts.append(min(1.0, max(1e-300, n / 360.0 * rng.uniform(0.5, 3.0))))
        else:
            pts.append(float(rng.randrange(1, MAXT)) / float(MAXT))
    return [p for p in pts if 0 < p <= 1.0]

def all_theta_grid():
    pts = [k / 360.0 for k in range(1, 121)]
    pts += [nxt(k / 360.0, 1) for k in range(1, 121)] + [nxt(k / 360.0, -1) for k in range(1, 121)]
    pts += [i / 40.0 for i in range(1, 41)]
    return pts

def n_values():
    ns = list(range(0, 401))
    for e in range(9, 27):
        ns += [2**e - 1, 2**e, 2**e + 1]
    ns += [2**32 + 1, 2**53 + 1, 2**62]
    return ns

def gen_bb(rng, tier):
    cases = []
    per = 45 if tier == 'quick' else 300
    grid = all_theta_grid() if tier != 'quick' else []
    for n in n_values():
        th = theta_points(rng, n, per) + grid
        if n % 50 == 7:
            th += [0.0]             # outside the domain: replayed bit-exactly, predicates skipped
        ops = [[1, n, d2b(t)] for t in th]
        tags = ['bb']
        if 2 <= n <= 120: tags.append('bb-table-range')
        if n > 120: tags.append('bb-gaussian')
        cases.append(dict(id='bb%d' % n, ops=ops, tags=tags))
    # argument validation
    ops = []
    for n in [0, 1, 5, 200]:
        for t in [0.5, 1.0, nxt(1.0, 1), 2.0, -0.0, -1e-300, -1.0, float('inf'), 1e-300]:
            for sd in [0, 1, 2, 3, 4, 255, 2**31]:
                ops.append([2, n, d2b(t), sd])
    cases.append(dict(id='bbargs', ops=ops, tags=['validation']))
    return cases

def gen_sketch_state(rng, tier):
    cases = []
    reps = 1 if tier == 'quick' else 6
    for rep in range(reps):
        ops = []
        for n in [0, 1, 2, 3, 60, 119, 120, 121, 122, 361, 4096, rng.randrange(2, 121), rng.randrange(121, 6000)]:
            th = [MAXT, MAXT - 1, MAXT - 511, MAXT - 512, MAXT - 513, MAXT - 1025, 2**62, 2**62 + 1, 2**40, rng.randrange(2**50, MAXT),
                  rng.randrange(2**62, MAXT), int(SQ * 2**63), int(SQ * 2**63) + 2048, int(SQ * 2**63) - 2048]
            if 0 < n <= 120:
                b = int(n / 360.0 * 2**63)
                th += [b, b + 1024, b - 1024, b + 4096]
            for t64 in th:
                if t64 <= n:
                    continue
                kind = rng.choice([0, 1])
                m = n if kind == 0 else rng.choice([n, n, n // 2, 0, 1, n + 5, max(0, n - 1), min(n, 120), min(n, 121)])
                ops.append([3, kind, n, t64, 0, m])
            ops.append([3, 0, 0, MAXT, 1, 0]); ops.append([3, 1, 0, 2**62, 1, 0]); ops.append([3, 0, 0, 2**62, 1, 0])
        cases.append(dict(id='skstate%d' % rep, ops=ops, tags=['sketch-state', 'estimation-mode']))
    return cases

def gen_sketch_real(rng, tier):
    cases = []
    reps = 1 if tier == 'quick' else 8
    cid = 0
    for rep in range(reps):
        for lgk in ([5, 8, 12] if tier == 'quick' else [5, 6, 8, 10, 12]):
            k = 1 << lgk
            ops = []
            for p in [1.0, 0.5, 0.1, 0.001]:
                for na in [0, 1, 2, k - 1, k, k + 1, 2 * k - 1, 2 * k, 2 * k + 1, 8 * k + 3, min(40 * k, 60000) + rng.randrange(100)]:
                    kind = rng.choice([0, 1]); seed = rng.randrange(1, 2**20)
                    setop = rng.choice([0, 0, 1, 2, 2, 3, 4])
                    nb = rng.choice([0, 1, k // 2, k, 3 * k]) if setop >= 2 else 0
                    ov = rng.choice([0, min(na, nb) // 2, min(na, nb)]) if setop >= 2 else 0
                    m = rng.choice([2**31, 2**31, 0, 1, k // 3, 100]) if kind == 1 else 2**31
                    ops.append([4, kind, setop, lgk, f2b(p), na, nb, ov, seed, m])
            cases.append(dict(id='skreal%d' % cid, ops=ops, tags=['sketch-real', 'lgk%d' % lgk])); cid += 1
    return cases

def gen_hll(rng, tier):
    cases = []
    ops = []
    for lgk in range(3, 23):
        for upper in (0, 1):
            for ooo in (0, 1):
                for sd in (1, 2, 3):
                    ops.append([5, upper, ooo, lgk, sd])
    cases.append(dict(id='hllrelerr', ops=ops, tags=['hll-relerr']))
    ops = []
    for ty in (0, 1, 2):
        ops += [[6, 1, 4, 6, 4, ty, 48, 5, 0, 11 + ty], [6, 1, 7, 9, 7, ty, 128, 5, 2, 21 + ty], [6, 1, 9, 11, 9, ty, 1536, 5, 0, 31 + ty],
                [6, 1, 8, 10, 8, ty, 900, 40, 7, 41 + ty]]
    cases.append(dict(id='hllunion_downsample', ops=ops, tags=['hll-union-downsample']))
    lgks = [4, 5, 7, 8, 10, 12, 13, 14] if tier == 'quick' else [4, 5, 6, 7, 8, 9, 10, 11, 12, 13, 14, 16, 18]
    cid = 0
    for lgk in lgks:
        k = 1 << lgk
        thr = (3 * (1 << max(lgk - 3, 0))) // 4 if lgk >= 8 else 8     # set->hll promotion (list->hll below lg_k 8)
        ops = []
        for ty in (0, 1, 2):
            ns = [0, 1, 2, 7, 8, 9, thr - 1, thr, thr + 1, thr + 2, k // 2, k, 2 * k + 1, min(12 * k, 150000)]
            if tier != 'quick':
                ns += [rng.randrange(1, 4 * k) for _ in range(6)]
            for n in sorted(set(x for x in ns if x >= 0)):
                ops.append([6, 0, lgk, ty, n, rng.randrange(1, 2**20)])
            for _ in range(3 if tier == 'quick' else 8):
                lga = rng.choice([lgk, lgk, max(4, lgk - 1), min(21, lgk + 2)]); lgb = rng.choice([lgk, max(4, lgk - 2), min(21, lgk + 1)])
                na = rng.choice([0, 3, thr + 3, k, 3 * k]); nb = rng.choice([0, 5, thr + 1, k // 2, 2 * k])
                ov = rng.choice([0, min(na, nb) // 2])
                ops.append([6, 1, lgk, lga, lgb, ty, na, nb, ov, rng.randrange(1, 2**20)])
            # overwritten estimator registers (HIP mode: hip >= number of non-zero registers is the reachable invariant)
            for cur_min, num_at in [(0, k), (0, k - 1), (0, k // 2), (0, 1), (0, 0), (1, k // 2), (3, 1)]:
                if ty != 0 and cur_min != 0:
                    continue
                nnz = k - num_at if cur_min == 0 else k
                for hip in [float(nnz), nnz + 0.5, nnz * 1.0000001 + 1e-9, nnz * 1.5 + 1, k * 20.0, 1e12]:
                    ops.append([6, 2, lgk, ty, cur_min, num_at, 0, d2b(hip)])
            ops.append([6, 2, lgk, ty, 255, 0, 1, 0])       # out-of-order flag only: composite estimator on the real registers
        cases.append(dict(id='hll%d' % cid, ops=ops, tags=['hll', 'lgk%d' % lgk])); cid += 1
    return cases

def hll_cf(lgk):
    k = float(1 << lgk)
    return {4: 0.673, 5: 0.697, 6: 0.709}.get(lgk, 0.7213 / (1.0 + (1.079 / k)))

def gen_composite(rng, tier):
    """out-of-order HllArray with overwritten kxq registers: raw estimates below, inside and beyond the interpolation table"""
    xs = tables()['x']
    cases = []
    lgks = [4, 5, 6, 7, 8, 9, 10, 11, 12, 13] if tier == 'quick' else list(range(4, 20))
    for lgk in lgks:
        if lgk - 4 >= len(xs) or len(xs[lgk - 4]) < 8:
            continue
        x = xs[lgk - 4]; k = 1 << lgk; cf = hll_cf(lgk)
        targets = [x[0] * 0.999, x[0] * (1 - 1e-12), x[0], x[0] * (1 + 1e-12), x[0] * 1.001, x[1], (x[1] + x[2]) / 2, x[2] * 1.0001,
                   x[len(x) // 2] * 1.0001, x[-3] * 1.00001, x[-2], x[-2] * 1.00001, x[-1] * (1 - 1e-12), x[-1],
                   x[-1] * 1.5, x[-1] * 100.0, 2.5 * k, 2.9 * k, 3.0 * k, 3.1 * k, 3.5 * k, 0.8 * k, 1.0 * k, 1.2 * k, 1.5 * k, 2.0 * k]
        targets += [x[0] * math.exp(rng.uniform(-0.2, math.log(4 * x[-1] / x[0]))) for _ in range(8 if tier == 'quick' else 40)]
        ops = []
        def poke(t, tag=0):
            kxq = cf * k * k / t
            kxq1 = rng.choice([0.0, 0.0, 2.0 ** -40, kxq * 2.0 ** -30])
            num_at = max(0, min(k, int(round(k * math.exp(-t / k)))))
            ops.append([6, 3, lgk, 2, 0, num_at, d2b(kxq - kxq1), d2b(kxq1), tag])
        for t in targets:
            poke(t)
        # continuity at the end of the table: raw just below and just above xArr[last]
        poke(x[-1] * (1 - 1e-9), 1); poke(x[-1] * (1 + 1e-9), 2)
        cases.append(dict(id='composite%d' % lgk, ops=ops, tags=['hll-composite', 'lgk%d' % lgk]))
    return cases

def gen_icon(rng, tier):
    cases = []
    for lgk in range(3, 28):
        k = 1 << lgk
        cs = [0, 1, 2, 3, 4, k // 2, k - 1, k, k + 1, 2 * k, (27 * k) // 8, 3 * k, 4 * k, 5 * k,
              int(5.6 * k) - 1, int(5.6 * k), int(5.6 * k) + 1, int(5.6 * k) + 2, int(5.7 * k) - 1, int(5.7 * k), int(5.7 * k) + 1, int(5.7 * k) + 2,
              6 * k, 10 * k, 20 * k]
        for r in (5.5, 5.59, 5.6, 5.61, 5.69, 5.7, 5.71, 6, 8, 11.3, 11.4, 11.5, 20):
            cs += [int(r * k) - 1, int(r * k), int(r * k) + 1, int(r * k) + 2]
        cs += [rng.randrange(2, 6 * k) for _ in range(20 if tier == 'quick' else 400)]
        cs += list(range(2, 40))
        ops = [[7, lgk, c] for c in sorted(set(c for c in cs if 0 <= c < 2**32))]
        cases.append(dict(id='icon%d' % lgk, ops=ops, tags=['icon']))
    return cases

def gen_cpc(rng, tier):
    cases = []
    lgks = [4, 5, 8, 10, 11, 12] if tier == 'quick' else [4, 5, 6, 7, 8, 9, 10, 11, 12, 13, 14, 15, 16]
    for lgk in lgks:
        k = 1 << lgk
        ops = []
        ns = [0, 1, 2, 3, (3 * k) // 32, (3 * k) // 32 + 1, k // 2, k, (27 * k) // 8 + 1, min(10 * k, 120000), min(50 * k, 150000)]
        if tier != 'quick':
            ns += [rng.randrange(1, 8 * k) for _ in range(6)]
        for n in sorted(set(ns)):
            ops.append([8, 0, lgk, n, rng.randrange(1, 2**20)])
        for _ in range(3 if tier == 'quick' else 10):
            lga = rng.choice([lgk, max(4, lgk - 1), min(16, lgk + 1)]); lgb = rng.choice([lgk, max(4, lgk - 2)])
            na = rng.choice([0, 3, k // 4, k, 4 * k]); nb = rng.choice([0, 5, k // 2, 2 * k])
            ov = rng.choice([0, min(na, nb) // 2])
            ops.append([8, 1, lgk, lga, lgb, na, nb, ov, rng.randrange(1, 2**20)])
        cases.append(dict(id='cpc%d' % lgk, ops=ops, tags=['cpc', 'lgk%d' % lgk]))
    ops = []
    for lgk in range(4, 27):
        k = 1 << lgk
        for c in [0, 1, 2, k // 2, k, 3 * k, int(5.65 * k), 8 * k]:
            if c >= 2**32:
                continue
            ops.append([8, 2, lgk, c, 1, 0])
            for hip in ([float(c), c + 0.25, c * 1.2 + 1, c * 3.0 + 7] if c > 0 else [0.0]):
                ops.append([8, 2, lgk, c, 0, d2b(hip)])
    cases.append(dict(id='cpcpoke', ops=ops, tags=['cpc-registers']))
    return cases

def gen_bbp(rng, tier):
    ops = []
    for n in list(range(0, 40)) + [100, 1000, 10**6, 10**9]:
        for k in sorted(set([0, 1, 2, n // 2, max(0, n - 2), max(0, n - 1), n, n + 1])):
            ops.append([9, n, k])
    for i in range(-60, 61):
        ops.append([10, d2b(i / 10.0)])
    ops += [[10, d2b(x)] for x in [1e-300, -1e-300, 1e10, -1e10, 0.0, -0.0, 1e-8]]
    return [dict(id='bbp', ops=ops, tags=['binomial-proportions'])]

def gen_ratio(rng, tier):
    """bounds_on_ratios_in_sampled_sets on an (a, b, f) grid; the theta-sketched wrapper on sketch pairs with theta(B) <= theta(A)"""
    cases = []
    ops = []
    fs = [1.0, nxt(1.0, -1), 0.5, nxt(0.5, 1), nxt(0.5, -1), 0.25, 0.75, 0.9, 0.999, 1e-3, 1e-9, 0.0, -0.5, nxt(1.0, 1), 2.0]
    fs += [rng.uniform(0.0, 1.0) for _ in range(6 if tier == 'quick' else 60)] + [float(rng.randrange(1, MAXT)) / float(MAXT) for _ in range(4)]
    for a in [0, 1, 2, 3, 5, 10, 37, 100, 1000, 4096, 10**6] + [rng.randrange(2, 5000) for _ in range(3 if tier == 'quick' else 30)]:
        for b in sorted(set([0, 1, a // 2, max(0, a - 1), a, a + 1, rng.randrange(0, a + 1)])):
            for f in fs:
                ops.append([12, a, b, d2b(f)])
    cases.append(dict(id='ratio_grid', ops=ops, tags=['ratio-bounds']))
    ops = []
    reps = 2 if tier == 'quick' else 12
    for rep in range(reps):
        for kind in (0, 1):
            for lga, lgc in [(10, 5), (12, 6), (8, 8), (9, 5), (11, 7)]:
                ka, kc = 1 << lga, 1 << lgc
                for na in [0, 3, ka // 2, ka - 1, 2 * ka + 5, 9 * ka]:              # A exact / A in estimation mode
                    for mode in (0, 1, 2, 3):
                        nc = rng.choice([0, 2, kc // 2, 3 * kc, 20 * kc, 50 * kc])
                        ov = rng.choice([0, min(na, nc) // 2, min(na, nc)])
                        pa = rng.choice([1.0, 1.0, 0.5]); pc = rng.choice([1.0, 1.0, 0.5, 0.1])
                        ops.append([13, kind, mode, lga, lgc, f2b(pa), f2b(pc), na, nc, ov, rng.randrange(1, 2**20)])
    cases.append(dict(id='ratio_sketches', ops=ops, tags=['ratio-bounds', 'ratio-sketches']))
    return cases

def gen(rng, tier):
    return (gen_composite(rng, tier) + gen_ratio(rng, tier) + gen_bb(rng, tier) + gen_sketch_state(rng, tier) + gen_sketch_real(rng, tier) + gen_hll(rng, tier) +
            gen_icon(rng, tier) + gen_cpc(rng, tier) + gen_bbp(rng, tier))

# --------------------------------------------------------------------------------------------------------------
# property predicates on the implementation's outputs
# --------------------------------------------------------------------------------------------------------------
def isnan(x):
    return x != x

def triple_checks(prefix, est, b, i, fails, exact_to=None):
    """b = [lb1, ub1, lb2, ub2, lb3, ub3] (floats)"""
    lbs = [b[0], b[2], b[4]]; ubs = [b[1], b[3], b[5]]
    if any(isnan(x) for x in b) or isnan(est):
        fails.append(dict(sig=prefix + '_nan', what='NaN among estimate/bounds: est %r bounds %r' % (est, b), op_index=i)); return
    for sd in range(3):
        if not (lbs[sd] <= est <= ubs[sd]):
            fails.append(dict(sig=prefix + '_order', what='lb %r <= est %r <= ub %r violated for %d std devs' % (lbs[sd], est, ubs[sd], sd + 1), op_index=i))
            break
    if not (lbs[0] >= lbs[1] >= lbs[2] and ubs[0] <= ubs[1] <= ubs[2]):
        fails.append(dict(sig=prefix + '_widen', what='interval does not widen with std devs: lbs %r ubs %r' % (lbs, ubs), op_index=i))
    if exact_to is not None:
        if not all(x == exact_to for x in b) or est != exact_to:
            fails.append(dict(sig=prefix + '_exact', what='not exact outside estimation mode: est %r bounds %r expected %r' % (est, b, exact_to), op_index=i))

def tail_le(m, n, p):
    """P(Binomial(m, p) <= n), exact"""
    q = 1 - p; tot = Fraction(0); c = 1
    for j in range(0, min(n, m) + 1):
        tot += c * p ** j * q ** (m - j)
        c = c * (m - j) // (j + 1)
    return tot

def exact_tail_checks(n, theta, sd, ilb, iub, blb, bub, i, fails):
    """defining property of the exact binomial tails (branch 7), in exact rational arithmetic:
       upper: smallest m with P(Bin(m, theta) <= n) <= delta;  lower: largest r with P(Bin(r, theta) >= n) <= delta (or n - 1)"""
    dl = tables()['delta']
    if len(dl) != 4:
        return
    p = Fraction(theta); delta = Fraction(dl[sd]); lo = delta * (1 - Fraction(1, 10**9)); hi = delta * (1 + Fraction(1, 10**9))
    if bub == 7 and iub == int(iub) and 0 < iub <= 400:
        m = int(iub)
        if not (tail_le(m, n, p) <= hi and tail_le(m - 1, n, p) > lo):
            fails.append(dict(sig='bb_exact_tail_ub', what='exact-tail upper bound %d for %d samples, theta %r, %d std devs: P(Bin(m,theta)<=n) = %.6g at m, %.6g at m-1, '
                              'does not bracket delta %.6g' % (m, n, theta, sd, float(tail_le(m, n, p)), float(tail_le(m - 1, n, p)), dl[sd]), op_index=i))
    if blb == 7 and ilb == int(ilb) and 0 < ilb <= 400:
        r = int(ilb)
        ge = lambda mm: 1 - tail_le(mm, n - 1, p)
        if not (ge(r + 1) > lo and (r < n or ge(r) <= hi)):
            fails.append(dict(sig='bb_exact_tail_lb', what='exact-tail lower bound %d for %d samples, theta %r, %d std devs: P(Bin(r,theta)>=n) = %.6g at r, %.6g at r+1, '
                              'does not bracket delta %.6g' % (r, n, theta, sd, float(ge(r)), float(ge(r + 1)), dl[sd]), op_index=i))

def oracle(case, irecs, mrecs):
    fails = []
    relerr = {}
    tail_budget = 12
    icon_pts = {}
    prev_comp = None
    for i, op in enumerate(case['ops']):
        if i >= len(irecs):
            break
        R = irecs[i]['R']; E = irecs[i].get('E', []); F = irecs[i].get('F', [])
        if R == [-1] or R == [-2]:
            continue
        code = op[0]
        if code == 1 and len(R) == 8:
            theta = b2d(op[2]); n = op[1]
            if theta == 0 or isnan(theta):
                continue
            est = b2d(R[0]); b = [b2d(x) for x in R[1:7]]
            triple_checks('bb', est, b, i, fails, exact_to=(float(n) if theta == 1.0 else None))
            if any(x < min(est, float(n)) for x in b[0::2]):
                fails.append(dict(sig='bb_lb_below_retained', what='lower bound %r below the number of samples %d (estimate %r)' % (b[0::2], n, est), op_index=i))
            S = mrecs[i].get('S', []) if i < len(mrecs) else []
            if 2 <= n <= 16 and len(S) == 6 and len(E) >= 6 and 7 in S and tail_budget > 0:
                tail_budget -= 1
                for sd in (1, 2, 3):
                    exact_tail_checks(n, theta, sd, b2d(E[2 * sd - 2]), b2d(E[2 * sd - 1]), S[2 * sd - 2], S[2 * sd - 1], i, fails)
            if n == 0 and (est != 0 or b[0] != 0 or b[2] != 0 or b[4] != 0):
                fails.append(dict(sig='bb_zero_samples', what='zero samples: est %r lbs %r' % (est, b[0::2]), op_index=i))
        elif code in (3, 4) and len(R) == 10:
            n = R[0]; estmode = R[1]; est = b2d(R[2]); b = [b2d(x) for x in R[3:9]]
            if code == 3:
                theta64 = op[3]; m = op[5] if op[1] == 1 else n
            else:
                if len(E) < 4: continue
                theta64 = E[1]; m = op[9] if op[1] == 1 else n
            if theta64 == 0:
                continue
            m = min(m, n)
            theta = float(theta64) / float(MAXT)
            est_m = est if m == n else (m / theta)
            triple_checks('sk', est_m, b, i, fails, exact_to=(float(m) if not estmode else None))
            if not estmode and est != float(n):
                fails.append(dict(sig='sk_exact', what='estimate %r != retained %d outside estimation mode' % (est, n), op_index=i))
            if any(x < min(est_m, float(m)) for x in b[0::2]):
                fails.append(dict(sig='sk_lb_below_retained', what='lower bound %r below the number of retained entries %d (estimate %r)' % (b[0::2], m, est_m), op_index=i))
            if est < n:
                fails.append(dict(sig='sk_est_lt_retained', what='estimate %r below the retained count %d' % (est, n), op_index=i))
            if code == 4 and not estmode and struct.unpack('<f', struct.pack('<I', op[4]))[0] == 1.0:
                na, nb, ov, setop = op[5], op[6], op[7], op[2]
                true = {0: na, 1: na, 2: na + nb - ov, 3: ov if nb > 0 else 0, 4: na - ov}[setop]
                if setop == 3 and nb == 0: true = 0
                if n != true:
                    fails.append(dict(sig='sk_exact_count', what='exact mode but retained %d != true distinct count %d' % (n, true), op_index=i))
        elif code == 5 and len(R) == 1:
            v = b2d(R[0]); upper, ooo, lgk, sd = op[1], op[2], op[3], op[4]
            if upper == 0 and not (v > 0):
                fails.append(dict(sig='relerr_sign', what='lower-side relative error %r not > 0 (lg_k %d sd %d)' % (v, lgk, sd), op_index=i))
            if upper == 1 and not (-1 < v < 0):
                fails.append(dict(sig='relerr_sign', what='upper-side relative error %r not in (-1,0) (lg_k %d sd %d)' % (v, lgk, sd), op_index=i))
            relerr.setdefault((upper, ooo, lgk), {})[sd] = (abs(v), i)
        elif code == 6 and op[1] == 3 and len(R) == 8 and len(E) == 12:
            # overwritten kxq registers (not a reachable state): only the continuity of the composite estimator at the table end
            comp = b2d(E[11]); tag = op[8] if len(op) > 8 else 0
            if tag == 2 and prev_comp is not None and not (abs(comp - prev_comp) <= 1e-6 * abs(prev_comp)):
                fails.append(dict(sig='hll_composite_jump_at_table_end', what='lg_k %d: composite estimate %r just below the end of the interpolation '
                                  'table and %r just above it' % (op[2], prev_comp, comp), op_index=i))
            prev_comp = comp if tag == 1 else None
        elif code == 6 and len(R) == 8 and len(E) == 12:
            mode, lgk, ooo, count, cur_min, num_at = E[0:6]
            b = [b2d(x) for x in R[0:6]]; est = b2d(R[6])
            triple_checks('hll', est, b, i, fails)
            floor_ = count if mode != 2 else ((1 << lgk) - num_at if cur_min == 0 else (1 << lgk))
            if any(b[j] < floor_ for j in (0, 2, 4)):
                fails.append(dict(sig='hll_lb_below_count', what='lower bound %r below the number of coupons / non-zero registers %d' % (b[0::2], floor_), op_index=i))
            if mode != 2 and est < count:
                fails.append(dict(sig='hll_est_below_count', what='coupon-mode estimate %r below the coupon count %d' % (est, count), op_index=i))
            if op[1] in (0, 1) and mode != 2:
                true = op[4] if op[1] == 0 else op[6] + op[7] - op[8]
                if abs(est - true) > 0.01 * true + 1e-9:
                    if op[1] == 1:
                        fails.append(dict(sig='hll_union_result_small_range', what='hll_union(lg_k %d) of a sketch with %d items (lg_k %d) and one with %d items '
                                          '(lg_k %d, %d shared): LIST/SET mode result estimates %r for %d distinct items' %
                                          (op[2], op[6], op[3], op[7], op[4], op[8], est, true), op_index=i))
                    else:
                        fails.append(dict(sig='hll_small_range', what='LIST/SET mode estimate %r for %d distinct items' % (est, true), op_index=i))
            if op[1] in (0, 1):
                true = op[4] if op[1] == 0 else op[6] + op[7] - op[8]
                if true == 0 and (est != 0 or any(x != 0 for x in b)):
                    fails.append(dict(sig='hll_empty', what='empty sketch: est %r bounds %r' % (est, b), op_index=i))
        elif code == 7 and F:
            v = b2d(F[0]); c = op[2]
            icon_pts.setdefault(op[1], []).append((c, v, i))
            if isnan(v) or v < c:
                fails.append(dict(sig='icon_below_coupons', what='ICON estimate %r below the coupon count %d (lg_k %d)' % (v, c, op[1]), op_index=i))
            if c < 2 and v != float(c):
                fails.append(dict(sig='icon_small', what='ICON estimate %r for %d coupons' % (v, c), op_index=i))
        elif code == 8 and len(R) == 6 and len(E) == 4:
            lgk, c, merged = E[0:3]; est = b2d(E[3]); b = [b2d(x) for x in R]
            triple_checks('cpc', est, b, i, fails, exact_to=(0.0 if c == 0 else None))
            if any(x < c for x in b[0::2]):
                fails.append(dict(sig='cpc_lb_below_coupons', what='lower bound %r below the number of coupons %d' % (b[0::2], c), op_index=i))
            if est < c:
                fails.append(dict(sig='cpc_est_below_coupons', what='estimate %r below the number of coupons %d' % (est, c), op_index=i))
            if op[1] == 0 and op[3] <= 1 and est != float(op[3]):     # 0 or 1 item: exact (first HIP increment is k/k = 1)
                fails.append(dict(sig='cpc_small_range', what='estimate %r for %d distinct items' % (est, op[3]), op_index=i))
        elif code in (12, 13) and len(R) == 4:
            est, lb, ub = b2d(R[0]), b2d(R[1]), b2d(R[2])
            if code == 12:
                f = b2d(op[3]); a = op[1]
            else:
                if len(E) != 8: continue
                f = float(E[3]) / float(MAXT); a = E[0] if E[1] == E[3] else E[4]
            if isnan(est) or isnan(lb) or isnan(ub) or not (0.0 <= lb <= est <= ub <= 1.0):
                fails.append(dict(sig='ratio_order', what='ratio bounds: 0 <= lb %r <= est %r <= ub %r <= 1 violated (a %d, f %r)' % (lb, est, ub, a, f), op_index=i))
            if f == 1.0 and a > 0 and not (lb == est == ub):
                fails.append(dict(sig='ratio_exact', what='ratio bounds with f = 1 (no sampling) are not exact: lb %r est %r ub %r' % (lb, est, ub), op_index=i))
        elif code == 9 and len(R) == 1 and len(F) == 6:
            est = b2d(R[0]); b = [b2d(x) for x in F]
            triple_checks('bbp', est, b, i, fails)
            if any(not (0.0 <= x <= 1.0) for x in b):
                fails.append(dict(sig='bbp_range', what='bound outside [0,1]: %r' % b, op_index=i))
    for lgk, pts in icon_pts.items():
        pts.sort(); k = float(1 << lgk); thr = (5.7 if lgk < 14 else 5.6) * k
        for (c1, v1, i1), (c2, v2, i2) in zip(pts, pts[1:]):
            if isnan(v1) or isnan(v2):
                continue
            if v2 < v1:
                fails.append(dict(sig='icon_not_monotone', what='ICON estimate decreases: lg_k %d, %d coupons -> %r, %d coupons -> %r' % (lgk, c1, v1, c2, v2), op_index=i2)); break
            if c2 == c1 + 1 and c1 <= thr < c2 and v1 > 0 and (v2 - v1) / v1 > 1.2 * math.log(2.0) / k + 5e-6:
                fails.append(dict(sig='icon_jump_at_threshold', what='ICON estimate jumps at the polynomial/exponential threshold: lg_k %d, %d coupons -> %r, %d coupons -> %r'
                                  % (lgk, c1, v1, c2, v2), op_index=i2))
    for (upper, ooo, lgk), d in relerr.items():
        if len(d) == 3 and not (d[1][0] < d[2][0] < d[3][0]):
            fails.append(dict(sig='relerr_monotone', what='|relative error| not increasing in std devs for lg_k %d upper %d unioned %d: %r' %
                              (lgk, upper, ooo, [d[s][0] for s in (1, 2, 3)]), op_index=d[1][1]))
    return fails

FAMILIES = [dict(name='bounds', harness='drv_bounds.cpp', extract='Extract_bounds.v', model='model_bounds', gen=gen, oracle=oracle,
                 ocaml_flags='-rectypes -thread -package coq-core.kernel -linkpkg', cxx_flags='-ffp-contract=off')]

MANIFEST = dict(
    level_text=('Theorems (coq/Properties_C06.v, 31 obligations) about the executable definitions that are extracted and replayed against the code. '
                'PROVED for all inputs: (1) Theta/Tuple: get_lower_bound <= get_estimate <= get_upper_bound as coded (std::min/std::max clamps around '
                'binomial_bounds) for EVERY binary64 value of theta and of the inner approximation functions (NaN/inf included: never est < lb, never '
                'ub < est; with IEEE <= when no NaN is involved), any retained count, any number of std devs, in and outside estimation mode; '
                '(2) exactness outside estimation mode, bit for bit: theta64 = MAX_THETA gives get_theta() = 1.0 and lb = estimate = ub = retained '
                '(x / 1.0 = x for every binary64 x, via Flocq), empty sketches with any theta > 0 give 0; binomial_bounds special cases theta = 1 and '
                'zero samples, and the branch structure of the inner approximations (table / exact-tail branches only for 1|2 <= n <= 120); '
                '(3) clamps of CouponList, HllArray, cpc_confidence and the ICON estimator never return less than the coupon count / number of '
                'non-zero registers (all binary64 values); (4) in exact rational arithmetic: lb <= est <= ub and widening in the number of std devs for '
                'the HLL array, coupon list and CPC bound formulas under the sign conditions of the relative-error factors, widening passes through the '
                'binomial_bounds clamps, lb >= retained count, HIP accumulator >= number of non-zero registers for every update sequence of an abstract '
                'register array (every increment k/kxq >= 1); (5) side conditions of the tables TRANSLATED from the headers on every run '
                '(binomial_bounds, RelativeErrorTables, cpc_confidence, icon_estimator, coupon interpolation): lengths, every index formula stays '
                'inside its table, lower-side factors > 0, upper-side factors in (-1,0), monotone in the std devs per row, getRelErr and the cpc eps '
                'as modelled bit-exactly for every lg_k, and a digest pinning every table entry. '
                'COMPARED by the correspondence run (bit for bit, every run): all clamp expressions of the four sketch types, binomial_bounds completely '
                '(branch selection, cont_classic_lb/ub, equivalence-table branches, special_n_star / special_n_prime_b/f loops given pow(theta,n)) except its '
                'two log branches, HllArray getHllRawEstimate/getCompositeEstimate on the translated CompositeInterpolationXTable (bitmap estimate from the code), hll get_rel_err, cpc eps/ceil, the ICON polynomial, the coupon cubic interpolation, erf/normal_cdf. '
                'ENUMERATED on the implementation outputs (labelled enumeration, not proof): lb <= est <= ub, widening with the std devs, exactness in '
                'exact mode, est/lb >= retained or coupon count, over the dense grid described in the evidence rule.'),
    level_note=('NOT claimed: negligible bias, spread <= published RSE, interval coverage; monotone widening across the approximation branches as a '
                'theorem; anything through pow/log/exp beyond the ordering clamps (those inner values are read from the implementation and the '
                'theorems quantify over them). The HLL/CPC/coupon order and widening theorems with divisions are over exact rationals, not binary64. '
                'The HIP theorem is about an abstract register model that this check does not replay against HllArray (C03 does that). '
                'Trusted: Coq kernel incl. primitive floats and vm_compute; FloatAxioms specification of primitive floats; classical real-number '
                'axioms of the standard library (only for x/1.0 = x via Flocq); the table translator (python float() as decimal->binary64 conversion); '
                'hand-written model validated by bit-exact replay; glibc fmax/ceil/sqrt assumed IEEE-conforming; harness built with -ffp-contract=off. '
                'The ICON clamp never fires on any reachable input, so its removal is not observable by any run (covered by theorem only).'),
    design_ref='DESIGN.md section 5 C06')
