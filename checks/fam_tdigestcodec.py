# fam_tdigestcodec.py — tdigest<double> image: Coq codec model coq/TDigestCodecDefs.v (enc / dec for both readers, native
# little-endian format and the two big-endian reference-implementation formats; theorems in Properties_C09_tdigest.v,
# Properties_C10_tdigest.v, Properties_C11_tdigest.v, behaviour as found in Regression_tdigestcodec.v) against
# tdigest<double>::serialize / deserialize(bytes) / deserialize(istream) through harness/drv_tdigestcodec.cpp.
# The model describes the readers with fixes/11_tdigest_compat_stream_state.patch and fixes/11_tdigest_compat_casts.patch applied
# (in this order) on top of /repo (which already has 17_serialize_header and 0e10a1c "stream state").
# Mutations confirmed caught: see MUTATIONS at the end of this file.
import struct, math
READY_C09 = True
READY_C10 = True
READY_C11 = True
COQ_PROPS_C09 = ['Properties_C09_tdigest']
COQ_PROPS_C10 = ['Properties_C10_tdigest']
COQ_PROPS_C11 = ['Properties_C11_tdigest', 'Regression_tdigestcodec']
TRUSTED = ['t-digest codec model coq/TDigestCodecDefs.v written by hand from tdigest_impl.hpp (layout and code); the content of a digest '
           '(k, reverse_merge_, min_, max_, centroids_weight_, centroids, buffer; doubles as 64-bit patterns) is read from the object through '
           '`#define private public` in the harness and passed to the model (E line): the t-digest algorithm itself is C17\'s business, '
           'the codec model starts from the logical content',
           'binary32 -> binary64 widening and float -> integer truncation of the reference-implementation formats are modelled on bit patterns '
           '(coq/TDigestCodecDefs.v f32_to_f64, f64_to_N) and compared with the hardware conversions by the correspondence runs only']
ASSUMPTIONS = ['tdigest<double> only; tdigest<float> (4-byte values, 8-byte centroids with uint32 weights, same preamble) is not modelled',
               'one decoder describes both readers: they accept the same images (checked on every run: every strict prefix, preamble mutations); '
               'corrupted counts that make the STREAM reader allocate before it notices the end of the stream are the known finding '
               'c11_corrupt_allocation_over_cap of the serde family and are not replayed here (mutations whose counts ask for more than 64 KiB '
               'are skipped on the stream path)',
               'NaN payloads travel as bit patterns through memcpy and are compared exactly; means of the float format that are signalling NaNs are not generated']

PINF = 0x7ff0000000000000
NINF = 0xfff0000000000000
M64 = 2 ** 64 - 1

def d2b(x): return struct.unpack('<Q', struct.pack('<d', x))[0]
def b2d(b): return struct.unpack('<d', struct.pack('<Q', b & M64))[0]
def le(x, n): return [(x >> (8 * i)) & 0xff for i in range(n)]
def be(x, n): return list(reversed(le(x, n)))

# ---- content of a digest: dict(k, rev, mn, mx, cents=[(mean_bits, w)], buf=[bits]) ----
def parse_content(t):
    k, rev, mn, mx, cwv, nc = t[:6]
    cents = [(t[6 + 2 * i], t[7 + 2 * i]) for i in range(nc)]
    p = 6 + 2 * nc
    nb = t[p]; buf = list(t[p + 1:p + 1 + nb])
    return dict(k=k, rev=rev, mn=mn, mx=mx, cw=cwv, cents=cents, buf=buf), p + 1 + nb

def show(s):
    out = [s['k'], s['rev'], s['mn'], s['mx'], sum(w for _, w in s['cents']) & M64, len(s['cents'])]
    for m, w in s['cents']: out += [m, w]
    return out + [len(s['buf'])] + list(s['buf'])

def total(s): return ((sum(w for _, w in s['cents']) & M64) + len(s['buf'])) & M64
def empty(s): return not s['cents'] and not s['buf']

def py_enc(s):
    """the image written from the documented layout (independent of the Coq encoder)"""
    e = empty(s); single = total(s) == 1
    fl = (1 if e else 0) | (2 if single else 0) | (4 if s['rev'] else 0)
    b = [1 if (e or single) else 2, 1, 20] + le(s['k'], 2) + [fl, 0, 0]
    if e: return b
    if single: return b + le(s['mn'], 8)
    b += le(len(s['cents']), 4) + le(len(s['buf']), 4) + le(s['mn'], 8) + le(s['mx'], 8)
    for m, w in s['cents']: b += le(m, 8) + le(w, 8)
    for v in s['buf']: b += le(v, 8)
    return b

def norm(s):
    if empty(s): return dict(k=s['k'], rev=0, mn=PINF, mx=NINF, cents=[], buf=[])
    if total(s) == 1: return dict(k=s['k'], rev=s['rev'], mn=s['mn'], mx=s['mn'], cents=[(s['mn'], 1)], buf=[])
    return s

def compat_double(mn, mx, k, cents):
    b = [0, 0, 0, 1] + list(struct.pack('>d', mn)) + list(struct.pack('>d', mx)) + list(struct.pack('>d', k)) + be(len(cents), 4)
    for m, w in cents: b += list(struct.pack('>d', w)) + list(struct.pack('>d', m))
    return b
def compat_float(mn, mx, k, cents):
    b = [0, 0, 0, 2] + list(struct.pack('>d', mn)) + list(struct.pack('>d', mx)) + list(struct.pack('>f', k)) + [7, 7, 7, 7] + be(len(cents), 2)
    for m, w in cents: b += list(struct.pack('>f', w)) + list(struct.pack('>f', m))
    return b
def f32(x): return struct.unpack('>f', struct.pack('>f', x))[0]

# ---- states ----
def state_ops(rng, tier):
    """list of (name, ops building register 0, tags)"""
    out = []
    def vals(n, kind):
        if kind == 'seq': return [float(i) for i in range(n)]
        if kind == 'rnd': return [rng.uniform(-1000, 1000) for _ in range(n)]
        if kind == 'const': return [2.5] * n
        return [rng.choice([0.0, -0.0, 1.0, -1.5, 1e300, -1e-300, 5e-324]) for _ in range(n)]
    for k in ([10, 100, 65535] if tier == 'quick' else [10, 11, 30, 100, 200, 1000, 65535]):
        out.append(('empty_k%d' % k, [[1, 0, k]], ['empty']))
        out.append(('single_buf_k%d' % k, [[1, 0, k], [2, 0, d2b(rng.choice([3.5, -0.0, 1e-310]))]], ['single']))
        out.append(('single_cent_k%d' % k, [[1, 0, k], [2, 0, d2b(-7.25)], [10, 0]], ['single']))
        out.append(('single_inf_k%d' % k, [[1, 0, k], [2, 0, rng.choice([PINF, NINF])]], ['single']))
        for n in (2, 3, 7):
            kind = rng.choice(['seq', 'rnd', 'const', 'odd'])
            out.append(('buf%d_k%d' % (n, k), [[1, 0, k], [2, 0] + [d2b(v) for v in vals(n, kind)]], ['buffer-only']))
            out.append(('cent%d_k%d' % (n, k), [[1, 0, k], [2, 0] + [d2b(v) for v in vals(n, kind)], [10, 0]], ['centroids-only', 'reverse-flag']))
            out.append(('mix%d_k%d' % (n, k), [[1, 0, k], [2, 0] + [d2b(v) for v in vals(n, kind)], [10, 0],
                                               [2, 0] + [d2b(v) for v in vals(rng.choice([1, 2, 5]), 'rnd')]], ['centroids+buffer']))
        if k <= 200:
            cap = (2 * k + (30 if k < 30 else 10)) * 4
            n = cap + rng.randrange(1, 40)
            out.append(('auto_k%d' % k, [[1, 0, k], [2, 0] + [d2b(v) for v in vals(n, 'rnd')]], ['auto-compressed', 'centroids+buffer']))
            out.append(('two_k%d' % k, [[1, 0, k], [2, 0] + [d2b(v) for v in vals(n, 'seq')], [10, 0], [2, 0] + [d2b(v) for v in vals(50, 'rnd')], [10, 0],
                                        [2, 0, d2b(0.5)]], ['two-compressions', 'reverse-flag']))
            out.append(('merge_k%d' % k, [[1, 0, k], [2, 0] + [d2b(v) for v in vals(40, 'rnd')], [1, 1, k], [2, 1] + [d2b(v) for v in vals(60, 'seq')],
                                          [10, 1], [7, 0, 1], [2, 0, d2b(9.0), d2b(-9.0)]], ['post-merge']))
    return out

def reads(rng, r=0, trail=True):
    ops = []
    for path in (0, 1):
        ops.append([5, r, path, -1, -1, 0, 0])
        if trail: ops.append([5, r, path, -1, -1, 0, rng.choice([1, 3, 8, 17])])
    return ops

def gen_c09(rng, tier):
    cases = []
    for name, build, tags in state_ops(rng, tier):
        ops = list(build)
        ops.append([6, 0, 1, rng.choice([1, 3, 8, 24])]); ops += reads(rng)
        ops.append([6, 0, 0, rng.choice([1, 8])]); ops += reads(rng)
        ops.append([6, 0, 1, 0]); ops += reads(rng, trail=False)        # with buffer again, after the compression
        cases.append(dict(id='rt_' + name, ops=ops, tags=['roundtrip'] + tags, kind='rt'))
    cases.append(dict(id='refused_k', ops=[[1, 0, 9], [1, 1, 0], [1, 2, 10], [6, 2, 1, 0]], tags=['refused'], kind='rt'))
    return cases

def rand_bits(rng):
    return rng.choice([0, 1 << 63, PINF, NINF, 0x7ff8000000000001, d2b(1.0), d2b(-2.5), rng.getrandbits(64), rng.getrandbits(64)])

def gen_c10(rng, tier):
    """images written in Python from the documented layouts, read by both readers (and by the model)"""
    cases = gen_c09(rng, tier)
    for ci in range(30 if tier == 'quick' else 200):
        k = rng.choice([10, 11, 100, 200, 65535, rng.randrange(10, 65536)])
        nc = rng.choice([0, 1, 2, 3, 9]); nb = rng.choice([0, 1, 2, 5])
        s = dict(k=k, rev=rng.choice([0, 1]), mn=rand_bits(rng), mx=rand_bits(rng),
                 cents=[(rand_bits(rng), rng.choice([1, 1, 2, 7, 2 ** 40, 2 ** 64 - 1, 0])) for _ in range(nc)],
                 buf=[rand_bits(rng) for _ in range(nb)])
        img = py_enc(s)
        exp = show(norm(s))
        cases.append(dict(id='doc%d' % ci, ops=[[3] + img, [4] + img, [3] + img + [9, 9, 9], [4] + img + [9, 9, 9]], tags=['documented-layout'],
                          kind='doc', expect=exp, imglen=len(img)))
    for ci in range(24 if tier == 'quick' else 150):
        k = rng.choice([10, 100, 200, 1000, 65535])
        nc = rng.choice([0, 1, 2, 5, 40])
        mn = rng.uniform(-100, 0); mx = rng.uniform(0, 100)
        cents = [(rng.uniform(mn, mx), float(rng.choice([1, 1, 2, 3, 17, 1000, 2 ** 33]))) for _ in range(nc)]
        if ci % 2 == 0:
            img = compat_double(mn, mx, float(k), cents)
            exp = dict(k=k, rev=0, mn=d2b(mn), mx=d2b(mx), cents=[(d2b(m), int(w)) for m, w in cents], buf=[])
        else:
            if ci % 4 == 1:
                cents = [(m, w + 0.75) for m, w in cents]          # fractional weights are truncated
            img = compat_float(mn, mx, float(k), cents)
            exp = dict(k=int(f32(float(k))), rev=0, mn=d2b(mn), mx=d2b(mx), cents=[(d2b(f32(m)), int(f32(w))) for m, w in cents], buf=[])
        cases.append(dict(id='compat%d' % ci, ops=[[3] + img, [4] + img, [3] + img + [9, 9, 9], [4] + img + [9, 9, 9]],
                          tags=['reference-format', 'double' if ci % 2 == 0 else 'float'], kind='doc', expect=show(exp), imglen=len(img)))
    return cases

REPL = [0x00, 0xFF, 0x7F, 0x80, 0x01, 0x02, 0x14]

def alloc_too_big_native(img):
    if len(img) < 16: return False
    if img[2] != 20 or (img[5] & 3): return False
    nc = int.from_bytes(bytes(img[8:12]), 'little'); nb = int.from_bytes(bytes(img[12:16]), 'little')
    return nc * 16 + nb * 8 > (1 << 16)

def alloc_too_big_compat(img):
    if len(img) < 4 or img[:3] != [0, 0, 0]: return False
    if img[3] == 1 and len(img) >= 32: return int.from_bytes(bytes(img[28:32]), 'big') * 16 > (1 << 16)
    if img[3] == 2 and len(img) >= 30: return int.from_bytes(bytes(img[28:30]), 'big') * 16 > (1 << 16)
    return False

def gen_c11(rng, tier):
    cases = []
    sts = state_ops(rng, tier)
    small = [x for x in sts if not any(t in x[2] for t in ('auto-compressed', 'two-compressions', 'post-merge'))]
    picks = rng.sample(small, 10 if tier == 'quick' else 40) + [x for x in sts if 'post-merge' in x[2]][:1 if tier == 'quick' else 3]
    for name, build, tags in picks:
        for wb in (1, 0):
            # image length is not known to the generator: cut positions up to a generous bound; cuts beyond the image are whole-image reads
            bound = 8 + 16 + 16 * 12 + 8 * 8 if 'post-merge' not in tags else 700
            ops = list(build) + [[6, 0, wb, 0]]
            for cut in range(bound):
                ops.append([5, 0, 0, cut, -1, 0, 0]); ops.append([5, 0, 1, cut, -1, 0, 0])
            cases.append(dict(id='pre_%s_%d' % (name, wb), ops=ops, tags=['prefixes'] + tags, kind='prefix'))
            ops = list(build) + [[6, 0, wb, 0]]
            for pos in range(16):
                for v in REPL:
                    for path in (0, 1):
                        # stream reader: a corrupted count is used for an allocation before the end of the stream is noticed (known finding
                        # of the serde family, c11_corrupt_allocation_over_cap); keep the request small enough to be served
                        if path == 1 and ((pos in (10, 14) and v >= 0x7F) or (pos in (11, 15) and v != 0)):
                            continue
                        ops.append([5, 0, path, -1, pos, v, 0])
            cases.append(dict(id='cor_%s_%d' % (name, wb), ops=ops, tags=['corrupt'] + tags, kind='corrupt'))
    # reference-implementation images: every prefix, header and count mutations, out-of-range k and weights
    for ci in range(4 if tier == 'quick' else 16):
        nc = rng.choice([0, 1, 3]); mn = -1.0; mx = 2.0
        cents = [(rng.uniform(mn, mx), float(rng.choice([1, 2, 5]))) for _ in range(nc)]
        img = compat_double(mn, mx, 100.0, cents) if ci % 2 == 0 else compat_float(mn, mx, 100.0, cents)
        ops = []
        for cut in range(len(img)):
            ops.append([3] + img[:cut]); ops.append([4] + img[:cut])
        cases.append(dict(id='cpre%d' % ci, ops=ops, tags=['prefixes', 'reference-format'], kind='cprefix'))
        ops = []
        hdr_len = 32 if ci % 2 == 0 else 30
        for pos in list(range(4)) + list(range(20, hdr_len)):
            for v in REPL:
                mut = list(img); mut[pos] = v
                if mut == img: continue
                ops.append([3] + mut)
                if not alloc_too_big_compat(mut): ops.append([4] + mut)
        bad = [float('nan'), -1.0, -1e-300, 1e30, float('inf'), float('-inf'), 65536.0, 4.0, -0.0, 65535.5]
        for kv in bad:
            im = compat_double(mn, mx, kv, cents) if ci % 2 == 0 else compat_float(mn, mx, kv, cents)
            ops.append([3] + im); ops.append([4] + im)
        for wv in [float('nan'), -1.0, 1.8446744073709552e19, 1e30, float('inf'), -0.0, 0.0, 0.99, 1.8446744073709550e19 if ci % 2 == 0 else 1.8446742974197924e19]:
            cs = [(0.5, wv)] + cents
            im = compat_double(mn, mx, 100.0, cs) if ci % 2 == 0 else compat_float(mn, mx, 100.0, cs)
            ops.append([3] + im); ops.append([4] + im)
        cases.append(dict(id='ccor%d' % ci, ops=ops, tags=['corrupt', 'reference-format'], kind='ccorrupt'))
    return cases

# ---- oracle ----
def oracle(case, irecs, mrecs):
    fails = []
    def fail(sig, what, i): fails.append(dict(sig=sig, what=what, op_index=i))
    st = {}; img = {}
    for i, op in enumerate(case['ops']):
        if i >= len(irecs): break
        R = irecs[i]['R']
        code = op[0]
        if code == 6:
            if R in ([-4], [-5], [-7]):
                fail({-4: 'tdc_bytes_stream_differ', -5: 'tdc_size_advertised', -7: 'tdc_header_form'}[R[0]],
                     'serialize: stream form differs from the byte vector (-4) / size differs from get_serialized_size_bytes (-5) / header form is not zeros + image (-7): %s' % R, i)
                continue
            E = irecs[i].get('E')
            if R == [-1] or not E: continue
            s, _ = parse_content(E)
            st[op[1]] = s; img[op[1]] = list(R)
            if s['cw'] != sum(w for _, w in s['cents']) & M64:
                fail('tdc_centroids_weight', 'centroids_weight_ %d is not the sum of the centroid weights' % s['cw'], i)
            pts = list(s['cents']) + [(v, 1) for v in s['buf']]
            if (empty(s) and (s['rev'] or s['mn'] != PINF or s['mx'] != NINF)) or (total(s) == 1 and (pts != [(s['mn'], 1)] or s['mx'] != s['mn'])):
                fail('tdc_canonical', 'an empty digest without the initial min/max/flag, or a single value with min != max != value '
                     '(hypothesis [canonical] of C09_td_observational)', i)
            if R != py_enc(s):
                fail('tdc_layout', 'image differs from the documented layout applied to the content of the object (first difference at byte %d)' %
                     next((j for j, (a, b) in enumerate(zip(R, py_enc(s) + [None] * len(R))) if a != b), -1), i)
            S = mrecs[i].get('S') if i < len(mrecs) else None
            if S and S[0] != len(R):
                fail('tdc_size_model', 'image has %d bytes, the model\'s serialized_size says %d' % (len(R), S[0]), i)
        elif code == 5 and op[1] in st:
            s = st[op[1]]; L = len(img[op[1]]); path, cut, pos = op[2], op[3], op[4]
            if pos < 0 and (cut < 0 or cut >= L):
                want = [1] + ([L] if path else []) + show(norm(s)) + ([1] if cut < 0 else [])
                if R != want:
                    fail('tdc_roundtrip', 'path %d: the image does not read back as the same digest / the stream reader does not consume exactly '
                         'the image / re-serialization differs: got %s... want %s...' % (path, R[:8], want[:8]), i)
            elif pos < 0 and 0 <= cut < L:
                if R != [-1]:
                    fail('tdc_prefix_accepted', 'path %d: strict prefix of length %d of a %d-byte image accepted' % (path, cut, L), i)
        elif code in (3, 4) and case.get('kind') == 'doc':
            want = [1] + ([case['imglen']] if code == 4 else []) + case['expect']
            if R != want:
                fail('tdc_documented_layout', 'an image written from the documented layout is not read as the content it encodes: got %s... want %s...' % (R[:9], want[:9]), i)
        elif code in (3, 4) and case.get('kind') == 'cprefix':
            if R != [-1]:
                fail('tdc_compat_prefix_accepted', '%s reader: strict prefix (%d bytes) of a reference-format image accepted' % ('bytes' if code == 3 else 'stream', len(op) - 1), i)
    return fails

def fam(gen):
    return dict(name='tdigestcodec', harness='drv_tdigestcodec.cpp', extract='Extract_tdigestcodec.v', model='model_tdigestcodec',
                cxx_flags='-ffp-contract=off -fsanitize=float-cast-overflow', gen=gen, oracle=oracle)

FAMILIES_C09 = [fam(gen_c09)]
FAMILIES_C10 = [fam(gen_c10)]
FAMILIES_C11 = [fam(gen_c11)]

RULE_C09 = ('tdigest<double> with k in {10,100,65535} (thorough: 7 values): empty, single value (held in the buffer, in a centroid, +-inf), 2/3/7 values buffer-only / '
            'centroids-only / centroids+buffer, automatically compressed, two compressions (REVERSE_MERGE flag both ways), post-merge; for each the image with buffer, '
            'the image without buffer (compresses) and the image with buffer again: image bytes = Coq encoder applied to the content read from the object = independent '
            'Python encoder; bytes = stream = advertised size; header form; both readers on the image and on the image followed by trailing bytes, compared with the Coq '
            'decoder and the original content (normalised for the single-value form), consumed length, re-serialization identical; non-trivial = every case')
RULE_C10 = RULE_C09 + ('; plus native images written in Python from the documented layout with arbitrary bit patterns (NaN payloads, weights 0 and 2^64-1, flags) and images '
                       'in the two big-endian reference-implementation formats (COMPAT_DOUBLE, COMPAT_FLOAT incl. fractional weights) read by both readers')
RULE_C11 = ('every strict prefix of native images (all state classes, with and without buffer) and of reference-format images on both reader paths (must be rejected; the '
            'Coq decoder must agree); each of the first 16 bytes replaced by 7 values, the type / k / count bytes of reference-format images replaced, k and weights of '
            'reference-format images set to NaN, negative, infinite, too large and boundary values: accept/reject and accepted content = Coq decoder, under ASan + UBSan '
            '(float-cast-overflow enabled); non-trivial = every case')

MUTATIONS = '''
 Scratch worktree = /repo 5b502aa + fixes/11_tdigest_compat_stream_state.patch + fixes/11_tdigest_compat_casts.patch, VERIF_SEED=1 quick, 2026-10-02.
 caught (VIOLATION printed by the property named):
 CM1  byte-vector writer drops the REVERSE_MERGE flag, stream writer keeps it: tdc_bytes_stream_differ (C09, C10, C11)
 CM2  bytes reader takes reverse_merge from the IS_SINGLE_VALUE bit: tdc_roundtrip path 0 (C09, C10), + correspondence (C11)
 CM3  get_serialized_size_bytes forgets the buffer: ASan heap-buffer-overflow in serialize (C09, C10, C11)
 CM4  bytes reader: size test ignores the buffered values: ASan over-read on prefixes (C11)
 CM5  stream reader: final stream-state test removed: tdc_prefix_accepted path 1 + correspondence (C11)
 CM6  COMPAT_DOUBLE bytes reader reads mean before weight: tdc_documented_layout (C10), correspondence (C11)
 CM7  COMPAT_FLOAT stream reader does not byte-swap the centroid count: tdc_documented_layout (C10), correspondence (C11)
 CM8  single-value image: stream reader forgets the REVERSE_MERGE flag: tdc_roundtrip path 1 (C09, C10, C11)
 CM9  both writers store max before min (consistently): tdc_layout + tdc_roundtrip (C09, C10, C11)
 CM10 compat_cast accepts 2^digits (<= instead of <): UBSan float-cast-overflow on weight 2^64 (C11)
 harmless, exit 0 on all three: CH1 stream writer emits the centroids one by one; CH2 bytes reader reads the three leading bytes by index and
 tests them in another order.
 On /repo without the two patches: C11 prints VIOLATION (ASan allocation-size-too-big for the 4-byte stream 00 00 00 01, UBSan float-cast-overflow for
 k / weights out of range, tdc_compat_prefix_accepted for 25 prefixes of the COMPAT_FLOAT image).
'''
