# fam_hllcodec.py — hll_sketch serialization: C09 (round trip), C10 (documented layout), C11 (truncated / corrupted images).
# Model coq/HllCodecDefs.v (enc, dec_bytes, dec_stream; theorems Properties_C09_hll.v, Properties_C10_hll.v, Properties_C11_hll.v)
# against serialize_compact / serialize_updatable (bytes and stream) and hll_sketch::deserialize(bytes, len) / (istream&) through
# harness/drv_hll.cpp ops 20-23 (extract/Extract_hllcodec.v, runner crun).  The model describes the readers as repaired by
# fixes/11_hll_reader_bounds.patch (lg_k, counts and table sizes read from the image are validated).
#
# MUTATIONS: see the list at the end of this file.
import struct
import C03 as base

READY_C09 = True
READY_C10 = True
READY_C11 = True
COQ_PROPS_C09 = ['Properties_C09_hll']
COQ_PROPS_C10 = ['Properties_C10_hll']
COQ_PROPS_C11 = ['Properties_C11_hll', 'Regression_hllcodec']
TRUSTED = ['HLL codec model coq/HllCodecDefs.v written by hand from the layout constants of HllUtil.hpp and the writers/readers in CouponList-internal.hpp, '
           'CouponHashSet-internal.hpp, HllArray-internal.hpp, AuxHashMap-internal.hpp',
           'binary64 patterns of kxq0/kxq1 computed in integer arithmetic from the exact sums (HllCodecDefs.kbits, on top of KllCodecDefs.dbl_bits); '
           'the hipAccum pattern is read from the object (E line) and passed to the encoder']
ASSUMPTIONS = ['out-of-order (union result) sketches are serialized only through the states reachable by updates and copies (C04 covers the union)',
               'images above lg_k 17 are not generated (size); the theorems cover lg_k 4..21']

M26 = (1 << 26) - 1
LG_AUX = [0, 2, 2, 2, 2, 2, 2, 3, 3, 3, 4, 4, 5, 5, 6, 7, 8, 9, 10, 11, 12, 13, 14, 15, 16, 17, 18]

def le(x, n):
    x &= (1 << (8 * n)) - 1
    return [(x >> (8 * i)) & 0xff for i in range(n)]

def dbits(x):
    return struct.unpack('<Q', struct.pack('<d', x))[0]

# ---------------------------------------------------------------------------------------------------------------------
# independent encoder, written from the documented layout
# ---------------------------------------------------------------------------------------------------------------------
def set_table(lg, coupons):
    """open addressing as documented: home = coupon & mask, stride = ((coupon & KEY_MASK_26) >> lg) | 1"""
    arr = [0] * (1 << lg); mask = (1 << lg) - 1
    for c in coupons:
        p = c & mask; st = ((c & M26) >> lg) | 1
        while arr[p] != 0 and arr[p] != c:
            p = (p + st) & mask
        arr[p] = c
    return arr

def aux_table(lg, lgk, pairs):
    arr = [0] * (1 << lg); mask = (1 << lg) - 1; km = (1 << lgk) - 1
    for c in pairs:
        slot = c & M26 & km
        p = slot & mask; st = (slot >> lg) | 1
        while arr[p] != 0:
            p = (p + st) & mask
        arr[p] = c
    return arr

def min_lg(init, n):
    lg = init
    while 4 * n > 3 * (1 << lg):
        lg += 1
    return lg

def hll_arrays(ty, lgk, regs):
    """register array bytes, cur_min, num_at_cur_min, aux pairs of the documented HLL_4/6/8 layouts"""
    k = 1 << lgk
    if ty == 2:
        return list(regs), 0, sum(1 for v in regs if v == 0), []
    if ty == 1:
        nb = (k * 3 >> 2) + 1
        big = 0
        for i, v in enumerate(regs):
            big |= (v & 63) << (6 * i)
        return le(big, nb), 0, sum(1 for v in regs if v == 0), []
    cm = min(regs)
    b = [0] * (k // 2); aux = []
    for i, v in enumerate(regs):
        nib = v - cm
        if nib >= 15:
            aux.append((v << 26) | i); nib = 15
        b[i >> 1] |= nib << (4 * (i & 1))
    return b, cm, sum(1 for v in regs if v == cm), aux

def py_enc(st, compact):
    mode = st['mode']; ty = st['ty']; lgk = st['lgk']
    mb = mode | (ty << 2)
    if mode == 0:
        cps = st['coupons']
        fl = (4 if not cps else 0) | (8 if compact else 0)
        b = [2, 1, 7, lgk, 3, fl, len(cps), mb]
        for c in (cps if compact else cps + [0] * (8 - len(cps))):
            b += le(c, 4)
        return b
    if mode == 1:
        tab = st['table']; cps = [c for c in tab if c]
        fl = (4 if not cps else 0) | (8 if compact else 0)
        b = [3, 1, 7, lgk, st['lg'], fl, 0, mb] + le(len(cps), 4)
        for c in (cps if compact else tab):
            b += le(c, 4)
        return b
    regs = st['regs']; k = 1 << lgk
    arr, cm, nat, aux = hll_arrays(ty, lgk, regs)
    empty = cm == 0 and nat == k
    fl = (4 if empty else 0) | (8 if compact else 0) | (32 if st.get('full') else 0)
    k0 = sum(2.0 ** -v for v in regs if v < 32); k1 = sum(2.0 ** -v for v in regs if v >= 32)
    auxtab = st.get('auxtab')
    b = [10, 1, 7, lgk, st['auxlg'] if aux else 0, fl, cm, mb] + le(st['hip'], 8) + le(dbits(k0), 8) + le(dbits(k1), 8) + le(nat, 4) + le(len(aux), 4) + arr
    if ty == 0:
        if aux:
            for c in ([c for c in auxtab if c] if compact else auxtab):
                b += le(c, 4)
        elif not compact:
            b += [0] * (4 << LG_AUX[lgk])
    return b

def expected_dump(st):
    """what op 23 must print for a sketch read from py_enc(st): the logical content the image was written from"""
    mode = st['mode']; head = [st['lgk'], st['ty'], mode, 0]
    if mode == 0:
        cps = st['coupons']
        return head + [len(cps)] + cps + [0] * (8 - len(cps))
    if mode == 1:
        cps = sorted(c for c in st['table'] if c)
        return head + [len(cps), None] + cps          # None: table size is not part of the content (compact images are re-hashed)
    regs = st['regs']; lgk = st['lgk']
    arr, cm, nat, aux = hll_arrays(st['ty'], lgk, regs)
    k0 = sum(2.0 ** -v for v in regs if v < 32); k1 = sum(2.0 ** -v for v in regs if v >= 32)
    return head + [1 if st.get('full') else 0, cm, nat, st['hip'], dbits(k0), dbits(k1), None, len(aux)] + sorted(aux) + arr

def dump_matches(got, want):
    return len(got) == len(want) and all(w is None or g == w for g, w in zip(got, want))

def rand_state(rng, tier):
    z = rng.random()
    ty = rng.randrange(3)
    if z < 0.2:
        lgk = rng.choice([4, 5, 7, 8, 10, 12, 21])
        n = rng.choice([0, 1, 2, 7])
        cps = []
        while len(cps) < n:
            c = base.coupon(rng.randrange(1 << 26), rng.randrange(1, 64))
            if c not in cps: cps.append(c)
        return dict(mode=0, ty=ty, lgk=lgk, coupons=cps)
    if z < 0.45:
        lgk = rng.choice([8, 9, 10, 11, 12])
        lg = rng.randrange(5, lgk - 2)
        n = rng.randrange(1, (3 << lg) // 4 + 1)
        cps = set()
        while len(cps) < n:
            cps.add(base.coupon(rng.randrange(1 << 26), rng.randrange(1, 64)))
        return dict(mode=1, ty=ty, lgk=lgk, lg=lg, table=set_table(lg, sorted(cps, key=lambda c: (c * 2654435761) & 0xffffffff)))
    lgk = rng.choice([4, 4, 5, 6, 7, 8, 10] + ([12] if tier != 'quick' else []))
    k = 1 << lgk
    style = rng.choice(['zero', 'sparse', 'dense', 'shifted', 'exceptions'])
    if style == 'zero':
        regs = [0] * k
    elif style == 'sparse':
        regs = [rng.choice([0, 0, 0, 1, 2, 5, 33, 63]) for _ in range(k)]
    elif style == 'dense':
        regs = [min(63, 1 + int(rng.expovariate(0.5))) for _ in range(k)]
    elif style == 'shifted':
        b0 = rng.randrange(1, 40); regs = [b0 + rng.randrange(0, 14) for _ in range(k)]
    else:
        b0 = rng.randrange(0, 30); regs = [min(63, b0 + rng.choice([0, 1, 2, 3, 14, 15, 16, 20, 33])) for _ in range(k)]
    st = dict(mode=2, ty=ty, lgk=lgk, regs=regs, full=rng.random() < 0.3,
              hip=rng.choice([0, dbits(1.0), dbits(float(rng.randrange(1, 10**6)) + 0.25), dbits(123456.789)]))
    if ty == 0:
        _, cm, _, aux = hll_arrays(0, lgk, regs)
        st['auxlg'] = min_lg(LG_AUX[lgk], len(aux)) if aux else 0
        rng.shuffle(aux)
        st['auxtab'] = aux_table(st['auxlg'], lgk, aux) if aux else None
    else:
        st['auxlg'] = 0
    return st

# ---------------------------------------------------------------------------------------------------------------------
# sketches built through the API in every state class
# ---------------------------------------------------------------------------------------------------------------------
def build_ops(rng, r, tier):
    """ops creating register r in one of the state classes; returns (ops, tags, lgk, coupons usable for a continuation)"""
    cls = rng.choice(['empty', 'list', 'list', 'set', 'set', 'hll', 'hll', 'hll4aux', 'hll4aux', 'full', 'items'])
    ty = rng.randrange(3); tags = [cls]
    if cls == 'empty':
        lgk = rng.choice([4, 8, 12]); return [[1, r, lgk, ty, rng.randrange(2) if rng.random() < 0.3 else 0]], tags, lgk
    if cls == 'list':
        lgk = rng.choice([4, 7, 8, 11]); n = rng.randrange(1, 8)
        return [[1, r, lgk, ty, 0], [3, 1, r] + [base.coupon(rng.randrange(1 << 26), rng.randrange(1, 64)) for _ in range(n)]], tags, lgk
    if cls == 'set':
        lgk = rng.choice([8, 9, 10, 11]); prom = max(base.promo_points(lgk))
        n = rng.choice([8, 9, 24, 25, 26, prom - 1, prom - 2, rng.randrange(8, prom)])
        n = max(8, min(n, prom - 1))
        return [[1, r, lgk, ty, 0], [3, 1, r] + [base.coupon(rng.randrange(1 << 26), rng.randrange(1, 64)) for _ in range(n + 3)][:n]], tags, lgk
    if cls == 'items':
        lgk = rng.choice([5, 8, 10]); n = rng.choice([3, 30, 300, 3000])
        return [[1, r, lgk, ty, 0], [4, 1, r, rng.randrange(-2**40, 2**40), n, rng.choice([1, 7, 2**33 + 1])]], tags + ['hip'], lgk
    if cls == 'full':
        lgk = rng.choice([4, 6, 9]); n = rng.choice([0, 1, 5, 40])
        return [[1, r, lgk, ty, 1], [3, 1, r] + [base.coupon(rng.randrange(1 << 26), rng.randrange(1, 64)) for _ in range(n)]], tags, lgk
    lgk = rng.choice([4, 5, 6, 7] + ([8, 9] if cls == 'hll' else []))
    k = 1 << lgk
    if cls == 'hll4aux':
        ty = 0
    n = rng.choice([k, 3 * k, 10 * k]) if lgk <= 7 else 3 * k
    stream = base.raw_stream(rng, lgk, n) if lgk <= 7 else [base.coupon(rng.randrange(1 << 26), min(63, 1 + int(rng.expovariate(0.6)))) for _ in range(n)]
    return [[1, r, lgk, ty, 0]] + [[3, 1, r] + ch for ch in base.chunks(stream, 400)], tags, lgk

def gen_c09(rng, tier):
    thorough = tier != 'quick'
    cases = []
    for ci in range(40 if not thorough else 400):
        ops, tags, lgk = build_ops(rng, 0, tier)
        pairs = []; images = []
        nr = 1
        for compact in (1, 0):
            ops.append([20, 0, compact]); i0 = len(ops) - 1
            for via in (0, 1):
                ops.append([21, nr, 0, compact, via])
                ops.append([23, 0]); a = len(ops) - 1
                ops.append([23, nr]); pairs.append(('dump', a, a + 1, compact))
                ops.append([20, nr, compact]); pairs.append(('image', i0, len(ops) - 1, compact))
                ops.append([6, 0]); a = len(ops) - 1
                ops.append([6, nr]); pairs.append(('query', a, a + 1, compact))
                nr += 1
        # continue the original and the four restored sketches with the same coupons, then compare again
        more = [base.coupon(rng.randrange(1 << 26), min(63, 1 + int(rng.expovariate(0.6)))) for _ in range(rng.choice([1, 5, 40, 2 << min(lgk, 8)]))]
        if rng.random() < 0.5 and lgk <= 7:
            more = base.raw_stream(rng, lgk, len(more))
        ops.append([3, nr] + list(range(nr)) + more)
        ops.append([6, 0]); a0 = len(ops) - 1
        for r in range(1, nr):
            ops.append([6, r]); pairs.append(('query', a0, len(ops) - 1, 1))
        ops.append([20, 0, 1]); i0 = len(ops) - 1
        for r in range(1, nr):
            ops.append([20, r, 1]); pairs.append(('image', i0, len(ops) - 1, 1))
        cases.append(dict(id='hc%d' % ci, ops=ops, tags=tags + ['continued'], pairs=pairs))
    return cases

def split_image(R):
    """(header-ish part that must agree exactly, multiset part whose order is unspecified) of an image"""
    if len(R) < 8: return R, []
    mode = R[7] & 3; compact = bool(R[5] & 8)
    def words(b): return sorted(tuple(b[i:i + 4]) for i in range(0, len(b), 4))
    if mode == 1 and len(R) >= 12:
        return R[:4] + R[5:12], words(R[12:])
    if mode == 2 and (R[7] >> 2) & 3 == 0 and len(R) >= 40:
        lgk = R[3]; ab = 1 << (lgk - 1) if 1 <= lgk <= 21 else 0
        return R[:4] + R[5:40 + ab], words(R[40 + ab:])
    return R, []

def oracle_c09(case, irecs, mrecs):
    fails = []
    def fail(sig, what, i):
        fails.append(dict(sig=sig, what=what, op_index=i))
    ops = case['ops']
    for i, op in enumerate(ops):
        if i >= len(irecs): break
        R = irecs[i]['R']; F = irecs[i].get('F') or []
        if op[0] == 20 and R != [-1] and len(F) >= 4:
            if F[0] != 1: fail('hll_bytes_differ_from_stream', 'serialize: byte-vector and stream forms differ', i)
            if F[1] != len(R): fail('hll_serialized_size', 'image has %d bytes, advertised size %d' % (len(R), F[1]), i)
            if F[2] != 1: fail('hll_header_form', 'serialize_compact(5) is not 5 zero bytes followed by the image', i)
            if F[3] != 1: fail('hll_stream_position', 'deserialize(stream) did not consume exactly the image', i)
        if op[0] == 21 and R != [1]:
            fail('hll_own_image_refused', 'deserialize(serialize(s)) was refused (compact=%d via=%d)' % (op[3], op[4]), i)
    for (kind, a, b, compact) in case.get('pairs', []):
        if a >= len(irecs) or b >= len(irecs): continue
        Ra = irecs[a]['R']; Rb = irecs[b]['R']
        if kind == 'image':
            if Ra != Rb:
                ha, ma = split_image(Ra); hb, mb = split_image(Rb)
                if not (ha == hb and ma == mb):
                    fail('hll_reserialized_differs', 'the restored sketch serializes to a different image (also up to the order of the hash-table entries)', b)
        elif kind == 'dump':
            ka = list(Ra); kb = list(Rb)
            if len(ka) > 5 and ka[2] == 1 and len(kb) > 5: ka[5] = kb[5] = 0            # set: table size is not content
            if len(ka) > 10 and ka[2] == 2 and len(kb) > 10: ka[10] = kb[10] = 0        # HLL_4: aux table size is not content
            if ka != kb:
                fail('hll_restored_differs', 'original and restored sketch differ in content (dump)', b)
        else:
            Fa = irecs[a].get('F'); Fb = irecs[b].get('F')
            if Ra != Rb or Fa != Fb:
                fail('hll_restored_query_differs', 'original and restored sketch answer differently (registers / coupons / estimates / bounds)', b)
    return fails

# ---------------------------------------------------------------------------------------------------------------------
# C10: images from the independent encoder; the documented probe rule at lg_k 17
# ---------------------------------------------------------------------------------------------------------------------
def grow_set(coupons):
    """the documented coupon hash set: 32 slots, doubled (entries re-inserted in table order) when more than 3/4 full"""
    lg = 5; tab = [0] * 32; cnt = 0
    def put(tab, lg, c):
        mask = (1 << lg) - 1; p = c & mask; st = ((c & M26) >> lg) | 1
        while tab[p] != 0 and tab[p] != c:
            p = (p + st) & mask
        new = tab[p] == 0
        tab[p] = c
        return new
    for c in coupons:
        if put(tab, lg, c):
            cnt += 1
            if 4 * cnt > 3 * (1 << lg):
                lg += 1; old = tab; tab = [0] * (1 << lg)
                for e in old:
                    if e: put(tab, lg, e)
    return lg, tab, cnt

def big_set_case(rng):
    """lg_k 17, 6500 distinct coupons: SET mode with a 2^14-slot table.  The updatable image stores the table verbatim, so the
       documented probe sequence (stride from the 26 address bits only) is part of the layout.  (a) the image the code writes for
       a sketch fed these coupons (op 24, oracle only: the list-based Coq model is too slow to build a 2^14 table) must equal,
       byte for byte, the image of the documented algorithm and every coupon must be reachable along the documented probe
       sequence; (b) the documented image is read (both readers, compared with the Coq decoder), re-presenting stored coupons must
       find them (count unchanged - compared with the Coq model) and it re-serializes byte for byte (Coq encoder)."""
    import random
    g = random.Random(20261002)          # fixed: the case is the same in every run
    cps = []; seen = set()
    while len(cps) < 6500:
        c = base.coupon(g.randrange(1 << 26), g.randrange(1, 8))
        if c not in seen:
            seen.add(c); cps.append(c)
    lg, tab, cnt = grow_set(cps)
    img = py_enc(dict(mode=1, ty=2, lgk=17, lg=lg, table=tab), 0)
    ops = [[24, 17, 2] + cps,
           [22, 0, 0] + img, [3, 1, 0] + cps[:300], [23, 0], [20, 0, 0],
           [22, 1, 1] + img, [3, 1, 1] + cps[-300:], [23, 1], [20, 1, 0]]
    return dict(id='hl_bigset', ops=ops, tags=['set', 'lgk17', 'probe-rule'], kind='bigset', ncoupons=len(cps), image=img)

def gen_c10(rng, tier):
    thorough = tier != 'quick'
    cases = [big_set_case(rng)]
    for ci in range(60 if not thorough else 600):
        st = rand_state(rng, tier)
        ops = []; checks = []
        r = 0
        for compact in (1, 0):
            img = py_enc(st, compact)
            for via in (0, 1):
                ops.append([22, r, via] + img); a = len(ops) - 1
                ops.append([23, r])
                ops.append([20, r, compact])
                checks.append((a, compact, via, img))
                r += 1
        tags = [['list', 'set', 'hll'][st['mode']]]
        if st['mode'] == 2 and st['ty'] == 0 and st.get('auxtab'): tags.append('aux')
        cases.append(dict(id='hl%d' % ci, ops=ops, tags=tags, state=st, checks=checks, kind='layout'))
    return cases

def oracle_c10(case, irecs, mrecs):
    fails = []
    def fail(sig, what, i):
        fails.append(dict(sig=sig, what=what, op_index=i))
    if case.get('kind') == 'bigset':
        ops = case['ops']; img = case['image']
        for i, op in enumerate(ops):
            if i >= len(irecs): break
            R = irecs[i]['R']; F = irecs[i].get('F') or []
            if op[0] == 24:
                if len(F) < 12 or F[7] & 3 != 1:
                    fail('hll_set_image_shape', 'the sketch fed 6500 coupons at lg_k 17 is not in SET mode', i); continue
                lg = F[4]; tab = [F[12 + 4 * j] | (F[13 + 4 * j] << 8) | (F[14 + 4 * j] << 16) | (F[15 + 4 * j] << 24) for j in range((len(F) - 12) // 4)]
                mask = (1 << lg) - 1
                if len(tab) != 1 << lg:
                    fail('hll_set_image_size', 'updatable set image does not hold 2^lgArr slots', i); continue
                for p, c in enumerate(tab):
                    if c == 0: continue
                    q = c & mask; st = ((c & M26) >> lg) | 1; steps = 0
                    while q != p and tab[q] != 0 and steps <= mask:
                        q = (q + st) & mask; steps += 1
                    if q != p:
                        fail('hll_set_probe_rule', 'stored coupon %#x at slot %d is not reachable from its home along the documented probe sequence '
                             '(stride = ((coupon & 0x3ffffff) >> lgArr) | 1) without crossing an empty slot' % (c, p), i)
                        break
                if F != img:
                    fail('hll_set_image_differs_from_documented', 'updatable SET image differs from the image of the documented hash-set algorithm', i)
            if op[0] == 22 and R[:1] != [1]:
                fail('hll_documented_image_refused', 'the documented lg_k 17 set image was refused', i)
            if op[0] == 23 and len(R) > 5 and R[4] != case['ncoupons']:
                fail('hll_set_lookup_after_read', 're-presenting coupons stored in a documented updatable image changed the count to %d' % R[4], i)
            if op[0] == 20 and R != img:
                fail('hll_layout_reserialized', 'the documented lg_k 17 set image does not serialize back byte for byte', i)
        return fails
    st = case.get('state')
    if st is None: return fails
    want = expected_dump(st)
    for (a, compact, via, img) in case['checks']:
        if a + 2 >= len(irecs): continue
        R = irecs[a]['R']
        if R == [-1]:
            fail('hll_documented_image_refused', 'an image written from the documented layout was refused (compact=%d via=%d)' % (compact, via), a); continue
        if via == 1 and R != [1, len(img)]:
            fail('hll_stream_position', 'the stream reader consumed %s of a %d-byte image' % (R[1:], len(img)), a)
        D = irecs[a + 1]['R']
        w = list(want)
        if not dump_matches(D, w):
            fail('hll_layout_content', 'the sketch read from a documented image does not hold the content the image was written from (compact=%d via=%d)' % (compact, via), a + 1)
        I2 = irecs[a + 2]['R']
        if I2 != img:
            h1, m1 = split_image(I2); h2, m2 = split_image(img)
            rehashed = (compact and st['mode'] == 1) or (st['mode'] == 2 and st['ty'] == 0 and bool(st.get('auxtab')))
            exact_needed = not rehashed      # a re-hashed table may come back in another physical order
            if exact_needed or not (h1 == h2 and m1 == m2):
                fail('hll_layout_reserialized', 'the decoded sketch does not serialize back to the documented image (compact=%d via=%d)' % (compact, via), a + 2)
    return fails

# ---------------------------------------------------------------------------------------------------------------------
# C11: strict prefixes and preamble-byte mutations of valid images, both readers
# ---------------------------------------------------------------------------------------------------------------------
REPL = [lambda x: 0, lambda x: 1, lambda x: 0xff, lambda x: x ^ 1, lambda x: x ^ 0x80, lambda x: (x + 1) & 0xff, lambda x: x ^ 8, lambda x: 0x7f]

def gen_c11(rng, tier):
    thorough = tier != 'quick'
    cases = []
    for ci in range(14 if not thorough else 120):
        st = rand_state(rng, 'quick')
        if st['mode'] == 2 and st['lgk'] > 8: st = rand_state(rng, 'quick')
        for compact in (1, 0):
            img = py_enc(st, compact)
            if len(img) > 1500 and not thorough: continue
            pre = 8 if st['mode'] == 0 else 12 if st['mode'] == 1 else 40
            # strict prefixes
            lens = list(range(len(img))) if len(img) <= 120 else sorted(set(list(range(0, 60)) + [len(img) - d for d in range(1, 40)] +
                                                                             [rng.randrange(len(img)) for _ in range(40)]))
            ops = []; meta = []
            ops.append([22, 0, 0] + img); ops.append([23, 0]); full_dump = len(ops) - 1
            for n in lens:
                for via in (0, 1):
                    ops.append([22, 1, via] + img[:n]); ops.append([23, 1]); meta.append(('prefix', len(ops) - 2, n, via))
            cases.append(dict(id='hp%d_%d' % (ci, compact), ops=ops, tags=['prefix', ['list', 'set', 'hll'][st['mode']]], meta=meta, full_dump=full_dump,
                              image_len=len(img), kind='prefix'))
            # preamble byte mutations
            ops = []; meta = []
            for pos in range(pre):
                vals = sorted(set(f(img[pos]) for f in REPL) - {img[pos]})
                if not thorough: vals = rng.sample(vals, min(4, len(vals)))
                for v in vals:
                    m = list(img); m[pos] = v
                    for via in (0, 1):
                        ops.append([22, 1, via] + m); ops.append([23, 1]); ops.append([20, 1, compact]); meta.append(('corrupt', len(ops) - 3, pos, via))
            cases.append(dict(id='hx%d_%d' % (ci, compact), ops=ops, tags=['corrupt', ['list', 'set', 'hll'][st['mode']]], meta=meta, kind='corrupt'))
    return cases

def oracle_c11(case, irecs, mrecs):
    fails = []
    def fail(sig, what, i):
        fails.append(dict(sig=sig, what=what, op_index=i))
    if case.get('kind') == 'prefix':
        fd = irecs[case['full_dump']]['R'] if case['full_dump'] < len(irecs) else None
        for (_, a, n, via) in case['meta']:
            if a + 1 >= len(irecs): continue
            if irecs[a]['R'] != [-1]:
                # accepted strict prefix: only where the missing tail is reserved padding, and then the very same sketch
                if irecs[a + 1]['R'] != fd:
                    fail('hll_prefix_accepted', 'a strict prefix (%d of %d bytes, %s reader) was accepted and yields a different sketch' %
                         (n, case['image_len'], 'stream' if via else 'bytes'), a)
    return fails

def fam(prop, gen, oracle):
    return dict(name='hllcodec', harness='drv_hll.cpp', extract='Extract_hllcodec.v', model='model_hllcodec', run='crun', gen=gen, oracle=oracle)

FAMILIES_C09 = [fam('C09', gen_c09, oracle_c09)]
FAMILIES_C10 = [fam('C10', gen_c10, oracle_c10)]
FAMILIES_C11 = [fam('C11', gen_c11, oracle_c11)]

RULE_C09 = ('hll_sketch registers in every state class (empty, list 1..7, set at every table size incl. just below promotion, HLL_4/6/8 from raw coupon streams with cur-min shifts and '
            'aux exceptions, start-full-size, real items with a non-trivial HIP accumulator); serialize_compact and serialize_updatable compared byte for byte with the Coq encoder; '
            'bytes = stream = advertised size, 5-byte header form, stream position; r := deserialize(image) through BOTH readers, content dump / query / re-serialization compared with '
            'the original (hash-table entries up to order), then the original and the four restored sketches continued with the same coupons and compared again')
RULE_C10 = ('images written by an independent Python encoder from the documented layout (list, set tables built with the documented probe rule, HLL_4/6/8 arrays with cur_min, '
            'num_at_cur_min, kxq doubles, aux tables) in compact and updatable form, read by both readers and by the Coq decoders; content dump = the content the image was written '
            'from; re-serialization = the image; one deterministic case at lg_k 17 with 6500 coupons (2^14-slot set table): updatable image byte for byte = Coq encoder of the model '
            'state (physical order, documented stride) and, evaluated by the oracle on the image, every stored coupon reachable from its home along the documented probe sequence')
RULE_C11 = ('for valid images of every kind: every strict prefix (all lengths for images up to 120 bytes, else both ends and a sample) and every preamble byte position x replacement '
            'values, through the bytes reader (exact-size heap buffer) and the stream reader under ASan/UBSan: accept/reject and the accepted content = the Coq decoders; an accepted '
            'strict prefix must yield the very same sketch (reserved aux padding of updatable HLL_4 images)')

# MUTATIONS confirmed caught (scratch worktree = /repo + fixes/11_hll_reader_bounds.patch, scratch combiners S09hll/S10hll/S11hll, VERIF_SEED=1):
#  c1  HllArray::serialize(bytes): kxq1 written into the kxq0 field                        -> C09 hll_bytes_differ_from_stream (+ model image)
#  c3  HllArray::newHll(istream): cur_min not restored                                     -> C09 hll_reserialized_differs / dump
#  c5  makeFlagsByte: FULL_SIZE flag dropped                                               -> C09 hll_restored_differs (+ model image)
#  c7  HllArray::newHll(istream): unused aux area of an updatable HLL_4 image not consumed -> C10 hll_stream_position (168 of 200 bytes)
#  c6  CouponList::newList(bytes): `len < expectedLength` check disabled                   -> C11 verdict differs from the Coq decoder (ASan on the over-read)
#  c9  CouponList::newList(istream): lg_k check removed                                    -> C11 verdict differs (model refuses lg_k outside 4..21)
#  c10 CouponHashSet::newSet(bytes): count-consistency check removed                       -> C11 verdict differs
#  seed C10-3 (probe stride without KEY_MASK_26, visible only at lg_k >= 17)              -> C10 hll_layout_reserialized / hll_set_probe_rule / hll_set_lookup_after_read /
#                                                                                             hll_set_image_differs_from_documented (case hl_bigset)
# harmless rewrites tolerated (exit 0): h1 the two kxq memcpy statements of HllArray::serialize swapped; h2 family id checked before serial version in newList(bytes)
# On the UNREPAIRED tree C09 and C10 are green; C11 reports the reader defects (and is slow: every case crashes under UBSan/ASan): apply the patch first.
