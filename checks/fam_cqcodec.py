# fam_cqcodec.py — serialization of the classic quantiles sketch: C09 (round trip), C10 (documented layout, legacy serial
# versions 1 and 2, non-compact images, the reference images shipped in quantiles/test), C11 (strict prefixes and corrupted
# preambles on both readers) for quantiles_sketch<int64_t> and quantiles_sketch<double> (integer values, default serde).
# Model coq/CqCodecDefs.v (cq_enc / cq_dec; theorems Properties_C09_cq.v, Properties_C10_cq.v, Properties_C11_cq.v, the
# unrepaired byte reader in Regression_cqcodec.v) against serialize() / deserialize(bytes) / deserialize(istream) through
# harness/drv_cq.cpp ops 20-22 (extract/Extract_cqcodec.v, runner crun).
# The model describes the byte reader AS REPAIRED by fixes/11_cq_v1_unused_long.patch.
#
# Mutations confirmed caught / harmless rewrites tolerated: list at the end of this file.
import os, struct
import fam_cq
from fam_cq import Sz, Builder, stream, length_for, sz_merge

READY_C09 = True
READY_C10 = True
READY_C11 = True
COQ_PROPS_C09 = ['Properties_C09_cq']
COQ_PROPS_C10 = ['Properties_C10_cq']
COQ_PROPS_C11 = ['Properties_C11_cq', 'Regression_cqcodec']

RULE_C09 = ('classic quantiles sketches (int64 and double items; k in {2,4,8,16,32,128}) built by updates and every merge case to the states empty, single item, exact, base buffer '
            'full minus one, estimating with empty / non-empty base buffer and with level gaps, queried or not before (base buffer sorted or not): serialize() compared byte for byte '
            'with the Coq encoder; the implementation checks bytes form = stream form, size = get_serialized_size_bytes(), 5-byte header form, the stream reader consumes exactly the '
            'image; r1 := deserialize(serialize(r0)) through BOTH readers (they must agree), then both sketches are observed (n, k, min, max, retained, iterator, sorted view, ranks, '
            'quantiles), re-serialized, continued with the same updates under the same scripted draws and observed and serialized again; every pair must agree. '
            'non-trivial = estimation mode or a continuation that compacts')
RULE_C10 = ('images written by an independent Python encoder from the documented layout in every form deserialize accepts: serial version 3 compact and non-compact (2k base-buffer '
            'slots), sorted flag set or clear, serial version 2 (compact without the flag), serial version 1 (5 preamble longs, unused long, non-compact), empty images with 1 and 2 '
            'preamble longs, preamble_longs values that alias in check_header_validity; arbitrary valid content (k, n, base buffer, full levels for the set bits of n / 2k); decoded by '
            'both readers and by the Coq decoder; the oracle compares n, k, min, max, retained items and weights with the content the image was written from and the re-serialized image '
            'with the version-3 image of that content; plus the 8 reference images quantiles/test/Qk128_n{50,1000}_v{0.3.0,0.6.0,0.8.0,0.8.3}.sk. non-trivial = image with at least one level')
RULE_C11 = ('for valid images of every form above (and the shipped reference images at selected lengths): EVERY strict prefix on both readers (byte reader on a heap block of exactly '
            'that size under ASan): must be rejected, or, where only unused trailing slots of a non-compact image are missing, give the same sketch; the Coq decoder must predict the '
            'verdict; every byte of the first 16 (and the unused long of version 1) replaced by 0x00/0xFF/0x7F/0x80/+1/-1/single bit flips: verdict and decoded content (n, k, min, max, '
            'iterator, re-serialized image) predicted by the Coq decoder on both readers. non-trivial = every case')
TRUSTED = ['classic quantiles codec model coq/CqCodecDefs.v written by hand from quantiles_sketch_impl.hpp:276-593 and the layout comment of quantiles_sketch.hpp',
           'IEEE-754 binary64 patterns of integers computed in Z (CqCodecDefs.dbl_bits), compared with the bytes the implementation writes for double items']
ASSUMPTIONS = ['classic quantiles codec: arithmetic items through the default serde only (int64, double holding integers); string items and custom serdes are not modelled',
               'classic quantiles codec: the placement of EMPTY levels inside non-compact (updatable) images written by other implementations is not documented in the repository; the model '
               'follows the reader (k items per set bit, nothing for a clear bit)']

KS = [2, 2, 4, 8, 16, 32, 128]

def le(x, n):
    x &= (1 << (8 * n)) - 1
    return [(x >> (8 * i)) & 0xff for i in range(n)]

def item_bytes(kind, v):
    if kind == 1:
        return list(struct.pack('<d', float(v)))
    if kind == 3:
        return le(-v, 8)                 # quantiles_sketch<int64_t, DirCmp{desc}>: item v is stored as -v
    return le(v, 8)

def bitlen(z):
    return z.bit_length()

def py_enc(kind, k, n, mn, mx, bb, levels, sv=3, compact=True, srt=True, pre=None, empty=False, extra_flags=0, unused=None, trailing=0):
    """independent encoder, from the documented layout; levels = list of full levels (only those of the set bits, lowest first)"""
    flags = (4 if empty else 0) | (8 if compact and sv == 3 else 0) | (16 if srt else 0) | extra_flags
    if pre is None:
        pre = 1 if empty else (5 if sv == 1 else 2)
    b = [pre, sv, 8, flags] + le(k, 2) + [0, 0]
    if empty:
        return b
    b += le(n, 8) + item_bytes(kind, mn) + item_bytes(kind, mx)
    if sv == 1:
        b += unused if unused is not None else le(2 * k, 8)
    for x in bb:
        b += item_bytes(kind, x)
    is_compact = compact or sv == 2
    if not is_compact and n // (2 * k) > 0:
        b += [0] * (8 * (2 * k - len(bb)))
    for l in levels:
        for x in l:
            b += item_bytes(kind, x)
    b += [0] * trailing
    return b

def content(rng, k, state=None):
    """a valid logical content: (n, bb, full levels, min, max)"""
    state = state or rng.choice(['single', 'exact', 'exact', 'est', 'est', 'est0', 'gap'])
    if state == 'single': n = 1
    elif state == 'exact': n = rng.randrange(1, 2 * k)
    elif state == 'est0': n = 2 * k * rng.choice([1, 2, 3, 4, 6, 7])
    elif state == 'gap': n = 2 * k * rng.choice([2, 4, 5, 8, 10]) + rng.randrange(0, 2 * k)
    else: n = 2 * k * rng.choice([1, 2, 3, 5, 7]) + rng.randrange(1, 2 * k)
    base = rng.choice([0, -1000, 2 ** 40, -2 ** 40])
    bb = [base + rng.randrange(0, 3000) for _ in range(n % (2 * k))]
    levels = []
    bp = n // (2 * k)
    for i in range(bitlen(bp)):
        if (bp >> i) & 1:
            levels.append(sorted(base + rng.randrange(0, 3000) for _ in range(k)))
    allv = bb + [x for l in levels for x in l]
    return dict(k=k, n=n, bb=bb, levels=levels, mn=min(allv) - rng.choice([0, 0, 3]), mx=max(allv) + rng.choice([0, 0, 7]))

def weights_of(c):
    k = c['k']; bp = c['n'] // (2 * k); out = [(x, 1) for x in c['bb']]; j = 0
    for i in range(bitlen(bp)):
        if (bp >> i) & 1:
            out += [(x, 2 << i) for x in c['levels'][j]]; j += 1
    return sorted(out)

# ---------------------------------------------------------------------------------------------------------------------
# C09
# ---------------------------------------------------------------------------------------------------------------------
def gen_c09(rng, tier):
    thorough = tier != 'quick'
    cases = []
    for ci in range(70 if not thorough else 700):
        kind = rng.choice([0, 0, 1, 3])
        b = Builder(rng, kind)
        b.ops.append([99, rng.randrange(1 << 30)])
        tags = set(); pairs = []
        k = rng.choice(KS); b.new(0, k)
        st = rng.choice(['empty', 'exact', 'exact', 'est', 'est', 'est', 'one', 'almost'])
        n = {'one': 1, 'almost': 2 * k - 1}.get(st)
        if n is None:
            n = length_for(rng, k, st)
        n = min(n, 1200)
        b.feed(0, stream(rng, n))
        if rng.random() < 0.4:
            k2 = rng.choice([k, k, 2 * k, max(2, k // 2)]); b.new(2, k2)
            b.feed(2, stream(rng, min(1000, length_for(rng, k2, rng.choice(['empty', 'exact', 'est', 'est'])))))
            b.merge(0, 2, 0); tags.add('merge')
        vals = b.vals[0]
        if rng.random() < 0.5 and vals:
            b.ops.append([6, 0, rng.choice(vals)])                  # a query: the base buffer gets sorted
        ops = b.ops
        ops.append([20, 0]); i0 = len(ops) - 1
        ops.append([21, 1, 0])
        ops.append([20, 1]); pairs.append((i0, len(ops) - 1))
        b.sims[1] = b.sims[0].copy(); b.vals[1] = list(vals)
        def both(mk):
            a = len(ops); ops.append(mk(0)); ops.append(mk(1)); pairs.append((a, a + 1))
        both(lambda r: [5, r]); both(lambda r: [10, r])
        lo = min(vals) if vals else 0; hi = max(vals) if vals else 5
        for _ in range(4):
            x = rng.randrange(lo - 1, hi + 2); both(lambda r, x=x: [6, r, x])
        j = rng.choice([0, 1, 2, 3, 4]); both(lambda r: [7, r, j, 2])
        # continue both with the same updates and the same draws
        kk = b.sims[0].k
        xs = stream(rng, rng.choice([1, 2, kk, 3 * kk, rng.randrange(1, 10 * kk)]))
        s0 = b.sims[0].copy(); ar = []
        for x in xs:
            ar += s0.update()
        draws = [rng.randrange(a) for a in ar]
        for r in (0, 1):
            ops.append([98] + draws)
            for x in xs:
                ops.append([2, r, x])
            ops.append([97])
        both(lambda r: [5, r]); both(lambda r: [10, r]); both(lambda r: [20, r])
        for _ in range(3):
            x = rng.randrange(lo - 1, hi + 2); both(lambda r, x=x: [6, r, x])
        if b.sims[0].bp: tags.add('estimation')
        if ar: tags.add('continuation-compacts')
        if kind == 1: tags.add('double')
        if kind == 3: tags.add('stateful-comparator')
        cases.append(dict(id='qc%d' % ci, ops=ops, tags=sorted(tags), pairs=pairs))
    return cases

def check_image(R, F, fail, i):
    if len(F) >= 5:
        if F[0] != 1: fail('cq_bytes_differ_from_stream', 'serialize(): byte-vector and stream forms differ', i)
        if not (F[1] == F[2] == len(R)): fail('cq_serialized_size', 'image has %d bytes, get_serialized_size_bytes() = %d' % (len(R), F[1]), i)
        if F[3] != 1: fail('cq_header_form', 'serialize(5) is not 5 zero bytes followed by the image', i)
        if F[4] != 1: fail('cq_stream_position', 'deserialize(stream) did not consume exactly the image', i)
    if len(R) >= 8:
        if R[1] != 3 or R[2] != 8 or R[0] not in (1, 2) or (R[3] & 0x18) != 0x18 or R[6:8] != [0, 0]:
            fail('cq_layout_header', 'preamble bytes %s do not follow the documented layout' % R[:8], i)

def oracle_c09(case, irecs, mrecs):
    fails = []
    def fail(sig, what, i):
        fails.append(dict(sig=sig, what=what, op_index=i))
    ops = case['ops']
    for i, op in enumerate(ops):
        if i >= len(irecs): break
        R = irecs[i]['R']; F = irecs[i].get('F') or []
        if op[0] == 20 and R != [-1]:
            check_image(R, F, fail, i)
        if op[0] == 21:
            if R != [1]:
                fail('cq_own_image_refused' if R == [-1] else 'cq_readers_disagree', 'deserialize(serialize(s)): verdict %s (1 = both readers accept)' % R, i)
            elif F and F[0] != 1:
                fail('cq_readers_disagree', 'the byte reader and the stream reader restore different sketches from the same image', i)
        if op[0] == 97 and F and F != [0]:
            fail('cq_continuation_draws', 'the continuation did not make the same draws on the original and the restored sketch', i)
    for (a, b) in case.get('pairs', []):
        if a < len(irecs) and b < len(irecs) and a < len(ops) and b < len(ops):
            Ra = irecs[a]['R']; Rb = irecs[b]['R']
            if Ra != Rb:
                if ops[a][0] == 20:
                    fail('cq_reserialized_differs', 'restored sketch re-serializes to a different image (%d vs %d bytes)' % (len(Ra), len(Rb)), b)
                else:
                    fail('cq_restored_differs', 'op %s: original answers %s, restored sketch answers %s' % (ops[a], Ra[:12], Rb[:12]), b)
    return fails

# ---------------------------------------------------------------------------------------------------------------------
# C10: images from the independent encoder and the shipped reference images
# ---------------------------------------------------------------------------------------------------------------------
FORMS = [dict(sv=3, compact=True), dict(sv=3, compact=False), dict(sv=2, compact=True), dict(sv=1, compact=False)]

def shipped():
    try:
        import vlib
        d = os.path.join(vlib.REPO, 'quantiles', 'test')
    except Exception:
        d = '/repo/quantiles/test'
    out = []
    for n in (50, 1000):
        for v in ('0.3.0', '0.6.0', '0.8.0', '0.8.3'):
            p = os.path.join(d, 'Qk128_n%d_v%s.sk' % (n, v))
            if os.path.exists(p):
                out.append((n, v, list(open(p, 'rb').read())))
    return out

def gen_c10(rng, tier):
    thorough = tier != 'quick'
    cases = []
    for (n, v, img) in shipped():
        ops = [[22, 0, 1] + img, [5, 0], [20, 0], [10, 0], [6, 0, n // 2], [7, 0, 1, 1]]
        cases.append(dict(id='qship_n%d_v%s' % (n, v.replace('.', '_')), ops=ops, tags=['shipped', 'levels>=1'] if n > 256 else ['shipped'], shipped=(n, v), image=img))
    for ci in range(60 if not thorough else 600):
        kind = rng.choice([0, 0, 1, 3]); k = rng.choice(KS)
        form = rng.choice(FORMS)
        z = rng.random()
        if z < 0.12:
            pre = rng.choice([1, 1, 2]) if form['sv'] == 3 else 1
            if rng.random() < 0.3: pre += rng.choice([8, 64, 72, 128])          # aliases in the uint8 switch of check_header_validity
            img = py_enc(kind, k, 0, 0, 0, [], [], sv=form['sv'], compact=form['compact'], empty=True, pre=pre, srt=rng.random() < 0.5)
            c = dict(k=k, n=0, bb=[], levels=[], mn=0, mx=0); srt = True
        else:
            c = content(rng, k)
            srt = rng.random() < 0.5
            if srt: c['bb'] = sorted(c['bb'])
            pre = None
            if rng.random() < 0.15: pre = (5 if form['sv'] == 1 else 2) + rng.choice([8, 64, 128])
            img = py_enc(kind, k, c['n'], c['mn'], c['mx'], c['bb'], c['levels'], sv=form['sv'], compact=form['compact'], srt=srt, pre=pre,
                         extra_flags=rng.choice([0, 0, 1, 2, 0x20, 0xE3]), trailing=rng.choice([0, 0, 3, 16]))
        want = py_enc(kind, k, c['n'], c['mn'], c['mx'], sorted(c['bb']), c['levels'], empty=c['n'] == 0)
        lo = c['mn']; hi = c['mx']
        ops = [[22, 0, kind] + img]
        if c['n'] and rng.random() < 0.7:                       # queries BEFORE anything sorts the base buffer: the sorted flag of the image matters
            ops += [[6, 0, rng.randrange(lo - 1, hi + 2)], [7, 0, rng.randrange(0, 5), 2]]
        ops += [[5, 0], [20, 0], [10, 0]]
        if c['n']:
            for _ in range(3):
                ops.append([6, 0, rng.randrange(lo - 1, hi + 2)])
            ops.append([7, 0, rng.randrange(0, 5), 2])
        tags = ['sv%d' % form['sv'], 'compact' if form['compact'] else 'non-compact'] + (['levels>=1'] if c['levels'] else [])
        cases.append(dict(id='ql%d' % ci, ops=ops, tags=tags, content=c, kind=kind, image=img, want=want))
    return cases

def observed(R):
    """(n, nret, empty, est, k, min, max, [(item, weight)]) from an observe line"""
    n, nret, empty, est, k = R[:5]; p = 5; mn = mx = None
    if empty == 0:
        mn, mx = R[5], R[6]; p = 7
    pairs = R[p + 1:]
    return n, nret, empty, est, k, mn, mx, list(zip(pairs[0::2], pairs[1::2]))

def oracle_c10(case, irecs, mrecs):
    fails = []
    def fail(sig, what, i):
        fails.append(dict(sig=sig, what=what, op_index=i))
    if len(irecs) < 4:
        return fails
    if irecs[0]['R'] != [1]:
        fail('cq_documented_image_refused' if 'shipped' not in case else 'cq_reference_image_refused',
             'an image written from the documented layout / a shipped reference image was not accepted by both readers (verdict %s)' % irecs[0]['R'], 0)
        return fails
    F0 = irecs[0].get('F') or []
    if F0 and F0[0] != 1:
        fail('cq_readers_disagree', 'the byte reader and the stream reader restore different sketches from the same image', 0)
    i5 = next(i for i, op in enumerate(case['ops']) if op[0] == 5); i20 = next(i for i, op in enumerate(case['ops']) if op[0] == 20)
    if max(i5, i20) >= len(irecs):
        return fails
    R = irecs[i5]['R']
    if R == [-1] or len(R) < 5:
        fail('cq_layout_observe', 'the decoded sketch cannot be observed', i5); return fails
    n, nret, empty, est, k, mn, mx, items = observed(R)
    if 'shipped' in case:
        N, v = case['shipped']
        if n != N or k != 128 or (mn, mx) != (1, N) or sum(w for _, w in items) != N or len(items) != nret:
            fail('cq_reference_image_content', 'reference image n=%d v%s decodes to n=%d k=%d min/max=%s/%s, weights %d' % (N, v, n, k, mn, mx, sum(w for _, w in items)), i5)
        if N == 50 and items != [(i, 1) for i in range(1, 51)]:
            fail('cq_reference_image_content', 'reference image n=50 v%s does not decode to the items 1..50' % v, i5)
        if not set(x for x, _ in items) <= set(range(1, N + 1)):
            fail('cq_reference_image_content', 'reference image holds an item outside 1..n', i5)
        check_image(irecs[i20]['R'], irecs[i20].get('F') or [], fail, i20)
        return fails
    c = case['content']
    if n != c['n'] or k != c['k'] or nret != len(c['bb']) + sum(len(l) for l in c['levels']) or empty != (1 if c['n'] == 0 else 0):
        fail('cq_layout_counts', 'decoded n/k/retained/empty = %s, the image says n = %d, k = %d' % (R[:5], c['n'], c['k']), i5)
    if c['n'] and [mn, mx] != [c['mn'], c['mx']]:
        fail('cq_layout_minmax', 'decoded min/max %s, image holds %s' % ([mn, mx], [c['mn'], c['mx']]), i5)
    if items != weights_of(c):
        fail('cq_layout_items', 'decoded items/weights differ from the content the image was written from', i5)
    R2 = irecs[i20]['R']; F2 = irecs[i20].get('F') or []
    check_image(R2, F2, fail, i20)
    if R2 != case['want']:
        fail('cq_layout_reserialized', 'the decoded sketch does not serialize back to the version-3 image of its content', i20)
    return fails

# ---------------------------------------------------------------------------------------------------------------------
# C11: strict prefixes and corrupted preambles, both readers
# ---------------------------------------------------------------------------------------------------------------------
def needed_len(kind, img):
    """how many bytes of a VALID image the reader consumes (from the header fields); the rest is ignorable padding"""
    if len(img) < 8: return None
    sv, flags = img[1], img[3]; k = img[4] + 256 * img[5]
    if flags & 4: return 8
    n = sum(b << (8 * i) for i, b in enumerate(img[8:16]))
    compact = sv == 2 or (flags & 8) != 0
    bp = n // (2 * k); bbn = n % (2 * k)
    slots = bbn if (bp == 0 or compact) else 2 * k
    return 32 + (8 if sv == 1 else 0) + 8 * (slots + k * bin(bp).count('1'))

MUT = [lambda b: 0, lambda b: 0xFF, lambda b: 0x7F, lambda b: 0x80, lambda b: (b + 1) & 0xFF, lambda b: (b - 1) & 0xFF] + \
      [(lambda b, i=i: b ^ (1 << i)) for i in range(8)]

def gen_c11(rng, tier):
    thorough = tier != 'quick'
    cases = []
    idx = 0
    def prefix_case(cid, kind, img, lengths, tags):
        need = needed_len(kind, img)
        ops = []
        for j, m in enumerate(lengths):
            ops.append([22, j, kind] + img[:m]); ops.append([5, j])
        ops.append([22, len(lengths), kind] + img); ops.append([5, len(lengths)])
        cases.append(dict(id=cid, ops=ops, tags=tags, prefix=dict(lengths=list(lengths), need=need, size=len(img))))
    def corrupt_case(cid, kind, img, positions, tags):
        ops = []; muts = []
        r = 0
        for pos in positions:
            seen = set()
            for f in MUT:
                v = f(img[pos])
                if v == img[pos] or v in seen: continue
                seen.add(v)
                im = list(img); im[pos] = v
                ops.append([22, r, kind] + im); ops.append([5, r]); ops.append([20, r]); muts.append((pos, v)); r += 1
        cases.append(dict(id=cid, ops=ops, tags=tags, corrupt=muts))
    # the verbatim finding: a strict prefix (32..39 bytes) of a serial-version-1 image
    c = dict(k=4, n=3, bb=[5, 1, 9], levels=[], mn=1, mx=9)
    img = py_enc(1, 4, 3, 1, 9, c['bb'], [], sv=1, compact=False, srt=False)
    prefix_case('qp_v1_unused_long', 1, img, list(range(len(img))), ['prefix', 'sv1'])
    for (n, v, img) in shipped():
        sz = len(img); need = needed_len(1, img)
        ls = sorted(set(list(range(0, 49)) + [need - 9, need - 8, need - 1, need, need + 1, sz - 8, sz - 1] + [rng.randrange(49, sz) for _ in range(6)]))
        ls = [m for m in ls if 0 <= m < sz]
        prefix_case('qp_ship_n%d_v%s' % (n, v.replace('.', '_')), 1, img, ls, ['prefix', 'shipped'])
        if n == 50:
            corrupt_case('qx_ship_n%d_v%s' % (n, v.replace('.', '_')), 1, img, list(range(16)) + ([32, 33, 39] if v == '0.3.0' else []), ['corrupt', 'shipped'])
    for ci in range(14 if not thorough else 120):
        kind = rng.choice([0, 0, 1, 3]); k = rng.choice([2, 2, 4, 8])
        form = rng.choice(FORMS)
        if rng.random() < 0.1:
            img = py_enc(kind, k, 0, 0, 0, [], [], sv=form['sv'], compact=form['compact'], empty=True)
            tags = ['empty']
        else:
            c = content(rng, k, rng.choice(['single', 'exact', 'est', 'est0', 'gap']))
            if c['n'] > 60 * k: continue
            c['bb'] = sorted(c['bb'])
            img = py_enc(kind, k, c['n'], c['mn'], c['mx'], c['bb'], c['levels'], sv=form['sv'], compact=form['compact'], srt=True,
                         trailing=rng.choice([0, 0, 0, 8, 24]) if not form['compact'] else 0)
            tags = ['sv%d' % form['sv'], 'compact' if form['compact'] else 'non-compact']
        if len(img) > 900: continue
        prefix_case('qp%d' % ci, kind, img, list(range(len(img))), ['prefix'] + tags)
        pos = list(range(min(16, len(img))))
        if form['sv'] == 1 and len(img) >= 40: pos += [32, 35, 39]
        corrupt_case('qx%d' % ci, kind, img, pos, ['corrupt'] + tags)
    return cases

def oracle_c11(case, irecs, mrecs):
    fails = []
    def fail(sig, what, i):
        fails.append(dict(sig=sig, what=what, op_index=i))
    ops = case['ops']
    if 'prefix' in case:
        p = case['prefix']; L = p['lengths']
        if len(irecs) < len(ops):
            return fails
        full_obs = irecs[2 * len(L) + 1]['R']
        if irecs[2 * len(L)]['R'] != [1]:
            fail('cq_valid_image_refused', 'the complete image was not accepted by both readers (verdict %s)' % irecs[2 * len(L)]['R'], 2 * len(L))
        for j, m in enumerate(L):
            R = irecs[2 * j]['R']
            if R in ([2], [3]):
                fail('cq_readers_disagree_on_prefix', 'prefix of %d of %d bytes: verdict %s (2 = only the byte reader accepts, 3 = only the stream reader)' % (m, p['size'], R), 2 * j)
            elif R == [1]:
                if p['need'] is None or m < p['need']:
                    fail('cq_prefix_accepted', 'a strict prefix (%d of %d bytes, %s needed) was accepted' % (m, p['size'], p['need']), 2 * j)
                elif irecs[2 * j + 1]['R'] != full_obs:
                    fail('cq_padding_prefix_differs', 'prefix of %d bytes (only padding missing) gives a different sketch' % m, 2 * j + 1)
            elif R == [-1] and p['need'] is not None and m >= p['need']:
                fail('cq_padding_prefix_refused', 'prefix of %d bytes holds everything the reader needs (%d) but was refused' % (m, p['need']), 2 * j)
    if 'corrupt' in case:
        for j, (pos, v) in enumerate(case['corrupt']):
            i = 3 * j
            if i >= len(irecs): break
            R = irecs[i]['R']
            if R in ([2], [3]):
                fail('cq_readers_disagree_on_corrupted', 'byte %d := 0x%02x: verdict %s (2 = only the byte reader accepts, 3 = only the stream reader)' % (pos, v, R), i)
            elif R == [1]:
                F = irecs[i].get('F') or []
                if F and F[0] != 1:
                    fail('cq_readers_disagree_on_corrupted', 'byte %d := 0x%02x: the two readers restore different sketches' % (pos, v), i)
                O = irecs[i + 1]['R']
                if O == [-1] or len(O) < 5:
                    fail('cq_corrupted_unusable', 'byte %d := 0x%02x accepted but the sketch cannot be observed' % (pos, v), i + 1)
                else:
                    n, nret, empty, est, k, mn, mx, items = observed(O)
                    if len(items) != nret or sum(w for _, w in items) != n:
                        fail('cq_corrupted_inconsistent', 'byte %d := 0x%02x accepted: iterator yields %d entries of total weight %d, n = %d, retained = %d' % (pos, v, len(items), sum(w for _, w in items), n, nret), i + 1)
    return fails

def fam(prop, gen, oracle):
    return dict(name='cqcodec', harness='drv_cq.cpp', extract='Extract_cqcodec.v', model='model_cqcodec', run='crun', gen=gen, oracle=oracle)
FAMILIES_C09 = [fam('C09', gen_c09, oracle_c09)]
FAMILIES_C10 = [fam('C10', gen_c10, oracle_c10)]
FAMILIES_C11 = [fam('C11', gen_c11, oracle_c11)]

# ---------------------------------------------------------------------------------------------------------------------
# Mutation log (scratch worktree with fixes/11_cq_v1_unused_long.patch applied, VERIF_REPO, quick tier, seed 1;
# quantiles/include/quantiles_sketch_impl.hpp).  Breaking, each reported as VIOLATION by the checks named:
#   c1  serialize(bytes): flags byte without IS_SORTED                                   C09, C10, C11
#   c2  serialize(stream): min and max written in swapped order                          C09, C10
#   c3  deserialize(bytes) / c3s deserialize(stream): is_sorted taken from the compact bit   C10, C11 (queries before anything sorts the base buffer;
#       readers compared on rank/quantile before re-serializing)
#   c4  deserialize(stream): the unused long of a version-1 image is not skipped         C10 (shipped v0.3.0 images), C11
#   c5  get_serialized_size_bytes: one item short                                        C09, C10, C11
#   c6  deserialize(bytes): a non-compact base buffer is taken to have k slots           C10, C11
#   c7  check_header_validity: case 164 (version 1, 5 preamble longs) dropped            C10, C11
#   c8  deserialize(bytes): ensure_minimum_memory(size, 16) dropped                      C11 (ASan on the prefixes of 8..15 bytes)
#   the unrepaired /repo tree (unused long of version 1 read without a size check)       C11 (ASan: heap-buffer-overflow in copy_from_mem)
# Harmless rewrites tolerated (exit 0 for C09, C10, C11): h1 flags byte built with + instead of |; h2 serialize(stream) writes the base buffer only
# when it is non-empty and deserialize(bytes) no longer reserves the level vector.
