# fam_req.py — REQ family of C07 (weight conservation, exact extremes, coherent answers) and C08 (rank unbiased over coins).
# Harness harness/drv_req.cpp (req_sketch<int64_t>, <double>, <std::string, std::greater>, <int64_t, DirCmp(true)> stateful comparator) vs. model coq/ReqDefs.v
# (extract/Extract_req.v), fresh coins routed through the DATASKETCHES_VERIF hook and replayed by the model.
#
# Mutations confirmed caught / harmless rewrites tolerated (scratch worktree, VERIF_REPO): see the list at the end of this file.
import struct, math

READY_C07 = True
READY_C08 = True
COQ_PROPS_C07 = ['Properties_C07_req']
COQ_PROPS_C08 = ['Properties_C08_req']

RULE_C07 = ('operation scripts over up to 4 registers holding req_sketch<int64_t>, req_sketch<double> (integer values, NaN updates and NaN split points) or '
            'req_sketch<string, greater> (order-isomorphic encoding) or req_sketch<int64_t, DirCmp> with a stateful comparator instance (descending; items stored negated), both accuracy modes (HRA/LRA; mixed-mode merges must be refused): k in {4,6,8,12,20,50} plus odd, '
            'tiny and truncated k (0..3, 5, 7, 255, 256, 300, 65535; the constructor rounds down to even, clamps to 4 and truncates to 8 bits); streams sorted/reversed/'
            'random/constant/heavy duplicates of 0..~2500 items (several section doublings of level 0); merges of equal and unequal k, exact/estimating/empty '
            'operands, lvalue and rvalue, merge chains and trees; after the history every register is observed (n, min, max, num_retained, iterator listing by ++it, it++, *it++ '
            'and range-for, a deviating walk being the one reported; an EMPTY '
            'sketch is iterated in every case) and queried: rank grid (get_rank sums the compactors), dyadic quantile grid incl. 0 and 1 and out-of-range ranks, '
            'CDF/PMF with valid, unsorted, duplicate and NaN split points, sorted-view listing (CDF and rank go through different code and must agree); queries are '
            'also interleaved with updates (they sort level 0 in place); the float32 section-size schedule of the model is compared with the machine arithmetic '
            'for every section size 4..~300; deterministic merges into compactors holding 0, 1, 2, section_size-1, section_size, section_size+1 items at level 0 '
            '(operand sorted / unsorted, values on both sides of the receiver\'s items, with ties) and 0, 2, 3, 4, 5 items above level 0 (a compactor above level 0 never '
            'holds exactly one item), and merges that land exactly on num_retained == max_nom_size. non-trivial = at least one compaction or one merge')
RULE_C08 = ('the published error: get_RSE on a grid of (k, rank, hra, n) and get_rank_lower/upper_bound on estimation-mode sketches of both modes queried at every item '
            'within 7k of either end and at dyadic ranks just inside / outside the band is_exact_rank declares exact (bit-exact against the model; oracle: lb <= estimate <= ub, '
            'bounds widen with the number of standard deviations, inside the declared-exact band the estimate is the true rank); exhaustive enumeration on the implementation of ALL outcomes of the internal FRESH coin flips for short histories (updates and merges over registers, '
            'both modes; k in {4,6}; m <= 8 coins quick, <= 13 thorough) through scripted coins: for every query point the sum over the 2^m outcomes of the rank '
            'numerators must equal 2^m * true rank, every outcome must draw exactly m coins (enumeration, not proof; the theorems are in Properties_C08_req). '
            'Histories include the reused (negated) coin of odd compactions and merges into a compactor that never compacted. non-trivial = every such case (m >= 1)')
TRUSTED = ['REQ model coq/ReqDefs.v (+ coq/SortedView.v) written by hand from req_sketch_impl.hpp / req_compactor_impl.hpp / quantiles_sorted_view_impl.hpp; std::sort, '
           'std::inplace_merge, std::merge, std::lower_bound/upper_bound modelled by insertion sort, a stable merge and a linear scan (same results on the sorted ranges '
           'they are applied to)',
           'binary32 arithmetic of section_size_raw_ (division by sqrtf(2), round()) modelled by exact integer arithmetic on (mantissa, exponent) pairs; compared on '
           'every run with the machine arithmetic (op 20) for all section sizes the scripts use',
           'fresh coin flips of random_utils::random_bit() are supplied by the harness through the DATASKETCHES_VERIF hook and replayed by the model (their generation is not modelled)',
           'rank numerators are recovered in the harness as llround(rank * n) (IEEE division/multiplication only); quantile ranks in the scripts are dyadic (j / 2^t)',
           'get_rank (as a double), get_rank_lower_bound / get_rank_upper_bound / get_RSE are modelled in Coq primitive binary64 floats (+ - * / sqrt, comparisons) and '
           'compared BIT FOR BIT with the code (harness built with -ffp-contract=off); the exact-band theorem is about the integer compaction model, not about the float code']
ASSUMPTIONS = ['n < 2^53, fewer than 2^47 compactions per level and at most 63 levels (uint8/uint32/uint64 overflow of the implementation is not modelled)',
               'items are totally ordered integers (double sketches receive integer values; NaN only through the dedicated ops); comparator assumed a strict weak order',
               'the clause "within the published error at least as often as claimed" of C08 is statistical and not claimed',
               'serialization of req_sketch is outside this family (C09/C11)']

KS = [4, 4, 4, 6, 6, 8, 12, 20, 50]
ODD_KS = [0, 1, 2, 3, 5, 7, 255, 256, 300, 65535]

def eff_k(k):
    return max((k & -2) % 256, 4)

# ---------------------------------------------------------------------------------------------------------------------
# size-only simulation of the sketch (generator aid: number of fresh coins a history draws; the oracle re-checks it on
# the implementation's E lines)
# ---------------------------------------------------------------------------------------------------------------------
def f32(x):
    return struct.unpack('<f', struct.pack('<f', x))[0]
SQRT2F = f32(math.sqrt(2.0))

class RC:
    def __init__(self, lg, k):
        self.lg = lg; self.raw = float(k); self.ssz = k; self.nsec = 3; self.state = 0; self.n = 0
        self.coin_set = False     # True once a compaction assigned coin_ (before that it is the constructor's draw)
    def copy(self):
        c = RC(self.lg, 4); c.__dict__.update(self.__dict__); return c
    def nom(self):
        return 2 * self.nsec * self.ssz
    def ensure(self):
        ssr = f32(self.raw / SQRT2F)
        ne = int(math.floor(ssr / 2 + 0.5)) * 2
        if self.state >= (1 << (self.nsec - 1)) and ne >= 4:
            self.raw = ssr; self.ssz = ne; self.nsec *= 2
            return True
        return False
    def compact(self, nxt, stats):
        t = 0; s = self.state
        while s & 1:
            t += 1; s >>= 1
        secs = min(t + 1, self.nsec)
        nc = self.nom() // 2 + (self.nsec - secs) * self.ssz
        if (self.n - nc) & 1:
            nc += 1
        rng = self.n - nc
        fresh = (self.state & 1) == 0
        if not fresh and not self.coin_set:
            stats['unset'] = stats.get('unset', 0) + 1
        self.coin_set = True
        nxt.n += rng // 2; self.n -= rng; self.state += 1
        if self.ensure():
            stats['sections'] = stats.get('sections', 0) + 1
        return 1 if fresh else 0

class Sz:
    def __init__(self, k, hra):
        self.k = eff_k(k); self.hra = hra; self.comps = [RC(0, self.k)]; self.n = 0; self.nret = 0
        self.maxnom = self.comps[0].nom(); self.stats = {}
    def copy(self):
        c = Sz(self.k, self.hra); c.comps = [x.copy() for x in self.comps]; c.n = self.n; c.nret = self.nret; c.maxnom = self.maxnom
        return c
    def grow(self):          # one coin: the constructor of the new compactor draws its initial coin_
        self.comps.append(RC(len(self.comps), self.k)); self.maxnom = sum(c.nom() for c in self.comps)
        return 1
    def compress(self):
        f = 0; h = 0
        while h < len(self.comps):
            c = self.comps[h]
            if c.n >= c.nom():
                if h + 1 >= len(self.comps):
                    f += self.grow()
                f += c.compact(self.comps[h + 1], self.stats)
                self.stats['compactions'] = self.stats.get('compactions', 0) + 1
            h += 1
        self.nret = sum(c.n for c in self.comps); self.maxnom = sum(c.nom() for c in self.comps)
        return f
    def update(self):
        self.comps[0].n += 1; self.nret += 1; self.n += 1
        if self.nret == self.maxnom:
            return self.compress()
        return 0
    def merged_counts(self, o):
        """(num_retained, max_nom_size) that merge(o) would compare before deciding to compress"""
        c = self.copy(); c.stats = {}
        if o.n == 0:
            return c.nret, c.maxnom
        while len(c.comps) < len(o.comps):
            c.grow()
        for i, oc in enumerate(o.comps):
            x = c.comps[i]; x.state |= oc.state
            while x.ensure():
                pass
            x.n += oc.n
        return sum(x.n for x in c.comps), sum(x.nom() for x in c.comps)
    def merge(self, o):
        if o.n == 0:
            return 0
        f0 = 0
        while len(self.comps) < len(o.comps):
            f0 += self.grow()
        for i, oc in enumerate(o.comps):
            c = self.comps[i]; c.state |= oc.state
            while c.ensure():
                self.stats['sections'] = self.stats.get('sections', 0) + 1
            c.n += oc.n
        self.n += o.n
        self.maxnom = sum(c.nom() for c in self.comps); self.nret = sum(c.n for c in self.comps)
        if self.nret >= self.maxnom:
            return f0 + self.compress()
        return f0

# ---------------------------------------------------------------------------------------------------------------------
# C07 generator
# ---------------------------------------------------------------------------------------------------------------------
def stream(rng, n):
    kind = rng.choice(['sorted', 'reversed', 'random', 'constant', 'dups', 'dups', 'random', 'sawtooth'])
    base = rng.choice([0, 0, -50, 1000, -2 ** 40, 2 ** 40])
    if kind == 'sorted':
        return [base + i for i in range(n)]
    if kind == 'reversed':
        return [base + n - i for i in range(n)]
    if kind == 'constant':
        return [base + 7] * n
    if kind == 'dups':
        u = rng.choice([2, 3, 5, 10])
        return [base + rng.randrange(u) for _ in range(n)]
    if kind == 'sawtooth':
        p = rng.choice([3, 7, 16])
        return [base + (i % p) * 10 + i // p for i in range(n)]
    return [base + rng.randrange(-100, 1000) for _ in range(n)]

def band_edges(k, n, t=30):
    """dyadic ranks j / 2^t just inside and just outside the band is_exact_rank declares exact (3k/n from either end)"""
    if n <= 0:
        return [0, 1 << t]
    e = (3 * k << t) // n
    js = [e - 1, e, e + 1, e + 2, (1 << t) - e - 2, (1 << t) - e - 1, (1 << t) - e, (1 << t) - e + 1, 2 * e, (1 << t) - 2 * e]
    return sorted(set(j for j in js if 0 <= j <= (1 << t)))

def query_block(rng, r, kind, vals, thorough, k=None):
    """observe + rank grid + quantile grid + CDF/PMF + listing for register r"""
    ops = [[5, r], [10, r]]
    lo = min(vals) if vals else 0; hi = max(vals) if vals else 10
    pts = set([lo - 1, lo, hi, hi + 1] + [rng.randrange(lo - 2, hi + 3) for _ in range(6 if not thorough else 12)] +
              [rng.choice(vals) for _ in range(3)] if vals else [0, 1])
    if k and vals:
        # items around the edge of the never-compacted zone (3k from either end) and of the level-0 capacity (6k)
        sv = sorted(vals)
        for c in (3 * k, 6 * k, 4 * k):
            for d in (-2, -1, 0, 1):
                for idx in (c + d, len(sv) - 1 - (c + d)):
                    if 0 <= idx < len(sv): pts.add(sv[idx])
    pts = sorted(pts)
    for x in pts:
        ops.append([6, r, x])
    if k:
        for j in band_edges(k, len(vals)):
            ops.append([22, r, j, 30, rng.choice([1, 2, 3, 0, 255])])
    t = rng.choice([1, 2, 3, 4, 6, 10])
    js = sorted(set([0, 1 << t, (1 << t) // 2] + [rng.randrange(0, (1 << t) + 1) for _ in range(5)]))
    for j in js:
        ops.append([7, r, j, t])
    if rng.random() < 0.5:
        ops.append([7, r, rng.choice([-1, (1 << t) + 1, -(1 << t), 2 << t]), t])       # rank outside [0, 1]
    sp = sorted(set(rng.sample(pts, min(len(pts), rng.choice([0, 1, 2, 4, 6])))))
    ops.append([8, r] + sp)
    z = rng.random()
    if z < 0.25 and len(sp) >= 2:
        bad = list(sp); i = rng.randrange(len(bad) - 1); bad[i], bad[i + 1] = bad[i + 1], bad[i]
        ops.append([8, r] + bad)                                                        # unsorted split points
    elif z < 0.4 and len(sp) >= 1:
        i = rng.randrange(len(sp)); ops.append([8, r] + sp[:i + 1] + sp[i:])             # duplicate split point
    if kind == 1 and rng.random() < 0.6:
        ops.append([9, r, rng.randrange(0, len(sp) + 1)] + sp)                          # NaN split point
    ops.append([5, r])
    return ops

def published_error_cases(rng, thorough):
    cases = []
    # the published error (C08, second sentence): static get_RSE on a grid of (k, rank, hra, n) with ranks just inside / outside the
    # declared-exact band at both ends, compared bit for bit with the model
    ops = []
    for k in (4, 5, 12, 50, 200, 1000, 65535, 0, 1):
        for n in (0, 1, 3 * k, 3 * k + 1, 6 * k, 6 * k + 1, 10 * k + 7, 1000 * k + 1, (1 << 40) + 12345):
            for h in (0, 1):
                for j in band_edges(k, n) + [0, 1 << 29, 1 << 30]:
                    ops.append([21, k, j, 30, h, n])
    ops += [[21, 70000, 0, 1, 0, 5], [21, 4, 3, 1, 0, 5], [21, 4, 1, 41, 0, 5]]      # refused by the harness
    cases.append(dict(id='req_rse_grid', ops=ops, tags=['published-error-grid']))
    # estimation-mode sketches of plain streams, both modes, queried at EVERY item around the edge of the never-compacted zone
    # (ranks 3k - 3 .. 3k + 3 and up to 6k from the accurate end): inside the band the sketch declares exact, the estimate must be the true rank
    bi = 0
    for h in (0, 1):
        for k in (4, 6, 12):
            for n in (6 * k + 1, 13 * k, 40 * k + 3):
                for order in ('sorted', 'reversed', 'random'):
                    bi += 1; kind = (0, 1, 2, 4)[bi % 4]
                    xs = list(range(n))
                    if order == 'reversed': xs.reverse()
                    elif order == 'random': rng.shuffle(xs)
                    ops = [[99, 3000 + bi], [1, 0, kind, k, h]] + [[2, 0, x] for x in xs]
                    near = sorted(set(list(range(0, min(n, 7 * k))) + list(range(max(0, n - 7 * k), n))))
                    ops += [[6, 0, x] for x in near]
                    ops += query_block(rng, 0, kind, xs, thorough, k)
                    cases.append(dict(id='reqband%d' % bi, ops=ops, tags=['compaction', 'exact-band', 'hra' if h else 'lra']))
    return cases

def gen_c07(rng, tier):
    thorough = tier != 'quick'
    ncases = 90 if not thorough else 900
    cases = []
    # the confirmed defect F3, verbatim: iterate an empty sketch (both modes, all item types)
    ops = []
    for r, (kind, h) in enumerate([(0, 0), (0, 1), (1, 1), (2, 0), (4, 1)]):
        ops += [[1, r, kind, 12, h], [5, r]]
    cases.append(dict(id='req_f3', ops=ops, tags=['empty-iterator']))
    # the float32 section-size schedule, every section size the constructor can produce and a few larger ones
    ks = list(range(4, 256, 2)) + [300, 1000, 4096, 65534]
    cases.append(dict(id='req_sched', ops=[[20, k] for k in ks], tags=['float32-schedule']))
    cases += published_error_cases(rng, thorough)
    # merges into compactors of every small size (seed C07-2: req_compactor::merge must inplace_merge also when the receiving
    # compactor holds exactly ONE item).  Level 0: receiver with 0, 1, 2, section_size - 1, section_size, section_size + 1
    # items; operand sorted (level 0 sorted by a query) or unsorted, with values on BOTH sides of the receiver's items.
    # Higher levels: a compactor above level 0 never holds exactly one item (a compaction promotes >= 2), so the sizes are
    # 0 (levels added by merge) and section_size/2 = 2, 3, 4, 5 (top level right after the first compaction, k = 4, 6, 8, 10).
    di = 0
    for h in (0, 1):
        for k in (4, 6):
            for na in (0, 1, 2, k - 1, k, k + 1):
                for osorted in (0, 1):
                    kind = (0, 1, 2, 4)[di % 4]; di += 1
                    av = [100 + 20 * j for j in range(na)]                      # receiver: 100, 120, ...
                    bv = [130, 10, 101, 99, 500, 100][:rng.choice([2, 4, 6])]   # operand: unsorted, on both sides, with a tie
                    ops = [[99, 1000 + di], [1, 0, kind, k, h], [1, 1, kind, k, h]] + [[2, 0, x] for x in av] + [[2, 1, x] for x in bv]
                    if osorted:
                        ops.append([6, 1, 0])                                       # get_rank sorts level 0 of the operand
                    if na and di % 2:
                        ops.append([6, 0, 0])                                       # receiver flagged sorted as well
                    ops += [[4, 0, 1, di % 2]]
                    ops += query_block(rng, 0, kind, av + bv, thorough, k)
                    cases.append(dict(id='reqsmall%d' % di, ops=ops, tags=['merge', 'merge-small-receiver', 'recv=%d' % na]))
        for k in (4, 6, 8, 10):
            for shape in ('est<-est', 'tiny<-est', 'est<-tiny', 'empty<-est'):
                kind = (0, 1, 2, 4)[di % 4]; di += 1
                cap = 6 * k
                ev = [2 * ((7 * j) % cap) for j in range(cap)]                  # even values, scrambled: exactly one compaction
                od = [2 * ((5 * j) % cap) + 1 for j in range(cap)]              # odd values interleaving with them
                tiny = [cap + 1, -3][:1 + di % 2]
                if shape == 'est<-est': av, bv = ev, od
                elif shape == 'tiny<-est': av, bv = tiny, od
                elif shape == 'est<-tiny': av, bv = ev, tiny
                else: av, bv = [], od
                ops = [[99, 2000 + di], [1, 0, kind, k, h], [1, 1, kind, k, h]] + [[2, 0, x] for x in av] + [[2, 1, x] for x in bv]
                ops += [[5, 0], [5, 1], [4, 0, 1, 0]]
                ops += query_block(rng, 0, kind, av + bv, thorough, k)
                cases.append(dict(id='reqtop%d' % di, ops=ops, tags=['merge', 'merge-small-receiver', 'compaction', shape]))
    # merges after which num_retained == max_nom_size EXACTLY (the boundary of "if (num_retained_ >= max_nom_size_) compress()");
    # a sketch left uncompressed there never compresses again, because update() tests equality
    for ci in range(6 if not thorough else 40):
        k = rng.choice([4, 4, 6, 8, 12]); h = rng.randrange(2); kind = rng.choice([0, 1, 2, 4])
        cap = 6 * eff_k(k)
        for attempt in range(50):
            a = Sz(k, h); b = Sz(k, h)
            n1 = rng.choice([rng.randrange(1, cap), rng.randrange(1, 8 * cap)])
            for _ in range(n1): a.update()
            n2 = None
            for j in range(1, 4 * cap):
                b.update()
                r, m = a.merged_counts(b)
                if r == m:
                    n2 = j; break
            if n2 is not None:
                break
        if n2 is None:
            continue
        xs = stream(rng, n1); ys = stream(rng, n2)
        ops = [[99, rng.randrange(1 << 30)], [1, 0, kind, k, h], [1, 1, kind, k, h]] + [[2, 0, x] for x in xs] + [[2, 1, y] for y in ys]
        ops += [[4, 0, 1, 0], [5, 0]] + [[2, 0, y + 1] for y in ys[:cap]] + query_block(rng, 0, kind, xs + ys + [y + 1 for y in ys[:cap]], thorough, eff_k(k))
        cases.append(dict(id='reqexact%d' % ci, ops=ops, tags=['merge', 'merge-exact-capacity']))
    for ci in range(ncases):
        ops = []; tags = set()
        kind = rng.choice([0, 0, 1, 1, 2, 4, 4])
        nreg = rng.choice([1, 2, 2, 3, 4])
        samek = rng.random() < 0.5
        samemode = rng.random() < 0.9
        k0 = rng.choice(KS); h0 = rng.randrange(2)
        sims = {}; vals = {}
        ops.append([99, rng.randrange(1 << 30)])
        for r in range(nreg):
            k = k0 if samek else rng.choice(KS)
            if rng.random() < 0.12:
                k = rng.choice(ODD_KS); tags.add('k-adjusted')
            if rng.random() < 0.04:
                ops.append([1, r, kind, rng.choice([65536, 1 << 20, -1]), h0])        # refused by the harness (not a uint16)
            h = h0 if samemode else rng.randrange(2)
            kk = kind if rng.random() > 0.04 else rng.choice([x for x in (0, 1, 2, 4) if x != kind])                        # rarely a different item type (merge refused)
            ops.append([1, r, kk, k, h]); sims[r] = Sz(k, h); vals[r] = []; sims[r].kind = kk
            if rng.random() < 0.3:
                ops.append([5, r])                                                      # iterate the empty sketch
        big = rng.random() < (0.15 if not thorough else 0.25)
        flips = 0; merges = 0
        nsteps = rng.choice([1, 2, 3, 4, 6])
        for stp in range(nsteps):
            r = rng.randrange(nreg)
            z = rng.random()
            if z < 0.6 or stp == 0:
                k = sims[r].k
                cap = 6 * k
                n = rng.choice([0, 1, 2, cap - 1, cap, cap + 1, 2 * cap, 3 * cap + 1, rng.randrange(1, 6 * cap), rng.randrange(1, 12 * cap)])
                if big:
                    n = rng.randrange(10 * cap, 60 * cap)
                n = min(n, 2500 if not thorough else 8000)
                xs = stream(rng, n)
                interleave = rng.random() < 0.25
                for i, x in enumerate(xs):
                    ops.append([2, r, x]); vals[r].append(x); flips += sims[r].update()
                    if kind == 1 and rng.random() < 0.03:
                        ops.append([3, r])
                    if interleave and rng.random() < 0.08:
                        q = rng.random()
                        if q < 0.5: ops.append([6, r, x + rng.randrange(-2, 3)])
                        elif q < 0.8: ops.append([7, r, rng.randrange(0, 9), 3])
                        else: ops.append([10, r])
            elif z < 0.93 and nreg > 1:
                r2 = rng.choice([x for x in range(nreg) if x != r])
                mode = 1 if rng.random() < 0.3 else 0
                ops.append([4, r, r2, mode]); merges += 1
                if sims[r].kind == sims[r2].kind and sims[r].hra == sims[r2].hra:
                    flips += sims[r].merge(sims[r2]); vals[r] += vals[r2]
                    if mode == 1:
                        # the source register is dropped; recreate it so that later steps can use it
                        ops.append([1, r2, sims[r2].kind, sims[r2].k, sims[r2].hra]); k2 = sims[r2].k; kd = sims[r2].kind; hh = sims[r2].hra
                        sims[r2] = Sz(k2, hh); sims[r2].kind = kd; vals[r2] = []
                elif sims[r].kind == sims[r2].kind:
                    tags.add('mixed-mode-merge')
                if rng.random() < 0.5:
                    ops += [[5, r]]
            elif nreg > 1:
                r2 = rng.choice([x for x in range(nreg) if x != r])
                ops.append([13, r, r2]); kd = sims[r2].kind; sims[r] = sims[r2].copy(); sims[r].kind = kd; vals[r] = list(vals[r2])
            else:
                ops += [[6, r, 0], [7, r, 1, 1], [8, r, 1, 2], [10, r], [5, r]]          # possibly on an empty sketch
        # final merge tree: fold everything into register 0, then observe all
        if nreg > 1 and rng.random() < 0.6:
            order = list(range(1, nreg)); rng.shuffle(order)
            for r2 in order:
                ops.append([4, 0, r2, 0]); merges += 1
                if sims[0].kind == sims[r2].kind and sims[0].hra == sims[r2].hra:
                    flips += sims[0].merge(sims[r2]); vals[0] += vals[r2]
                ops.append([5, 0])
        for r in range(nreg):
            ops += query_block(rng, r, kind, vals[r], thorough, sims[r].k)
        comp = sum(s.stats.get('compactions', 0) for s in sims.values())
        if comp: tags.add('compaction')
        if merges: tags.add('merge')
        if any(s.stats.get('sections', 0) for s in sims.values()): tags.add('sections-doubled')
        if any(s.stats.get('unset', 0) for s in sims.values()): tags.add('negated-unset-coin')
        if any(len(s.comps) >= 3 for s in sims.values()): tags.add('3+levels')
        if any(s.hra for s in sims.values()): tags.add('hra')
        if any(not s.hra for s in sims.values()): tags.add('lra')
        if kind == 2: tags.add('string-greater')
        if kind == 4: tags.add('stateful-comparator')
        if kind == 1: tags.add('double')
        if not samek and merges: tags.add('unequal-k')
        if not (comp or merges):
            tags = set()
        cases.append(dict(id='req%d' % ci, ops=ops, tags=sorted(tags)))
    return cases

# ---------------------------------------------------------------------------------------------------------------------
# C07 oracle (property predicates on the implementation's outputs; ground truth from the model's S lines and from the
# inputs of the script)
# ---------------------------------------------------------------------------------------------------------------------
def dbl(bits):
    return struct.unpack('<d', struct.pack('<Q', bits & (2 ** 64 - 1)))[0]

def is_pow2(w):
    return w > 0 and (w & (w - 1)) == 0

def multiset_sub(a, b):
    from collections import Counter
    ca = Counter(a); cb = Counter(b)
    return all(cb[x] >= c for x, c in ca.items())

def strictly_increasing(l):
    return all(l[i] < l[i + 1] for i in range(len(l) - 1))

def R_k(g):
    return eff_k(g['k'])

def oracle_c07(case, irecs, mrecs):
    fails = []
    def fail(sig, what, i):
        fails.append(dict(sig=sig, what=what, op_index=i))
    regs = {}      # r -> dict(log, merged, epoch, kind, k, hra)
    hist = {}
    def view(r):
        g = regs[r]
        h = hist.get(r)
        if h is None or h['epoch'] != g['epoch']:
            h = dict(epoch=g['epoch'], ranks=[], quants=[], retained=None, n=None); hist[r] = h
        return h
    for i, op in enumerate(case['ops']):
        if i >= len(irecs):
            break
        R = irecs[i]['R']; F = irecs[i].get('F') or []
        S = (mrecs[i].get('S') if i < len(mrecs) else None) or []
        oc = op[0]
        if oc in (20, 97, 98, 99):
            continue
        if oc == 21:
            if R != [-1] and len(R) == 1:
                rank = op[2] / float(1 << op[3]); lb = dbl(R[0])
                if not (lb <= rank):
                    fail('req_bounds_exclude_estimate', 'get_RSE(%d, %r, %d, %d) = %r above the rank' % (op[1], rank, op[4], op[5], lb), i)
            continue
        if oc == 1:
            if R == [1]:
                regs[op[1]] = dict(log=[], merged=False, epoch=i, kind=op[2], k=op[3], hra=1 if op[4] else 0)
            continue
        r = op[1]
        if oc == 13:
            if R == [1] and op[2] in regs:
                g2 = regs[op[2]]; regs[r] = dict(log=list(g2['log']), merged=g2['merged'], epoch=i, kind=g2['kind'], k=g2['k'], hra=g2['hra'], mixedk=g2.get('mixedk'))
            continue
        if r not in regs:
            if R != [-1]:
                fail('req_unknown_register', 'operation on a missing register answered', i)
            continue
        g = regs[r]
        if oc == 2:
            if R == [1]:
                g['log'].append(op[2]); g['epoch'] = i
        elif oc == 3:
            pass
        elif oc == 4:
            if op[2] in regs and regs[op[2]]['kind'] == g['kind'] and regs[op[2]]['hra'] != g['hra'] and r != op[2]:
                if R != [-1]:
                    fail('req_mixed_mode_merge_accepted', 'merging an HRA and an LRA sketch was not refused', i)
                continue
            if R == [1] and op[2] in regs:
                g2 = regs[op[2]]
                if g2['log']:
                    g['log'] += g2['log']; g['merged'] = True; g['epoch'] = i
                    if eff_k(g2['k']) != eff_k(g['k']) or g2.get('mixedk'): g['mixedk'] = True
                if op[3] == 1:
                    del regs[op[2]]
        elif oc == 5:
            if R == [-1] or len(R) < 6:
                fail('req_observe', 'observation refused', i); continue
            n, nret, empty, est, k, hra = R[:6]
            log = g['log']
            if S and n != S[0] or n != len(log):
                fail('req_n', 'get_n() = %d but %d items were accepted' % (n, len(log)), i)
            if (empty == 1) != (len(log) == 0):
                fail('req_empty', 'is_empty() = %d with %d accepted items' % (empty, len(log)), i)
            if hra != g['hra']:
                fail('req_mode', 'is_HRA() differs from the mode the sketch was made with', i)
            if not (4 <= k <= max(4, g['k'])) or k % 2:
                fail('req_k', 'get_k() = %d for a sketch made with k = %d' % (k, g['k']), i)
            p = 6
            if empty == 0:
                if len(R) < 8:
                    fail('req_observe', 'observation incomplete', i); continue
                mn, mx = R[6], R[7]; p = 8
                if log and (mn != min(log) or mx != max(log)):
                    fail('req_minmax', 'min/max = %d/%d but the stream extremes are %d/%d' % (mn, mx, min(log), max(log)), i)
                if S and log and (S[1] != min(log) or S[2] != max(log)):
                    fail('req_spec_minmax', 'model ground truth disagrees with the script', i)
            cnt = R[p]; pairs = R[p + 1:]
            items = pairs[0::2]; ws = pairs[1::2]
            if cnt != nret or len(items) != nret:
                if n == 0:
                    fail('req_empty_iterator', 'iterating an EMPTY sketch: begin() != end(), the iterator yields at least %d entries while '
                                               'get_num_retained() = 0 (it starts inside the empty compactor and runs off its end)' % cnt, i)
                else:
                    fail('req_iterator_length', 'iterator yields %d entries, get_num_retained() = %d' % (cnt, nret), i)
                continue
            if sum(ws) != n:
                fail('req_iterator_weights', 'iterator weights sum to %d but n = %d' % (sum(ws), n), i)
            if not all(is_pow2(w) for w in ws):
                fail('req_iterator_weight_not_pow2', 'an iterator weight is not a power of two', i)
            if not multiset_sub(items, log):
                fail('req_retained_not_input', 'a retained item was never given to the sketch', i)
            if len(S) >= 4 and n > 0 and nret >= S[3]:
                fail('req_space_bound', 'num_retained %d not below the nominal capacity %d (sum over the compactors)' % (nret, S[3]), i)
            if est == 0 and (nret != n or sorted(items) != sorted(log)):
                fail('req_exact_mode', 'not in estimation mode but the retained items are not the input multiset', i)
            if est == 1 and all(w == 1 for w in ws) and n > 0:
                fail('req_estimation_flag', 'estimation mode but every retained item has weight 1', i)
            h = view(r); h['retained'] = set(items); h['n'] = n
        elif oc in (6, 7, 8, 9, 10, 22):
            log = g['log']
            if not log:
                if R != [-1] and oc not in (10, 22):
                    fail('req_empty_query_answered', 'query %d on an empty sketch was answered' % oc, i)
                continue
            h = view(r); n = len(log)
            if oc == 6:
                if R == [-1] or len(R) < 3:
                    fail('req_rank_refused', 'rank query refused', i); continue
                ni, ne, est = R[:3]; x = op[2]
                ri, re = (dbl(R[3]), dbl(R[4])) if len(R) >= 5 else (0.0, 0.0)
                if not (0 <= ne <= ni <= n) or not (0.0 <= re <= ri <= 1.0):
                    fail('req_rank_incl_lt_excl', 'rank(%d): inclusive %d < exclusive %d or outside [0, n]' % (x, ni, ne), i)
                if est == 0 and S and (ni != S[0] or ne != S[1]):
                    fail('req_exact_rank', 'exact sketch: rank(%d) = %d/%d but the true rank is %d/%d' % (x, ni, ne, S[0], S[1]), i)
                if x >= max(log) and ni != n:
                    fail('req_rank_top', 'inclusive rank of a value >= max is %d, n = %d' % (ni, n), i)
                if x <= min(log) and ne != 0:
                    fail('req_rank_bottom', 'exclusive rank of a value <= min is %d' % ne, i)
                for (x2, ni2, ne2) in h['ranks']:
                    if (x2 <= x and (ni2 > ni or ne2 > ne)) or (x2 >= x and (ni2 < ni or ne2 < ne)):
                        fail('req_rank_not_monotone', 'rank(%d) = %d/%d vs rank(%d) = %d/%d' % (x2, ni2, ne2, x, ni, ne), i)
                    if x2 < x and ni2 > ne:
                        fail('req_rank_incoherent', 'inclusive rank(%d) = %d above exclusive rank(%d) = %d' % (x2, ni2, x, ne), i)
                h['ranks'].append((x, ni, ne))
                if len(R) >= 11:
                    bs = [dbl(v) for v in R[5:11]]
                    for sd in range(3):
                        lb, ub = bs[2 * sd], bs[2 * sd + 1]
                        if not (lb <= ri <= ub):
                            fail('req_bounds_exclude_estimate', 'get_rank_lower/upper_bound(%r, %d) = %r / %r do not enclose the rank' % (ri, sd + 1, lb, ub), i)
                        if est == 0 and (lb != ri or ub != ri):
                            fail('req_bounds_exact_mode', 'exact sketch but the published rank bounds differ from the rank', i)
                        if sd and (lb > bs[2 * sd - 2] or ub < bs[2 * sd - 1]):
                            fail('req_bounds_not_widening', 'the published bounds for %d standard deviations are inside those for %d' % (sd + 1, sd), i)
                    # the band the sketch itself declares exact (lower bound == estimate == upper bound): there the estimate
                    # must be the true rank of the input stream (the protected half of level 0 is never compacted)
                    if est == 1 and bs[0] == ri == bs[1]:
                        true_incl = sum(1 for v in log if v <= x)
                        if ni != true_incl:
                            sig = 'req_exact_band_wrong'
                            if g.get('mixedk'): sig = 'req_exact_band_wrong_after_unequal_k_merge'
                            elif ni == 3 * R_k(g) or n - ni == 3 * R_k(g): sig = 'req_exact_band_wrong_at_its_edge'
                            fail(sig, 'rank(%d) = %d/%d is declared exact (lower bound = estimate = upper bound = %r) but the true rank is %d/%d '
                                      '(k = %d, %s, n = %d)' % (x, ni, n, ri, true_incl, n, R_k(g), 'HRA' if g['hra'] else 'LRA', n), i)
            elif oc == 7:
                j, t = op[2], op[3]
                if j < 0 or j > (1 << t):
                    if R != [-1]:
                        fail('req_bad_rank_answered', 'get_quantile(%d/2^%d) was answered' % (j, t), i)
                    continue
                if R == [-1] or len(R) < 3:
                    fail('req_quantile_refused', 'quantile query refused', i); continue
                qi, qe, est = R
                if h['retained'] is not None and (qi not in h['retained'] or qe not in h['retained']):
                    fail('req_quantile_not_retained', 'quantile %d/%d is not a retained item' % (qi, qe), i)
                if qi not in log or qe not in log:
                    fail('req_quantile_not_input', 'quantile is not an input item', i)
                if est == 0 and S and (qi != S[0] or qe != S[1]):
                    fail('req_exact_quantile', 'exact sketch: quantile(%d/2^%d) = %d/%d but the order statistics are %d/%d' % (j, t, qi, qe, S[0], S[1]), i)
                if qi > qe:
                    fail('req_quantile_incl_gt_excl', 'inclusive quantile above exclusive quantile', i)
                for (j2, t2, qi2, qe2) in h['quants']:
                    a = j2 * (1 << t); b = j * (1 << t2)      # compare j2/2^t2 with j/2^t
                    if (a <= b and (qi2 > qi or qe2 > qe)) or (a >= b and (qi2 < qi or qe2 < qe)):
                        fail('req_quantile_not_monotone', 'quantile(%d/2^%d) = %d/%d vs quantile(%d/2^%d) = %d/%d' % (j2, t2, qi2, qe2, j, t, qi, qe), i)
                h['quants'].append((j, t, qi, qe))
            elif oc == 8:
                sp = op[2:]
                if not strictly_increasing(sp):
                    if R != [-1]:
                        fail('req_bad_splits_answered', 'CDF with unsorted/duplicate split points was answered', i)
                    continue
                if R == [-1]:
                    fail('req_cdf_refused', 'CDF query refused', i); continue
                m = len(sp) + 1
                ci, ce = R[:m], R[m:2 * m]
                if len(R) != 2 * m or not F or F[0] != m:
                    fail('req_cdf_size', 'CDF size is not number of split points + 1', i); continue
                fd = [dbl(x) for x in F[1:]]
                dci, dce, dpi, dpe = fd[:m], fd[m:2 * m], fd[2 * m:3 * m], fd[3 * m:4 * m]
                for nm, c, d, p in (('inclusive', ci, dci, dpi), ('exclusive', ce, dce, dpe)):
                    if c[-1] != n or d[-1] != 1.0:
                        fail('req_cdf_last', '%s CDF does not end at 1' % nm, i)
                    if any(c[q] > c[q + 1] for q in range(m - 1)):
                        fail('req_cdf_not_monotone', '%s CDF decreases' % nm, i)
                    if abs(sum(p) - 1.0) > 1e-9 or any(x < 0 for x in p):
                        fail('req_pmf_sum', '%s PMF sums to %r' % (nm, sum(p)), i)
                    if any(abs(p[q] - (d[q] - (d[q - 1] if q else 0.0))) > 1e-12 for q in range(m)):
                        fail('req_pmf_vs_cdf', '%s PMF is not the difference of the CDF' % nm, i)
                for q, x in enumerate(sp):
                    for (x2, ni2, ne2) in h['ranks']:
                        if x2 == x and (ni2 != ci[q] or ne2 != ce[q]):
                            fail('req_cdf_vs_rank', 'CDF(%d) = %d/%d but get_rank = %d/%d' % (x, ci[q], ce[q], ni2, ne2), i)
                    if ci[q] < ce[q]:
                        fail('req_rank_incl_lt_excl', 'CDF inclusive below exclusive at %d' % x, i)
            elif oc == 22:
                if R != [-1] and len(R) == 2:
                    rank = op[2] / float(1 << op[3]); lb, ub = dbl(R[0]), dbl(R[1])
                    if not (lb <= rank <= ub):
                        fail('req_bounds_exclude_estimate', 'get_rank_lower/upper_bound(%r, %d) = %r / %r do not enclose the rank' % (rank, op[4], lb, ub), i)
            elif oc == 9:
                if g['kind'] == 1 and R != [-1]:
                    fail('req_nan_split_answered', 'CDF with a NaN split point was answered', i)
            elif oc == 10:
                if R == [-1] or len(R) < 1:
                    fail('req_view_refused', 'sorted view refused', i); continue
                tot = R[0]; xs = R[1::2]; cs = R[2::2]
                if tot != n or (cs and cs[-1] != n):
                    fail('req_view_total', 'sorted view total weight %d, n = %d' % (cs[-1] if cs else tot, n), i)
                if not strictly_increasing(xs) or not strictly_increasing([0] + cs):
                    fail('req_view_order', 'sorted view is not ordered or cumulative weights do not increase', i)
                if not set(xs) <= set(log):
                    fail('req_retained_not_input', 'sorted view holds an item never given', i)
                for (x2, ni2, ne2) in h['ranks']:
                    below = [c for x, c in zip(xs, cs) if x <= x2]
                    if ni2 != (below[-1] if below else 0):
                        fail('req_rank_vs_view', 'get_rank(%d) = %d differs from the sorted view' % (x2, ni2), i)
    return fails

# ---------------------------------------------------------------------------------------------------------------------
# C08: exhaustive enumeration of the coin outcomes of short histories, on the implementation
# ---------------------------------------------------------------------------------------------------------------------
def history(rng, max_m, want_unset):
    """a short history over registers; returns (ops, m, query register, values, stats)"""
    for _ in range(400):
        nreg = rng.choice([1, 1, 2, 2, 3])
        if want_unset:
            nreg = rng.choice([2, 3])
        kind = rng.choice([0, 0, 1, 2, 4, 4])
        h = rng.randrange(2)
        ks = [rng.choice([4, 4, 6]) for _ in range(nreg)]
        ops = [[1, r, kind, ks[r], h] for r in range(nreg)]
        sims = [Sz(k, h) for k in ks]; vals = [[] for _ in range(nreg)]
        m = nreg                                      # every sketch constructor draws the initial coin of its level 0
        if want_unset:
            # B compacts level 0 exactly once (state 1), A stays empty or small, A.merge(B), then A is filled until it compacts
            n1 = 6 * sims[1].k
            for x in stream(rng, n1):
                ops.append([2, 1, x % 64]); m += sims[1].update(); vals[1].append(x % 64)
            for x in stream(rng, rng.choice([0, 0, 1, 5])):
                ops.append([2, 0, x % 64]); m += sims[0].update(); vals[0].append(x % 64)
            ops.append([4, 0, 1, 0]); m += sims[0].merge(sims[1]); vals[0] += vals[1]
            for x in stream(rng, rng.choice([30, 40, 60])):
                ops.append([2, 0, x % 64]); m += sims[0].update(); vals[0].append(x % 64)
        else:
            nsteps = rng.choice([1, 2, 3, 4]) if nreg > 1 else 1
            for stp in range(nsteps):
                r = rng.randrange(nreg)
                if stp >= nreg and nreg > 1 and rng.random() < 0.6:
                    r2 = rng.choice([x for x in range(nreg) if x != r])
                    ops.append([4, r, r2, 0]); m += sims[r].merge(sims[r2]); vals[r] += vals[r2]
                else:
                    n = rng.choice([24, 25, 30, 50, 60, 75, 100, 130, rng.randrange(1, 160)])
                    xs = stream(rng, n)
                    xs = [x % 64 for x in xs] if rng.random() < 0.5 else xs
                    for x in xs:
                        ops.append([2, r, x]); m += sims[r].update(); vals[r].append(x)
            for r2 in range(1, nreg):
                ops.append([4, 0, r2, 0]); m += sims[0].merge(sims[r2]); vals[0] += vals[r2]
        unset = sum(s.stats.get('unset', 0) for s in sims)
        if nreg + 2 <= m <= max_m and vals[0] and (not want_unset or unset):      # at least one compaction (new level + fresh coin)
            return ops, m, 0, vals[0], dict(unset=unset, negated=any(c.state >= 2 for s in sims for c in s.comps))
    return None

def gen_c08(rng, tier):
    thorough = tier != 'quick'
    cases = published_error_cases(rng, thorough)      # C08, second sentence: the error bounds the sketch publishes
    budget = 90000 if not thorough else 4000000       # total operations
    idx = 0
    while budget > 0 and idx < (14 if not thorough else 60):
        max_m = rng.choice([4, 6, 8]) if not thorough else rng.choice([6, 8, 10, 11, 12])
        want_unset = idx % 4 == 1
        hst = history(rng, max_m, want_unset)
        if hst is None:
            continue
        hops, m, qr, vals, st = hst
        if (1 << m) * (len(hops) + 12) > 200000:      # one case is one list for the extracted runner: keep it within its stack
            continue
        lo, hi = min(vals), max(vals)
        pts = sorted(set([lo, hi, hi + 1] + [rng.choice(vals) for _ in range(3)] + [rng.randrange(lo, hi + 2) for _ in range(3)]))
        ops = []
        for c in range(1 << m):
            ops.append([99, 12345])
            ops.append([98] + [(c >> b) & 1 for b in range(m)])
            ops += hops
            ops.append([97])
            for x in pts:
                ops.append([6, qr, x])
        budget -= len(ops)
        tags = ['enumeration', 'm=%d' % m] + (['merge'] if any(o[0] == 4 for o in hops) else [])
        if st['unset']: tags.append('negated-unset-coin')
        if st['negated']: tags.append('negated-coin')
        cases.append(dict(id='reqenum%d' % idx, ops=ops, tags=tags))
        idx += 1
    return cases

def oracle_c08(case, irecs, mrecs):
    if case['id'].startswith('reqband') or case['id'].startswith('req_rse'):
        return oracle_c07(case, irecs, mrecs)       # published bounds: lb <= estimate <= ub, widening, declared-exact band
    fails = []
    ops = case['ops']
    starts = [i for i, op in enumerate(ops) if op[0] == 99]
    if not starts or len(irecs) < len(ops):
        return fails
    blocks = [(starts[b], starts[b + 1] if b + 1 < len(starts) else len(ops)) for b in range(len(starts))]
    shape = None; seqs = set(); sums = {}; truth = {}; m = None; mdrawn = None
    for (a, b) in blocks:
        body = [op for op in ops[a:b] if op[0] != 98]
        if shape is None:
            shape = body
        elif body != shape:
            return fails                      # not an enumeration case (e.g. a shrunk script)
        scripted = [v for op in ops[a:b] if op[0] == 98 for v in op[1:]]
        drawn = []
        for i in range(a, b):
            drawn += irecs[i].get('E') or []
        left = [irecs[i].get('F') for i in range(a, b) if ops[i][0] == 97]
        if m is None:
            m = len(scripted); mdrawn = len(drawn)
        # the scripts enumerate all 2^m vectors; an implementation that draws only the first m' <= m of them in every outcome
        # (e.g. the unrepaired constructor, which draws no coin) still sees each of its 2^m' outcomes equally often, so the
        # sum test below stays valid; what must not happen is a number of draws that varies with the outcomes
        if len(scripted) != m or len(drawn) != mdrawn or len(drawn) > m or drawn != scripted[:len(drawn)] or \
           (left and left[0] != [m - len(drawn)]):
            fails.append(dict(sig='req_flip_count_depends_on_outcome',
                              what='coin outcome %s: %d coins drawn, %d in the first outcome (the number of flips must not depend on the outcomes)' % (scripted, len(drawn), mdrawn),
                              op_index=a))
            return fails
        seqs.add(tuple(scripted))
        for i in range(a, b):
            if ops[i][0] == 6:
                R = irecs[i]['R']; S = (mrecs[i].get('S') if i < len(mrecs) else None)
                if R == [-1] or len(R) < 2:
                    return fails
                key = (i - a); x = ops[i][2]
                # the true rank: over everything that flowed into the queried register (a merge adds the whole stream of
                # its operand, which may already contain items of the target: the histories are merge DAGs)
                logs = {}
                for op in ops[a:i]:
                    if op[0] == 1: logs[op[1]] = []
                    elif op[0] == 2: logs.setdefault(op[1], []).append(op[2])
                    elif op[0] == 4 and op[1] != op[2]: logs.setdefault(op[1], []).extend(list(logs.get(op[2], [])))
                allv = logs.get(ops[i][1], [])
                ti = sum(1 for v in allv if v <= x); te = sum(1 for v in allv if v < x)
                if S and (S[0] != ti or S[1] != te):
                    fails.append(dict(sig='req_spec_truth', what='model ground truth disagrees with the script', op_index=i)); return fails
                si, se = sums.get(key, (0, 0)); sums[key] = (si + R[0], se + R[1]); truth[key] = (ti, te, x)
    if m is None or len(seqs) != (1 << m) or len(blocks) != (1 << m):
        return fails                          # incomplete enumeration: nothing to conclude
    for key, (si, se) in sorted(sums.items()):
        ti, te, x = truth[key]
        if si != (1 << m) * ti or se != (1 << m) * te:
            fails.append(dict(sig='req_rank_biased',
                              what='sum over all 2^%d coin outcomes of rank(%d): inclusive %d exclusive %d, expected %d and %d (2^m * true rank)' %
                                   (m, x, si, se, (1 << m) * ti, (1 << m) * te), op_index=blocks[0][0] + key))
    return fails

FLT = dict(ocaml_flags='-rectypes -thread -package coq-core.kernel -linkpkg', cxx_flags='-ffp-contract=off')
FAMILIES_C07 = [dict(name='req', harness='drv_req.cpp', extract='Extract_req.v', model='model_req', gen=gen_c07, oracle=oracle_c07, **FLT)]
FAMILIES_C08 = [dict(name='req', harness='drv_req.cpp', extract='Extract_req.v', model='model_req', gen=gen_c08, oracle=oracle_c08, **FLT)]

# what is PROVED / compared / not claimed for this family (for the property-level MANIFEST texts in C07.py / C08.py)
MANIFEST_C07 = dict(
    level_text=('REQ: theorems in Properties_C07_req.v about the executable model coq/ReqDefs.v for EVERY history of updates and merges (any k as the constructor adjusts it, '
                'both accuracy modes, any merge tree/DAG, queries interleaved) and EVERY outcome of the coins: sum of 2^lg_weight * compactor sizes = n; n = number of accepted '
                'items; exact min/max; compactors above level 0 sorted (level 0 when flagged); retained multiset within the inputs; num_retained/max_nom_size are the sums over the '
                'compactors and num_retained < max_nom_size after every operation (uses that the binary32 section-size schedule never lowers a nominal capacity, checked by computation '
                'for every section size 4..255); compaction range always >= 2 items and leaves >= 1 ("compaction range error" unreachable); no empty compactor in a non-empty sketch; the '
                'iterator (with the repaired constructor) yields exactly num_retained entries with weights 2^lg_weight summing to n; sorted view ordered with total weight n and a permutation '
                'of the retained items; get_rank (summed over compactors) = weighted count, monotone, inclusive >= exclusive, within [0, n], and equal to the rank read off the sorted '
                'view, hence CDF = get_rank and PMF >= 0 summing to one; quantiles monotone, inclusive <= exclusive, always a retained item; empty sketch / bad rank / bad split points / NaN / '
                'mixed-mode merges refused; with a single compactor every rank and quantile is exact. The iterator as originally coded is refuted as a theorem (Regression_req.v).'),
    level_note=('Compared on every run (not proved): the model against req_sketch<int64_t>, <double>, <string, greater> through the public API only, coins replayed through the hook; the '
                'model\'s integer binary32 arithmetic against the machine\'s for every section size. Not modelled: serialization, to_string, get_rank_lower/upper_bound (sanity-checked by the '
                'oracle only), uint8/uint32 overflows (see ASSUMPTIONS).'),
    design_ref='DESIGN.md section 5 C07')
MANIFEST_C08 = dict(
    level_text=('REQ: PROVED (C08_req_unbiased, coq/ReqFull.v): for every history that is a merge tree of updates (any k, both modes), every query point and both '
                'criteria, the sum over ALL outcomes of the coins of get_rank * n = 2^m * true rank, and every outcome draws exactly m coins - including the reused (negated) '
                'coin of odd compactions (per-level signed-error ghost + the bijection "negate every coin of one level"). Also proved: fresh-coin compaction pair identity, '
                'odd compactions draw no coin, lock-step independence of sizes/states/section parameters from coin outcomes and item values, the exact band behind '
                'is_exact_rank (strict, for the smallest k merged in). The published bounds get_rank_lower/upper_bound / get_RSE are modelled bit-exactly in binary64 and '
                'compared with the code on every run. The original constructor (coin_ = false) is refuted by a theorem (exhaustive coin sum 32 instead of 34).'),
    level_note=('Not covered by the theorem: DAG histories (a sketch merged with a copy of itself or of a descendant) - enumeration on the implementation only. '
                'The clause "within the published error at least as often as claimed" is statistical and not claimed; two genuine edge defects of the declared-exact band '
                'are known findings.'),
    design_ref='DESIGN.md section 5 C08, Appendix B')

# ---------------------------------------------------------------------------------------------------------------------
# Mutations of the C++ confirmed caught (scratch copy of the repaired tree, VERIF_REPO; every one reported as VIOLATION by
# `check C07` quick, seed 1; M4 and M17 also by `check C08`), 18 of 18:
#   M1  compute_compaction_range: the "make compacted region even" increment dropped
#   M2  compact: the odd-state coin is not negated (coin_ = coin_)
#   M3  promote_evens_or_odds: parity swapped (if (!odds) ++i)
#   M4  compact: the fresh coin replaced by the constant false (always evens; draws no coin)          [C08: req_rank_biased]
#   M5  req_compactor::merge: state_ |= other.state_ dropped
#   M6  update: max comparison reversed (comparator_(item, *max_item_))
#   M7  ensure_enough_sections: num_sections_ <<= 1 dropped
#   M8  compress: level 0 not sorted before its compaction
#   M9  req_sketch::merge: n_ += other.n_ dropped
#   M10 update: compress one item late (num_retained_ > max_nom_size_)
#   M11 compute_weight: upper_bound / lower_bound swapped
#   M12 get_sorted_view: weight one level off for compactors above level 1
#   M13 nearest_even: floor instead of round
#   M14 merge: the min_item_ update of a non-empty target dropped
#   M15 compute_compaction_range: one section less kept
#   M16 compact: secs_to_compact without the "+ 1"
#   M17 the constructor coin fix reverted (coin_(false))                                                  [C08: req_rank_biased]
#   M18 req_sketch::merge: compress only when num_retained_ > max_nom_size_ (first survived; caught since the generator
#       builds merges that land exactly on num_retained == max_nom_size: cases reqexact*)
#   S2  independent seed C08-5: is_exact_rank with base_cap = 6k instead of 3k (first MISSED: bounds were only sanity-checked; CAUGHT since the
#       bounds are modelled bit-exactly and the declared-exact band is checked against the true rank, sig req_exact_band_wrong / R mismatch)
#   S1  independent seed C07-2: req_compactor::merge guards the final std::inplace_merge with num_items_ > 1 instead of > 0
#       (first MISSED: no case merged into a compactor holding exactly one item; CAUGHT since the reqsmall*/reqtop* cases,
#       sig req_exact_quantile / req_exact_rank / view mismatch)
#   S3  f0e5fa1 reverted (req_compactor::merge uses C() instead of the stored comparator): VIOLATION through kind 4 (stateful DirCmp):
#       sorted view not ordered / quantile not monotone.  S4  88d3abb reverted (operator++(int) returns a reference to a local):
#       VIOLATION (the it++ / *it++ walks of the observe op are stopped by the sanitizer).
# Harmless rewrites confirmed NOT reported (exit 0): H1 append() growth factor 2*capacity+7; H2 compress() recomputes
#   max_nom_size_ with update_max_nom_size() instead of adding the delta; H3 std::stable_sort instead of std::sort;
#   H4 update(): ++n_ before ++num_retained_ and the comparison written the other way round; H5 ensure_space() grows more.
# On the UNREPAIRED /repo: check C07 reports req_empty_iterator (and every case mismatches on the constructor coin),
#   check C08 reports req_rank_biased on the merge-into-a-fresh-compactor histories (tags negated-unset-coin).
