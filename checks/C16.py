# C16 — VarOpt samples conserve total weight and keep heavy items exactly
import struct
from fractions import Fraction

PROP = "C16"
READY = False
COQ_PROPS = ['Properties_C16']
RULE = ('operation scripts over several var_opt_sketch<int64_t> registers with every random choice of the library supplied through '
        'the DATASKETCHES_VERIF hook and replayed by the model: k in 1..32 (refused k=0 and k>2^31-2), all four resize factors, '
        'weight patterns uniform / small integers / 2^i spread / heavy tail / increasing / decreasing / one giant / dyadic fractions '
        '(sums exact in binary64) and a stream of cases with arbitrary doubles (tenths, uniform, log-normal, near-equal), invalid '
        'weights (negative, NaN, inf) and zero weights, scripted draws (0.0, tiny, ~1) to steer choose_delete_slot, dumps after '
        'every few updates, subset-sum queries with five predicates, serialize/deserialize round trips (bytes, stream, header) '
        'into another register followed by further updates, copies, resets; non-trivial = some register leaves the warm-up phase '
        '(n > k) or a round trip / union happens')
TRUSTED = ['random choices are taken from the hook log (E lines) instead of modelling mt19937_64/uniform distributions',
           'binary64 +,*,/ and comparisons of Coq PrimFloat (= OCaml floats after extraction) agree with the C++ compiled with '
           '-ffp-contract=off on x86-64 SSE2; FloatBits.v converts bit patterns',
           'theorems are over exact rational arithmetic (Q instance of the model); the binary64 instance of the same model text is '
           'tied to the code by bit-exact replay only']
ASSUMPTIONS = ['lower/upper bounds of estimate_subset_sum go through libm (sqrt/exp in bounds_binomial_proportions) and are only '
               'checked on the implementation (lb <= estimate <= ub), never compared with the model',
               'for arbitrary (non-dyadic) doubles the conservation law is checked within 1e-9 relative and the heavy-item '
               'clause only for weights above tau*(1+1e-12); exact for dyadic inputs',
               'unbiasedness over the sampling randomness is statistical and not claimed',
               'resize factor and array capacities are not modelled (exercised under ASan only)']

def d2b(x):
    return struct.unpack('<Q', struct.pack('<d', x))[0]

def b2d(b):
    return struct.unpack('<d', struct.pack('<Q', b & (2**64 - 1)))[0]

SCALE = 2 ** 1074
EXACT_PATTERNS = ['ones', 'smallint', 'pow2', 'heavytail', 'inc', 'dec', 'giant', 'dyadic', 'equalpow2']
FLOAT_PATTERNS = ['uniform', 'tenths', 'lognormal', 'const01', 'nearequal', 'thirds']

def weight(rng, pat, i, N, st):
    if pat == 'ones': return 1.0
    if pat == 'smallint': return float(rng.randint(1, 10))
    if pat == 'pow2': return 2.0 ** rng.randint(-10, 20)
    if pat == 'heavytail': return 1.0 if rng.random() < 0.85 else float(rng.randint(50, 10 ** 6))
    if pat == 'inc': return float(i + 1)
    if pat == 'dec': return float(max(1, N - i))
    if pat == 'giant': return 2.0 ** 40 if i == st['giant_at'] else float(rng.randint(1, 3))
    if pat == 'dyadic': return rng.randint(1, 4000) / 8.0
    if pat == 'equalpow2': return st['c']
    if pat == 'uniform': return rng.uniform(0.5, 1.5)
    if pat == 'tenths': return rng.randint(1, 50) / 10.0
    if pat == 'lognormal': return rng.lognormvariate(0.0, 3.0)
    if pat == 'const01': return 0.1
    if pat == 'thirds': return rng.randint(1, 9) / 3.0
    if pat == 'nearequal':
        return b2d(d2b(st['base']) + rng.randint(-3, 3))
    return 1.0

PREDS = [(0, 0), (1, 0), (2, 0), (3, 5), (4, 3)]

def gen(rng, tier):
    ncases = 260 if tier == 'quick' else 5000
    cases = []
    for ci in range(ncases):
        ops = [[99, rng.randrange(1, 2 ** 32)]]
        tags = set()
        exact = (ci % 3 != 2)
        pat = rng.choice(EXACT_PATTERNS if exact else FLOAT_PATTERNS)
        nreg = rng.choice([1, 1, 2, 3])
        ks = {}
        for r in range(nreg):
            k = rng.choice([1, 2, 3, 4, 5, 7, 8, 9, 15, 16, 17, 31, 32, rng.randint(1, 32)])
            if rng.random() < 0.04:
                ops.append([1, r, rng.choice([0, 2 ** 31 - 1, 2 ** 32 - 1]), rng.randrange(4)])   # refused
            ops.append([1, r, k, rng.randrange(4)])
            ks[r] = k
        kmax = max(ks.values())
        N = rng.choice([0, 1, kmax - 1, kmax, kmax + 1, kmax + 2, 2 * kmax, 3 * kmax + 5, 60, 120] if tier == 'quick'
                       else [0, 1, kmax, kmax + 1, 2 * kmax, 3 * kmax + 5, 60, 120, 400, 1000])
        N = max(0, N) * nreg
        st = dict(giant_at=rng.randrange(max(1, N)), c=2.0 ** rng.randint(-3, 8), base=rng.uniform(0.1, 10.0))
        universe = rng.choice([3, 10, 40, 1000])
        cnt = {r: 0 for r in ks}
        post_deser = rng.random() < 0.3
        for i in range(N):
            r = rng.randrange(nreg)
            q = rng.random()
            if q < 0.03:
                # scripted draws: steer the next choices (zeros exercise next_double_exclude_zero)
                vals = [rng.choice([0, d2b(1e-300), d2b(0.5), d2b(1 - 2 ** -53), d2b(2 ** -53), rng.randrange(1 << 20)])
                        for _ in range(rng.randint(1, 3))]
                ops.append([98] + vals); tags.add('scripted')
            elif q < 0.06:
                ops.append([2, r, rng.randrange(universe),
                            d2b(rng.choice([0.0, -0.0, -1.0, float('nan'), float('inf'), -float('inf'), -1e-300]))])
                tags.add('invalid-or-zero-weight')
            elif q < 0.10:
                ops.append([3, r])
            elif q < 0.13:
                p = rng.choice(PREDS); ops.append([4, r, p[0], p[1]])
            elif q < 0.15 and nreg > 1:
                r2 = rng.randrange(nreg)
                if r2 != r and (post_deser or cnt[r] <= ks[r]):
                    ops.append([5, r, r2, rng.randrange(3)]); tags.add('serde')
                    ks[r2] = ks[r]; cnt[r2] = cnt[r]
                    if cnt[r] > ks[r]: tags.add('serde-estimation-mode')
            elif q < 0.16 and nreg > 1:
                r2 = rng.randrange(nreg)
                if r2 != r:
                    ops.append([7, r, r2]); ks[r2] = ks[r]; cnt[r2] = cnt[r]; tags.add('copy')
            elif q < 0.165:
                ops.append([6, r]); cnt[r] = 0; tags.add('reset')
            else:
                w = weight(rng, pat, i, N, st)
                item = rng.randrange(universe) - (universe // 3)
                ops.append([2, r, item, d2b(w)]); cnt[r] += 1
        for r in sorted(ks):
            ops.append([3, r])
            for p in PREDS:
                ops.append([4, r, p[0], p[1]])
            # round trip at the end: getters must survive
            ops.append([5, r, 100 + r, rng.randrange(3)]); ops.append([3, 100 + r])
            ops.append([4, 100 + r, 0, 0])
            if cnt[r] > ks[r]: tags.add('estimation-mode')
        if tags & {'estimation-mode', 'serde'}:
            tags.add('exact-weights' if exact else 'arbitrary-doubles')
            tags.add('pat-' + pat)
        cases.append(dict(id='vo%d' % ci, ops=ops, tags=sorted(tags), exact=exact))
    return cases

# ---------------------------------------------------------------------------------------------------------------
def fr(bits):
    return Fraction(b2d(bits))

def valid_weight(wb):
    w = b2d(wb)
    if w != w or w in (float('inf'), -float('inf')) or w < 0:
        return None          # must be refused
    return w != 0.0          # True: counted, False: ignored

def close(a, b, exact):
    if exact:
        return a == b
    return abs(a - b) <= Fraction(1, 10 ** 9) * max(abs(a), abs(b))

def case_exact(case):
    """sums of the inputs are exact in binary64: all weights multiples of 2^-10 and total below 2^40"""
    if 'exact' in case:
        return case['exact']
    tot = Fraction(0)
    for op in case['ops']:
        if op[0] == 2 and len(op) >= 4 and valid_weight(op[3]):
            w = fr(op[3])
            if (w * 1024).denominator != 1:
                return False
            tot += w
    return tot < 2 ** 40

def oracle(case, irecs, mrecs):
    """Property predicates on the implementation's outputs; ground truth (S lines) from the model's ghost log."""
    fails = []
    exact = case_exact(case)
    # per-register bookkeeping of the oracle itself (which registers came out of deserialize, which lost an update)
    reg = {}
    def bad(sig, what, i):
        fails.append(dict(sig=sig, what=what, op_index=i))
    for i, op in enumerate(case['ops']):
        if i >= len(irecs) or i >= len(mrecs):
            break
        R = irecs[i]['R']; S = mrecs[i].get('S'); F = irecs[i].get('F')
        c = op[0]
        if c == 1 and len(op) >= 3:
            if R == [1]:
                reg[op[1]] = dict(k=op[2], cnt=0, deser=False, taint=False)
            elif 1 <= op[2] <= 2 ** 31 - 2:
                bad('ctor_refused', 'constructor refused valid k=%d' % op[2], i)
        elif c == 2 and len(op) >= 4 and op[1] in reg:
            g = reg[op[1]]; v = valid_weight(op[3])
            if v is None:
                if R != [-1]:
                    bad('invalid_weight_accepted', 'update accepted invalid weight %r' % b2d(op[3]), i)
            elif R != [1]:
                if not g['taint']:
                    if g['deser'] and g['cnt'] > g['k']:
                        bad('update_throws_after_deserialize',
                            'update() with valid weight %r throws on a sketch obtained from deserialize() of an estimation-mode '
                            'sketch (n=%d > k=%d); n_ is incremented, the item is lost' % (b2d(op[3]), g['cnt'], g['k']), i)
                    elif g['cnt'] > g['k'] and not exact:
                        bad('update_throws_in_estimation_mode',
                            'update() with valid weight %r throws std::logic_error on an estimation-mode sketch built by updates only '
                            '(n=%d > k=%d, non-dyadic weights): rounding left the lightest H item below tau; n_ is incremented, the '
                            'item is lost and every later update throws as well' % (b2d(op[3]), g['cnt'], g['k']), i)
                    else:
                        bad('update_refused_valid_weight',
                            'update() with valid weight %r threw (n=%d, k=%d)' % (b2d(op[3]), g['cnt'], g['k']), i)
                g['taint'] = True
                g['cnt'] += 1 if v else 0
            elif v:
                g['cnt'] += 1
        elif c == 5 and len(op) >= 3 and op[1] in reg:
            if R == [1]:
                g = dict(reg[op[1]]); g['deser'] = True
                if g['cnt'] == 0: g['deser'] = False
                reg[op[2]] = g
            elif not reg[op[1]]['taint']:
                bad('roundtrip_refused', 'serialize/deserialize round trip threw', i)
        elif c == 6 and op[1] in reg and R == [1]:
            reg[op[1]] = dict(k=reg[op[1]]['k'], cnt=0, deser=False, taint=False)
        elif c == 7 and len(op) >= 3 and op[1] in reg and R == [1]:
            reg[op[2]] = dict(reg[op[1]])
        elif c == 3 and op[1] in reg and S and R != [-1] and not reg[op[1]]['taint']:
            n, k, ns, h, r, totb = R[:6]
            smp = list(zip(R[6::2], R[7::2]))
            n_true, total_scaled = S[0], S[1]
            log = list(zip(S[2::2], S[3::2]))
            total = Fraction(total_scaled, SCALE)
            if n != n_true:
                bad('n_mismatch', 'get_n %d != number of accepted updates %d' % (n, n_true), i)
            if ns != min(n_true, k) or len(smp) != ns:
                bad('num_samples', 'num_samples %d (iterated %d) != min(n=%d, k=%d)' % (ns, len(smp), n_true, k), i)
            items = {}
            for it, wb in log:
                items[it] = items.get(it, 0) + 1
            pairs = {}
            for p in log:
                pairs[p] = pairs.get(p, 0) + 1
            sitems = {}
            for it, wb in smp:
                sitems[it] = sitems.get(it, 0) + 1
            for it, c2 in sitems.items():
                if c2 > items.get(it, 0):
                    bad('sample_not_from_input', 'item %d sampled %d times but seen %d times' % (it, c2, items.get(it, 0)), i)
                    break
            ssum = sum((fr(wb) for _, wb in smp), Fraction(0))
            if not close(ssum, total, False):
                bad('weight_not_conserved', 'sum of adjusted sample weights %s != total input weight %s' % (float(ssum), float(total)), i)
            if r > 0:
                tau_f = b2d(totb) / r
                taub = d2b(tau_f)
                hsum = ssum - r * Fraction(tau_f)
                if exact and hsum + fr(totb) != total:
                    bad('weight_not_conserved_exact', 'H weights + total_wt_r = %s != total input weight %s (dyadic inputs)' %
                        (float(hsum + fr(totb)), float(total)), i)
                thr = Fraction(tau_f) if exact else Fraction(tau_f) * (1 + Fraction(1, 10 ** 12))
            else:
                taub = None; thr = None
                if exact and ssum != total:
                    bad('weight_not_conserved_exact', 'exact mode: sample weights %s != total %s' % (float(ssum), float(total)), i)
            spairs = {}
            for p in smp:
                spairs[p] = spairs.get(p, 0) + 1
            for p, c2 in pairs.items():
                if (thr is None or fr(p[1]) > thr) and spairs.get(p, 0) < c2:
                    bad('heavy_item_lost', 'input item %d with weight %r above tau is not in the sample with its exact weight' %
                        (p[0], b2d(p[1])), i)
                    break
            for p, c2 in spairs.items():
                if p[1] != taub and pairs.get(p, 0) < c2:
                    bad('sample_weight_not_exact', 'sample (%d, %r) is neither an input pair nor an R item with weight tau' %
                        (p[0], b2d(p[1])), i)
                    break
        elif c == 4 and op[1] in reg and S and R != [-1] and len(R) == 2 and not reg[op[1]]['taint']:
            est = b2d(R[0]); total = Fraction(S[1], SCALE)
            if op[2] == 0:
                if est != est or not close(Fraction(est), total, exact):
                    bad('subset_sum_total', 'estimate over the always-true predicate %r != total input weight %s' % (est, float(total)), i)
            if F and len(F) == 2:
                lb = b2d(F[0]); ub = b2d(F[1])
                if not (lb <= est <= ub):
                    bad('bounds_order', 'lb %r <= est %r <= ub %r violated (predicate %d)' % (lb, est, ub, op[2]), i)
        elif c == 4 and op[1] in reg and R == [-1] and not reg[op[1]]['taint']:
            bad('estimate_threw', 'estimate_subset_sum threw', i)
    return fails

FAMILIES = [dict(name='varopt', harness='drv_varopt.cpp', extract='Extract_varopt.v', model='model_varopt', gen=gen, oracle=oracle,
                 ocaml_flags='-rectypes -thread -package coq-core.kernel -linkpkg', cxx_flags='-ffp-contract=off')]

MANIFEST = dict(
    level_text='(filled in when READY)',
    level_note='',
    design_ref='DESIGN.md section 5 C16')
