# C16 — VarOpt samples conserve total weight and keep heavy items exactly
#
# Requires fixes/16_deserialize_m.patch, 16_deserialize_marks_init.patch, 16_union_pseudo_exact_tau.patch and
# 16_union_pseudo_exact_heap.patch in /repo (the model is the REPAIRED behaviour; coq/Regression_varopt.v keeps the old
# behaviour of the first, third and fourth as refuted theorems; the second is an uninitialised read found by UBSan, below
# the model's abstraction).
#
# Mutation log (scratch worktree /tmp/wt_varopt with both fixes applied, VERIF_SEED=1, quick tier); each is reported as VIOLATION:
#   M1  downsample_candidate_set does not store total_wt_r_ = wt_cands                         (DESIGN section 9 row C16)
#   M2  choose_delete_slot, m_ == 1: "keep the M item" comparison flipped (branch taken in the wrong case)
#   M3  update: condition2 weight < hypothetical_tau flipped to >                              (DESIGN: light/heavy flipped)
#   M4  decrease_k_by_1 re-inserts the pulled item with half its weight                        (DESIGN: pulled weight dropped)
#   M5  update_warmup_phase does not count the mark (num_marks_in_h_)                          (DESIGN: marks not counted)
#   M6  var_opt_union::resolve_tau: sketch_tau > outer_tau flipped to <
#   M7  grow_candidate_set loop: next_wt * num_cands < next_tot_wt  ->  <=                      (off by one at equality)
#   M8  var_opt_union::merge_items passes mark = false for the R samples
#   M9  estimate_subset_sum: R loop bound idx < k_ + 1  ->  idx < k_  (misses the last R slot)
#   M10 detect_and_handle_subcase_of_pseudo_exact: condition3 == replaced by >=
#   M12 serialize: mark bit written at position (i + 1) & 7 (caught through the union serialize/deserialize ops)
# Harmless rewrites, not reported (exit 0):
#   H1  grow_data_arrays always grows by << 3 instead of << rf_ (different growth factor)
#   H2  independent statements reordered in update_light (++m_ first), decrease_k_by_1 (--n_, --k_, --h_) and reset()
import struct
from collections import Counter
from fractions import Fraction

PROP = "C16"
READY = True
COQ_PROPS = ['Properties_C16', 'Regression_varopt']
RULE = ('operation scripts over several var_opt_sketch<int64_t> registers and a var_opt_union<int64_t> with every random choice of '
        'the library supplied through the DATASKETCHES_VERIF hook and replayed by the model: k in 1..32 (refused k=0 and k>2^31-2), '
        'all four resize factors, weight patterns uniform / small integers / 2^i spread / heavy tail / increasing / decreasing / one '
        'giant / dyadic fractions (sums exact in binary64) and a stream of cases with arbitrary doubles (tenths, uniform, log-normal, '
        'near-equal), invalid weights (negative, NaN, inf) and zero weights, scripted draws (0.0, tiny, ~1) to steer '
        'choose_delete_slot, dumps after every few updates, subset-sum queries with five predicates, serialize/deserialize round '
        'trips (bytes, stream, header) into another register followed by further updates, copies, resets; unions (max_k from 1 to '
        'more than all samples together) of sketches with different k and fill state (empty, under-full, exactly full, estimation '
        'mode, deserialized copies, the same sketch twice, equal taus) given by const reference or as an rvalue (update(std::move(copy))), union dumps, intermediate and final get_result, updates '
        'and a round trip of the result, serialize/deserialize of the union itself (bytes, stream, header) with both copies '
        'continuing, copies of sketches and unions by copy construction, copy assignment onto an object in another state, move construction and '
        'move assignment, feedback loops r := u.get_result(); u.update(r) that drive n beyond 2^32, union reset and reuse; non-trivial = some register leaves the warm-up phase (n > k) or a '
        'round trip / union happens')
TRUSTED = ['Coq kernel; the hand-written model coq/VarOptDefs.v is validated only by the correspondence runs (bit-exact replay)',
           'random choices are taken from the hook log (E lines) instead of modelling mt19937_64/uniform distributions',
           'binary64 +,*,/ and comparisons of Coq PrimFloat (= OCaml floats after extraction) agree with the C++ compiled with '
           '-ffp-contract=off on x86-64 SSE2; FloatBits.v converts bit patterns',
           'theorems are over exact rational arithmetic (Q instance of the model); the binary64 instance of the same model text is '
           'tied to the code by bit-exact replay only']
ASSUMPTIONS = ['lower/upper bounds of estimate_subset_sum go through libm (sqrt/exp in bounds_binomial_proportions) and are only '
               'checked on the implementation (lb <= estimate <= ub), never compared with the model',
               'for arbitrary (non-dyadic) doubles the conservation law is checked within 1e-9 relative and the heavy-item '
               'clause only for weights above tau*(1+1e-12); exact for dyadic inputs',
               'unbiasedness over the sampling randomness is statistical and not claimed',
               'resize factor and array capacities are not modelled (exercised under ASan only)',
               'n is unbounded in the model and uint64 in the code; the feedback cases (r := u.get_result(); u.update(r), 34 rounds) exercise n up to '
               '40 * 2^34 < 2^40, i.e. beyond 2^32 but far below 2^64',
               'serialization is modelled as the validity checks of serialize/deserialize plus the regions handed to the private '
               'constructor, not as bytes; the byte layout is exercised by the harness round trips only',
               '"at most the smallest effective k items" is read as: result k <= the union\'s max_k and at most k samples; the '
               'library by design returns more samples than the smallest input k (k=4 and k=8 inputs give k=7)',
               'union results: totality of get_result, conservation, k <= max_k, samples from the input, exact H weights and the '
               'heavy-item clause are proved over exact rationals only; in binary64 get_result can still throw (known finding '
               'union_result_throws_rounding)']

def d2b(x):
    return struct.unpack('<Q', struct.pack('<d', x))[0]

def b2d(b):
    return struct.unpack('<d', struct.pack('<Q', b & (2**64 - 1)))[0]

SCALE = 2 ** 1074
EXACT_PATTERNS = ['ones', 'smallint', 'pow2', 'heavytail', 'inc', 'dec', 'giant', 'dyadic', 'equalpow2']
FLOAT_PATTERNS = ['uniform', 'tenths', 'lognormal', 'const01', 'nearequal', 'thirds']

def weight(rng, pat, i, N, st):
    if pat == 'ones': return 1.0
    if pat == 'smallint': return float(rng.randint(1, 10))
    if pat == 'pow2': return 2.0 ** rng.randint(-10, 20)
    if pat == 'heavytail': return 1.0 if rng.random() < 0.85 else float(rng.randint(50, 10 ** 6))
    if pat == 'inc': return float(i + 1)
    if pat == 'dec': return float(max(1, N - i))
    if pat == 'giant': return 2.0 ** 40 if i == st['giant_at'] else float(rng.randint(1, 3))
    if pat == 'dyadic': return rng.randint(1, 4000) / 8.0
    if pat == 'equalpow2': return st['c']
    if pat == 'uniform': return rng.uniform(0.5, 1.5)
    if pat == 'tenths': return rng.randint(1, 50) / 10.0
    if pat == 'lognormal': return rng.lognormvariate(0.0, 3.0)
    if pat == 'const01': return 0.1
    if pat == 'thirds': return rng.randint(1, 9) / 3.0
    if pat == 'nearequal':
        return b2d(d2b(st['base']) + rng.randint(-3, 3))
    return 1.0

PREDS = [(0, 0), (1, 0), (2, 0), (3, 5), (4, 3)]

def gen(rng, tier):
    ncases = 260 if tier == 'quick' else 3000
    cases = []
    for ci in range(ncases):
        ops = [[99, rng.randrange(1, 2 ** 32)]]
        tags = set()
        exact = (ci % 3 != 2)
        pat = rng.choice(EXACT_PATTERNS if exact else FLOAT_PATTERNS)
        nreg = rng.choice([1, 1, 2, 3])
        ks = {}
        for r in range(nreg):
            k = rng.choice([1, 2, 3, 4, 5, 7, 8, 9, 15, 16, 17, 31, 32, rng.randint(1, 32)])
            if rng.random() < 0.04:
                ops.append([1, r, rng.choice([0, 2 ** 31 - 1, 2 ** 32 - 1]), rng.randrange(4)])   # refused
            ops.append([1, r, k, rng.randrange(4)])
            ks[r] = k
        kmax = max(ks.values())
        N = rng.choice([0, 1, kmax - 1, kmax, kmax + 1, kmax + 2, 2 * kmax, 3 * kmax + 5, 60, 120] if tier == 'quick'
                       else [0, 1, kmax, kmax + 1, 2 * kmax, 3 * kmax + 5, 60, 120, 400, 1000])
        N = max(0, N) * nreg
        st = dict(giant_at=rng.randrange(max(1, N)), c=2.0 ** rng.randint(-3, 8), base=rng.uniform(0.1, 10.0))
        universe = rng.choice([3, 10, 40, 1000])
        cnt = {r: 0 for r in ks}
        post_deser = rng.random() < 0.7
        for i in range(N):
            r = rng.randrange(nreg)
            q = rng.random()
            if q < 0.03:
                # scripted draws: steer the next choices (zeros exercise next_double_exclude_zero)
                vals = [rng.choice([0, d2b(1e-300), d2b(0.5), d2b(1 - 2 ** -53), d2b(2 ** -53), rng.randrange(1 << 20)])
                        for _ in range(rng.randint(1, 3))]
                ops.append([98] + vals); tags.add('scripted')
            elif q < 0.06:
                ops.append([2, r, rng.randrange(universe),
                            d2b(rng.choice([0.0, -0.0, -1.0, float('nan'), float('inf'), -float('inf'), -1e-300]))])
                tags.add('invalid-or-zero-weight')
            elif q < 0.10:
                # the S line of a dump carries the whole ghost log: keep long thorough-tier streams affordable
                if tier == 'quick' or N <= 150 or rng.random() < 0.1:
                    ops.append([3, r])
            elif q < 0.13:
                p = rng.choice(PREDS); ops.append([4, r, p[0], p[1]])
            elif q < 0.15 and nreg > 1:
                r2 = rng.randrange(nreg)
                if r2 != r and (post_deser or cnt[r] <= ks[r]):
                    ops.append([5, r, r2, rng.randrange(3)]); tags.add('serde')
                    ks[r2] = ks[r]; cnt[r2] = cnt[r]
                    if cnt[r] > ks[r]: tags.add('serde-estimation-mode')
            elif q < 0.16 and nreg > 1:
                r2 = rng.randrange(nreg)
                if r2 != r:
                    ops.append([7, r, r2, rng.randrange(4)]); ks[r2] = ks[r]; cnt[r2] = cnt[r]; tags.add('copy')
            elif q < 0.165:
                ops.append([6, r]); cnt[r] = 0; tags.add('reset')
            else:
                w = weight(rng, pat, i, N, st)
                item = rng.randrange(universe) - (universe // 3)
                ops.append([2, r, item, d2b(w)]); cnt[r] += 1
        for r in sorted(ks):
            ops.append([3, r])
            for p in PREDS:
                ops.append([4, r, p[0], p[1]])
            # round trip at the end: getters must survive
            ops.append([5, r, 100 + r, rng.randrange(3)]); ops.append([3, 100 + r])
            ops.append([4, 100 + r, 0, 0])
            if cnt[r] > ks[r]: tags.add('estimation-mode')
        if ci % 2 == 1:
            srcs = sorted(ks) + [100 + r for r in sorted(ks)]
            union_phase(rng, ops, tags, srcs, list(ks.values()), pat, st, universe, 0)
        if tags & {'estimation-mode', 'serde', 'union'}:
            tags.add('exact-weights' if exact else 'arbitrary-doubles')
            tags.add('pat-' + pat)
        cases.append(dict(id='vo%d' % ci, ops=ops, tags=sorted(tags), exact=exact))
    for ci in range(ncases // 3):
        cases.append(union_case(rng, ci))
    for ci in range(16 if tier == 'quick' else 60):
        cases.append(copy_case(rng, ci))
    cases += feedback_cases(rng, tier)
    for ci in range(6 if tier == 'quick' else 30):
        cases.append(marks_case(rng, ci))
    return cases

def marks_case(rng, ci):
    """a gadget with more than 8 H items, marked ones (from a sampling-mode sketch) first and unmarked ones (exact-mode sketch) after them or
       the other way round, serialized through each path: the packed mark bytes beyond the first must come back exactly"""
    ops = [[99, rng.randrange(1, 2 ** 32)]]
    ka = rng.choice([9, 10, 12]); nb = rng.choice([9, 12, 17])
    ops.append([1, 0, ka, 3]); ops.append([1, 1, 32, 3])
    for i in range(3 * ka):
        ops.append([2, 0, i, d2b(1.0)])
    for i in range(nb):
        ops.append([2, 1, 1000 + i, d2b(float(100 * (i + 1)))])
    ops.append([10, 0, 64])
    order = [0, 1] if ci % 2 == 0 else [1, 0]
    for r in order:
        ops.append([rng.choice([11, 16]), 0, r])
    ops.append([14, 0])
    for mode in (0, 1, 2):
        ops.append([15, 0, 10 + mode, mode]); ops.append([14, 10 + mode]); ops.append([12, 10 + mode, 203]); ops.append([3, 203]); ops.append([4, 203, 0, 0])
    ops.append([12, 0, 200]); ops.append([3, 200])
    return dict(id='vm%d' % ci, ops=ops, tags=['union', 'union-serde', 'marks>8'], exact=True)

def copy_case(rng, ci):
    """dst = src by copy ctor / copy-assign / move ctor / move-assign, the target being a sketch in another state (exact, estimation mode with
       another tau, another k); the copy is dumped, queried, updated further and dumped again; the source must be unaffected"""
    ops = [[99, rng.randrange(1, 2 ** 32)]]
    ks = [rng.choice([2, 3, 4, 8]), rng.choice([2, 5, 8, 16])]
    fills = [rng.choice(['exact', 'est', 'est']), rng.choice(['empty', 'exact', 'est', 'est'])]
    pats = ['ones', 'smallint', 'pow2', 'dyadic']
    st = dict(giant_at=0, c=4.0, base=1.0)
    for r in (0, 1):
        ops.append([1, r, ks[r], rng.randrange(4)])
        n = dict(empty=0, exact=max(1, ks[r] - 1), est=3 * ks[r] + rng.randrange(4))[fills[r]]
        pat = rng.choice(pats)
        for i in range(n):
            ops.append([2, r, 100 * r + i, d2b(weight(rng, pat, i, n, st) * (1 + 4 * r))])
    mode = ci % 4
    ops.append([7, 0, 1, mode]); ops.append([3, 1]); ops.append([3, 0])
    for p in PREDS:
        ops.append([4, 1, p[0], p[1]])
    for i in range(rng.choice([1, 5, 20])):
        ops.append([2, 1, 500 + i, d2b(float(rng.randint(1, 8)))])
    ops.append([3, 1]); ops.append([4, 1, 0, 0]); ops.append([3, 0]); ops.append([5, 1, 2, rng.randrange(3)]); ops.append([3, 2])
    return dict(id='vc%d' % ci, ops=ops, tags=['copy', 'copy-mode-%d' % mode, 'src-' + fills[0], 'dst-' + fills[1]], exact=True)

def feedback_cases(rng, tier):
    """r := u.get_result(); u.update(r), 34 rounds: n doubles every round and passes 2^32 after round 27 (n up to 40 * 2^34 < 2^40),
       the samples stay <= max_k; the three configurations end in the simple-copy, the migrate and the pseudo-exact coercer"""
    cases = []
    for ci, (maxk, sk) in enumerate([(4, [(4, 40, 1.0)]), (8, [(4, 40, 1.0), (4, 8, 100.0)]), (16, [(4, 40, 1.0)]), (3, [(5, 9, 2.0), (2, 7, 1.0)])]):
        ops = [[99, 1234 + ci]]
        for r, (k, n, w) in enumerate(sk):
            ops.append([1, r, k, 3])
            for i in range(n):
                ops.append([2, r, 1000 * r + i, d2b(w)])
        ops.append([10, 0, maxk])
        for r in range(len(sk)):
            ops.append([20, 0, r])
        for rnd in range(34):
            ops.append([21, 0, 200]); ops.append([3, 200]); ops.append([20, 0, 200]); ops.append([14, 0])
        ops.append([21, 0, 200]); ops.append([3, 200]); ops.append([4, 200, 0, 0])
        cases.append(dict(id='vf%d' % ci, ops=ops, tags=['feedback', 'n>=2^32'], exact=True, kind='feedback', n0=[n for (_, n, _) in sk]))
    return cases

def union_phase(rng, ops, tags, srcs, klist, pat, st, universe, u):
    """union register u over the sketch registers srcs; result goes to registers 200.."""
    tags.add('union')
    nsamp = sum(klist)
    maxk = rng.choice([1, 2, 3, 4, 8, 32, min(klist), max(klist), nsamp, nsamp + 1, rng.randint(1, 40)])
    if rng.random() < 0.05:
        ops.append([10, u, rng.choice([0, 2 ** 31 - 1])])     # refused
    ops.append([10, u, maxk])
    if rng.random() < 0.2:
        ops.append([12, u, 200]); ops.append([3, 200])          # result of an empty union
    for j in range(rng.choice([1, 2, 2, 3, 4, 5])):
        if rng.random() < 0.08:
            ops.append([98] + [rng.choice([0, d2b(0.5), d2b(1 - 2 ** -53), rng.randrange(1 << 20)]) for _ in range(rng.randint(1, 3))])
        ops.append([rng.choice([11, 16]), u, rng.choice(srcs)])
        if rng.random() < 0.5:
            ops.append([14, u])
        if rng.random() < 0.3:
            ops.append([12, u, 200]); ops.append([3, 200]); tags.add('union-intermediate-result')
    if rng.random() < 0.35:
        # serialize/deserialize the union into union u+10; both must go on identically
        tags.add('union-serde')
        ops.append([15, u, u + 10, rng.randrange(3)]); ops.append([14, u + 10])
        ops.append([12, u + 10, 203]); ops.append([3, 203])
        if rng.random() < 0.5:
            ops.append([rng.choice([11, 16]), u + 10, rng.choice(srcs)]); ops.append([14, u + 10])
            ops.append([12, u + 10, 203]); ops.append([3, 203]); ops.append([4, 203, 0, 0])
    if rng.random() < 0.3:
        # copy of the union by copy ctor / copy-assign / move ctor / move-assign; the copy must behave like the original
        tags.add('union-copy')
        ops.append([17, u, u + 20, rng.randrange(4)]); ops.append([14, u + 20]); ops.append([12, u + 20, 204]); ops.append([3, 204])
        ops.append([rng.choice([11, 16]), u, rng.choice(srcs)])
        ops.append([17, u, u + 20, rng.choice([1, 3])]); ops.append([14, u + 20]); ops.append([12, u + 20, 204]); ops.append([3, 204]); ops.append([4, 204, 0, 0])
    ops.append([14, u]); ops.append([12, u, 200]); ops.append([3, 200])
    for p in PREDS:
        ops.append([4, 200, p[0], p[1]])
    nmore = rng.choice([0, 1, 3, 10, 40])
    for j in range(nmore):
        w = weight(rng, pat, j, nmore, st)
        ops.append([2, 200, rng.randrange(universe) + 5000, d2b(w)])
        if rng.random() < 0.1:
            ops.append([3, 200])
    if nmore:
        tags.add('update-after-union')
    ops.append([3, 200]); ops.append([4, 200, 0, 0])
    ops.append([5, 200, 201, rng.randrange(3)]); ops.append([3, 201])
    if rng.random() < 0.25:
        ops.append([13, u]); ops.append([14, u]); tags.add('union-reset')
        ops.append([rng.choice([11, 16]), u, rng.choice(srcs)]); ops.append([11, u, 201])
        ops.append([14, u]); ops.append([12, u, 202]); ops.append([3, 202]); ops.append([4, 202, 0, 0])

def union_case(rng, ci):
    """sketches of different k and fill state (empty, under-full, exactly full, estimation mode), equal or different taus"""
    ops = [[99, rng.randrange(1, 2 ** 32)]]
    tags = set()
    pat = rng.choice(['ones', 'ones', 'smallint', 'heavytail', 'pow2', 'giant', 'inc', 'tenths', 'uniform'])
    exact = pat not in ('tenths', 'uniform')
    nreg = rng.choice([2, 2, 3, 4])
    same_k = rng.random() < 0.4
    k0 = rng.choice([1, 2, 3, 4, 5, 8, 16])
    klist = []
    universe = rng.choice([10, 1000])
    for r in range(nreg):
        k = k0 if same_k else rng.choice([1, 2, 3, 4, 5, 7, 8, 16, rng.randint(1, 20)])
        klist.append(k)
        ops.append([1, r, k, rng.randrange(4)])
        n = rng.choice([0, 1, k - 1, k, k + 1, k + 1, 2 * k, 2 * k, 5 * k, 5 * k + 3])
        if same_k and rng.random() < 0.5:
            n = 3 * k0
        n = max(0, n)
        st = dict(giant_at=rng.randrange(max(1, n)), c=1.0, base=1.0)
        for i in range(n):
            ops.append([2, r, rng.randrange(universe) + 10000 * r, d2b(weight(rng, pat, i, n, st))])
        if n > k:
            tags.add('estimation-mode')
        if rng.random() < 0.3:
            ops.append([3, r])
    st = dict(giant_at=0, c=1.0, base=1.0)
    union_phase(rng, ops, tags, list(range(nreg)), klist, pat, st, universe, 0)
    if same_k:
        tags.add('union-same-k')
    tags.add('pat-' + pat)
    return dict(id='vu%d' % ci, ops=ops, tags=sorted(tags), exact=exact)

# ---------------------------------------------------------------------------------------------------------------
def fr(bits):
    return Fraction(b2d(bits))

def valid_weight(wb):
    w = b2d(wb)
    if w != w or w in (float('inf'), -float('inf')) or w < 0:
        return None          # must be refused
    return w != 0.0          # True: counted, False: ignored

def close(a, b, exact):
    if exact:
        return a == b
    return abs(a - b) <= Fraction(1, 10 ** 9) * max(abs(a), abs(b))

def case_exact(case):
    """sums of the inputs are exact in binary64: all weights multiples of 2^-10 and total below 2^40"""
    if 'exact' in case:
        return case['exact']
    tot = Fraction(0)
    for op in case['ops']:
        if op[0] == 2 and len(op) >= 4 and valid_weight(op[3]):
            w = fr(op[3])
            if (w * 1024).denominator != 1:
                return False
            tot += w
    return tot < 2 ** 40

def oracle(case, irecs, mrecs):
    """Property predicates on the implementation's outputs; ground truth (S lines) from the model's ghost log."""
    fails = []
    exact0 = case_exact(case)
    exact = exact0
    # per-register bookkeeping of the oracle itself (which registers came out of deserialize, which lost an update)
    reg = {}
    ureg = {}
    def bad(sig, what, i):
        fails.append(dict(sig=sig, what=what, op_index=i))
    if case.get('kind') == 'feedback':
        # no ghost log here (it would double every round): n is checked against the doubling itself
        regn = dict(enumerate(case['n0'])); un = 0
        for i, op in enumerate(case['ops']):
            if i >= len(irecs):
                break
            R = irecs[i]['R']
            if op[0] in (20, 21) and R != [1]:
                bad('union_feedback_threw', 'union update / get_result threw in the feedback loop (union n = %d)' % un, i); break
            if op[0] == 20:
                un += regn[op[2]]
            elif op[0] == 21:
                regn[op[2]] = un
            elif op[0] == 3 and op[1] == 200 and R[0] != regn[200]:
                bad('union_feedback_n', 'get_n of the union result is %d, the union has seen %d items' % (R[0], regn[200]), i)
            elif op[0] == 14 and R[0] != un:
                bad('union_feedback_n', 'union n is %d after sketches with %d items in total' % (R[0], un), i)
        return fails
    for i, op in enumerate(case['ops']):
        if i >= len(irecs) or i >= len(mrecs):
            break
        R = irecs[i]['R']; S = mrecs[i].get('S'); F = irecs[i].get('F')
        c = op[0]
        exact = exact0 and not (c in (2, 3, 4) and len(op) > 1 and reg.get(op[1], {}).get('union'))
        if c == 1 and len(op) >= 3:
            if R == [1]:
                reg[op[1]] = dict(k=op[2], cnt=0, deser=False, taint=False, union=False, light_h=False)
            elif 1 <= op[2] <= 2 ** 31 - 2:
                bad('ctor_refused', 'constructor refused valid k=%d' % op[2], i)
        elif c == 2 and len(op) >= 4 and op[1] in reg:
            g = reg[op[1]]; v = valid_weight(op[3])
            if v is None:
                if R != [-1]:
                    bad('invalid_weight_accepted', 'update accepted invalid weight %r' % b2d(op[3]), i)
            elif R != [1]:
                if not g['taint']:
                    if g['union'] and g['light_h']:
                        bad('update_throws_on_union_result',
                            'update() with valid weight %r throws on the sketch returned by var_opt_union::get_result(): the result '
                            'holds an H item lighter than its tau (pseudo-exact shortcut taken although an unmarked H item is lighter '
                            'than the outer tau); n_ is incremented, the item is lost' % b2d(op[3]), i)
                    elif g['cnt'] > g['k'] and (not exact or g['union']):
                        bad('update_throws_in_estimation_mode',
                            'update() with valid weight %r throws std::logic_error on an estimation-mode sketch built by updates only '
                            '(n=%d > k=%d, non-dyadic weights): rounding left the lightest H item below tau; n_ is incremented, the '
                            'item is lost and every later update throws as well' % (b2d(op[3]), g['cnt'], g['k']), i)
                    else:
                        bad('update_refused_valid_weight',
                            'update() with valid weight %r threw (n=%d, k=%d)' % (b2d(op[3]), g['cnt'], g['k']), i)
                g['taint'] = True
                g['cnt'] += 1 if v else 0
            elif v:
                g['cnt'] += 1
        elif c == 5 and len(op) >= 3 and op[1] in reg:
            if R == [1]:
                g = dict(reg[op[1]]); g['deser'] = True
                if g['cnt'] == 0: g['deser'] = False
                reg[op[2]] = g
            elif not reg[op[1]]['taint']:
                bad('roundtrip_refused', 'serialize/deserialize round trip threw', i)
        elif c == 6 and op[1] in reg and R == [1]:
            reg[op[1]] = dict(k=reg[op[1]]['k'], cnt=0, deser=False, taint=False, union=False, light_h=False)
        elif c == 7 and len(op) >= 3 and op[1] in reg and R == [1]:
            reg[op[2]] = dict(reg[op[1]])
        elif c == 3 and op[1] in reg and S and R != [-1] and not reg[op[1]]['taint']:
            n, k, ns, h, r, totb = R[:6]
            smp = list(zip(R[6::2], R[7::2]))
            g = reg[op[1]]
            if g['union']:
                g['k'] = k
                if k > g['maxk'] or ns > k:
                    bad('union_result_k', 'union result has k=%d, %d samples; union max_k=%d' % (k, ns, g['maxk']), i)
                if r > 0:
                    tau0 = b2d(totb) / r
                    g['light_h'] = any(b2d(wb) < tau0 * (1 - 1e-9) for _, wb in smp)
            exact = exact0 and not g['union']
            n_true, total_scaled = S[0], S[1]
            log = list(zip(S[2::2], S[3::2]))
            total = Fraction(total_scaled, SCALE)
            if n != n_true:
                bad('n_mismatch', 'get_n %d != number of accepted updates %d' % (n, n_true), i)
            if ns != min(n_true, k) or len(smp) != ns:
                bad('num_samples', 'num_samples %d (iterated %d) != min(n=%d, k=%d)' % (ns, len(smp), n_true, k), i)
            items = Counter(it for it, _ in log)
            pairs = Counter(log)
            sitems = {}
            for it, wb in smp:
                sitems[it] = sitems.get(it, 0) + 1
            for it, c2 in sitems.items():
                if c2 > items.get(it, 0):
                    bad('sample_not_from_input', 'item %d sampled %d times but seen %d times' % (it, c2, items.get(it, 0)), i)
                    break
            ssum = sum((fr(wb) for _, wb in smp), Fraction(0))
            if not close(ssum, total, False):
                bad('weight_not_conserved', 'sum of adjusted sample weights %s != total input weight %s' % (float(ssum), float(total)), i)
            if r > 0:
                tau_f = b2d(totb) / r
                taub = d2b(tau_f)
                hsum = ssum - r * Fraction(tau_f)
                if exact and hsum + fr(totb) != total:
                    bad('weight_not_conserved_exact', 'H weights + total_wt_r = %s != total input weight %s (dyadic inputs)' %
                        (float(hsum + fr(totb)), float(total)), i)
                thr = tau_f if exact else tau_f * (1 + 1e-12)      # doubles compare exactly; no Fractions per log entry
            else:
                taub = None; thr = None
                if exact and ssum != total:
                    bad('weight_not_conserved_exact', 'exact mode: sample weights %s != total %s' % (float(ssum), float(total)), i)
            spairs = {}
            for p in smp:
                spairs[p] = spairs.get(p, 0) + 1
            for p, c2 in pairs.items():
                if (thr is None or b2d(p[1]) > thr) and spairs.get(p, 0) < c2:
                    bad('heavy_item_lost', 'input item %d with weight %r above tau is not in the sample with its exact weight' %
                        (p[0], b2d(p[1])), i)
                    break
            for p, c2 in spairs.items():
                if p[1] != taub and pairs.get(p, 0) < c2:
                    bad('sample_weight_not_exact', 'sample (%d, %r) is neither an input pair nor an R item with weight tau' %
                        (p[0], b2d(p[1])), i)
                    break
        elif c == 4 and op[1] in reg and S and R != [-1] and len(R) == 2 and not reg[op[1]]['taint']:
            est = b2d(R[0]); total = Fraction(S[1], SCALE)
            if op[2] == 0:
                if est != est or not close(Fraction(est), total, exact):
                    bad('subset_sum_total', 'estimate over the always-true predicate %r != total input weight %s' % (est, float(total)), i)
            if F and len(F) == 2:
                lb = b2d(F[0]); ub = b2d(F[1])
                if not (lb <= est <= ub):
                    bad('bounds_order', 'lb %r <= est %r <= ub %r violated (predicate %d)' % (lb, est, ub, op[2]), i)
        elif c == 4 and op[1] in reg and R == [-1] and not reg[op[1]]['taint']:
            bad('estimate_threw', 'estimate_subset_sum threw', i)
        elif c == 10 and len(op) >= 3:
            if R == [1]:
                ureg[op[1]] = dict(maxk=op[2], cnt=0, taint=False, est=False)
            elif 1 <= op[2] <= 2 ** 31 - 2:
                bad('ctor_refused', 'union constructor refused valid max_k=%d' % op[2], i)
        elif c in (11, 16) and len(op) >= 3 and op[1] in ureg and op[2] in reg:
            u = ureg[op[1]]; g = reg[op[2]]
            if g['taint']:
                u['taint'] = True
            elif R != [1]:
                if not u['taint']:
                    bad('union_update_throws_rounding',
                        'var_opt_union::update(sketch) threw: the gadget\'s update() hit std::logic_error("sketch not in valid estimation '
                        'mode") (union n=%d so far, sketch n=%d, k=%d); binary64 rounding left the lightest H item of the gadget below '
                        'its tau; the union is left half-updated' % (u['cnt'], g['cnt'], g['k']), i)
                u['taint'] = True
            else:
                u['cnt'] += g['cnt']
                if g['cnt'] > g['k']:
                    u['est'] = True
        elif c == 12 and len(op) >= 3 and op[1] in ureg:
            u = ureg[op[1]]
            if R == [1]:
                reg[op[2]] = dict(k=u['maxk'], cnt=u['cnt'], deser=False, taint=u['taint'], union=True, light_h=False, maxk=u['maxk'])
            elif not u['taint']:
                if u['est']:
                    bad('union_result_throws_rounding',
                        'var_opt_union::get_result() threw (union n=%d, max_k=%d, some input in estimation mode): decrease_k_by_1 '
                        're-inserts an H item through update(), which throws std::logic_error("sketch not in valid estimation mode") '
                        'when binary64 rounding leaves the lightest H item below tau' % (u['cnt'], u['maxk']), i)
                else:
                    bad('union_result_threw', 'var_opt_union::get_result() threw (union n=%d, max_k=%d, all inputs in exact mode)' %
                        (u['cnt'], u['maxk']), i)
        elif c == 15 and len(op) >= 3 and op[1] in ureg:
            if R == [1]:
                ureg[op[2]] = dict(ureg[op[1]])
            elif not ureg[op[1]]['taint']:
                bad('union_roundtrip_refused', 'var_opt_union serialize/deserialize round trip threw (union n=%d)' % ureg[op[1]]['cnt'], i)
        elif c == 17 and len(op) >= 3 and op[1] in ureg and R == [1]:
            ureg[op[2]] = dict(ureg[op[1]])
        elif c == 13 and op[1] in ureg and R == [1]:
            ureg[op[1]] = dict(maxk=ureg[op[1]]['maxk'], cnt=0, taint=False, est=False)
        elif c == 14 and op[1] in ureg and S and R != [-1] and not ureg[op[1]]['taint']:
            un, numb, den, maxk, marks = R[:5]
            gn, gk, gns, gh, gr, gtotb = R[5:11]
            smp = list(zip(R[11::2], R[12::2]))
            n_true = S[0]; total = Fraction(S[1], SCALE)
            if un != n_true:
                bad('union_n', 'union n %d != sum of the n of the sketches given to it %d' % (un, n_true), i)
            if gk != maxk or gns > maxk:
                bad('union_result_k', 'gadget k=%d samples=%d, max_k=%d' % (gk, gns, maxk), i)
            ssum = sum((fr(wb) for _, wb in smp), Fraction(0))
            if not close(ssum, total, False):
                bad('union_weight_not_conserved', 'gadget sample weights sum to %s, total input weight of the sketches %s' %
                    (float(ssum), float(total)), i)
    return fails

def crash_sig(case, text):
    """names for the sanitizer stops this family has seen (each repaired by a fixes/16_*.patch; the name shows up again on an unrepaired tree)"""
    if 'LeakSanitizer' in text and 'mark_moving_gadget_coercer' in text:
        return 'coercer_throw_leak'                 # get_result() threw after the coercer had allocated and filled its arrays
    if 'heap-buffer-overflow' in text and 'update_warmup_phase' in text:
        return 'reset_after_deserialize_overflow'   # reset() kept arrays smaller than the start size
    if 'not a valid value for type \'bool\'' in text:
        return 'deserialize_marks_uninitialised'
    return None

FAMILIES = [dict(name='varopt', harness='drv_varopt.cpp', extract='Extract_varopt.v', model='model_varopt', gen=gen, oracle=oracle, crash_sig=crash_sig,
                 ocaml_flags='-rectypes -thread -package coq-core.kernel -linkpkg', cxx_flags='-ffp-contract=off')]

MANIFEST = dict(
    level_text=('Theorems (coq/Properties_C16.v, 25 statements, axiom-free, proofs in VarOptProofs/VarOptTheorems/VarOptUnion/VarOptMarks/VarOptTotal/VarOptHeavy.v) about the '
                'exact-arithmetic (Q) instance of the executable model of var_opt_sketch / var_opt_union, for EVERY history of updates, '
                'serialize/deserialize round trips and resets, every k >= 1, every sequence of random draws (arbitrary, also too short) and '
                'every decoding of the unit-interval draws: h + r = min(n, k) with an empty M region at rest and n = number of accepted '
                'updates; sum of H weights + total_wt_r = total input weight; tau never decreases; while n <= k the sketch holds exactly '
                'the input; every input is accounted for as an H item with its exact weight, an R item or a dropped item, the latter two no '
                'heavier than tau, hence every input heavier than tau is in H with its exact weight and samples come from the input; in '
                'estimation mode H is a binary min-heap with no item lighter than tau; update never throws (refused iff w < 0, ignored iff '
                'w = 0); estimate_subset_sum returns for every predicate with 0 <= estimate <= total and estimate = total for the '
                'always-true predicate; a round trip succeeds and returns the same regions. Union, for EVERY union history (update(sketch) '
                'with sketches of any k and fill state in any order and repetition, serialize/deserialize of the union, reset) and any '
                'max_k: update(sketch) never throws and adds the sketch\'s n and total input weight; resolve_tau makes the outer tau the '
                'maximum tau of the estimation-mode sketches seen; the union round trip keeps n, weight, max_k; whatever get_result '
                'returns (all three coercers: simple copy, mark-moving, migrate-by-decreasing-k incl. decrease_k_by_1) has exactly the '
                'combined n and total weight, k <= max_k, at most k samples, empty M region, every sample item is an input item and '
                'every H sample is an input (item, weight) pair with its exact weight (num_marks_in_h_ proved to count the marked H '
                'slots through every operation). get_result is TOTAL: for every union history it returns (the consistency check of the '
                'mark-moving coercer holds, decrease_k_by_1 is never asked to go below k = 1, the migrate loop terminates), so these '
                'conclusions hold unconditionally; the result\'s tau is at least the tau of every estimation-mode input sketch, and every '
                'input heavier than the result\'s tau is in the result\'s H region with its exact weight (all three coercers; slot-level '
                '"kept or no heavier than tau" invariant through update, round trip and get_result). The sketch lifecycle update* / '
                'deserialize / update* is covered explicitly (tau monotone across the round trip, heavy items kept). Regression_varopt.v keeps '
                'the three repaired model-level defects as refuted theorems about the old code. The binary64 instance of the same model text is extracted '
                'and compared bit for bit with the C++ (ASan/UBSan build, all random draws replayed through the hook) on generated scripts; '
                'the property predicates (counts, conservation, heavy items kept exactly, samples from the input, subset-sum total, '
                'lb <= estimate <= ub, union n / weight / k) are evaluated on the implementation\'s outputs against the model\'s ghost log.'),
    level_note=('Trusted: Coq kernel; hand-written model validated only by the correspondence runs; random draws taken from the hook log; '
                'binary64 agreement of Coq PrimFloat/OCaml with g++ -ffp-contract=off. Theorems are over exact rationals, not binary64: in '
                'binary64 update()/union update()/get_result() can throw std::logic_error when rounding leaves the lightest H item one ulp '
                'below tau (known findings update_throws_in_estimation_mode, union_update_throws_rounding, union_result_throws_rounding; '
                'Regression_varopt.v shows such a history passing in exact arithmetic). Not proved: unbiasedness (statistical, not claimed), lower/upper bounds '
                '(libm; only lb <= estimate <= ub checked on the implementation). "At most the smallest effective k items" is proved and '
                'checked as k <= max_k and samples <= k: by design the library can return more samples than the smallest input k (inputs '
                'k=4 and k=8 give k=7). Serialization is modelled as validity checks + constructor arguments, not bytes. Observations '
                'outside the property text: estimate_subset_sum reports total_sketch_weight = weight of the matching items (not the total) '
                'while r = 0. '
                'Requires fixes/16_deserialize_m.patch, 16_deserialize_marks_init.patch, 16_union_pseudo_exact_tau.patch, '
                '16_union_pseudo_exact_heap.patch in /repo.'),
    design_ref='DESIGN.md section 5 C16')
