# C02 — Theta set operations return the exact set expression over the hash samples
#
# Genuine defects found and repaired (the model is the REPAIRED code; the old behaviour is refuted in coq/Regression_thetaset.v):
#  * fixes/02_intersection_empty_order.patch — theta_intersection_base latched is_empty after two disjoint exact-mode inputs and
#    then ignored every later input: result theta MAX instead of the minimum input theta, and dependence on the order of the
#    inputs.  Signature: intersection_sticky_empty.
#  * fixes/02_union_empty_theta.patch — get_result() of a union built with p < 1 that saw only empty inputs returned an EMPTY
#    sketch with theta = starting theta < MAX (its serialized forms report MAX: results of later operations depended on the
#    physical form).  Signature: union_empty_theta_below_max.
#
# Mutations of the C++ confirmed caught (scratch copies of the patched tree via VERIF_REPO; number of failing cases out of 100, seed 1):
#   m2  union: early `break` also when the input is NOT ordered (DESIGN s.9 row C02)                      46 cases (union_missing/theta/extra)
#   m3  intersection: theta = std::max instead of std::min (DESIGN row)                                   83 cases
#   m4  A-not-B: sort-based path without the `< theta` filter (DESIGN row)                                53 cases (a_not_b_extra, a_not_b_not_below_theta)
#   m5  lg_size_from_count: always the smaller size, the intersection table reaches rebuild (DESIGN row)  14 cases (intersection_missing/theta)
#   m1b union: `union_theta_ = min(union_theta_, sketch.get_theta64())` dropped                           75 cases
#   m6  union get_result: trims only above nominal_num + 1 (off by one)                                   8 cases (union_theta, union_extra)
#   m7  union: theta of inputs without retained entries ignored (zero-retained p<1 inputs)                36 cases
#   m8  intersection: "already no entries" early return taken before theta is lowered                     37 cases
#   m10 jaccard: union sized by count_a only (trims in exact mode)                                        27 cases (jaccard_exact)
#   m13 jaccard: identical_sets forgets B's count                                                         9 cases (jaccard_exact, exactly_equal)
#   m14 A-not-B hash path: the scan of B stops early when A (not B) is ordered                            3 cases (a_not_b_extra)
#   the library's own unit tests (theta_test) PASS with m6, m13 and m14 and fail with m2, m7, m8 (the others were not run).
# DESIGN's first C02 mutation — dropping `union_theta_ = std::min(union_theta_, table_.theta_)` at the end of update — is an
#   EQUIVALENT mutant: update's loop tests both thetas and get_result takes the min again, so no observation changes (0/100, as it should).
# Harmless rewrites tolerated (0 failing cases): h1 A-not-B always takes the hash path (DESIGN row); h2 union table starts at full
#   size lg_k+1 instead of starting_lg_size() (DESIGN row); h3 union get_result uses std::sort instead of std::nth_element.
import itertools, struct

PROP = "C02"
READY = True
COQ_PROPS = ['Properties_C02', 'Properties_C02_payload']
RULE = ('per case 1..6 update_theta_sketch inputs (lg_k 5..10, p in {1, 0.5, 0.01, 2^-20}, resize factor X1..X8) filled from overlapping '
        'integer ranges sized 0 (empty), 1, 2, <k, ~k, 2k..4k (estimation mode) and p<1 with few updates (zero retained but not empty), some trimmed; '
        'each input is presented to the operations in a random physical form out of 8 (update sketch, compact ordered/unordered, wrapped v3 '
        'bytes ordered/unordered, wrapped compressed v4 bytes, deserialized v3/v4) and every form is also queried directly; '
        'unions with lg_k 5..8 (so trimming triggers), p in {1, 0.5}, fed all inputs in every order (<= 4 inputs: all permutations, each into a '
        'fresh union; more: random permutations), with get_result(ordered/unordered) calls between updates on a reused object, reset, and a '
        'result fed back as an input; intersections likewise (stateful reuse, has_result, get_result before any update refused); A-not-B on all '
        'ordered pairs in all form combinations (sort-based path for ordered x ordered, hash-based otherwise) incl. the early returns; Jaccard / '
        'exactly_equal on pairs incl. the same object and equal sets in different forms, ratio bounds on (union, intersection) pairs; a sketch '
        'with a different seed is offered to every operation (refused); two seed-independent directed cases (case splits of the proofs; operator objects copied / moved / re-initialised by assignment; reset/reuse of '
        'unions whose own table has rebuilt, with exact- and estimation-mode inputs afterwards, intersections updated after get_result); '
        'non-trivial = the case runs at least one set operation over a non-empty input')
TRUSTED = ['MurmurHash3 model coq/Murmur3.v and coq/Canon.v (exercised against the implementation by every update: the model hashes the items itself)',
           'std::nth_element is modelled by its postcondition (coq/KSmallest.v nth_post); the theorems hold for every function meeting it',
           'serialization round trips (wrap / deserialize of v3 and v4 bytes) are not modelled as bytes here (that is C09/C10): the model states '
           'that each form presents the same theta/emptiness/entries with the ordered flag of the compact form it was made from, and the runs check it',
           'the correctly rounded quotient of two counts (coq/ThetaSetDefs.v fdiv_bits) is validated by the runs and by the Python float division in the oracle']
ASSUMPTIONS = ['Jaccard bounds outside exact mode go through libm (binomial bounds) and are only checked for lb <= estimate <= ub',
               'uint32 overflow of counts not modelled (impossible for lg_k <= 26)',
               'payload policies (Tuple sketches) are C13; here S = unit']

MAX_THETA = (1 << 63) - 1
P_ONE = 0x3f800000

def fbits(x):
    return struct.unpack('<I', struct.pack('<f', x))[0]

def bits_to_double(b):
    return struct.unpack('<d', struct.pack('<Q', b & (2**64 - 1)))[0]

ORDERED_FORMS = [1, 4, 6, 7]
UNORDERED_FORMS = [0, 2, 3, 5]
ALL_FORMS = list(range(8))

def gen(rng, tier):
    quick = (tier == 'quick')
    ncases = 100 if quick else 900
    cases = []
    for ci in range(ncases):
        ops = []; tags = set()
        seed = 9001 if rng.random() < 0.7 else rng.choice([1, 0, 2**64 - 1, rng.getrandbits(64)])
        nin = rng.choice([1, 2, 2, 3, 3, 4, 4, 5, 6]) if ci % 9 else rng.choice([2, 3])
        ulgk = rng.choice([5, 5, 6, 7, 8])
        uk = 1 << ulgk
        base = rng.choice([0, 1, 1000, rng.getrandbits(30)])
        span = rng.choice([uk // 2, uk, 2 * uk, 4 * uk])         # universe the ranges are drawn from
        sk = []                                                   # input registers
        est = {}                                                  # rough number of retained entries per register
        budget = 2600 if quick else 9000                         # hashed updates per case (the Murmur model costs ~0.2 ms each)
        nonempty = False
        for r in range(nin):
            lgk = rng.choice([5, 5, 6, 7, 8, 9, 10]) if not quick or rng.random() < 0.8 else rng.choice([5, 6])
            k = 1 << lgk
            pk = rng.random()
            pb = P_ONE if pk < 0.6 else fbits(0.5) if pk < 0.8 else fbits(0.01) if pk < 0.9 else fbits(2.0 ** -20)
            kind = rng.random()
            if ci % 11 == 5 and r < 2:
                pb = P_ONE; count = rng.choice([1, 2, 5, uk // 2, uk - 1, k // 2])     # exact-mode inputs for Jaccard
            elif kind < 0.10: count = 0
            elif kind < 0.25: count = rng.choice([1, 2, 3])
            elif kind < 0.55: count = rng.randrange(1, max(2, min(k, span)))
            elif kind < 0.75: count = rng.choice([uk - 1, uk, uk + 1, k - 1, k, k + 1])
            else: count = rng.choice([2 * k, 3 * k, 15 * k // 8 + 1, 4 * uk])
            count = max(0, min(count, budget)); budget -= count
            pf = {P_ONE: 1.0, fbits(0.5): 0.5, fbits(0.01): 0.01}.get(pb, 0.0)
            est[r] = min(count * pf, 15 * k / 8.0)
            start = base + rng.randrange(0, span + 1)
            if rng.random() < 0.15 and sk:
                start = base                                       # nested / equal ranges
            ops.append([1, r, lgk, rng.randrange(4), pb, seed])
            if count:
                ops.append([8, r, start, count]); nonempty = True
                if rng.random() < 0.2:
                    ops.append([2, r, rng.choice([0, 2, 3, 8, 10]), rng.randrange(50)])
                if rng.random() < 0.15:
                    ops.append([3, r])
            if pb != P_ONE: tags.add('p<1')
            sk.append(r)
        # a sketch with another seed, offered to everything and refused
        alien = 50
        ops.append([1, alien, 5, 0, P_ONE, seed ^ 1]); ops.append([8, alien, base, 3])
        # every form of (some of) the inputs, queried directly
        for r in (sk if rng.random() < 0.3 else sk[:2]):
            for f in ALL_FORMS:
                ops.append([7, r, f])
        # pre-made compact registers so that "as stored" also covers compact sketches
        creg = 20
        for r in sk[:3]:
            ops.append([5, r, creg + r, rng.randrange(2)])
        def pick():
            """an input presentation: (register, form)"""
            r = rng.choice(sk)
            if r < 3 and rng.random() < 0.2:
                return (creg + r, rng.choice(ALL_FORMS))
            return (r, rng.choice(ALL_FORMS))
        form_of = lambda r: rng.choice(ALL_FORMS)
        # ---- union ----
        ureg = 100
        up = P_ONE if rng.random() < 0.75 else fbits(0.5)
        urf = rng.randrange(4)
        def new_union():
            nonlocal ureg
            ureg += 1
            ops.append([10, ureg, ulgk, urf, up, seed])
            return ureg
        if nin <= 4 and (quick and nin <= 3 or not quick or rng.random() < 0.3):
            perms = list(itertools.permutations(sk))
        else:
            perms = [tuple(rng.sample(sk, len(sk))) for _ in range(4)]
        for pi, perm in enumerate(perms):
            u = new_union()
            for j, r in enumerate(perm):
                ops.append([11, u, r, form_of(r)])
                if pi == 0 and rng.random() < 0.5:
                    ops.append([12, u, rng.randrange(2)])         # get_result between updates (stateful reuse)
                if pi == 0 and j == 0:
                    ops.append([11, u, alien, rng.choice(ALL_FORMS)])   # seed mismatch: refused, state unchanged
            ops.append([12, u, 0]); ops.append([12, u, 1, 60])    # result kept in register 60
            if pi == 0 and rng.random() < 0.6:
                # reset the (possibly rebuilt, theta-lowered) union and reuse the same object: nothing of round 1 may survive
                if rng.random() < 0.5:
                    ops.append([13, u])
                else:
                    ops.append([15, u, ulgk, rng.randrange(4), up, seed])     # u = builder.build()
                ops.append([12, u, 1])
                for r in rng.sample(sk, rng.randrange(1, len(sk) + 1)):
                    ops.append([11, u, r, form_of(r)])
                ops.append([12, u, 0]); ops.append([12, u, 1, 60])
            if pi == 0:
                # the result as an input of a second union; reset and reuse
                u2 = new_union()
                ops.append([11, u2, 60, rng.choice(ALL_FORMS)]); ops.append([11, u2, perm[0], form_of(perm[0])]); ops.append([12, u2, 1])
                ops.append([13, u2]); ops.append([12, u2, 0]); ops.append([11, u2, perm[-1], form_of(perm[-1])]); ops.append([12, u2, 1])
        # empty union result
        u = new_union(); ops.append([12, u, 1]); ops.append([12, u, 0])
        # ---- intersection ----
        xreg = 200
        for pi, perm in enumerate(perms[:6] if quick else perms):
            xreg += 1
            ops.append([20, xreg, seed])
            if pi == 0:
                ops.append([23, xreg]); ops.append([22, xreg, 1])   # no result yet: refused
            for j, r in enumerate(perm):
                ops.append([21, xreg, r, form_of(r)])
                if pi == 0:
                    ops.append([23, xreg])
                    if rng.random() < 0.5: ops.append([22, xreg, rng.randrange(2)])
                if pi == 0 and j == 0:
                    ops.append([21, xreg, alien, rng.choice(ALL_FORMS)])
            ops.append([22, xreg, 0]); ops.append([22, xreg, 1, 61])
            if pi == 0:
                ops.append([21, xreg, 60, rng.choice(ALL_FORMS)]); ops.append([22, xreg, 1])    # intersect with the union result
        # ---- A-not-B ----
        pairs = [(a, b) for a in sk for b in sk]
        rng.shuffle(pairs)
        ops.append([30, seed, sk[0], 1, sk[-1], 1, 1, 62])
        for (a, b) in pairs[:6 if quick else 12]:
            # the hash-based path re-hashes B's table on every insert past half load (resize by factor 1): cubic in the
            # list-based model, so big B operands mostly go through the sort-based path
            big = est[b] > (200 if quick else 500)
            fa = rng.choice(ORDERED_FORMS if big else ALL_FORMS); fb = rng.choice(ORDERED_FORMS if big else ALL_FORMS)
            ops.append([30, seed, a, fa, b, fb, rng.randrange(2)])
            # the same pair through both paths (sort-based: both ordered forms; hash-based: any other combination)
            ops.append([30, seed, a, rng.choice(ORDERED_FORMS), b, rng.choice(ORDERED_FORMS), rng.randrange(2), 62])
            if not big:
                ops.append([30, seed, a, rng.choice(UNORDERED_FORMS), b, rng.choice(ALL_FORMS), 1])
        ops.append([30, seed, sk[0], 0, alien, 1, 1]); ops.append([30, seed, alien, 1, sk[0], 0, 1])
        ops.append([30, seed, 60, rng.choice(ALL_FORMS), 61, rng.choice(ALL_FORMS), 1])
        ops.append([30, seed, 61, rng.choice(ALL_FORMS), 60, rng.choice(ALL_FORMS), 0])
        # ---- Jaccard, exactly_equal, ratio bounds ----
        # (the union inside jaccard is sized by the two counts: big operands are expensive in the list-based model)
        jlimit = 700 if quick else 2500
        small = sorted(sk, key=lambda r: est[r])[0]
        jpairs = [(a, b) for (a, b) in pairs if est[a] + est[b] <= jlimit or rng.random() < 0.08][:4]
        for (a, b) in jpairs + [(small, small)]:
            fa = rng.choice(ALL_FORMS); fb = rng.choice(ALL_FORMS)
            ops.append([40, seed, a, fa, b, fb]); ops.append([41, seed, a, fa, b, fb])
        ops.append([40, seed, sk[0], 0, sk[0], 0]); ops.append([41, seed, sk[0], 0, sk[0], 0])      # same object
        ops.append([40, seed, small, 1, small, 3]); ops.append([41, seed, small, 2, small, 4])      # equal sets, different objects
        ops.append([40, seed, sk[0], 0, alien, 0]); ops.append([41, seed, alien, 0, sk[0], 0])
        ops.append([42, 60, rng.choice(ALL_FORMS), 61, rng.choice(ALL_FORMS)])                      # intersection over union
        ops.append([42, 61, 0, 60, 0])                                                              # wrong way round: refused or not
        ops.append([42, sk[0], 0, 62, 0])
        if nonempty: tags.add('setops')
        if any(op[0] == 8 and op[3] > uk for op in ops): tags.add('union-trims')
        cases.append(dict(id='ts%d' % ci, ops=ops, tags=sorted(tags), cost=sum((op[3] if op[0] == 8 else 30) for op in ops)))
    cases.sort(key=lambda c: -c['cost'])
    return [directed_case(), directed_reuse_case(), directed_value_case()] + cases

def directed_case():
    """Fixed scenarios at the case splits of the proofs (independent of the seed): two disjoint exact-mode sketches and an
       estimation-mode / zero-retained one intersected in two orders (the intersection_sticky_empty defect), all-empty
       and zero-retained inputs for every operation, union at exactly k and k+1 surviving keys."""
    S = 9001; ops = []
    ops.append([1, 0, 5, 0, P_ONE, S]); ops.append([8, 0, 1, 6])                     # A: 6 items, exact
    ops.append([1, 1, 5, 0, P_ONE, S]); ops.append([8, 1, 100, 22])                  # B: 22 other items, exact
    ops.append([1, 2, 5, 0, P_ONE, S]); ops.append([8, 2, 1000, 100])               # C: estimation mode
    ops.append([1, 3, 10, 0, fbits(2.0 ** -20), S]); ops.append([8, 3, 5000, 40])   # Z: p<1, nothing retained, not empty
    ops.append([1, 4, 5, 0, P_ONE, S])                                               # E: empty
    ops.append([1, 5, 6, 0, P_ONE, S]); ops.append([8, 5, 1, 33])                    # F: 33 items (k+1 for lg_k 5)
    ops.append([1, 6, 6, 0, P_ONE, S]); ops.append([8, 6, 1, 32])                    # G: 32 items (k)
    x = 200
    for order in ([0, 1, 2], [2, 0, 1], [0, 1, 3], [3, 1, 0], [0, 1, 4], [4, 0], [0, 2, 1], [3, 3], [3, 4], [0, 0, 0]):
        x += 1; ops.append([20, x, S])
        for r in order:
            ops.append([21, x, r, (r + x) % 8]); ops.append([23, x])
        ops.append([22, x, 1]); ops.append([22, x, 0])
    u = 100
    for lgk, pb, order in ((5, P_ONE, [5]), (5, P_ONE, [6]), (5, P_ONE, [6, 0]), (5, P_ONE, [4, 4]), (5, fbits(0.5), [4]), (5, fbits(0.5), [3]),
                           (5, P_ONE, [3, 4]), (5, P_ONE, [2, 3]), (5, P_ONE, [3, 2]), (6, fbits(0.5), [5, 2, 3]), (5, P_ONE, [1, 2, 0, 3, 4])):
        u += 1; ops.append([10, u, lgk, 0, pb, S])
        for r in order:
            ops.append([11, u, r, (r + u) % 8]); ops.append([12, u, r % 2])
        ops.append([12, u, 1, 60]); ops.append([12, u, 0])
    for a in (0, 3, 4, 2):
        for b in (1, 3, 4, 2, 0):
            ops.append([30, S, a, 1, b, 1, 1]); ops.append([30, S, a, 0, b, 3, 0])
            ops.append([40, S, a, 2, b, 5]); ops.append([41, S, a, 2, b, 5])
    return dict(id='ts_directed', ops=ops, tags=['setops', 'directed'], cost=0)

def oracle(case, irecs, mrecs):
    """Property predicates on the implementation's outputs (R/F) against the specification values (S lines of the Coq model:
       spec_union / spec_inter / spec_a_not_b / spec_jaccard evaluated on the inputs the operation was given)."""
    fails = []
    def fail(sig, what, i):
        fails.append(dict(sig=sig, what=what, op_index=i))
    def check_result(name, R, F, spec, i, want_ordered):
        theta, empty, ordered, n = R[0], R[1], R[2], R[3]
        got = R[4:]
        sth, sempty, sn = spec[0], spec[1], spec[2]
        skeys = spec[3:3 + sn]
        if name == 'intersection' and theta == MAX_THETA and empty == 1 and sempty == 0 and sth < MAX_THETA:
            # one specific defect: an exact-mode intersection that became empty ignores every later input
            fail('intersection_sticky_empty', 'intersection: after two disjoint exact-mode inputs every later input is ignored: result is '
                 'empty with theta MAX although the minimum input theta is %x (feeding the same inputs in another order gives theta %x, not empty)' % (sth, sth), i)
            return
        if name == 'union' and empty == 1 and sempty == 1 and theta != MAX_THETA and sth == MAX_THETA:
            # second specific defect: the empty result of a union built with p < 1 carries the starting theta
            fail('union_empty_theta_below_max', 'union: get_result() of a union that saw only empty inputs is empty but reports theta %x '
                 '(the starting theta of the p < 1 union), not MAX_THETA; its serialized forms report MAX_THETA' % theta, i)
            return
        if theta != sth:
            fail(name + '_theta', '%s: result theta %x, the set expression gives %x' % (name, theta, sth), i)
        if empty != sempty:
            fail(name + '_empty_flag', '%s: result is_empty=%d, expected %d' % (name, empty, sempty), i)
        if n != len(got):
            fail(name + '_count', '%s: get_num_retained %d but iteration yields %d entries' % (name, n, len(got)), i)
        if any(got[j] == got[j + 1] for j in range(len(got) - 1)):
            fail(name + '_twice', '%s: an entry is retained twice' % name, i)
        sg = set(got); se = set(skeys)
        if se - sg:
            fail(name + '_missing', '%s: %d hash(es) of the set expression below theta are missing, e.g. %x (theta %x)' % (name, len(se - sg), min(se - sg), theta), i)
        if sg - se:
            x = min(sg - se)
            fail(name + '_extra', '%s: %d entr(ies) that do not belong to the set expression below theta, e.g. %x (theta %x)' % (name, len(sg - se), x, theta), i)
        if any(x >= theta or x == 0 for x in got):
            fail(name + '_not_below_theta', '%s: an entry is zero or not below the result theta %x' % (name, theta), i)
        if F is not None:
            it = F[:len(got)]
            if ordered and any(it[j] >= it[j + 1] for j in range(len(it) - 1)):
                fail(name + '_ordered_not_sorted', '%s: is_ordered() but iteration order is not strictly increasing' % name, i)
        if want_ordered and not ordered:
            fail(name + '_ordered_flag', '%s: ordered result requested but is_ordered() is false' % name, i)
    for i, op in enumerate(case['ops']):
        if i >= len(irecs) or i >= len(mrecs):
            break
        R = irecs[i]['R']; F = irecs[i].get('F'); S = mrecs[i].get('S')
        code = op[0]
        if R == [-2]:
            continue
        if code in (12, 22):
            name = 'union' if code == 12 else 'intersection'
            if R == [-1]:
                if mrecs[i]['R'] != [-1]:
                    fail(name + '_refused', '%s: get_result threw' % name, i)
                continue
            if S and len(R) >= 4:
                check_result(name, R, F if F is not None else [], S, i, op[2] != 0)
        elif code == 23:
            if S and R != [-1] and R[0] != S[0]:
                fail('has_result', 'has_result()=%d after %s update' % (R[0], 'an' if S[0] else 'no'), i)
        elif code == 30:
            if R == [-1] or not S or len(R) < 4:
                continue
            check_result('a_not_b', R, F if F is not None else [], S[1:], i, op[6] != 0)
        elif code == 40:
            if R == [-1] or not S or F is None or len(F) < 3:
                continue
            exact, same, ea, eb, ni, nu = S
            lb, est, ub = [bits_to_double(x) for x in F[:3]]
            if not (lb <= est <= ub) or lb < 0 or ub > 1:
                fail('jaccard_bounds_order', 'jaccard: not 0 <= lb %r <= estimate %r <= ub %r <= 1' % (lb, est, ub), i)
            if same or (ea and eb):
                want = 1.0
            elif ea or eb:
                want = 0.0
            elif exact and nu > 0:
                want = float(ni) / float(nu)
            else:
                want = None
            if want is not None and (lb, est, ub) != (want, want, want):
                fail('jaccard_exact', 'jaccard in exact mode: {%r, %r, %r}, the true ratio |A n B|/|A u B| = %d/%d = %r' % (lb, est, ub, ni, nu, want), i)
        elif code == 41:
            if R == [-1] or not S:
                continue
            exact, same, ea, eb, eq = S
            if same or (ea and eb): want = 1
            elif ea or eb: want = 0
            elif exact: want = eq
            else: want = None
            if want is not None and R[0] != want:
                fail('exactly_equal', 'exactly_equal()=%d for %s sets in exact mode' % (R[0], 'equal' if want else 'different'), i)
        elif code == 42:
            if R == [-1] or not S or F is None or len(F) < 3:
                continue
            exact, cb, ca = S
            lb, est, ub = [bits_to_double(x) for x in F[:3]]
            if ca > 0:
                want = float(cb) / float(ca)
                if est != want or (exact and (lb, ub) != (want, want)):
                    fail('ratio_exact', 'ratio bounds {%r, %r, %r}, counts give %d/%d = %r (exact=%d)' % (lb, est, ub, cb, ca, want, exact), i)
    return fails

def directed_reuse_case():
    """Stateful reuse after the object's own table has rebuilt: unions of lg_k 5 and 6 are fed more than 15/8*k (and more than
       2k) distinct hashes in one or in several inputs, so table_.theta_ drops below the starting theta and get_result trims;
       then get_result, reset, get_result (empty again), reuse with small exact-mode inputs and with estimation-mode inputs,
       get_result; twice over.  Intersections likewise keep being updated after get_result."""
    S = 9001; ops = []
    ops.append([1, 0, 10, 0, P_ONE, S]); ops.append([8, 0, 1, 500])                  # big, exact mode (500 < 15/8 * 1024)
    for j in range(1, 6):                                                            # five exact-mode sketches of 45 items, disjoint
        ops.append([1, j, 7, 0, P_ONE, S]); ops.append([8, j, 10000 + 45 * j, 45])
    ops.append([1, 6, 5, 0, P_ONE, S]); ops.append([8, 6, 20000, 20])                # small, exact mode
    ops.append([1, 7, 5, 0, P_ONE, S]); ops.append([8, 7, 30000, 200])               # estimation mode (own theta < MAX)
    ops.append([1, 8, 5, 0, P_ONE, S]); ops.append([8, 8, 20010, 25])                # small, overlaps 6
    ops.append([1, 9, 6, 0, fbits(0.5), S]); ops.append([8, 9, 40000, 30])           # p = 0.5, few retained
    u = 100
    for lgk, pb in ((5, P_ONE), (6, P_ONE), (5, fbits(0.5)), (6, fbits(0.5))):
        for round1 in ([0], [1, 2, 3, 4, 5], [7, 0], [1, 2, 7, 3]):
            u += 1; ops.append([10, u, lgk, (u % 4), pb, S])
            for r in round1:
                ops.append([11, u, r, (r + u) % 8])
            ops.append([12, u, 1]); ops.append([12, u, 0])
            ops.append([13, u]); ops.append([12, u, 1])                              # reset: empty again
            ops.append([11, u, 6, u % 8]); ops.append([12, u, 1]); ops.append([12, u, 0])       # 20 exact-mode hashes: all 20 retained
            ops.append([11, u, 8, (u + 3) % 8]); ops.append([12, u, 1])
            ops.append([13, u])
            ops.append([11, u, 7, (u + 1) % 8]); ops.append([12, u, 0])              # estimation-mode input after the second reset
            ops.append([11, u, 9, (u + 2) % 8]); ops.append([11, u, 6, (u + 5) % 8]); ops.append([12, u, 1, 60])
            ops.append([13, u]); ops.append([11, u, 60, (u + 4) % 8]); ops.append([12, u, 1])   # its own earlier result fed back
    x = 200
    for order in ([0, 7, 6], [6, 8, 0], [1, 0, 2], [0, 0, 7, 9], [7, 8, 6, 0], [9, 6, 8]):
        x += 1; ops.append([20, x, S])
        for r in order:
            ops.append([21, x, r, (r + x) % 8]); ops.append([23, x]); ops.append([22, x, r % 2]); ops.append([22, x, 1, 61])
        ops.append([21, x, 61, x % 8]); ops.append([22, x, 0])                       # its own result fed back: unchanged
    return dict(id='ts_reuse', ops=ops, tags=['setops', 'directed', 'reuse'], cost=0)

def directed_value_case():
    """Operator objects as values: a union whose own table has lowered theta / an intersection that has seen an estimation-mode
       input is re-initialised by move-assignment from a fresh object (u = builder.build(); in = theta_intersection()), move-assigned
       from another used object, copy-constructed, copy-assigned, move-constructed; then reused with exact-mode and with
       estimation-mode inputs, original and copy diverging."""
    S = 9001; ops = []
    ops.append([1, 0, 10, 0, P_ONE, S]); ops.append([8, 0, 1, 500])                  # big exact-mode input: rebuilds a lg_k 5/6 union table
    ops.append([1, 1, 5, 0, P_ONE, S]); ops.append([8, 1, 20000, 20])                # small, exact mode
    ops.append([1, 2, 5, 0, P_ONE, S]); ops.append([8, 2, 30000, 200])               # estimation mode
    ops.append([1, 3, 5, 0, P_ONE, S]); ops.append([8, 3, 20010, 25])                # small, overlaps 1
    ops.append([1, 4, 6, 0, fbits(0.5), S]); ops.append([8, 4, 40000, 30])           # p = 0.5
    def res(u): ops.append([12, u, 1]); ops.append([12, u, 0])
    u = 100
    for lgk in (5, 6):
        # re-initialised from a fresh object, after the table lowered its theta
        u += 1; a = u
        ops.append([10, a, lgk, 1, P_ONE, S]); ops.append([11, a, 0, 1]); res(a)
        ops.append([15, a, lgk, 2, P_ONE, S]); res(a)
        ops.append([11, a, 1, 2]); res(a); ops.append([11, a, 2, 3]); res(a)
        ops.append([15, a, lgk + 1, 0, fbits(0.5), S]); ops.append([11, a, 3, 0]); ops.append([11, a, 4, 4]); res(a)
        # move-assigned from another used object
        u += 1; b = u
        ops.append([10, b, lgk, 0, P_ONE, S]); ops.append([11, b, 1, 5])
        ops.append([15, a, lgk, 3, P_ONE, S]); ops.append([11, a, 0, 6]); res(a)     # a: rebuilt table again
        ops.append([14, a, b, 3]); res(a); ops.append([11, a, 3, 7]); res(a)         # a := move(b): only b's content counts
        ops.append([12, b, 1])                                                       # b is gone: refused
        # copy-construct / copy-assign / move-construct, then diverge
        u += 1; c = u
        ops.append([10, b, lgk, 0, P_ONE, S]); ops.append([11, b, 0, 0]); ops.append([11, b, 2, 1]); res(b)
        ops.append([14, c, b, 0]); res(c); ops.append([11, c, 1, 2]); ops.append([11, b, 3, 3]); res(c); res(b)
        ops.append([14, a, b, 1]); res(a); ops.append([11, a, 4, 4]); res(a); res(b)
        u += 1; d = u
        ops.append([14, d, c, 2]); res(d); ops.append([11, d, 3, 5]); res(d); ops.append([12, c, 0])
        ops.append([14, d, d, 1]); res(d)                                            # self copy-assignment
        ops.append([13, d]); ops.append([11, d, 1, 6]); res(d)
    x = 200
    def ires(r): ops.append([23, r]); ops.append([22, r, 1]); ops.append([22, r, 0])
    x += 1; a = x
    ops.append([20, a, S]); ops.append([21, a, 2, 1]); ops.append([21, a, 0, 2]); ires(a)          # estimation-mode input seen
    ops.append([25, a, S]); ires(a); ops.append([21, a, 1, 3]); ops.append([21, a, 3, 4]); ires(a)  # fresh again: exact inputs
    x += 1; b = x
    ops.append([20, b, S]); ops.append([21, b, 3, 5]); ires(b)
    ops.append([21, a, 2, 6]); ires(a)
    ops.append([14, a, b, 3]); ops.append([24, a, b, 3]); ires(a); ops.append([21, a, 1, 7]); ires(a); ops.append([22, b, 1])
    x += 1; c = x
    ops.append([20, b, S]); ops.append([21, b, 0, 0]); ops.append([21, b, 2, 1]); ires(b)
    ops.append([24, c, b, 0]); ires(c); ops.append([21, c, 1, 2]); ops.append([21, b, 3, 3]); ires(c); ires(b)
    ops.append([24, a, b, 1]); ires(a); ops.append([21, a, 4, 4]); ires(a); ires(b)
    x += 1; d = x
    ops.append([24, d, c, 2]); ires(d); ops.append([21, d, 3, 5]); ires(d); ops.append([22, c, 0])
    ops.append([24, d, d, 1]); ires(d); ops.append([25, d, S]); ops.append([21, d, 1, 6]); ops.append([21, d, 3, 0]); ires(d)
    ops.append([24, 101, 201, 0]); ops.append([14, 201, 101, 0]); ops.append([15, 201, 5, 0, P_ONE, S]); ops.append([25, 101, S])   # wrong kinds: refused
    return dict(id='ts_values', ops=ops, tags=['setops', 'directed', 'values'], cost=0)

FAMILIES = [dict(name='thetaset', harness='drv_thetaset.cpp', extract='Extract_thetaset.v', model='model_thetaset', gen=gen, oracle=oracle)]

MANIFEST = dict(
    level_text=('Theorems (coq/Properties_C02.v 34 + coq/Properties_C02_payload.v 1, axiom-free) about the executable model coq/ThetaSetDefs.v of theta_union_base, '
                'theta_intersection_base (both with the repairs fixes/02_union_empty_theta.patch, fixes/02_intersection_empty_order.patch), theta_set_difference_base, jaccard_similarity_base and '
                'bounds_on_ratios_in_theta_sketched_sets over the Theta hash table of C01 — polymorphic in the payload type and the combine policy '
                '(shared with Tuple sketches), for ANY std::nth_element meeting its postcondition, ANY hash values, ALL sequences of well-formed input '
                'sketches (distinct non-zero keys below theta; ordered => sorted; empty => no entries, theta MAX), all nominal sizes lg_k >= 5, resize '
                'factors and starting thetas: UNION after any sequence of inputs (hence every prefix of a reused object) returns theta = min(theta0, '
                'thetas of the non-empty inputs) lowered to the (k+1)-th smallest key of the union below it when more than k survive, exactly the keys '
                'of the union below that theta (the k smallest when trimmed), empty (with theta MAX) iff all inputs were, sorted when asked; same result for any '
                'permutation of the inputs and any presentation (ordered flag, entry order, physical form) of the same samples; reset restores the '
                'initial state; seed mismatch refused. INTERSECTION: the table sized by lg_size_from_count never reaches resize/rebuild (nothing dropped); '
                'theta = min (MAX if some input is empty), keys = the common keys, empty iff some input empty or (no keys and theta MAX), has_result iff '
                'an update was made, permutation-independent. A-NOT-B: theta = min, keys = A\\B below theta with A\'s payloads and order flag, the two '
                'early returns are compact copies of A, std::set_difference path = hash path (equal lists). JACCARD in exact mode: all three values are '
                'the one quotient |A n B|/|A u B| of two naturals (the internal union is never trimmed), exactly_equal iff equal key sets, ratio bounds '
                'in the f == 1 branch all equal count_b/count_a. Sketches reachable through the update-sketch API (C01 histories) and all their compact '
                'forms are well formed and the same sample. The union proof reuses the C01 refinement (each accepted entry is one table update). '
                'PAYLOADS (what C13 inherits): erasing the payloads of the inputs and running the Theta operation gives the same theta, emptiness, keys, order flag '
                'and seed hash as the operation at any payload type with any policy (union, intersection, A-not-B); the order flag of every result as a function '
                'of the request, the entry count and A\'s flag; the intersection summary of a surviving key = the policy folded over the inputs\' summaries of that key '
                'in presentation order seeded by the first input; A-not-B holds A\'s entries verbatim; the union summary = the policy folded over the non-empty '
                'inputs\' summaries (Properties_C02_payload.v: proved once in the Tuple family and transported through the definitional bridge); operations are '
                'functions of the operand value (rvalue = lvalue). '
                'The model is tied to the C++ on every run: inputs are built from update sketches (items hashed by the Murmur model) and presented in 8 '
                'physical forms (update sketch, compact ordered/unordered, wrapped v3 bytes ordered/unordered, wrapped compressed v4 bytes, deserialized '
                'v3/v4), fed in all orders (<= 4 inputs) into unions of lg_k 5..8 vs inputs up to lg_k 10, with get_result between updates, reset, results '
                'fed back as inputs, zero-retained p<1 inputs, empty inputs and a foreign-seed sketch; theta64, is_empty, is_ordered, num_retained and the '
                'sorted entries of every result, has_result, and the Jaccard / ratio doubles (bit patterns, when no libm is involved) are compared exactly '
                'with the model, and the property predicates are evaluated on the implementation outputs against the Coq set-algebra specifications.'),
    level_note=('Trusted: Coq kernel; hand-written model validated only by the correspondence runs; Murmur3.v/Canon.v validated by the same runs; '
                'nth_element by postcondition; byte-level serialization is C09/C10 (here each form is only stated to present the same fields, which the '
                'runs check through queries of every form); theorems are at key level (payload results of the policy are C13); intersection theorems '
                'assume input thetas <= MAX_THETA (a closed counterexample shows it is needed); Jaccard outside exact mode and the approximate binomial '
                'bounds (libm) are only checked for lb <= estimate <= ub; get_result/has_result are pure observations in the model (const in C++). '
                'Requires fixes/02_intersection_empty_order.patch and fixes/02_union_empty_theta.patch in /repo: without them the check reports the two defects '
                '(signatures intersection_sticky_empty, union_empty_theta_below_max).'),
    design_ref='DESIGN.md section 5 C02')
