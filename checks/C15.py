# C15 — Bloom filter: no false negatives in any representation; bitwise set algebra
#
# The model (coq/BloomDefs.v, [step] = wstep true) is the REPAIRED code: fixes/15_bloom_update_marks_memory_dirty.patch,
# 15_bloom_qau_keeps_dirty.patch, 15_bloom_readonly_setops_refused.patch, 15_bloom_deserialize_capacity_64bit.patch.
# Against a tree without these patches this check reports VIOLATION (false_negative / readonly_setop_not_refused /
# restored_capacity_differs / transcript_mismatch) on the regression cases reg_* below.
#
# Mutations confirmed caught (scratch worktree with the four patches applied, VERIF_REPO=/tmp/wt_bloom, VERIF_SEED=1, quick):
#   M1  internal_update does not write DIRTY_BITS_VALUE to wrapped memory (= patch A reverted)     false_negative
#   M2  query_and_update stores cache+inc while is_dirty_ (= patch B reverted)                     false_negative
#   M3  invert() without the read-only check (= part of patch D reverted)            readonly_setop_not_refused, false_negative
#   M4  internal_update loop "i < num_hashes_" (one index bit not set)               false_negative, qau_prior_membership
#   M5  union_with drops update_num_bits_set(bits_set)                               setop_count_inexact
#   M6  is_compatible ignores the seed                                               incompatible_not_refused
#   M7  serialize() writes num_bits_set_ instead of (is_dirty_ ? DIRTY : num_bits_set_)   transcript (image bytes), false negative after restore
#   M8  query_and_update: value_exists |= value                                      qau_prior_membership
#   M9  bit_array_ops::invert counts the bits before flipping                        setop_count_inexact
#   M10 is_empty() ignores is_dirty_                                                 false_negative
#   M11 reset() keeps the cached count                                               transcript (get_bits_used / is_empty)
#   M12 bit_array_ops::intersect uses |=                                             intersect_not_and
#   M13 capacity computed as num_longs << 6 on uint32_t again (= patch E reverted)  restored_capacity_differs
#   M14 union_with without the read-only check (= part of patch D reverted)        readonly_setop_not_refused, transcript
#   (M1, M2, M3, M7, M13, M14 pass bloom_filter_test.)
# Harmless rewrites confirmed NOT reported (exit 0):
#   H1  internal_query tests the index bits in reverse order (i = num_hashes_ .. 1)
#   H2  internal_query_and_update counts the newly set bits in a local and calls update_num_bits_set once after the loop
#   H3  reset() zeroes the bit array before update_num_bits_set(0) (order of independent statements)
#   H4  the private constructor no longer recounts eagerly for a read-only wrap of a dirty image (get_bits_used recounts lazily)
#   H5  union_with counts with bit_array_ops::count_num_bits_set after the OR instead of inside the loop
import struct
import vlib

PROP = "C15"
READY = True
COQ_PROPS = ['Properties_C15', 'Regression_bloom']
RULE = ('operation scripts over several bloom_filter registers and harness-owned memory blocks: filters built by '
        'builder::create_by_size / create_by_accuracy (owned) and initialize_by_size / initialize_by_accuracy (in caller memory), '
        'sizes 1..5000 bits incl. non-multiples of 64, 1..7 (sometimes 0, 12, 100) hashes, seeds incl. 0 and 2^64-1; items of every '
        'overload (u64/u32/u16/u8, i64/i32/i16/i8, double incl. -0.0/NaN/inf, float incl. subnormals, strings and raw blocks of '
        '0..80 bytes) from a small universe; interleavings of update, query, query_and_update, union/intersect/invert/reset '
        '(compatible, incompatible, aliased and self operands, read-only targets), get_bits_used, serialize (bytes/stream) into '
        'a block, deserialize, read-only and writable wraps of blocks (fresh and stale, empty and non-empty images, blocks '
        'that are too small), copies/moves, and re-wraps of memory that was written through an earlier view; every case ends '
        'with queries of all tracked items on all registers, counts, bit dumps and the bytes of every memory block; plus fixed regression histories (the four repaired defects incl. an empty filter of 2^32 bits, the aliased-writers known finding); non-trivial = the case contains at least '
        'one insertion and one query, or a set operation, or a wrap/deserialize')
TRUSTED = ['XXH64 model coq/XXHash64.v (checked against published vectors and values computed by /repo inside Coq, and '
           'against the implementation through every update/query of this check); the theorems hold for ANY hash function',
           'builder::suggest_num_filter_bits / suggest_num_hashes go through libm; their results are read from the '
           'implementation (E line) and passed to the model',
           'the ghost bookkeeping of the protocol-level model (which items must be reported by which register / block after '
           'copies, serialize, wraps, unions: BloomDefs.wstep fields e_must/b_must/epochs) feeds the oracle and is not itself '
           'proved correct in general; the theorems are about one filter object and its views (BloomProofs.frun / view_of), '
           'the byte-level serialize / deserialize / wrap functions, and the protocol step wstep for one writer per block '
           '(C15_protocol_*)']
ASSUMPTIONS = ['the false-positive-rate clause ("stays near the target") is statistical and NOT claimed',
               'images placed in memory blocks are whole images produced by the library (hand-corrupted or truncated images '
               'belong to the deserialization-robustness property, not to C15)',
               'num_hashes < 65535 (the uint16_t loop counter of internal_update never terminates for 65535)',
               'claims about a view of shared memory cover the items present when the view was created and those inserted '
               'through that view; what another, older view reports about items inserted behind its back is not claimed '
               '(two live writable views written alternately: known finding aliased_view_stale_count_written)',
               'filters of 2^32 bits and more are exercised only EMPTY in the correspondence runs (512 MiB per filter); the '
               'theorems cover every capacity the constructors accept (< 2^35)']

# hazard codes of the model's ghost state (repaired code): the count information of the lineage became inconsistent through
# a query_and_update by a view whose cached count was stale (two live writable views of one block written alternately: each
# view caches num_bits_set_ and writes it through) -- a known finding whose repair needs a design decision
HAZ = {1: 'aliased_view_stale_count_written', 2: 'aliased_view_stale_count_written', 3: 'aliased_view_stale_count_written'}

# ---------------------------------------------------------------------------------------------------------------------
# generator
# ---------------------------------------------------------------------------------------------------------------------

def dbits(x):
    return struct.unpack('<Q', struct.pack('<d', x))[0]

def fbits(x):
    return struct.unpack('<I', struct.pack('<f', x))[0]

DOUBLES = [0x0, 0x8000000000000000, 0x7ff8000000000000, 0x7ff0000000000001, 0xfff8000000000000, 0xffffffffffffffff,
           0x7ff0000000000000, 0xfff0000000000000, dbits(1.0), dbits(-1.0), dbits(0.5), 0x1, 0x000fffffffffffff]
FLOATS = [0x0, 0x80000000, 0x7fc00000, 0x7f800001, 0xffc00001, 0x7f800000, 0xff800000, fbits(1.0), fbits(-2.5), 0x1,
          0x007fffff, 0x00400000, 0x00000100, 0x00800000, 0x7f7fffff, fbits(0.1)]

def item(rng):
    k = rng.random()
    if k < 0.22:
        kind = rng.choice([0, 1, 2, 3])
        return [kind, rng.choice([0, 1, 2, 5, 255, 256, 65535, 65536, 2**32 - 1, 2**32, 2**63, 2**64 - 1, rng.randrange(50)])]
    if k < 0.42:
        kind = rng.choice([4, 5, 6, 7])
        return [kind, rng.choice([0, -1, 1, 5, -128, 127, 128, -32768, 32768, -2**31, 2**31, -2**63, 2**63 - 1,
                                  rng.randrange(-30, 30)])]
    if k < 0.55:
        return [8, rng.choice(DOUBLES + [dbits(float(rng.randrange(-5, 5))), rng.getrandbits(64)])]
    if k < 0.65:
        return [9, rng.choice(FLOATS + [fbits(float(rng.randrange(-5, 5))), rng.getrandbits(32)])]
    n = rng.choice([0, 1, 2, 3, 4, 5, 7, 8, 9, 12, 15, 16, 17, 31, 32, 33, 39, 40, 63, 64, 65, 80, rng.randrange(1, 70)])
    base = rng.randrange(5)
    return [rng.choice([10, 11])] + [(base * 37 + i * 11 + (i * i) % 7) % 256 for i in range(n)]

SIZES = [1, 7, 63, 64, 65, 100, 127, 128, 129, 200, 500, 1000, 1023, 1024]

def cfg(rng):
    nbits = rng.choice(SIZES + [rng.randrange(1, 300)])
    if rng.random() < 0.04:
        nbits = rng.choice([3000, 5000])
    nh = rng.choice([1, 2, 3, 4, 5, 6, 7])
    if rng.random() < 0.05:
        nh = rng.choice([12, 100])
    seed = rng.choice([0, 1, 9001, 2**64 - 1, rng.getrandbits(64)])
    return nbits, nh, seed

def need(nbits):
    return 8 * (4 + (nbits + 63) // 64)

class G:
    """Book-keeping of which registers exist (only to aim the generator; the model is the authority)."""
    def __init__(self, rng):
        self.rng = rng; self.ops = []; self.f = {}; self.b = {}; self.nf = 0; self.nb = 0; self.tags = set()
        self.cfg = cfg(rng)
        self.universe = [item(rng) for _ in range(rng.choice([2, 4, 8, 14]))]
        self.ins = 0; self.q = 0
    def newf(self):
        self.nf += 1; return self.nf
    def newb(self):
        self.nb += 1; return 100 + self.nb
    def anyf(self):
        return self.rng.choice(sorted(self.f)) if self.f else 1
    def anyb(self):
        return self.rng.choice(sorted(self.b)) if self.b else 101
    def it(self):
        return self.rng.choice(self.universe) if self.rng.random() < 0.9 else item(self.rng)
    def mkcfg(self):
        rng = self.rng
        nbits, nh, seed = self.cfg
        k = rng.random()
        if k < 0.08:
            nh = rng.choice([nh + 1, 1])
        elif k < 0.14:
            seed = seed ^ 1
        elif k < 0.22:
            nbits = rng.choice([nbits + 64, nbits + 1, max(1, nbits - 1), nbits + 63])
        elif k < 0.25:
            nbits, nh = rng.choice([(0, nh), (nbits, 0), (2**34, nh), ((2147483647 - 32) * 8 + 1, nh)])
        return nbits, nh, seed
    def create_owned(self):
        rng = self.rng
        r = self.newf() if (not self.f or rng.random() < 0.8) else self.anyf()
        nbits, nh, seed = self.mkcfg()
        if rng.random() < 0.06:
            n = rng.choice([0, 1, 10, 100, 1000]); p = rng.choice([0.5, 0.1, 0.01, 1e-4, 1.0, 0.0, -0.5, 2.0, 0.999])
            self.ops.append([21, r, n, dbits(p), seed]); self.tags.add('by_accuracy')
        else:
            self.ops.append([1, r, nbits, nh, seed])
        self.f[r] = 1
        return r
    def create_buf(self, nbits=None):
        rng = self.rng
        b = self.newb()
        nbits = self.cfg[0] if nbits is None else nbits
        k = rng.random()
        if k < 0.08:
            ln = rng.choice([0, 7, 8, 16, 24, 31, 32, need(nbits) - 1, need(nbits) - 8])
        elif k < 0.5:
            ln = need(nbits)
        else:
            ln = need(nbits) + rng.choice([0, 1, 8, 64, 100])
        self.ops.append([2, b, max(0, ln)]); self.b[b] = 1
        return b
    def create_mem(self):
        rng = self.rng
        nbits, nh, seed = self.mkcfg()
        b = self.anyb() if (self.b and rng.random() < 0.4) else self.create_buf(nbits if nbits < 10**5 else 64)
        r = self.newf() if (not self.f or rng.random() < 0.8) else self.anyf()
        if rng.random() < 0.05:
            self.ops.append([22, r, b, rng.choice([1, 5, 20]), dbits(rng.choice([0.5, 0.1, 0.01, 1.0, 0.0])), seed])
            self.tags.add('by_accuracy')
        else:
            self.ops.append([3, r, b, nbits, nh, seed])
        self.f[r] = 1; self.tags.add('caller_memory')
        return r
    def update(self, r=None):
        self.ops.append([4, self.anyf() if r is None else r] + self.it()); self.ins += 1
    def qau(self, r=None):
        self.ops.append([6, self.anyf() if r is None else r] + self.it()); self.ins += 1; self.tags.add('qau')
    def query(self, r=None):
        self.ops.append([5, self.anyf() if r is None else r] + self.it()); self.q += 1
    def setop(self, a=None, b=None):
        rng = self.rng
        a = self.anyf() if a is None else a
        kind = rng.choice([7, 7, 7, 8, 8, 9])
        b = self.anyf() if b is None else b
        small = self.cfg[0] <= 1100
        if kind == 9:
            if not small:
                kind = 7
        if kind == 9:
            self.ops += [[12, a], [13, a], [9, a], [13, a], [11, a]]
        else:
            self.ops += [[13, a], [13, b], [kind, a, b], [13, a], [11, a]]
        self.tags.add({7: 'union', 8: 'intersect', 9: 'invert'}[kind])
    def ser(self, r=None):
        rng = self.rng
        r = self.anyf() if r is None else r
        b = self.anyb() if (self.b and rng.random() < 0.5) else self.create_buf()
        self.ops.append([14, r, b, rng.choice([0, 1])]); self.tags.add('serialize')
        if self.cfg[0] <= 1100 and rng.random() < 0.7:
            self.ops.append([20, b]); self.tags.add('image_bytes')
        return b
    def deser(self, b=None):
        b = self.anyb() if b is None else b
        r = self.newf() if self.rng.random() < 0.85 or not self.f else self.anyf()
        self.ops.append([15, r, b, self.rng.choice([0, 1])]); self.f[r] = 1; self.tags.add('deserialize')
        return r
    def wrap(self, b=None, writable=None):
        b = self.anyb() if b is None else b
        r = self.newf() if self.rng.random() < 0.85 or not self.f else self.anyf()
        w = self.rng.random() < 0.5 if writable is None else writable
        self.ops.append([17 if w else 16, r, b]); self.f[r] = 1; self.tags.add('writable_wrap' if w else 'wrap')
        return r
    def copy(self, r=None):
        rng = self.rng
        r = self.anyf() if r is None else r
        v = rng.choice([0, 0, 1, 2, 3])
        r2 = self.newf() if rng.random() < 0.7 else self.anyf()
        self.ops.append([18, r2, r, v]); self.f[r2] = 1; self.tags.add('copy')
        if v >= 2 and r2 != r:
            self.f.pop(r, None)
        return r2
    def misc(self):
        rng = self.rng
        k = rng.random(); r = self.anyf()
        if k < 0.3: self.ops.append([11, r])
        elif k < 0.6: self.ops.append([12, r])
        elif k < 0.8: self.ops.append([13, r])
        elif k < 0.9: self.ops.append([10, r]); self.tags.add('reset')
        elif k < 0.95 and len(self.f) > 2: self.ops.append([19, r]); self.f.pop(r, None)
        else: self.ops.append([12, 77])          # absent register
    def finale(self):
        if self.cfg[0] <= 1100:
            for b in sorted(self.b):
                self.ops.append([20, b]); self.tags.add('image_bytes')
        for r in sorted(self.f):
            for it in self.universe[:8]:
                self.ops.append([5, r] + it); self.q += 1
            self.ops.append([12, r])
            if self.cfg[0] <= 1100:
                self.ops.append([13, r])
            self.ops.append([11, r])
            for it in self.universe[:3]:
                self.ops.append([5, r] + it)

def scenario_soup(g, n):
    rng = g.rng
    g.create_owned()
    if rng.random() < 0.7:
        g.create_mem()
    for _ in range(n):
        k = rng.random()
        if k < 0.30: g.update()
        elif k < 0.42: g.qau()
        elif k < 0.60: g.query()
        elif k < 0.66: g.setop()
        elif k < 0.70: g.create_owned()
        elif k < 0.74: g.create_mem()
        elif k < 0.79: g.ser()
        elif k < 0.83: g.deser()
        elif k < 0.90: g.wrap()
        elif k < 0.95: g.copy()
        else: g.misc()

def scenario_owned(g, n):
    rng = g.rng
    a = g.create_owned()
    for _ in range(n):
        k = rng.random()
        if k < 0.5: g.update(a)
        elif k < 0.65 and 'noqau' not in g.tags: g.qau(a)
        elif k < 0.9: g.query(a)
        else: g.ops.append([11, a])
    c = g.copy(a)
    b = g.ser(a)
    g.deser(b); g.wrap(b, False)
    if rng.random() < 0.5:
        g.wrap(b, True)
    for _ in range(n // 2):
        k = rng.random()
        if k < 0.4: g.update()
        elif k < 0.5: g.qau()
        elif k < 0.9: g.query()
        else: g.setop()

def scenario_memory(g, n):
    """The history the property text singles out: write through a view of caller memory, then re-wrap the same memory."""
    rng = g.rng
    nbits, nh, seed = g.cfg
    b = g.newb(); g.ops.append([2, b, need(nbits) + rng.choice([0, 8, 40])]); g.b[b] = 1
    a = g.newf(); g.ops.append([3, a, b, nbits, nh, seed]); g.f[a] = 1; g.tags.add('caller_memory')
    mode = rng.choice(['update', 'qau', 'mixed', 'qau_then_update'])
    for i in range(n):
        k = rng.random()
        if k < 0.6:
            if mode == 'update' or (mode == 'mixed' and rng.random() < 0.5) or (mode == 'qau_then_update' and i > n // 2):
                g.update(a)
            else:
                g.qau(a)
        elif k < 0.8: g.query(a)
        elif k < 0.85: g.ops.append([11, a])
        elif k < 0.9: g.setop(a, g.create_owned())
        else: g.query(a)
    views = [g.wrap(b, False), g.wrap(b, True), g.deser(b)]
    for v in views:
        for it in g.universe[:6]:
            g.ops.append([5, v] + it); g.q += 1
    for _ in range(n // 2):
        k = rng.random()
        v = rng.choice(views + [a])
        if k < 0.3: g.update(v)
        elif k < 0.45: g.qau(v)
        elif k < 0.8: g.query(v)
        elif k < 0.9: g.setop(v, rng.choice(views + [a]))
        else: g.wrap(b)

def scenario_algebra(g, n):
    rng = g.rng
    regs = [g.create_owned(), g.create_owned()]
    if rng.random() < 0.6:
        regs.append(g.create_mem())
    for _ in range(n):
        k = rng.random()
        if k < 0.45: g.update(rng.choice(regs))
        elif k < 0.6: g.qau(rng.choice(regs))
        elif k < 0.7: g.query(rng.choice(regs))
        else: g.setop(rng.choice(regs), rng.choice(regs))
    # read-only target of a set operation
    b = g.ser(regs[0]); w = g.wrap(b, False)
    g.setop(w, regs[1]); g.ops.append([4, w] + g.it()); g.ops.append([10, w]); g.ops.append([6, w] + g.it())
    g.wrap(b)

def regression_cases():
    """Minimal histories of the three known defects and of the corresponding healthy histories."""
    u = lambda v: [0, v]
    cs = []
    # F7: filter in caller memory, update, fresh wraps / deserialize of the same memory
    cs.append(dict(id='reg_wrap_after_update', tags=['regression', 'caller_memory', 'wrap'], ops=[
        [2, 101, 48], [3, 1, 101, 100, 3, 123], [4, 1] + u(5), [5, 1] + u(5),
        [16, 2, 101], [5, 2] + u(5), [17, 3, 101], [5, 3] + u(5), [15, 4, 101, 0], [5, 4] + u(5), [12, 2]]))
    # healthy twin: query_and_update writes the count through
    cs.append(dict(id='reg_wrap_after_qau', tags=['regression', 'caller_memory', 'wrap'], ops=[
        [2, 101, 48], [3, 1, 101, 100, 3, 123], [6, 1] + u(5), [5, 1] + u(5),
        [16, 2, 101], [5, 2] + u(5), [17, 3, 101], [5, 3] + u(5), [15, 4, 101, 0], [5, 4] + u(5), [11, 3]]))
    # query_and_update on a dirty filter
    cs.append(dict(id='reg_qau_on_dirty', tags=['regression', 'qau'], ops=[
        [1, 1, 100, 3, 123], [4, 1] + u(5), [6, 1] + u(5), [5, 1] + u(5), [12, 1], [11, 1], [13, 1]]))
    cs.append(dict(id='reg_qau_after_dirty_deserialize', tags=['regression', 'qau', 'deserialize'], ops=[
        [1, 1, 64, 1, 123], [4, 1] + u(5), [2, 101, 64], [14, 1, 101, 0], [15, 2, 101, 0], [6, 2] + u(6),
        [5, 2] + u(5), [5, 2] + u(6), [12, 2]]))
    # set operations through a read-only wrap
    cs.append(dict(id='reg_readonly_setops', tags=['regression', 'wrap', 'union'], ops=[
        [1, 1, 100, 3, 123], [6, 1] + u(5), [2, 101, 48], [14, 1, 101, 0], [16, 2, 101],
        [1, 3, 100, 3, 123], [6, 3] + u(77), [13, 2], [13, 3], [7, 2, 3], [13, 2], [11, 2], [12, 2], [13, 2], [9, 2], [13, 2], [11, 2],
        [13, 2], [13, 3], [8, 2, 3], [13, 2], [11, 2], [10, 2], [4, 2] + u(1), [6, 2] + u(1)]))
    # a filter of 2^32 bits (512 MiB, the largest single allocation the sanitizer settings of the harness allow; the
    # constructor accepts up to 2^34), EMPTY: serialize (24 bytes), deserialize / wrap: the capacity must survive (before
    # fixes/15_bloom_deserialize_capacity_64bit.patch num_longs << 6 was computed on uint32_t: 0 for this filter, so
    # deserialize threw; 2^32 + 64 bits came back as 64 bits and lost every item: coq/Regression_bloom.v)
    big = 2**32
    cs.append(dict(id='reg_capacity_above_2_32', tags=['regression', 'serialize', 'deserialize', 'wrap'], ops=[
        [1, 1, big, 3, 123], [12, 1], [2, 101, 64], [14, 1, 101, 0], [20, 101], [15, 2, 101, 0], [12, 2], [19, 2],
        [15, 2, 101, 1], [12, 2], [19, 2], [16, 2, 101], [12, 2], [5, 2] + u(5)]))
    # two live writable views of one block written alternately (known finding aliased_view_stale_count_written)
    cs.append(dict(id='reg_aliased_writers', tags=['regression', 'caller_memory', 'writable_wrap', 'qau'], ops=[
        [2, 101, 48], [3, 1, 101, 100, 3, 123], [17, 2, 101], [6, 1] + u(5), [6, 2] + u(5), [5, 2] + u(5),
        [16, 3, 101], [5, 3] + u(5), [12, 3], [11, 1], [5, 1] + u(5)]))
    return cs

def gen(rng, tier):
    n = 150 if tier == 'quick' else 3000
    cases = regression_cases()
    for ci in range(n):
        g = G(rng)
        size = rng.choice([4, 10, 25, 60]) if tier == 'quick' else rng.choice([4, 10, 25, 60, 150])
        k = ci % 8
        if k in (0, 1): scenario_soup(g, size * 2)
        elif k in (2, 3): scenario_memory(g, size)
        elif k == 4: scenario_owned(g, size)
        elif k == 5:
            g.tags.add('noqau'); scenario_owned(g, size); g.tags.discard('noqau')
        elif k == 6: scenario_algebra(g, size)
        else: scenario_soup(g, size)
        g.finale()
        tags = set(g.tags)
        if g.ins and g.q: tags.add('insert+query')
        if g.cfg[0] % 64: tags.add('size_not_multiple_of_64')
        cases.append(dict(id='bf%d' % ci, ops=g.ops, tags=sorted(tags)))
    return cases

# ---------------------------------------------------------------------------------------------------------------------
# oracle: the property predicates, evaluated on the implementation's outputs (R) against the specification's facts (S)
# ---------------------------------------------------------------------------------------------------------------------

def oracle(case, irecs, mrecs):
    fails = []
    ops = case['ops']
    n = min(len(ops), len(irecs), len(mrecs))
    def fail(sig, what, i):
        fails.append(dict(sig=sig, what=what, op_index=i))
    def R(i):
        return irecs[i]['R'] if 0 <= i < n else None
    info_cap = {}      # register -> capacity reported by its latest info (12)
    img_cap = {}       # block -> capacity of the filter whose image was serialized into it last
    want_cap = {}      # register restored from a block -> capacity it must report
    for i in range(n):
        op = ops[i]; code = op[0]
        r = irecs[i]['R']; S = mrecs[i].get('S') or []
        mr = mrecs[i]['R']
        # the serialized-and-restored filter is a view of the same state: same capacity (hence the same index function)
        if code in (1, 3, 15, 16, 17, 18, 19, 21, 22):
            info_cap.pop(op[1], None); want_cap.pop(op[1], None)
        if code in (3, 22) and r != [-1]:
            img_cap.pop(op[2], None)
        if code == 12 and r != [-1] and len(r) >= 1:
            info_cap[op[1]] = r[0]
            if op[1] in want_cap and r[0] != want_cap[op[1]]:
                fail('restored_capacity_differs', 'deserialize/wrap of a serialized image built a filter of capacity %d, the '
                     'serialized filter had capacity %d' % (r[0], want_cap[op[1]]), i)
        if code == 14:
            img_cap.pop(op[2], None)
            if r != [-1] and op[1] in info_cap:
                img_cap[op[2]] = info_cap[op[1]]
        if code in (15, 16, 17) and op[2] in img_cap:
            if r != [-1]:
                want_cap[op[1]] = img_cap[op[2]]
            elif mr != [-1]:
                fail('restored_capacity_differs', 'deserialize/wrap of the serialized image of a filter of capacity %d was '
                     'refused' % img_cap[op[2]], i)
        if code == 5 and S and r != [-1]:
            must, haz, _allset = S
            if must and r == [0]:
                # a false negative. If the faithful model of the code does not predict it, or the lineage of the state was
                # never touched by a known defect, it is new.
                sig = HAZ.get(haz) if (mr == [0] and haz in HAZ) else 'false_negative'
                fail(sig, 'query answers "absent" for an item that was inserted (register %d, op %d, hazard %d)' % (op[1], i, haz), i)
        elif code == 6 and S:
            ro, prior, must, haz = S
            if ro and r != [-1]:
                fail('readonly_write_not_refused', 'query_and_update through a read-only view was not refused', i)
            if r != [-1] and not ro:
                if r != [prior]:
                    fail('qau_prior_membership', 'query_and_update returned %s but prior membership (all index bits set) was %d' % (r, prior), i)
                if must and r == [0]:
                    sig = HAZ.get(haz) if (mr == [0] and haz in HAZ) else 'false_negative'
                    fail(sig, 'query_and_update answers "absent" for an item that was inserted (register %d, hazard %d)' % (op[1], haz), i)
        elif code == 4 and S:
            if S[0] and r != [-1]:
                fail('readonly_write_not_refused', 'update through a read-only view was not refused', i)
        elif code in (7, 8, 9, 10) and S:
            ro, incompat = S
            if incompat and r != [-1]:
                fail('incompatible_not_refused', 'set operation on incompatible filters was not refused', i)
            elif ro and r != [-1]:
                if code == 10:
                    fail('readonly_write_not_refused', 'reset through a read-only view was not refused', i)
                else:
                    fail('readonly_setop_not_refused',
                         '%s through a read-only view (wrap) is not refused and writes into the wrapped memory' %
                         {7: 'union_with', 8: 'intersect', 9: 'invert'}[code], i)
        # bitwise set algebra, from the implementation's own dumps around the operation
        if code in (7, 8) and r == [1] and i >= 2 and i + 2 < n:
            a, b = op[1], op[2]
            if ops[i - 2] == [13, a] and ops[i - 1] == [13, b] and ops[i + 1] == [13, a] and ops[i + 2] == [11, a] \
               and R(i - 2) != [-1] and R(i - 1) != [-1]:
                A = set(R(i - 2)); B = set(R(i - 1)); C = R(i + 1)
                want = sorted(A | B) if code == 7 else sorted(A & B)
                if C != want:
                    fail('union_not_or' if code == 7 else 'intersect_not_and',
                         'bit array after the operation is not the bitwise %s of the operands' % ('OR' if code == 7 else 'AND'), i)
                if R(i + 2) != [len(C)]:
                    fail('setop_count_inexact', 'get_bits_used %s after a set operation, %d bits are set' % (R(i + 2), len(C)), i)
        if code == 9 and r == [1] and i >= 2 and i + 2 < n:
            a = op[1]
            if ops[i - 2] == [12, a] and ops[i - 1] == [13, a] and ops[i + 1] == [13, a] and ops[i + 2] == [11, a] \
               and R(i - 2) != [-1] and R(i - 1) != [-1]:
                cap = R(i - 2)[0]
                A = set(R(i - 1)); C = R(i + 1)
                if C != sorted(set(range(cap)) - A):
                    fail('invert_not_not', 'bit array after invert is not the complement within the capacity %d' % cap, i)
                if R(i + 2) != [len(C)]:
                    fail('setop_count_inexact', 'get_bits_used %s after invert, %d bits are set' % (R(i + 2), len(C)), i)
    if fails:
        d = vlib.compare_case(case, irecs, mrecs)
        if d is not None:
            fail('transcript_mismatch', 'implementation and model transcripts differ at op %d: impl %s model %s' %
                 (d['op_index'], d['impl'], d['model']), d['op_index'])
    return fails

FAMILIES = [dict(name='bloom', harness='drv_bloom.cpp', extract='Extract_bloom.v', model='model_bloom', gen=gen, oracle=oracle)]

MANIFEST = dict(
    level_text=('Theorems (coq/Properties_C15.v, 30, axiom-free) about the executable model of bloom_filter_impl.hpp + bit_array_ops.hpp, for ANY hash '
                'function. (1) One filter object under ANY operation history (update, query_and_update, union with any bit array, intersect, '
                'invert, reset, get_bits_used; owned or in caller memory with the count stored at byte 24 modelled): an inserted item with no '
                'intersect/invert/reset after it is reported by the filter, its copy, deserialize(serialize), read-only and writable wraps of the '
                'serialized bytes, read-only and writable wraps / deserialize of the caller memory at that time, and by any compatible filter after '
                'union_with and any further monotone history; the count stored in caller memory is always the dirty marker or exact; get_bits_used '
                '= popcount; query_and_update = prior membership; union/intersect/invert = OR/AND/NOT-within-capacity with count = popcount written '
                'through. (2) Byte level: deserialize/wrap of serialize restores configuration, count/dirty marker and every bit (empty and '
                'non-empty images, every capacity the constructors accept, trailing bytes allowed). (3) The same no-false-negative statement about '
                'the PROTOCOL STEP that is extracted and run against the code (wstep), for any world: a filter built by initialize_by_size in any '
                'large-enough block, any history through it, then the filter itself, a FRESH wrap / writable_wrap of the block into any register and '
                'deserialize of the block all answer 1; an owned filter built by create_by_size, any history, then the filter, every copy/move, '
                'serialize into any block followed by deserialize (bytes/stream) or wrap/writable_wrap, and union_with into any compatible owned '
                'filter all answer 1; the step refines the object-level model. (4) Refusals: incompatible operands, every write through a '
                'read-only view, constructor limits, writable wrap of an empty image; capacity rounding; indices below capacity. The model is '
                'the REPAIRED code (fixes/15_*.patch, four defects); each defect of the code before the repairs is a theorem in '
                'coq/Regression_bloom.v (*_refuted, 12 theorems). Tie to the code on every run: model (extracted) and bloom_filter (ASan/UBSan) execute '
                'the same generated scripts; query results, counts, bit dumps, info, refusals, serialized sizes and the BYTES of every memory block '
                '(serialized images, wrapped memory) are compared exactly, and the property predicates are evaluated on the implementation outputs.'),
    level_note=('Trusted: Coq kernel; hand-written model validated only by the correspondence runs; XXH64 model (theorems are for any hash). NOT proved: '
                'the ghost bookkeeping of the multi-register protocol model in general (several live views of one block written alternately, stale '
                'views, set operations between views) — the protocol-level theorems cover one writer per block and owned filters; interleaved '
                'query_and_update through two live writable views of one block violates the property in the real code (known finding '
                'aliased_view_stale_count_written, needs a design decision). FPR clause statistical, not claimed. Filters of 2^32 bits run only '
                'empty in the correspondence (sanitizer allocation cap); larger ones only in the theorems.'),
    design_ref='DESIGN.md section 5 C15')
