# C01 — Theta update sketch is an exact hash-threshold sample of the distinct inputs
#
# Mutations confirmed caught (scratch worktree, VERIF_REPO): see the list at the end of this comment block
# (filled in after the mutation runs).
import struct

PROP = "C01"
READY = True
COQ_PROPS = ['Properties_C01']
RULE = ('operation scripts over update_theta_sketch registers built through the builder (lg_k 5,6,7 and sometimes 12 quick; 5..13 thorough; '
        'resize factor X1..X8; p in {1, 0.5, 0.01f, 2^-20, random float, tiny, NaN}; seeds 9001, 1, 0, 2^64-1, random; refused builder '
        'arguments), streams of up to 40*k updates (k = 2^lg_k) drawn from a universe sized to give many duplicates, every update overload '
        '(u/int 8/16/32/64 with sign-extension edge values, double and float bit patterns incl. -0.0, NaN payloads, subnormals, infinities, '
        'std::string of 0..40 bytes covering every Murmur tail length, raw buffers incl. length 0), interleaved trim / reset / '
        'compact(ordered and not) / compact of a compact / copy-then-diverge, stream lengths aimed at the resize thresholds, the rebuild '
        'threshold 15k/8 +-2 and k-1,k,k+1 before trim; after every operation theta64, is_empty, is_estimation_mode, num_retained are compared '
        'with the model and checked by the oracle, on query operations also the sorted retained hashes; '
        'non-trivial = the case reaches estimation mode, or trims/resets/compacts a non-empty sketch, or uses p < 1, or feeds the edge-value battery')
TRUSTED = ['MurmurHash3 model coq/Murmur3.v and the input canonicalisation coq/Canon.v (both exercised against the implementation by every update of this check: '
           'the model hashes the canonicalised bytes itself)',
           'std::nth_element is modelled by its postcondition (coq/KSmallest.v nth_post); the theorems hold for every function meeting it; '
           'the executable instance sorts',
           'IEEE-754: float->double widening and 2^63*p are exact (modelled on bit patterns in coq/Canon.v)']
ASSUMPTIONS = ['num_entries_ (uint32) does not overflow: impossible for lg_k <= 26',
               'estimates and confidence bounds as floating-point values are C06; here only estimate == num_retained outside estimation mode',
               'memory/value-semantics side of copy is C19; to_string is not covered']

MAX_THETA = (1 << 63) - 1

def fbits(x):
    return struct.unpack('<I', struct.pack('<f', x))[0]

def dbits(x):
    return struct.unpack('<Q', struct.pack('<d', x))[0]

P_ONE = 0x3f800000
EDGE_INTS = [0, -1, 1, 2**31, 2**31 - 1, 2**32 - 1, 2**32, -2**31, 2**63 - 1, -2**63, 2**64 - 1, 127, 128, 255, 256, 32767, 32768, 65535, 65536, -128, -129, -32768]
EDGE_DOUBLES = [0x0, 0x8000000000000000, 0x7ff8000000000000, 0xfff8000000000000, 0x7ff0000000000001, 0x7ff4000000000000,
                0xffffffffffffffff, 0x7ff0000000000000, 0xfff0000000000000, 0x1, 0x8000000000000001, 0x000fffffffffffff,
                0x0010000000000000, 0x3ff0000000000000, 0xbff0000000000000, 0x7fefffffffffffff, 0x4014000000000000]
EDGE_FLOATS = [0x0, 0x80000000, 0x7fc00000, 0xffc00000, 0x7f800001, 0x7fa00000, 0xffffffff, 0x7f800000, 0xff800000,
               0x1, 0x80000001, 0x007fffff, 0x00800000, 0x3f800000, 0xbf800000, 0x7f7fffff, 0x40a00000, 0x00000100, 0x00400000]

def edge_battery(rng):
    """Every overload on the edge values; strings/raw buffers of every length 0..40."""
    ups = []
    for v in EDGE_INTS:
        for kind in range(8):
            ups.append([kind, v])
    for b in EDGE_DOUBLES:
        ups.append([8, b])
    for b in EDGE_FLOATS:
        ups.append([9, b])
    for n in range(0, 41):
        base = rng.randrange(256)
        ups.append([10] + [(base + 7 * i) % 256 for i in range(n)])
        ups.append([11] + [(base + 7 * i) % 256 for i in range(n)])
    rng.shuffle(ups)
    return ups

def value_op(rng, x):
    """One update presenting the abstract item x (an integer) through a randomly chosen overload.
       The same x may or may not canonicalise to the same bytes under different overloads: both happen."""
    k = rng.random()
    if k < 0.45:
        kinds = [0, 1]
        if x < 2**31: kinds += [2, 3]
        if x < 2**15: kinds += [4, 5]
        if x < 2**7: kinds += [6, 7]
        return [rng.choice(kinds), x]
    if k < 0.55:
        return [rng.choice([1, 3]), -x]
    if k < 0.70:
        return [8, dbits(float(x))] if rng.random() < 0.7 else [8, dbits(-float(x))]
    if k < 0.78:
        return [9, fbits(float(x % (1 << 24)))]
    s = ('%d' % x).encode() * rng.choice([1, 1, 1, 2, 5])
    s = s[:40]
    if k < 0.92:
        return [10] + list(s)
    return [11] + list(s)

def gen(rng, tier):
    quick = (tier == 'quick')
    ncases = 130 if quick else 700
    cases = []
    for ci in range(ncases):
        tags = set(); ops = []
        if quick:
            lgk = rng.choice([5, 5, 5, 6, 6, 7]) if ci % 30 else 12
        else:
            # large tables are slow in the list-based model runner: lg_k 12..13 once in 40 cases (the theorems cover every lg_k)
            lgk = rng.choice([5, 5, 6, 6, 7, 7, 8, 8, 9, 10, 11]) if ci % 40 else rng.choice([12, 13])
        k = 1 << lgk
        rf = rng.randrange(4)
        pk = rng.random()
        if pk < 0.5: pb = P_ONE
        elif pk < 0.65: pb = fbits(0.5)
        elif pk < 0.75: pb = fbits(0.01)
        elif pk < 0.80: pb = fbits(2.0 ** -20)
        elif pk < 0.90: pb = fbits(rng.random())
        elif pk < 0.93: pb = rng.choice([1, 0x00800000, fbits(2.0 ** -62), fbits(2.0 ** -64), 0x3f7fffff])
        elif pk < 0.96: pb = rng.choice([0x7fc00000, 0xffc00000, 0x7f800001])      # NaN passes set_p
        else: pb = P_ONE
        seed = rng.choice([9001, 9001, 1, 0, 2**64 - 1, rng.getrandbits(64)])
        if pb != P_ONE: tags.add('p<1')
        ops.append([1, 0, lgk, rf, pb, seed])
        if ci % 25 == 3:
            # refused / odd builder arguments, then a valid one again
            ops.append([1, 1, rng.choice([4, 27, 0, 40]), rf, pb, seed])
            ops.append([1, 1, lgk, rf, rng.choice([0, 0x80000000, 0xbf800000, 0x3f800001, 0x7f800000, 0x40000000]), seed])
            ops.append([7, 1]); ops.append([2, 1, 0, 5]); ops.append([3, 9]); ops.append([5, 8, 9, 1])
        # stream length aimed at the thresholds
        cap = 15 * k // 8
        maxlen = 40 * k if lgk <= 7 else 3 * k
        target = rng.choice([0, 1, 2, 15, 16, 17, 33, k // 2, k - 1, k, k + 1, cap - 1, cap, cap + 1, cap + 2, 2 * k, 3 * k,
                             min(maxlen, 6 * k), min(maxlen, 10 * k), maxlen])
        if quick and lgk == 12:
            target = rng.choice([k + 1, cap + 1, cap + 2, 2 * k + k // 2])
        # universe size: controls the duplicate rate
        dup = rng.choice([1, 1, 2, 4]) if lgk <= 9 else 1
        nstream = target * dup if target * dup <= maxlen else target
        usize = max(1, target)
        base = rng.choice([0, 0, 1, 100, 2**31 - 50, rng.getrandbits(40)])
        if ci % 6 == 1:
            for u in edge_battery(rng):
                ops.append([2, 0] + u)
            ops.append([7, 0])
            tags.add('edge-values')
        nreg = 1
        creg = 10
        live = [0]
        qevery = max(3, nstream // rng.choice([4, 8, 16])) if lgk <= 7 else max(500, nstream // 3)
        # p = 1 and distinct inputs in increasing order when "exact" counting at the thresholds is wanted
        sequential = rng.random() < 0.5
        for i in range(nstream):
            r = rng.choice(live)
            x = base + (i % usize if sequential else rng.randrange(usize))
            if sequential and rng.random() < 0.8:
                ops.append([2, r, rng.choice([0, 1]), x])
            else:
                ops.append([2, r] + value_op(rng, x))
            z = rng.random()
            if i % qevery == qevery - 1:
                ops.append([7, r])
            if z < 0.004:
                ops.append([7, r]); ops.append([3, r]); ops.append([7, r]); tags.add('trim')
            elif z < 0.006:
                ops.append([4, r]); ops.append([7, r]); tags.add('reset')
            elif z < 0.010:
                o = rng.randrange(2)
                ops.append([5, r, creg, o]); ops.append([7, creg]); tags.add('compact')
                if rng.random() < 0.5:
                    ops.append([5, creg, creg + 1, rng.randrange(2)]); ops.append([7, creg + 1])
                    ops.append([6, creg + 1, creg, rng.randrange(4)]); ops.append([7, creg])
            elif z < 0.012 and len(live) < 3:
                ops.append([6, r, nreg, rng.randrange(4)]); ops.append([7, nreg]); live.append(nreg); nreg += 1; tags.add('copy')
            elif z < 0.013:
                ops.append([2, r, 10])          # empty string: ignored
                ops.append([2, r, 11])          # empty raw buffer: hashed
        for r in live:
            ops.append([7, r])
            ops.append([5, r, creg, 0]); ops.append([7, creg])
            ops.append([5, r, creg + 1, 1]); ops.append([7, creg + 1])
            ops.append([5, creg, creg + 2, 1]); ops.append([7, creg + 2])
            if rng.random() < 0.7:
                ops.append([3, r]); ops.append([7, r]); ops.append([5, r, creg, 1]); ops.append([7, creg])
            if rng.random() < 0.3:
                ops.append([2, r] + value_op(rng, base + usize + 1)); ops.append([7, r])
            if rng.random() < 0.2:
                ops.append([4, r]); ops.append([7, r]); ops.append([5, r, creg, 1]); ops.append([7, creg])
                ops.append([2, r, 0, 7]); ops.append([7, r])
        if target > cap: tags.add('estimation-mode')
        if target >= 17: tags.add('resize')
        if nstream > 0: tags.add('compact')
        cases.append(dict(id='th%d' % ci, ops=ops, tags=sorted(tags), cost=len(ops) * (1 if lgk <= 8 else 3)))
    # the model runner shards round-robin: spread the expensive cases
    cases.sort(key=lambda c: -c['cost'])
    return cases

def bits_to_double(b):
    return struct.unpack('<d', struct.pack('<Q', b & (2**64 - 1)))[0]

def oracle(case, irecs, mrecs):
    """Property predicates on the implementation's outputs. Ground truth from the model's S lines: the starting theta and
       nominal size of each sketch (S of op 1) and the 63-bit hash offered by each update (S of op 2) = the L0 'seen' set."""
    fails = []
    ghost = {}
    def fail(sig, what, i):
        fails.append(dict(sig=sig, what=what, op_index=i))
    def check_summary(g, R, F, i, what):
        theta, empty, est, n = R[0], R[1], R[2], R[3]
        if empty != (0 if g['offered'] else 1):
            fail('empty_flag', '%s: is_empty=%d but %s update was offered since construction/reset' % (what, empty, 'an' if g['offered'] else 'no'), i)
        if not g['offered']:
            if theta != MAX_THETA:
                fail('empty_theta', '%s: empty sketch reports theta %x, not MAX_THETA' % (what, theta), i)
        else:
            if theta != g['theta0'] and theta not in g['seen']:
                fail('theta_not_start_or_hash', '%s: theta %x is neither the starting value %x nor a hash seen' % (what, theta, g['theta0']), i)
            if theta < g['theta0'] and n < g['k']:
                fail('theta_lt_start_below_k', '%s: theta %x below the starting value with only %d < k=%d entries retained' % (what, theta, n, g['k']), i)
        if g['last_theta'] is not None and theta > g['last_theta']:
            fail('theta_increased', '%s: theta went up from %x to %x without a reset' % (what, g['last_theta'], theta), i)
        g['last_theta'] = theta
        if est != (1 if (theta < MAX_THETA and not empty) else 0):
            fail('estimation_mode_flag', '%s: is_estimation_mode=%d with theta %x, is_empty=%d' % (what, est, theta, empty), i)
        if F and not est and bits_to_double(F[0]) != float(n):
            fail('exact_estimate', '%s: not in estimation mode but estimate %r != num_retained %d' % (what, bits_to_double(F[0]), n), i)
        if len(g['seen']) <= 64 or what != 'update':
            expect = len([h for h in g['seen'] if 0 < h < theta])
            if n != expect:
                fail('num_retained_count', '%s: num_retained %d but %d distinct non-zero hashes seen are below theta' % (what, n, expect), i)
        g['summary'] = (theta, empty, n)
    for i, op in enumerate(case['ops']):
        if i >= len(irecs) or i >= len(mrecs):
            break
        R = irecs[i]['R']; F = irecs[i].get('F'); S = mrecs[i].get('S')
        code = op[0]
        if R == [-1] or R == [-2] or len(R) < 4:
            if code == 1:
                ghost.pop(op[1], None) if False else None
            continue
        if code == 1:
            if not S:
                continue
            g = dict(kind='u', theta0=S[0], k=S[1], seen=set(), offered=False, last_theta=None, ordered=False, summary=None)
            ghost[op[1]] = g
            check_summary(g, R, F, i, 'new')
            continue
        g = ghost.get(op[1])
        if g is None:
            continue
        if code == 2:
            if S:
                g['seen'].add(S[0]); g['offered'] = True
            check_summary(g, R, F, i, 'update')
        elif code == 3:
            check_summary(g, R, F, i, 'trim')
            if R[3] > g['k']:
                fail('trim_gt_k', 'trim left %d entries, more than k=%d' % (R[3], g['k']), i)
        elif code == 4:
            g['seen'] = set(); g['offered'] = False; g['last_theta'] = None
            check_summary(g, R, F, i, 'reset')
            if R[3] != 0:
                fail('reset_not_empty', 'reset left %d entries' % R[3], i)
        elif code in (5, 6):
            src = g
            g2 = dict(src); g2['seen'] = set(src['seen'])
            if code == 5:
                g2['kind'] = 'c'; g2['ordered'] = bool(src['ordered'] or op[3] != 0)
            ghost[op[2]] = g2
            what = 'compact' if code == 5 else 'copy'
            if src['summary'] is not None and (R[0], R[1], R[3]) != src['summary']:
                fail('compact_differs' if code == 5 else 'copy_differs',
                     '%s exposes (theta,is_empty,num_retained)=%r, the source %r' % (what, (R[0], R[1], R[3]), src['summary']), i)
            check_summary(g2, R, F, i, what)
        elif code == 7:
            check_summary(g, R, F, i, 'query')
            theta = R[0]
            got = R[4:]
            expect = sorted(h for h in g['seen'] if 0 < h < theta)
            if len(got) != R[3]:
                fail('num_retained_iter', 'iteration yields %d entries, get_num_retained says %d' % (len(got), R[3]), i)
            if any(got[j] == got[j + 1] for j in range(len(got) - 1)):
                fail('retained_twice', 'an entry is retained twice', i)
            sg = set(got); se = set(expect)
            if se - sg:
                fail('retained_missing', '%d hash(es) seen below theta are not retained, e.g. %x (theta %x)' % (len(se - sg), min(se - sg), theta), i)
            if sg - se:
                x = min(sg - se)
                why = 'zero' if x == 0 else ('not below theta' if x >= theta else 'never seen')
                fail('retained_extra', '%d retained entr(ies) should not be there, e.g. %x (%s; theta %x)' % (len(sg - se), x, why, theta), i)
            if F:
                it = F[2:]
                if sorted(it) != got:
                    fail('iteration_mismatch', 'harness inconsistency: iteration order list differs from the sorted list', i)
                if g['kind'] == 'c' and g['ordered']:
                    if F[1] != 1:
                        fail('ordered_flag', 'compact(ordered=true) form does not report is_ordered', i)
                    if any(it[j] >= it[j + 1] for j in range(len(it) - 1)):
                        fail('ordered_not_sorted', 'ordered compact form is not strictly increasing in iteration order', i)
                elif F[1] == 1 and any(it[j] >= it[j + 1] for j in range(len(it) - 1)):
                    fail('ordered_not_sorted', 'is_ordered() is true but the iteration order is not strictly increasing', i)
    return fails

FAMILIES = [dict(name='theta', harness='drv_theta.cpp', extract='Extract_theta.v', model='model_theta', gen=gen, oracle=oracle)]

MANIFEST = dict(
    level_text=('Theorems (coq/Properties_C01.v, axiom-free) about the executable model of the Theta update sketch (open-addressing table with the '
                "code's index/stride, resize, rebuild via nth_element at k, trim, reset, hash_and_screen), for EVERY history of update/trim/reset, "
                'ANY hash values (arbitrary hash function), ANY nth_element meeting its postcondition, any lg_k >= 5, resize factor, starting theta and '
                'payload type: the retained keys are exactly the distinct non-zero hashes seen since the last reset that are below theta (none missing, '
                'extra or twice; num_entries = their count; the sorted output is the sorted sample); theta never increases between resets, is <= the '
                'starting value and is the starting value or a hash seen; theta < start => num >= k; exact count while the distinct hashes fit k; '
                'trim leaves <= k; compact (and compact of compact) keeps theta/emptiness/entries and is strictly increasing when ordered; find never '
                'fails and rebuild only runs with > k entries in the full-size table. Proof structure: abstract relational model L1 |= L0 for every '
                'history; concrete table model refines L1 via generic open-addressing lemmas (probe injectivity for odd strides mod 2^n, find_present/'
                'find_absent, insert/rehash preserve the probing invariant). The model is tied to theta_update_sketch_base_impl.hpp / theta_sketch_impl.hpp '
                'by running both on the same generated scripts (theta64, is_empty, is_estimation_mode, num_retained after every operation, sorted retained '
                'hashes on queries compared exactly; the model hashes the canonicalised bytes of every overload itself) and the property predicates are '
                "evaluated on the implementation's outputs against the hashes the model computed."),
    level_note=('Trusted: Coq kernel; hand-written model validated only by the correspondence runs; Murmur3.v and Canon.v (bit-pattern canonicalisation, '
                'starting theta from the float p) are validated by the same runs, no theorem depends on them; nth_element by postcondition; '
                'slot order is not compared (it depends on nth_element); estimates/bounds are C06; uint32 overflow of num_entries_ not modelled.'),
    design_ref='DESIGN.md section 5 C01')
