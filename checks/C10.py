# C10 — see MANIFEST text below; families are combined from per-family modules
from famcombine import combine
combine('C10', ['fam_thetacodec', 'fam_kllcodec', 'fam_cmcodec', 'fam_tdigestcodec', 'fam_varoptcodec', 'fam_cqcodec', 'fam_thetawrap', 'fam_bloomcodec', 'fam_tuplecodec', 'fam_ebppscodec', 'fam_hllcodec', 'fam_ficodec', 'fam_reqcodec', 'fam_cpccodec', 'fam_serde', 'fam_wireconsts'], globals())
MANIFEST = dict(
    level_text=('The Coq layouts are written from the documented byte layouts; byte-for-byte equality of the implementation images with the model encoder, decoding of the reference images '
                'shipped under */test/*.sk and of a baseline corpus written by the pinned commit, and the hash models (MurmurHash3, XXHash64) checked against published vectors.'),
    level_note='Families without a Coq layout are covered by the baseline corpus only (re-read on every run by the current tree).',
    design_ref='DESIGN.md section 5 C10')
