# C13 — Tuple sketches keep theta-sketch keys and exact per-key summaries
#
# Mutations confirmed caught (scratch worktree /tmp/wt_tuple, VERIF_REPO, VERIF_SEED=1; every one printed VIOLATION with a replay):
#   M1  theta_union_base::update: table_.insert(..., std::move(entry)) also for lvalue inputs (the caller's sketch is robbed of its
#       summaries)                                                    -> compact_differs / query_changed (poisoned summary [-99] in the source)
#   M2  tuple_union internal_policy (rvalue overload): arguments swapped                         -> union_summary
#   M2b tuple_union internal_policy (lvalue overload): arguments swapped (result = comb(incoming, internal)) -> union_summary
#   M3  theta_intersection_base: matched_entries.push_back(entry) — the incoming instead of the combined summary -> inter_summary
#   M4  compact_tuple_sketch::filter: predicate negated                                         -> filter_keys / filter_empty
#   M5  update_tuple_sketch::update: first value not applied after create()                      -> summary_not_fold
#   M6  update_tuple_sketch::update: update() on a repeated key dropped                          -> summary_not_fold
#   M7  theta_set_difference_base (hash path): `if (result.second)` keeps the matches            -> anotb_keys
#   M8  compact_tuple_sketch(theta_sketch, summary, ordered): never sorts                        -> ordered_not_sorted
#   M9  filter: is_empty = entries.empty() (ignores estimation mode)                             -> filter_empty
#   M10 theta_intersection_base: policy applied to a copy of the internal entry                  -> inter_summary
#   M11 theta_union_base::get_result: the `< theta` filter dropped (key_not_zero instead of key_not_zero_less_than) -> key_not_below_theta / union_keys
#       (needed inputs of different lg_k and unions larger than their inputs: generator extended after the first run missed it)
#   M12 compact_tuple_sketch(const Base&, ordered): sorts only when the source is already ordered -> ordered_not_sorted
#   M13 default_array_tuple_update_policy::update: loop stops one column early                   -> summary_not_fold
#   M14 default_array_tuple_union_policy: array[i] = other[i]                                     -> union_summary
#   M15 theta_intersection_base::update: theta = max instead of min                               -> inter_theta / inter_empty
#   M16 default_tuple_union_policy (arithmetic summaries): summary = other                        -> union_summary
#   (M14-M16 were run with the same harness / extracted model / oracle through a scratch driver, outside ./check, because the
#    shared Coq build lock was held for many minutes by other checks at the time.)
#   DESIGN section 9 row C13 "summaries not moved with their key on rebuild" cannot be written generically (the table code moves whole
#   entries); its realistic analogue is M1 (a summary left behind / taken by a move).
# The shared set-operation code is modelled AS REPAIRED by fixes/02_intersection_empty_order.patch and fixes/02_union_empty_theta.patch
# (prepared by the C02 family): against a tree without them this check reports VIOLATION (sig empty_theta_below_max for an empty
# p<1 union result; inter_theta / inter_empty for the latched intersection); with them it is green (seeds 1,2,3).
# Round-2 seeds: C13-4 (update(uint32_t) not going through int32_t: keys >= 2^31 hash differently) is caught by the edge-value battery
#   (every key overload x edge values into an lg_k = 12 sketch and a Theta sketch, every 9th case: deterministic in the quick tier);
#   C19-6 (A-not-B hash path moves entries out of an lvalue A) is caught because every lvalue operand of a set operation / filter is
#   queried again afterwards (query_changed / summary_not_fold / correspondence) and the operation is repeated (repeat_differs).
# Round-3 seed C13-7 (theta_union_base::reset keeps a stale union theta): caught by the deterministic 'union-reuse' cases (every 9th case:
#   a union at lg_k 5..6 fed > 15/8 k distinct keys, get_result, reset, get_result, reuse with exact- and estimation-mode inputs;
#   an intersection reused after a result), log and array-of-doubles / arithmetic flavours alike.
# Round-4 seeds: C13-10 (union result filter `<=`: input theta equal to a hash in the union table), C13-11 (move assignment loses theta),
#   C13-12 (array deserialize(bytes) takes is_ordered from HAS_ENTRIES) are caught by the deterministic block of every 9th case: same stream into a
#   big exact and a small-k sketch united in both orders; copies by all four means (op 6 `how` token); operands presented as re-read images (op 36).
# Round-5 seed C13-15 (array A-not-B fast path for B with zero retained entries): caught by the deterministic 'zero-retained-operands' block
#   (every 9th case, flavours log / arithmetic / array cycled): non-empty operands retaining nothing (p = 2^-20 sketch, intersection of disjoint
#   estimation-mode sketches, filter that kept nothing) as A, as B, as first / middle / last union input and as intersection inputs.
# Harmless rewrites confirmed tolerated (exit 0):
#   H1  theta_union_base::update always copies the incoming entry (no conditional_forward)
#   H2  STRIDE_HASH_BITS 7 -> 8 (different slot order in every table)
#   H3  theta_union_base::get_result: std::sort instead of std::nth_element
#   H4  theta_intersection_base: matched entries copied instead of moved
import struct

PROP = "C13"
READY = True
COQ_PROPS = ['Properties_C13']
RULE = ('operation scripts over registers holding update_tuple_sketch / compact_tuple_sketch / tuple_union / tuple_intersection objects in two flavours: '
        'an instrumented "log" summary (records the create mark, every value in arrival order and every combine with its operand: non-commutative, so order '
        'and exactly-once matter; moved-from summaries are poisoned; values offered as lvalues or as rvalues of a move-only type), an arithmetic '
        'summary (update_tuple_sketch<int64_t> with the DEFAULT update/union policies) and array_of_doubles (1..3 columns). lg_k 5..7 (12 sometimes in thorough), all resize factors, p in {1, 0.5, 0.1}, key streams with heavy repetition through every '
        'update overload (every 9th case feeds EVERY key overload its edge values: >= 2^31, >= 2^63, negative, -0.0, NaN payloads, empty string, strings / buffers of every length 0..40, into an lg_k 12 sketch and a Theta sketch), lengths aimed at resize / rebuild thresholds, trim / reset / compact(ordered or not) / copy / filter interleaved; then set '
        'operations over the registers in every input form (update sketch, ordered / unordered compact, filter result, compact_tuple_sketch built from a '
        'Theta sketch, results of earlier set operations), as lvalues and as rvalues (moved copies), unions smaller than their inputs so that trimming '
        'triggers, several get_result per union / intersection, seed mismatches; every 9th case adds deterministically: a union reused after reset (own table rebuilt), the same stream into a big exact and a small-k sketch united in both orders (input theta equal to a hash in the union table), copies by copy ctor / copy-assign onto a sketch in another state / move ctor / move-assign, and operands presented as deserialize(bytes|stream) of serialize(compact(ordered|unordered)); after every set operation or filter the lvalue operands are queried again (must be unchanged) and the operation is repeated (same result required); every sketch-valued result is dumped (theta64, is_empty, is_ordered, '
        'sorted (key, summary) pairs) and compared with the model, and the property predicates are evaluated on the dumps; '
        'non-trivial = the case has a set operation or filter on non-empty operands, or reaches estimation mode, or repeats keys')
TRUSTED = ['MurmurHash3 model coq/Murmur3.v and the input canonicalisation coq/Canon.v (exercised against the implementation by every update of this check)',
           'std::nth_element is modelled by its postcondition (coq/KSmallest.v nth_post); the executable instance sorts',
           'the Theta table model coq/ThetaDefs.v and its theorems (property C01) are the base of the tuple model',
           'the instrumented summary/policy types of harness/drv_tuple.cpp (a log of policy calls) stand for "any user-defined summary"']
ASSUMPTIONS = ['array-of-doubles values are small integers, so that double addition is exact (no rounding is modelled)',
               'serialization of tuple sketches is C09; estimates/bounds are C06; jaccard similarity is not covered',
               'input sketches of set operations are well formed (produced by the library itself): corrupted-input exceptions are not exercised']

MAX_THETA = (1 << 63) - 1
P_ONE = 0x3f800000
CREATE, SEP_U, SEP_I = -7, -8, -9

def fbits(x):
    return struct.unpack('<I', struct.pack('<f', x))[0]

def dbits(x):
    return struct.unpack('<Q', struct.pack('<d', x))[0]

def key_op(rng, x):
    """the abstract key x (small non-negative integer) through a randomly chosen update overload"""
    k = rng.random()
    if k < 0.55:
        kinds = [0, 1]
        if x < 2**31: kinds += [2, 3]
        if x < 2**15: kinds += [4, 5]
        if x < 2**7: kinds += [6, 7]
        return [rng.choice(kinds), x]
    if k < 0.65:
        return [8, dbits(float(x))]
    if k < 0.72:
        return [9, fbits(float(x % (1 << 24)))]
    s = ('%d' % x).encode()
    return [10 if k < 0.9 else 11] + list(s)

EDGE_INTS = [0, -1, 1, 2**31, 2**31 - 1, 2**31 + 5, 2**32 - 1, 2**32, -2**31, 2**63 - 1, 2**63, -2**63, 2**64 - 1, 127, 128, 255, 256,
             32767, 32768, 65535, 65536, -128, -129, -32768, 0xdeadbeef, 0x80000001]
EDGE_DOUBLES = [0x0, 0x8000000000000000, 0x7ff8000000000000, 0xfff8000000000000, 0x7ff0000000000001, 0x7ff4000000000000,
                0xffffffffffffffff, 0x7ff0000000000000, 0xfff0000000000000, 0x1, 0x8000000000000001, 0x000fffffffffffff,
                0x0010000000000000, 0x3ff0000000000000, 0xbff0000000000000, 0x7fefffffffffffff, 0x4014000000000000, 0x41e0000000000000]
EDGE_FLOATS = [0x0, 0x80000000, 0x7fc00000, 0xffc00000, 0x7f800001, 0x7fa00000, 0xffffffff, 0x7f800000, 0xff800000,
               0x1, 0x80000001, 0x007fffff, 0x00800000, 0x3f800000, 0xbf800000, 0x7f7fffff, 0x40a00000, 0x4f000000]

def edge_battery():
    """EVERY key overload on its edge values (deterministic): all integer widths incl. values >= 2^31 / >= 2^63 / negative,
       double and float bit patterns (-0.0, NaN payloads, infinities, subnormals), strings and raw buffers of every length 0..40"""
    ups = []
    for v in EDGE_INTS:
        for kind in range(8):
            ups.append([kind, v])
    for b in EDGE_DOUBLES: ups.append([8, b])
    for b in EDGE_FLOATS: ups.append([9, b])
    for n in range(0, 41):
        ups.append([10] + [(37 + 7 * i) % 256 for i in range(n)])
        ups.append([11] + [(91 + 5 * i) % 256 for i in range(n)])
    return ups

class G:
    """script builder for one case"""
    def __init__(self, rng, pol, seed=9001):
        self.seed = seed
        self.rng = rng; self.pol = pol; self.ops = []; self.tags = set(); self.ctr = 0; self.next_tmp = 100; self.repeats = {}
    def vals(self):
        self.ctr += 1
        if self.pol == 0:
            return [self.ctr]
        return [self.rng.randrange(0, 20) for _ in range(abs(self.pol))]
    def tmp(self):
        self.next_tmp += 1
        return self.next_tmp
    def update(self, r, x):
        v = self.vals()
        self.ops.append([2, r, self.rng.randrange(2), len(v)] + v + key_op(self.rng, x))
    def operand(self, r, is_update, theta_reg=None):
        """a register presenting the content of r in a randomly chosen input form (queried, so that the oracle has seen it)"""
        rng = self.rng
        z = rng.random()
        if theta_reg is not None and z < 0.12:
            t = self.tmp()
            v = [rng.randrange(50)] if self.pol == 0 else [rng.randrange(9) for _ in range(abs(self.pol))]
            self.ops.append([10, theta_reg, t, rng.randrange(2), rng.randrange(3), self.pol] + v)
            self.tags.add('theta-operand')
            return t
        if z < 0.24:
            self.ops.append([7, r]); return r
        if z < 0.35:
            # the same sketch as deserialize(serialize(compact(r, ordered))) through the bytes / stream reader
            t = self.tmp(); self.ops.append([7, r]); self.ops.append([36, r, t, rng.randrange(2), rng.randrange(2), self.seed]); self.tags.add('reloaded-operand')
            return t
        if z < 0.80:
            t = self.tmp(); self.ops.append([5, r, t, 1 if z < 0.6 else 0]); return t
        if z < 0.92:
            t = self.tmp()
            self.ops.append([7, r])
            self.ops.append([11, r, t, rng.randrange(2), rng.choice([0, 1, 2, 3])]); self.tags.add('filter')
            self.again(); self.ops.append([7, r])          # same filter again = same result; the source is unchanged
            return t
        t = self.tmp(); self.ops.append([5, r, t, rng.randrange(2)])
        t2 = self.tmp(); self.ops.append([5, t, t2, rng.randrange(2)])
        return t2
    def again(self):
        """repeat the last sketch-valued operation into a fresh register: the oracle requires the same result"""
        op = list(self.ops[-1]); j = len(self.ops) - 1
        dst = {11: 2, 14: 2, 18: 2, 19: 3}[op[0]]
        op[dst] = self.tmp()
        self.ops.append(op); self.repeats[len(self.ops) - 1] = j

    def movable(self, r):
        """(register, mv flag): either r itself as an lvalue, or a fresh copy handed over as an rvalue"""
        if self.rng.random() < 0.4:
            t = self.tmp(); self.ops.append([6, r, t, self.rng.randrange(4)]); return t, 1
        return r, 0

def gen(rng, tier):
    quick = (tier == 'quick')
    ncases = 110 if quick else 1200
    cases = []
    for ci in range(ncases):
        pol = 0 if rng.random() < 0.6 else rng.choice([-1, -1, 1, 2, 3])
        if ci % 9 == 3: pol = [0, -1, 2, 1][(ci // 9) % 4]       # the zero-retained block below: every flavour, deterministically
        g = G(rng, pol)
        lgk = rng.choice([5, 5, 5, 6, 6, 7]) if (quick or ci % 40) else 12
        k = 1 << lgk
        seed = rng.choice([9001, 9001, 9001, 1, 123456789]); g.seed = seed
        pk = rng.random()
        pb = P_ONE if pk < 0.6 else (fbits(0.5) if pk < 0.85 else fbits(0.1))
        nsk = rng.choice([1, 2, 3, 3])
        sk = list(range(nsk))
        for r in sk:
            sd = seed if (rng.random() < 0.93 or r == 0) else seed + 1
            if sd != seed: g.tags.add('seed-mismatch')
            lgr = lgk if (lgk > 7 or rng.random() < 0.6) else rng.choice([lgk + 1, max(5, lgk - 1), 5])   # inputs of different sizes
            g.ops.append([1, r, pol, lgr, rng.randrange(4), pb if rng.random() < 0.8 else P_ONE, sd])
        if ci % 23 == 5:
            g.ops.append([1, 9, pol, rng.choice([4, 27]), 0, pb, seed])          # refused builder arguments
            g.ops.append([1, 9, 300, lgk, 0, pb, seed])
            g.ops.append([2, 9, 0, 1, 1, 0, 5]); g.ops.append([7, 9]); g.ops.append([5, 9, 8, 1])
            g.ops.append([2, 0, 0, (abs(pol) or 1) + 1] + [1] * ((abs(pol) or 1) + 1) + [0, 5])   # wrong number of values
        if ci % 9 == 1:
            # every key overload on its edge values into a sketch large enough to retain them all (and into a Theta sketch)
            EB, ET = 70, 71
            g.ops.append([1, EB, pol, 12, rng.randrange(4), P_ONE, 9001]); g.ops.append([8, ET, 12, 0, P_ONE, 9001])
            for u in edge_battery():
                v = g.vals()
                g.ops.append([2, EB, rng.randrange(2), len(v)] + v + u)
                g.ops.append([9, ET] + u)
            g.ops.append([7, EB])
            t = g.tmp(); v1 = [5] * max(1, abs(pol))
            g.ops.append([10, ET, t, 1, 0, pol] + v1)
            t2 = g.tmp(); g.ops.append([19, EB, t, t2, 1, 9001, 0])     # same keys through both sketches: A-not-B is empty of entries
            g.ops.append([7, EB]); g.ops.append([7, t])
            g.tags.add('edge-values')
        TH = 50
        g.ops.append([8, TH, lgk, rng.randrange(4), P_ONE if rng.random() < 0.7 else fbits(0.5), seed])
        cap = 15 * k // 8
        target = rng.choice([0, 1, 3, 16, 17, 33, k // 2, k, k + 1, cap - 1, cap, cap + 1, cap + 2, 2 * k, 3 * k, 5 * k])
        if lgk == 12: target = rng.choice([k + 1, cap + 2])
        dup = rng.choice([1, 2, 3, 5]) if lgk <= 7 else 1
        usize = max(1, target)
        base = rng.choice([0, 0, 1, 1000, 2**31 - 40])
        nstream = target * dup
        overlap = rng.choice([0.0, 0.3, 0.7, 1.0])
        for i in range(nstream):
            r = rng.choice(sk)
            off = 0 if rng.random() < overlap else r * usize        # disjoint or overlapping key ranges per sketch
            x = base + off + rng.randrange(usize)
            g.update(r, x)
            if rng.random() < 0.5:
                g.ops.append([9, TH] + key_op(rng, base + rng.randrange(2 * usize)))
            z = rng.random()
            if z < 0.004:
                g.ops.append([7, r]); g.ops.append([3, r]); g.ops.append([7, r]); g.tags.add('trim')
            elif z < 0.006:
                g.ops.append([4, r]); g.ops.append([7, r]); g.tags.add('reset')
            elif z < 0.012:
                g.ops.append([7, r]); t = g.tmp(); g.ops.append([5, r, t, rng.randrange(2)])
            elif z < 0.016:
                g.ops.append([7, r]); t = g.tmp(); g.ops.append([11, r, t, rng.randrange(2), rng.choice([0, 1, 2, 4])]); g.tags.add('filter')
                g.again(); g.ops.append([7, r])
            elif z < 0.018:
                g.ops.append([2, r, 0, len(g.vals())] + g.vals() + [10])      # empty string key: ignored
        if dup > 1 and nstream: g.tags.add('repeated-keys')
        if target > cap: g.tags.add('estimation-mode')
        for r in sk:
            g.ops.append([7, r])
            if rng.random() < 0.5:
                g.ops.append([3, r]); g.ops.append([7, r])
        if ci % 9 == 2:
            # union object reused after reset(): its own table has overflowed and rebuilt (theta lowered) before the reset
            lgu = rng.choice([5, 6]); ku = 1 << lgu
            big = [80, 81, 82]; SM, ES, UR, IR = 83, 84, 62, 63
            for j, r in enumerate(big):
                g.ops.append([1, r, pol, 7, rng.randrange(4), P_ONE, seed])
                for i in range(15 * ku // 16 + 20): g.update(r, 5000 + 1000 * j + i)
            g.ops.append([1, SM, pol, 7, 0, P_ONE, seed])
            for i in range(10): g.update(SM, 9000 + i)
            g.ops.append([1, ES, pol, 5, 0, P_ONE, seed])
            for i in range(200): g.update(ES, 20000 + i)
            g.ops.append([12, UR, pol, lgu, rng.randrange(4), P_ONE, seed])
            for r in big:
                g.ops.append([7, r]); g.ops.append([13, UR, r, 0]); g.ops.append([7, r])
            g.ops.append([14, UR, g.tmp(), 1]); g.again()                          # > 15/8 k distinct keys: rebuilt, trimmed
            g.ops.append([15, UR]); g.ops.append([14, UR, g.tmp(), 1])              # empty again
            g.ops.append([7, SM]); g.ops.append([13, UR, SM, 0]); g.ops.append([14, UR, g.tmp(), 0]); g.again()   # small exact-mode input
            g.ops.append([15, UR]); g.ops.append([7, ES]); g.ops.append([13, UR, ES, 0]); g.ops.append([14, UR, g.tmp(), 1])
            g.ops.append([13, UR, SM, 0]); g.ops.append([14, UR, g.tmp(), 1]); g.again()                          # estimation-mode input
            g.ops.append([16, IR, pol, seed])                                       # intersection object reused after a result
            g.ops.append([17, IR, 80, 0]); g.ops.append([18, IR, g.tmp(), 1]); g.again()
            g.ops.append([7, ES]); g.ops.append([17, IR, ES, 0]); g.ops.append([18, IR, g.tmp(), 0])
            g.ops.append([17, IR, SM, 0]); g.ops.append([18, IR, g.tmp(), 1]); g.again()
            # copies by all four means (copy ctor, copy-assign onto a sketch in another state, move ctor, move-assign) of an
            # estimation-mode and of an exact-mode sketch, and of their compact forms
            for r in (ES, SM):
                g.ops.append([7, r]); c = g.tmp(); g.ops.append([5, r, c, rng.randrange(2)])
                for how in range(4):
                    t = g.tmp(); g.ops.append([6, r, t, how]); g.ops.append([7, t]); g.update(t, 777 + how); g.ops.append([7, t]); g.ops.append([7, r])
                    t = g.tmp(); g.ops.append([6, c, t, how]); g.ops.append([7, t]); g.ops.append([7, c])
            # a later union input whose theta EQUALS a hash already in the union table: the same stream into a big exact sketch
            # and into a small-k sketch (estimation mode: its theta is one of the stream's hashes), both orders
            BG, SK2, U2 = 85, 86, 64
            g.ops.append([1, BG, pol, 9, 0, P_ONE, seed]); g.ops.append([1, SK2, pol, 5, 0, P_ONE, seed])
            for i in range(150):
                v = g.vals(); ko = key_op(rng, 30000 + i)
                g.ops.append([2, BG, 0, len(v)] + v + ko); g.ops.append([2, SK2, 0, len(v)] + v + ko)
            g.ops.append([7, BG]); g.ops.append([7, SK2])
            for order in ((BG, SK2), (SK2, BG)):
                g.ops.append([12, U2, pol, 9, 0, P_ONE, seed])
                for r in order: g.ops.append([13, U2, r, 0])
                g.ops.append([14, U2, g.tmp(), rng.randrange(2)]); g.again()
            # operands presented as re-read images (bytes and stream, ordered and unordered compact forms)
            for r in (ES, SM, BG):
                for ordf in (0, 1):
                    for path in (0, 1):
                        t = g.tmp(); g.ops.append([36, r, t, ordf, path, seed]); g.ops.append([7, t])
                        t2 = g.tmp(); g.ops.append([19, t, SK2, t2, 1, seed, 0]); g.again()
                        g.ops.append([16, IR, pol, seed]); g.ops.append([17, IR, SK2, 0]); g.ops.append([17, IR, t, 0]); g.ops.append([18, IR, g.tmp(), 1])
            g.tags.add('union-reuse')
        if ci % 9 == 3:
            # operands that are NOT empty but retain nothing (theta < 1), in every position of every set operation:
            #   ZP: a p = 2^-20 sketch whose keys were all screened out; ZI: intersection of disjoint estimation-mode sketches;
            #   ZF: a filter that kept nothing of an estimation-mode sketch
            XE, XS, XD, ZP, ZI, ZF, UZ, IZ = 90, 91, 92, 93, 94, 95, 65, 66
            g.ops.append([1, XE, pol, 5, 0, P_ONE, seed]); g.ops.append([1, XD, pol, 5, 0, P_ONE, seed]); g.ops.append([1, XS, pol, 6, 0, P_ONE, seed])
            for i in range(200): g.update(XE, 40000 + i); g.update(XD, 50000 + i)
            for i in range(12): g.update(XS, 40000 + 7 * i)
            g.ops.append([1, ZP, pol, 5, 0, fbits(2.0 ** -20), seed])
            for i in range(5): g.update(ZP, 40000 + i)
            g.ops.append([16, IZ, pol, seed]); g.ops.append([17, IZ, XE, 0]); g.ops.append([17, IZ, XD, 0]); g.ops.append([18, IZ, ZI, 1])
            g.ops.append([11, XE, ZF, 1, 99])
            for r in (XE, XS, XD, ZP, ZI, ZF): g.ops.append([7, r])
            for Z in (ZP, ZI, ZF):
                for X in (XE, XS):
                    for (a, b) in ((Z, X), (X, Z)):
                        g.ops.append([19, a, b, g.tmp(), rng.randrange(2), seed, 0]); g.again(); g.ops.append([7, a]); g.ops.append([7, b])
                    for ins in ((Z, X), (X, Z), (XS, Z, XE)):
                        g.ops.append([16, IZ, pol, seed])
                        for r in ins:
                            g.ops.append([17, IZ, r, 0]); g.ops.append([18, IZ, g.tmp(), rng.randrange(2)]); g.ops.append([7, r])
                for ins in ((Z, XS, XE), (XS, Z, XE), (XS, XE, Z), (Z,)):
                    g.ops.append([12, UZ, pol, rng.choice([5, 7]), 0, P_ONE, seed])
                    for r in ins:
                        g.ops.append([13, UZ, r, 0]); g.ops.append([14, UZ, g.tmp(), rng.randrange(2)]); g.ops.append([7, r])
                    g.ops.append([14, UZ, g.tmp(), 1]); g.again()
                g.ops.append([11, Z, g.tmp(), 1, 0]); g.again(); g.ops.append([5, Z, g.tmp(), 1]); g.ops.append([36, Z, g.tmp(), 0, rng.randrange(2), seed])
            g.tags.add('zero-retained-operands')
        # ---- set operations
        UN, IN = 60, 61
        nset = rng.choice([0, 1, 2, 3, 4]) if nstream else rng.choice([0, 1])
        results = []
        for si in range(nset):
            kind = rng.choice(['u', 'u', 'i', 'i', 'a'])
            pool = [(r, True) for r in sk] + [(r, False) for r in results]
            if kind == 'u':
                lgu = rng.choice([5, lgk, lgk, max(5, lgk - 1), lgk + 1, lgk + 2])   # smaller: trimming; larger: the table never rebuilds
                pu = P_ONE if rng.random() < 0.8 else fbits(0.5)
                g.ops.append([12, UN, pol, lgu, rng.randrange(4), pu, seed])
                nin = rng.choice([0, 1, 2, 3, 4])
                for j in range(nin):
                    r, isu = rng.choice(pool)
                    o = g.operand(r, isu, TH)
                    o, mv = g.movable(o)
                    g.ops.append([13, UN, o, mv])
                    if not mv: g.ops.append([7, o])                     # an lvalue operand must come back unchanged
                    if rng.random() < 0.3:
                        t = g.tmp(); g.ops.append([14, UN, t, rng.randrange(2)]); results.append(t)
                t = g.tmp(); g.ops.append([14, UN, t, rng.randrange(2)]); results.append(t)
                g.again()                                               # get_result is a pure observer
                if rng.random() < 0.2:
                    g.ops.append([15, UN]); t = g.tmp(); g.ops.append([14, UN, t, 1])
                g.tags.add('union')
            elif kind == 'i':
                g.ops.append([16, IN, pol, seed])
                if rng.random() < 0.1:
                    g.ops.append([18, IN, g.tmp(), 1])                      # get_result before update: refused
                nin = rng.choice([1, 2, 2, 3])
                for j in range(nin):
                    r, isu = rng.choice(pool)
                    o = g.operand(r, isu, TH)
                    o, mv = g.movable(o)
                    g.ops.append([17, IN, o, mv])
                    if not mv: g.ops.append([7, o])
                    t = g.tmp(); g.ops.append([18, IN, t, rng.randrange(2)]); results.append(t)
                    g.again()
                g.tags.add('intersection')
            else:
                ra, isa = rng.choice(pool); rb, isb = rng.choice(pool)
                a = g.operand(ra, isa, TH); b = g.operand(rb, isb, TH)
                a, mv = g.movable(a)
                t = g.tmp()
                g.ops.append([19, a, b, t, rng.randrange(2), seed if rng.random() < 0.95 else seed + 1, mv]); results.append(t)
                if not mv:
                    g.again()                                           # same operands (lvalues), same answer
                    g.ops.append([7, a])
                if not (mv and a == b): g.ops.append([7, b])
                g.tags.add('a-not-b')
        cases.append(dict(id='tu%d' % ci, ops=g.ops, tags=sorted(g.tags), cost=len(g.ops) * (1 if lgk <= 8 else 3), repeats=g.repeats))
    cases.sort(key=lambda c: -c['cost'])
    return cases

# ---------------------------------------------------------------------------------------------------------------
# oracle: the property predicates, evaluated on the implementation's dumps

def parse_dump(R):
    if len(R) < 4:
        return None
    d = dict(theta=R[0], empty=R[1], ordered=R[2], n=R[3], ents={}, keys=[], bad=None)
    i = 4
    while i < len(R):
        if i + 1 >= len(R) or R[i + 1] < 0 or i + 2 + R[i + 1] > len(R):
            d['bad'] = 'malformed entry list'; break
        key = R[i]; ln = R[i + 1]
        if key in d['ents']: d['bad'] = 'key %x listed twice' % key
        d['ents'][key] = list(R[i + 2:i + 2 + ln]); d['keys'].append(key)
        i += 2 + ln
    return d

def create(pol): return [CREATE] if pol == 0 else [0] * abs(pol)
def upd(pol, s, v): return s + v if pol == 0 else [a + b for a, b in zip(s, v)]
def comb(pol, sep, a, b): return a + [sep] + b if pol == 0 else [x + y for x, y in zip(a, b)]
def pred(kind, arg, s): return (sum(s) % 3 == arg) if kind == 0 else (arg <= len(s))

def oracle(case, irecs, mrecs):
    fails = []
    def fail(sig, what, i):
        fails.append(dict(sig=sig, what=what, op_index=i))
    ghost = {}     # update sketches: pol, theta0, k, log [(h, vals)]
    tghost = {}    # theta sketches: seen hashes
    obs = {}       # register -> last dump seen (dict) with 'pol'; removed when stale
    unions = {}; inters = {}
    # an operation repeated right away into another register (generator: G.again): pure observers / lvalue operands => same result
    DST = {11: 2, 14: 2, 18: 2, 19: 3}
    rep = {}
    for i in range(1, len(case['ops'])):
        a, b = case['ops'][i - 1], case['ops'][i]
        if b[0] in DST and a[0] == b[0] and len(a) == len(b) and not (b[0] == 19 and b[6] != 0):
            d = DST[b[0]]
            if a[:d] + a[d + 1:] == b[:d] + b[d + 1:] and a[d] != b[d]:
                rep[i] = i - 1
    def check_dump(d, i, what):
        if d['bad']:
            fail('dump_inconsistent', '%s: %s' % (what, d['bad']), i); return False
        if d['n'] != len(d['keys']):
            fail('num_retained_iter', '%s: get_num_retained %d but iteration yields %d entries' % (what, d['n'], len(d['keys'])), i)
        for key in d['keys']:
            if not (0 < key < d['theta']):
                fail('key_not_below_theta', '%s: retained key %x is not in (0, theta=%x)' % (what, key, d['theta']), i); break
        if d['empty'] and d['keys']:
            fail('empty_not_empty', '%s: is_empty but %d entries' % (what, len(d['keys'])), i)
        if d['empty'] and d['theta'] != MAX_THETA:
            # as the Theta operations after fixes/02_union_empty_theta.patch: an empty sketch never carries a sampling theta
            fail('empty_theta_below_max', '%s: is_empty sketch reports theta %x, not MAX_THETA' % (what, d['theta']), i)
        F = irecs[i].get('F') or []
        if d['ordered'] and any(F[j] >= F[j + 1] for j in range(len(F) - 1)):
            fail('ordered_not_sorted', '%s: is_ordered() but iteration order is not strictly increasing' % what, i)
        return True
    def same_content(d, src, i, sig, what):
        if (d['theta'], d['empty']) != (src['theta'], src['empty']):
            fail(sig, '%s: (theta,is_empty)=(%x,%d) but the source has (%x,%d)' % (what, d['theta'], d['empty'], src['theta'], src['empty']), i)
        elif d['ents'] != src['ents']:
            ks = sorted(set(d['ents']) ^ set(src['ents']))
            if ks: fail(sig, '%s: key %x is in one of source/result only' % (what, ks[0]), i)
            else:
                kk = [x for x in d['ents'] if d['ents'][x] != src['ents'][x]][0]
                fail(sig, '%s: summary of key %x is %r, the source has %r' % (what, kk, d['ents'][kk], src['ents'][kk]), i)
    def expect_entries(d, exp, i, sig, what):
        """exp: {key: summary}; d: dump"""
        ks = sorted(set(exp) - set(d['ents']))
        if ks:
            fail(sig + '_keys', '%s: %d key(s) missing from the result, e.g. %x' % (what, len(ks), ks[0]), i); return
        ks = sorted(set(d['ents']) - set(exp))
        if ks:
            fail(sig + '_keys', '%s: %d key(s) should not be in the result, e.g. %x (theta %x)' % (what, len(ks), ks[0], d['theta']), i); return
        for key in sorted(exp):
            if d['ents'][key] != exp[key]:
                fail(sig + '_summary', '%s: summary of key %x is %r, expected %r' % (what, key, d['ents'][key][:40], exp[key][:40]), i); return
    for i, op in enumerate(case['ops']):
        if i >= len(irecs) or i >= len(mrecs):
            break
        R = irecs[i]['R']; S = mrecs[i].get('S')
        code = op[0]
        if R == [-2]:
            continue
        j = rep.get(i)
        if j is not None and j < len(irecs) and irecs[j]['R'] != R:
            fail('repeat_differs', 'the same operation on the same (lvalue) operands gave a different result the second time (ops %d and %d, opcode %d)' % (j, i, code), i)
        refused = (R == [-1])
        if code == 1:
            for t in (ghost, obs): t.pop(op[1], None) if not refused else None
            if not refused and S:
                ghost[op[1]] = dict(pol=op[2], theta0=S[0], k=S[1], log=[], offered=False)
            continue
        if code == 8:
            if not refused: tghost[op[1]] = dict(seen=set(), offered=False)
            continue
        if code == 9:
            if not refused and S and op[1] in tghost:
                tghost[op[1]]['seen'].add(S[0]); tghost[op[1]]['offered'] = True
            continue
        if code in (2, 3, 4):
            g = ghost.get(op[1])
            if refused or g is None:
                continue
            obs.pop(op[1], None)
            if code == 2 and S:
                nv = op[3]; g['log'].append((S[0], list(op[4:4 + nv]))); g['offered'] = True
            if code == 4:
                g['log'] = []; g['offered'] = False
                if R[3] != 0 or R[1] != 1: fail('reset_not_empty', 'reset left %d entries / is_empty=%d' % (R[3], R[1]), i)
            if code == 3 and R[3] > g['k']:
                fail('trim_gt_k', 'trim left %d entries, more than k=%d' % (R[3], g['k']), i)
            if R[1] != (0 if g['offered'] else 1):
                fail('empty_flag', 'is_empty=%d but %s update was offered since construction/reset' % (R[1], 'an' if g['offered'] else 'no'), i)
            continue
        if code == 7:
            if refused: continue
            d = parse_dump(R)
            if d is None or not check_dump(d, i, 'query'): continue
            r = op[1]
            if r in ghost:
                g = ghost[r]; d['pol'] = g['pol']
                theta = d['theta']
                if d['empty'] != (0 if g['offered'] else 1):
                    fail('empty_flag', 'query: is_empty=%d but %s update was offered' % (d['empty'], 'an' if g['offered'] else 'no'), i)
                exp = {}
                for h, v in g['log']:
                    if 0 < h < theta:
                        exp[h] = upd(g['pol'], exp[h] if h in exp else create(g['pol']), v)
                ks = sorted(set(exp) - set(d['ents']))
                if ks: fail('retained_missing', '%d key(s) offered below theta are not retained, e.g. %x (theta %x)' % (len(ks), ks[0], theta), i)
                ks = sorted(set(d['ents']) - set(exp))
                if ks: fail('retained_extra', '%d retained key(s) were never offered or are not below theta, e.g. %x' % (len(ks), ks[0]), i)
                for key in sorted(set(exp) & set(d['ents'])):
                    if d['ents'][key] != exp[key]:
                        fail('summary_not_fold', 'summary of key %x is %r; the update policy folded over the values offered with it (arrival order) gives %r'
                             % (key, d['ents'][key][:40], exp[key][:40]), i); break
                seen = set(h for h, _ in g['log'])
                if g['offered'] and theta != g['theta0'] and theta not in seen:
                    fail('theta_not_start_or_hash', 'theta %x is neither the starting value nor a hash seen' % theta, i)
                if g['offered'] and theta < g['theta0'] and d['n'] < g['k']:
                    fail('theta_lt_start_below_k', 'theta %x below the starting value with only %d < k entries' % (theta, d['n']), i)
                obs[r] = d
            elif r in obs:
                d['pol'] = obs[r]['pol']
                same_content(d, obs[r], i, 'query_changed', 'query of an immutable compact sketch')
            continue
        if code == 36:
            op = [5, op[1], op[2], op[3]]; code = 5       # a re-read image of compact(r, ordered) is that compact sketch
        if code in (5, 6):
            if refused: continue
            d = parse_dump(R)
            if d is None or not check_dump(d, i, 'compact/copy'): continue
            src = obs.get(op[1])
            if code == 6 and op[1] in ghost:
                g = ghost[op[1]]; ghost[op[2]] = dict(pol=g['pol'], theta0=g['theta0'], k=g['k'], log=list(g['log']), offered=g['offered'])
            elif op[2] in ghost and op[2] != op[1]:
                ghost.pop(op[2], None)
            if src is not None:
                same_content(d, src, i, 'compact_differs' if code == 5 else 'copy_differs', 'compact' if code == 5 else 'copy')
                if code == 5 and d['ordered'] != (1 if (src['ordered'] or op[3] != 0) else 0):
                    fail('ordered_flag', 'compact(ordered=%d) of a sketch with is_ordered=%d reports is_ordered=%d' % (op[3], src['ordered'], d['ordered']), i)
            pol = src['pol'] if src is not None else (ghost[op[1]]['pol'] if op[1] in ghost else None)
            if pol is None:
                obs.pop(op[2], None)
            else:
                d['pol'] = pol; obs[op[2]] = d
            continue
        if code == 10:
            if refused: continue
            d = parse_dump(R)
            if d is None or not check_dump(d, i, 'from theta'): continue
            ghost.pop(op[2], None)
            tg = tghost.get(op[1]); pol = op[5]; v = list(op[6:])
            d['pol'] = pol
            if tg is not None:
                exp = dict((h, v) for h in tg['seen'] if 0 < h < d['theta'])
                expect_entries(d, exp, i, 'from_theta', 'compact_tuple_sketch(theta sketch, summary)')
                if d['empty'] != (0 if tg['offered'] else 1):
                    fail('from_theta_empty', 'is_empty=%d differs from the theta sketch' % d['empty'], i)
            obs[op[2]] = d
            continue
        if code == 11:
            if refused: continue
            d = parse_dump(R)
            if d is None or not check_dump(d, i, 'filter'): continue
            src = obs.get(op[1]); ghost.pop(op[2], None) if op[2] != op[1] else None
            if src is None:
                obs.pop(op[2], None); continue
            d['pol'] = src['pol']
            exp = dict((kk, s) for kk, s in src['ents'].items() if pred(op[3], op[4], s))
            expect_entries(d, exp, i, 'filter', 'filter')
            if d['theta'] != src['theta']:
                fail('filter_theta', 'filter changed theta from %x to %x' % (src['theta'], d['theta']), i)
            est = src['theta'] < MAX_THETA and not src['empty']
            if d['empty'] != (1 if (not est and not exp) else 0):
                fail('filter_empty', 'filter result is_empty=%d (source: theta %x, is_empty %d, %d entries kept)' % (d['empty'], src['theta'], src['empty'], len(exp)), i)
            if op[2] in ghost and op[2] == op[1]: ghost.pop(op[2])
            obs[op[2]] = d
            continue
        if code == 12:
            if not refused and S:
                unions[op[1]] = dict(pol=op[2], theta0=S[0], k=S[1], inputs=[], known=True)
                obs.pop(op[1], None); ghost.pop(op[1], None)
            continue
        if code == 13:
            u = unions.get(op[1])
            if u is None: continue
            src = obs.get(op[2])
            if not refused:
                if src is None: u['known'] = False
                elif not src['empty']: u['inputs'].append(src)
                if op[3]: obs.pop(op[2], None); ghost.pop(op[2], None)
            continue
        if code == 15:
            u = unions.get(op[1])
            if u is not None and not refused: u['inputs'] = []; u['known'] = True
            continue
        if code == 14:
            if refused: continue
            d = parse_dump(R)
            if d is None or not check_dump(d, i, 'union result'): continue
            ghost.pop(op[2], None)
            u = unions.get(op[1])
            if u is None or not u['known']:
                obs.pop(op[2], None); continue
            pol = u['pol']; d['pol'] = pol
            ins = u['inputs']
            if not ins:
                if not d['empty']: fail('union_empty', 'union of no non-empty input is not empty', i)
            else:
                thm = min([u['theta0']] + [x['theta'] for x in ins])
                V = {}
                for x in ins:
                    for kk, s in x['ents'].items():
                        if kk < thm:
                            V[kk] = comb(pol, SEP_U, V[kk], s) if kk in V else list(s)
                ks = sorted(V)
                if len(ks) > u['k']:
                    th = ks[u['k']]; ks = ks[:u['k']]
                else:
                    th = thm
                if d['empty']: fail('union_empty', 'union of a non-empty input reports is_empty', i)
                if d['theta'] != th:
                    fail('union_theta', 'union theta %x, expected %x (min theta %x, %d candidate keys, k=%d)' % (d['theta'], th, thm, len(V), u['k']), i)
                else:
                    expect_entries(d, dict((kk, V[kk]) for kk in ks), i, 'union', 'union')
            if d['ordered'] != (1 if (op[3] != 0 or d['n'] <= 1) else 0):
                fail('ordered_flag', 'union get_result(ordered=%d) with %d entries reports is_ordered=%d' % (op[3], d['n'], d['ordered']), i)
            obs[op[2]] = d
            continue
        if code == 16:
            if not refused:
                inters[op[1]] = dict(pol=op[2], valid=False, empty=False, theta=MAX_THETA, ents={}, known=True)
                obs.pop(op[1], None); ghost.pop(op[1], None)
            continue
        if code == 17:
            st = inters.get(op[1])
            if st is None or refused: continue
            src = obs.get(op[2])
            if op[3]: obs.pop(op[2], None); ghost.pop(op[2], None)
            if src is None:
                st['known'] = False; continue
            if not st['empty']:
                pol = st['pol']
                if src['empty']:
                    st['empty'] = True; st['theta'] = MAX_THETA; st['ents'] = {}
                else:
                    st['theta'] = min(st['theta'], src['theta'])
                    if not st['valid']:
                        st['ents'] = dict((kk, list(s)) for kk, s in src['ents'].items())
                    else:
                        # (no latching of "no matches in exact mode": later inputs still lower theta — the Theta intersection after
                        #  fixes/02_intersection_empty_order.patch)
                        st['ents'] = dict((kk, comb(pol, SEP_I, s, src['ents'][kk])) for kk, s in st['ents'].items()
                                          if kk in src['ents'] and kk < st['theta'])
                st['valid'] = True
            if len(R) == 2 and R[1] != 1:
                fail('inter_has_result', 'has_result() is false after an update', i)
            continue
        if code == 18:
            st = inters.get(op[1])
            if refused:
                if st is not None and st['valid'] and st['known']:
                    fail('inter_refused', 'get_result refused although the intersection was updated', i)
                continue
            d = parse_dump(R)
            if d is None or not check_dump(d, i, 'intersection result'): continue
            ghost.pop(op[2], None)
            if st is None or not st['known']:
                obs.pop(op[2], None); continue
            d['pol'] = st['pol']
            if not st['valid']:
                fail('inter_undefined', 'get_result returned a sketch before any update', i)
            else:
                exp_empty = 1 if (st['empty'] or (not st['ents'] and st['theta'] == MAX_THETA)) else 0
                if d['empty'] != exp_empty:
                    fail('inter_empty', 'intersection is_empty=%d, expected %d' % (d['empty'], exp_empty), i)
                if d['theta'] != st['theta']:
                    fail('inter_theta', 'intersection theta %x, expected the minimum %x' % (d['theta'], st['theta']), i)
                else:
                    expect_entries(d, st['ents'], i, 'inter', 'intersection')
            if d['ordered'] != (1 if (op[3] != 0 or d['n'] <= 1) else 0):
                fail('ordered_flag', 'intersection get_result(ordered=%d) with %d entries reports is_ordered=%d' % (op[3], d['n'], d['ordered']), i)
            obs[op[2]] = d
            continue
        if code == 19:
            a = obs.get(op[1]); b = obs.get(op[2])
            if op[6] and not refused: obs.pop(op[1], None); ghost.pop(op[1], None)
            if refused: continue
            d = parse_dump(R)
            if d is None or not check_dump(d, i, 'a-not-b result'): continue
            ghost.pop(op[3], None)
            if a is None or b is None:
                obs.pop(op[3], None); continue
            d['pol'] = a['pol']
            if a['empty']:
                same_content(d, a, i, 'anotb_empty_a', 'A-not-B with empty A')
            else:
                # the early return "A has entries and B is empty" yields A itself (B's theta is not looked at)
                th = a['theta'] if (b['empty'] and a['n'] > 0) else min(a['theta'], b['theta'])
                exp = dict((kk, s) for kk, s in a['ents'].items() if kk < th and kk not in b['ents'])
                if d['theta'] != th:
                    fail('anotb_theta', 'A-not-B theta %x, expected min(%x, %x)' % (d['theta'], a['theta'], b['theta']), i)
                else:
                    expect_entries(d, exp, i, 'anotb', 'A-not-B')
                if d['empty'] != (1 if (not exp and th == MAX_THETA) else 0):
                    fail('anotb_empty', 'A-not-B is_empty=%d with %d entries, theta %x' % (d['empty'], len(exp), th), i)
            if d['ordered'] != (1 if (a['ordered'] or op[4] != 0 or d['n'] <= 1) else 0):
                fail('ordered_flag', 'A-not-B(ordered=%d) of A with is_ordered=%d reports is_ordered=%d' % (op[4], a['ordered'], d['ordered']), i)
            obs[op[3]] = d
            continue
    return fails

FAMILIES = [dict(name='tuple', harness='drv_tuple.cpp', extract='Extract_tuple.v', model='model_tuple', gen=gen, oracle=oracle)]

MANIFEST = dict(
    level_text=('Theorems (coq/Properties_C13.v, axiom-free) about the executable model coq/TupleDefs.v (the Theta table of property C01 carrying a summary per key, '
                'driven by the tuple update policy; compact forms, filter, union on that table, intersection, A-not-B as coded in theta_*_base_impl.hpp), for an '
                'ARBITRARY summary type, update type and policies create/update/combine (no algebraic law), arbitrary 64-bit hashes (any hash function, any key '
                'repetition), ANY nth_element meeting its postcondition, any lg_k >= 5 / resize factor / starting theta, EVERY history of update/trim/reset: '
                '(1) the tuple sketch has the same lg_cur_size, theta, is_empty, num_retained and the same set of keys as a Theta sketch with the same '
                'configuration fed the same keys (with its own nth_element), and these keys are exactly the distinct non-zero hashes offered below theta, each once; '
                '(2) the summary of every retained key is the update policy folded over every value offered with that key since the last reset, in arrival '
                'order, starting from create() — across resize, rebuild, trim and compact (general form: any payload functions, composed in arrival order); '
                '(3) for any list of well-formed inputs in any form (ordered or not, early stops) and any presentation order: every key of a union result is '
                'held by a non-empty input and its summary is the first holder\'s summary combined by the policy with the later holders\', in presentation '
                'order, each exactly once (whatever the union table resized/rebuilt; the union itself is proved identical to the C02 union model at payload '
                'type S, so the C02 key theorems apply verbatim); every key of an intersection is held by every input and its summary is the fold of the policy '
                'over the inputs\' summaries starting from the first (the combined summary is kept at each stage); A-not-B returns exactly A\'s (key, summary) '
                'pairs below min(theta_A, theta_B) whose key B does not hold, by either code path (summaries untouched), and A itself on the early returns; '
                'filter keeps precisely the entries whose summary satisfies the predicate, keeps theta, and is empty iff nothing is left outside estimation mode; '
                'one intersection step selects exactly the keys held by both sides below theta (early stop loses nothing); a compact tuple sketch built from a '
                'Theta sketch has exactly its keys, each with the given summary; the results of filter / union / intersection / A-not-B are well-formed again, '
                'so the theorems cover arbitrary sequences of set operations; '
                '(4) array-of-doubles = the column-wise instance (every column of an updated / combined summary is the column sum). '
                'The model is tied to tuple_sketch_impl.hpp, tuple_union/intersection/a_not_b.hpp, array_tuple_*.hpp and theta_*_base_impl.hpp by running both on the '
                'same generated scripts with an instrumented non-commutative "log" summary (records create mark, every value, every combine with its operand; '
                'moved-from summaries poisoned; move-only update values), with an arithmetic summary under the default policies and with array_of_doubles: after every sketch-valued operation theta64, is_empty, is_ordered '
                'and the sorted (key, summary) pairs are compared exactly, and the property predicates (per-key fold against the hashes the model computed; set '
                'operations against the set-algebra spec evaluated on the dumps of the operands) are evaluated on the implementation\'s outputs.'),
    level_note=('Trusted: Coq kernel; hand-written model validated only by the correspondence runs; Murmur3.v / Canon.v (validated by the same runs); nth_element by '
                'postcondition. Proved for all inputs: items (1)-(4) above about the model. Only compared by the correspondence runs (not proved): theta / emptiness / '
                'order-flag rules of intersection and A-not-B results beyond what is stated, the is_ordered flags, seed-hash refusals, rvalue (moved) operands behaving '
                'like lvalue ones, the array-of-doubles C++ types (double arithmetic on small integers). '
                'Which KEYS union / intersection / A-not-B select is property C02 (the union bridge theorem links the two models; for intersection and A-not-B the C13 '
                'theorems characterise membership directly). Not claimed: serialization (C09), estimates and bounds (C06), jaccard similarity, corrupted input sketches, '
                'allocator/value semantics (C19).'),
    design_ref='DESIGN.md section 5 C13')
